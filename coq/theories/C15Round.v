(* C15 — the general round trip of a response with one part: every registered status, any well-formed header list, any body bytes *)
From Coq Require Import Arith.
From Rws Require Import Str Utf8 Num Fs UrlParse RangeSpec Request GenMime Mime StaticRes GenConsts Forms Server RespParse
     RespDomain Unicase UnicaseLemmas StrLemmas TrimLemmas Utf8Lemmas RequestProofs C05Proof Json JsonArray JsonRt C19Lemmas.
Open Scope N_scope.

(* ---------- finite facts about the regenerated tables ---------- *)
Lemma versions_plain : forallb (fun v => negb (existsb (N.eqb 32) v) && clean_b v && is_ascii v && beqs (uupper v) v) version_list = true.
Proof. vm_compute. reflexivity. Qed.
Lemma reasons_plain : forallb (fun p => clean_b (snd p) && is_ascii (snd p) && N.ltb (fst p) (2 ^ 15)) status_table = true.
Proof. vm_compute. reflexivity. Qed.

Lemma clean_b_spec s : clean_b s = true -> ~ In 10 s /\ ~ In 13 s.
Proof.
  unfold clean_b. intro H. apply andb_prop in H as [H1 H2]. apply negb_true_iff in H1, H2.
  split; intro Hi; [assert (existsb (N.eqb 10) s = true)|assert (existsb (N.eqb 13) s = true)]; try congruence; apply existsb_exists; eexists; split; eauto; apply N.eqb_refl.
Qed.

(* ---------- the status line ---------- *)
Lemma mem_in v l : mem v l = true -> In v l.
Proof. unfold mem. intro H. apply existsb_exists in H as (x & Hx & E). apply beqs_eq in E. subst. exact Hx. Qed.
Definition status_text (v : list N) (c : N) (rsn : list N) : list N := v ++ [32] ++ show_N c ++ [32] ++ rsn.
Lemma digits_no x d : forallb is_digit d = true -> (x < 48 \/ 57 < x) -> ~ In x d.
Proof. intros H Hx Hi. pose proof (proj1 (forallb_forall _ _) H x Hi) as G. unfold is_digit in G. apply andb_prop in G as [G1 G2]. apply N.leb_le in G1, G2. lia. Qed.

Lemma status_line_facts v c rsn rest : resp_status_ok v c rsn = true ->
  let line := status_text v c rsn ++ CRLF in
  split_line (line ++ rest) = (line, rest) /\ utf8_valid line = true /\ parse_status_line line = Some (v, c, rsn) /\ beqs (trim line) [] = false.
Proof.
  unfold resp_status_ok. intro H. apply andb_prop in H as [Hv Hs].
  apply mem_in in Hv. pose proof (proj1 (forallb_forall _ _) versions_plain v Hv) as Fv. cbv beta in Fv.
  repeat (apply andb_prop in Fv as [Fv ?]).
  match goal with H1 : beqs (uupper v) v = true |- _ => apply beqs_eq in H1; rename H1 into Hup end.
  match goal with H1 : is_ascii v = true |- _ => rename H1 into Hva end.
  match goal with H1 : clean_b v = true |- _ => apply clean_b_spec in H1 as [Hv10 Hv13] end.
  apply negb_true_iff in Fv. assert (Hv32 : ~ In 32 v).
  { intro Hi. assert (existsb (N.eqb 32) v = true); [|congruence]. apply existsb_exists. exists 32. split; [assumption|reflexivity]. }
  destruct (find (fun p => N.eqb (fst p) c) status_table) as [p|] eqn:Ef; [|discriminate]. apply andb_prop in Hs as [Hc Hr]. apply N.eqb_eq in Hc. apply beqs_eq in Hr.
  pose proof (find_some _ _ Ef) as [Hin _]. pose proof (proj1 (forallb_forall _ _) reasons_plain p Hin) as Fp. cbv beta in Fp.
  apply andb_prop in Fp as [Fp Hc15]. apply andb_prop in Fp as [Hrc Hra]. rewrite Hr in Hrc, Hra. rewrite Hc in Hc15. apply N.ltb_lt in Hc15.
  apply clean_b_spec in Hrc as [Hr10 Hr13].
  pose proof (show_N_digits c) as Hd.
  assert (Hclean : ~ In 10 (status_text v c rsn) /\ ~ In 13 (status_text v c rsn)).
  { unfold status_text. split; intro Hi; repeat (apply in_app_or in Hi as [Hi|Hi]); try contradiction;
      try (cbn in Hi; destruct Hi as [Hi|[]]; discriminate); try (revert Hi; apply digits_no; [exact Hd|lia]). }
  destruct Hclean as [C10 C13]. cbv zeta. repeat split.
  - unfold CRLF. replace ((status_text v c rsn ++ [13; 10]) ++ rest) with ((status_text v c rsn ++ [13]) ++ 10 :: rest) by (rewrite <- !app_assoc; reflexivity).
    rewrite split_line_nolf; [rewrite <- app_assoc; reflexivity|]. intro Hi. apply in_app_or in Hi as [Hi|Hi]; [contradiction|]. cbn in Hi. destruct Hi as [Hi|[]]. discriminate.
  - apply ascii_utf8. unfold status_text, is_ascii in *. rewrite !forallb_app, Hva, Hra. cbn [forallb]. 
    assert (A : forallb (fun b => N.ltb b 128) (show_N c) = true).
    { apply forallb_forall. intros x Hx. pose proof (proj1 (forallb_forall _ _) Hd x Hx) as G. unfold is_digit in G. apply andb_prop in G as [_ G]. apply N.leb_le in G. apply N.ltb_lt. lia. }
    rewrite A. reflexivity.
  - unfold parse_status_line. rewrite truncate_clean_crlf by assumption. unfold status_text.
    change (v ++ [32] ++ show_N c ++ [32] ++ rsn) with (v ++ 32 :: (show_N c ++ [32] ++ rsn)). rewrite split_once_1 by exact Hv32.
    rewrite Hup. assert (Hm : mem v version_list = true) by (unfold mem; apply existsb_exists; exists v; split; [exact Hv|apply beqs_eq; reflexivity]). rewrite Hm. cbn [negb].
    change (show_N c ++ [32] ++ rsn) with (show_N c ++ 32 :: rsn). rewrite split_once_1 by (apply digits_no; [exact Hd|lia]).
    unfold parse_i16. pose proof (parse_signed_show (2 ^ 15) false c ltac:(vm_compute; reflexivity)) as G. unfold show_int in G. rewrite G by (unfold int_ok; apply N.ltb_lt; exact Hc15).
    rewrite Ef. rewrite Hr. rewrite (proj2 (beqs_eq _ _) eq_refl). reflexivity.
  - destruct (beqs (trim (status_text v c rsn ++ CRLF)) []) eqn:E; [|reflexivity]. apply beqs_eq in E. exfalso.
    assert (Hs : csolid (trim (status_text v c rsn ++ CRLF)) = 0%nat) by (rewrite E; reflexivity). rewrite csolid_trim in Hs.
    unfold status_text in Hs. rewrite !csolid_app in Hs.
    destruct (show_N_head c) as (d0 & dr & Ed & Hd0 & _). rewrite Ed in Hs. rewrite (csolid_cons d0 dr) in Hs.
    assert (Hsd : solid d0 = true). { unfold is_digit in Hd0. apply andb_prop in Hd0 as [G1 G2]. apply N.leb_le in G1, G2. unfold solid, ascii_ws. apply andb_true_intro; split; [apply N.ltb_lt; lia|]. apply negb_true_iff. apply orb_false_intro; [|apply N.eqb_neq; lia]. apply andb_false_iff. right. apply N.leb_gt. lia. }
    rewrite Hsd in Hs. lia.
Qed.

(* ---------- the header block ---------- *)
Lemma resp_header_parse h : wf_header h -> parse_resp_header (gen_header h) = Some h.
Proof.
  intros [Hc [Hn10 Hn13] [Hv10 Hv13] _ _ _]. unfold parse_resp_header, gen_header.
  rewrite split_once_colon by assumption. rewrite truncate_clean_crlf by assumption. destruct h; reflexivity.
Qed.
Lemma resp_headers_roundtrip : forall hs acc f body, Forall wf_header hs -> (length hs < f)%nat ->
  resp_headers f (flat_map gen_header hs ++ CRLF ++ body) acc = POk (acc ++ hs, body).
Proof.
  induction hs as [|h hs IH]; intros acc f body HF Hf.
  - destruct f as [|f]; [cbn in Hf; lia|]. cbn [flat_map app resp_headers]. change (split_line (CRLF ++ body)) with (CRLF, body). cbv iota.
    change (utf8_valid CRLF) with true. change (beqs (trim CRLF) []) with true. cbn [negb]. rewrite app_nil_r. reflexivity.
  - inversion HF as [|? ? Wh HF']; subst. destruct f as [|f]; [cbn in Hf; lia|].
    cbn [flat_map]. rewrite <- app_assoc. cbn [resp_headers]. rewrite header_line by exact Wh. rewrite header_utf8 by exact Wh. cbn [negb].
    assert (Hnb : beqs (trim (gen_header h)) [] = false).
    { destruct (beqs (trim (gen_header h)) []) eqn:E; [|reflexivity]. apply beqs_eq in E. exfalso. exact (header_nonblank h E). }
    rewrite Hnb, resp_header_parse by exact Wh.
    pose proof (wf_cl_ok h Wh) as Hcl. unfold cl_ok in Hcl. apply negb_true_iff in Hcl. change content_length_name with Hd_CONTENT_LENGTH in Hcl. rewrite Hcl.
    rewrite IH by (auto; cbn [length] in Hf; lia). rewrite <- app_assoc. reflexivity.
Qed.

Lemma user_header_wf h : user_header_ok h = true -> wf_header h /\ hname h <> Hd_CONTENT_TYPE /\ hname h <> Hd_CONTENT_RANGE /\ hname h <> Hd_CONTENT_LENGTH.
Proof.
  unfold user_header_ok. intro H. repeat (apply andb_prop in H as [H ?]).
  repeat match goal with H1 : negb (beqs _ _) = true |- _ => apply negb_true_iff in H1 end.
  assert (N1 : hname h <> Hd_CONTENT_LENGTH) by (intro E; rewrite E in *; discriminate).
  assert (N2 : hname h <> Hd_CONTENT_RANGE) by (intro E; rewrite E in *; discriminate).
  assert (N3 : hname h <> Hd_CONTENT_TYPE) by (intro E; rewrite E in *; discriminate).
  apply negb_true_iff in H.
  repeat match goal with H1 : clean_b _ = true |- _ => apply clean_b_spec in H1 end.
  split; [|auto]. constructor; try assumption.
  - intro Hi. assert (existsb (N.eqb 58) (hname h) = true); [|congruence]. apply existsb_exists. exists 58. split; [assumption|reflexivity].
  - intro E. exfalso. apply N1. exact E.
Qed.

(* ---------- the Content-Range value ---------- *)
Lemma show_pos'_eq : forall f n acc, show_pos' f n acc = show_pos_f f n acc.
Proof. induction f as [|f IH]; intros n acc; [reflexivity|]. cbn [show_pos' show_pos_f]. destruct (N.eqb n 0); [reflexivity|apply IH]. Qed.
Lemma show_signed_pos z : show_signed (false, z) = show_N z.
Proof. unfold show_signed, show_N. cbn [fst snd andb app]. destruct (N.eqb z 0); [reflexivity|apply show_pos'_eq]. Qed.
Lemma lower_digits d : forallb is_digit d = true -> lower d = d.
Proof.
  unfold lower. induction d as [|c d IH]; intro H; [reflexivity|]. cbn [forallb] in H. apply andb_prop in H as [Hc H]. cbn [map]. rewrite IH by exact H. f_equal.
  unfold is_digit in Hc. apply andb_prop in Hc as [H1 H2]. apply N.leb_le in H1, H2. unfold to_ascii_lower.
  replace (N.leb 65 c) with false by (symmetry; apply N.leb_gt; lia). reflexivity.
Qed.
Lemma digits_low d : forallb is_digit d = true -> forallb (fun b => N.ltb b 128) d = true.
Proof.
  intro H. apply forallb_forall. intros x Hx. pose proof (proj1 (forallb_forall _ _) H x Hx) as G. unfold is_digit in G. apply andb_prop in G as [_ G]. apply N.leb_le in G. apply N.ltb_lt. lia.
Qed.
Lemma parse_i64_show z : z < 2 ^ 63 -> parse_i64 (show_N z) = Some (false, z).
Proof. intro H. unfold parse_i64. pose proof (parse_signed_show (2 ^ 63) false z ltac:(vm_compute; reflexivity)) as G. unfold show_int in G. apply G. unfold int_ok. apply N.ltb_lt. exact H. Qed.

Lemma cr_value_parse st en z : st <= en -> en <= z -> z < 2 ^ 63 ->
  parse_cr_value (Rg_BYTES ++ [32] ++ show_N st ++ [45] ++ show_N en ++ [47] ++ show_N z) = Some ((false, st), (false, en), (false, z)).
Proof.
  intros H1 H2 H3. unfold parse_cr_value.
  pose proof (show_N_digits st) as D1. pose proof (show_N_digits en) as D2. pose proof (show_N_digits z) as D3.
  destruct (show_N_head z) as (z0 & zr & Ez & Hz0 & Hzr).
  assert (Hzl : exists zb y, show_N z = zb ++ [y] /\ solid y = true).
  { destruct (exists_last (l := show_N z) (show_N_nonempty z)) as (zb & y & E). exists zb, y. split; [exact E|].
    rewrite E in D3. rewrite forallb_app in D3. apply andb_prop in D3 as [_ D3]. cbn [forallb] in D3. rewrite andb_true_r in D3.
    unfold is_digit in D3. apply andb_prop in D3 as [G1 G2]. apply N.leb_le in G1, G2. unfold solid, ascii_ws. apply andb_true_intro; split; [apply N.ltb_lt; lia|].
    apply negb_true_iff. apply orb_false_intro; [|apply N.eqb_neq; lia]. apply andb_false_iff. right. apply N.leb_gt. lia. }
  destruct Hzl as (zb & y & Ezl & Hy).
  assert (Et : trim (Rg_BYTES ++ [32] ++ show_N st ++ [45] ++ show_N en ++ [47] ++ show_N z) = Rg_BYTES ++ [32] ++ show_N st ++ [45] ++ show_N en ++ [47] ++ show_N z).
  { rewrite Ezl. change (Rg_BYTES ++ [32] ++ show_N st ++ [45] ++ show_N en ++ [47] ++ zb ++ [y]) with (98 :: ([121;116;101;115] ++ [32] ++ show_N st ++ [45] ++ show_N en ++ [47] ++ zb ++ [y])).
    replace ([121;116;101;115] ++ [32] ++ show_N st ++ [45] ++ show_N en ++ [47] ++ zb ++ [y]) with (([121;116;101;115] ++ [32] ++ show_N st ++ [45] ++ show_N en ++ [47] ++ zb) ++ [y]) by (rewrite <- !app_assoc; reflexivity).
    apply trim_solid_both; [reflexivity|exact Hy]. }
  rewrite Et.
  assert (Ea : is_ascii (Rg_BYTES ++ [32] ++ show_N st ++ [45] ++ show_N en ++ [47] ++ show_N z) = true).
  { unfold is_ascii. rewrite !forallb_app, (digits_low _ D1), (digits_low _ D2), (digits_low _ D3). reflexivity. }
  rewrite (ulower_ascii _ Ea).
  assert (El : lower (Rg_BYTES ++ [32] ++ show_N st ++ [45] ++ show_N en ++ [47] ++ show_N z) = Rg_BYTES ++ [32] ++ show_N st ++ [45] ++ show_N en ++ [47] ++ show_N z).
  { pose proof (lower_digits _ D1) as L1. pose proof (lower_digits _ D2) as L2. pose proof (lower_digits _ D3) as L3. unfold lower in *.
    rewrite !map_app, L1, L2, L3. reflexivity. }
  rewrite El.
  change (Rg_BYTES ++ [32] ++ show_N st ++ [45] ++ show_N en ++ [47] ++ show_N z) with (Rg_BYTES ++ 32 :: (show_N st ++ [45] ++ show_N en ++ [47] ++ show_N z)).
  rewrite split_once_1 by (intro Hi; cbn in Hi; repeat destruct Hi as [Hi|Hi]; try discriminate; contradiction).
  rewrite (proj2 (beqs_eq _ _) eq_refl). cbn [negb].
  change (show_N st ++ [45] ++ show_N en ++ [47] ++ show_N z) with (show_N st ++ 45 :: (show_N en ++ [47] ++ show_N z)).
  rewrite split_once_1 by (apply digits_no; [exact D1|lia]). rewrite parse_i64_show by lia.
  change (show_N en ++ [47] ++ show_N z) with (show_N en ++ 47 :: show_N z).
  rewrite split_once_1 by (apply digits_no; [exact D2|lia]). rewrite !parse_i64_show by lia.
  unfold signed_le. apply N.leb_le in H1, H2. assert (H4 : N.leb st z = true) by (apply N.leb_le; apply N.leb_le in H1, H2; lia). rewrite H1, H2, H4. reflexivity.
Qed.

(* ---------- the whole response ---------- *)
Lemma find_skip (X : list N) hs l : Forall (fun h => hname h <> X) hs ->
  find (fun h => beqs (hname h) X) (hs ++ l) = find (fun h => beqs (hname h) X) l.
Proof.
  induction hs as [|h hs IH]; intro H; [reflexivity|]. inversion H as [|? ? Hh H']; subst. cbn [app find].
  destruct (beqs (hname h) X) eqn:E; [apply beqs_eq in E; contradiction|]. apply IH, H'.
Qed.
Lemma digits_clean d : forallb is_digit d = true -> clean d /\ utf8_valid d = true /\ ~ In 58 d.
Proof.
  intro H. repeat split; try (apply digits_no; [exact H|lia]).
  apply ascii_utf8. unfold is_ascii. apply forallb_forall. intros x Hx. pose proof (proj1 (forallb_forall _ _) H x Hx) as G. unfold is_digit in G. apply andb_prop in G as [_ G]. apply N.leb_le in G. apply N.ltb_lt. lia.
Qed.
Lemma app_clean a b : clean a -> clean b -> clean (a ++ b).
Proof. intros [A1 A2] [B1 B2]. split; intro Hi; apply in_app_or in Hi as [Hi|Hi]; contradiction. Qed.
Lemma parse_usize_show n : n < 2 ^ 64 -> parse_usize (show_N n) <> None.
Proof.
  intro H. unfold parse_usize, parse_unsigned. destruct (show_N_head n) as (c & r & E & Hc & Hr). destruct (digit_not_sign c Hc) as [_ H43].
  assert (Hlt : n < 10 ^ 80). { assert (2 ^ 64 < 10 ^ 80) by (vm_compute; reflexivity). lia. }
  pose proof (show_N_parses n Hlt) as Hp. rewrite E in *.
  assert (Hbody : match c :: r with 43 :: r0 => r0 | _ => c :: r end = c :: r).
  { destruct c as [|p]; [reflexivity|]. do 6 (try destruct p as [p|p|]); try reflexivity. contradiction. }
  rewrite Hbody, Hp. apply N.ltb_lt in H. rewrite H. discriminate.
Qed.

Definition the_part (st en z : N) (body ty : list N) : N * N * list N * list N * list N := (st, en, show_N z, body, ty).
Lemma const_name_wf (n : list N) : (n = Hd_CONTENT_TYPE \/ n = Hd_CONTENT_RANGE \/ n = Hd_CONTENT_LENGTH) -> ~ In 58 n /\ clean n /\ utf8_valid n = true.
Proof.
  intros [-> | [-> | ->]]; (split; [intro Hi; cbn in Hi; repeat destruct Hi as [Hi|Hi]; try discriminate; contradiction|]);
    (split; [split; intro Hi; cbn in Hi; repeat destruct Hi as [Hi|Hi]; try discriminate; contradiction|reflexivity]).
Qed.
Lemma mk_wf n v : ~ In 58 n -> clean n -> utf8_valid n = true -> clean v -> utf8_valid v = true -> (n = content_length_name -> parse_usize v <> None) -> wf_header (mkH n v).
Proof. intros. constructor; cbn [hname hvalue]; assumption. Qed.
Lemma derived_wf inst st en z body ty : type_ok ty = true -> N.of_nat (length body) < 2 ^ 64 ->
  Forall wf_header (lib_derived inst [the_part st en z body ty]).
Proof.
  intros Ht Hl. unfold type_ok in Ht. apply andb_prop in Ht as [Ht _]. apply andb_prop in Ht as [Hc Hu]. apply clean_b_spec in Hc.
  destruct (const_name_wf Hd_CONTENT_TYPE ltac:(auto)) as (A1 & A2 & A3).
  destruct (const_name_wf Hd_CONTENT_RANGE ltac:(auto)) as (B1 & B2 & B3).
  destruct (const_name_wf Hd_CONTENT_LENGTH ltac:(auto)) as (C1 & C2 & C3).
  assert (Wct : wf_header (mkH Hd_CONTENT_TYPE ty)) by (apply mk_wf; auto; intro E; discriminate).
  assert (Wcr : wf_header (mkH Hd_CONTENT_RANGE (cr_text (the_part st en z body ty)))).
  { unfold cr_text, the_part, pr_start, pr_end, pr_size. cbn [fst snd].
    destruct (digits_clean _ (show_N_digits st)) as (D1 & U1 & _). destruct (digits_clean _ (show_N_digits en)) as (D2 & U2 & _). destruct (digits_clean _ (show_N_digits z)) as (D3 & U3 & _).
    assert (Cc : forall k : list N, (k = Rg_BYTES \/ k = [32] \/ k = [45] \/ k = [47]) -> clean k).
    { intros k [-> | [-> | [-> | ->]]]; split; intro Hi; cbn in Hi; repeat destruct Hi as [Hi|Hi]; try discriminate; contradiction. }
    apply mk_wf; auto.
    - repeat apply app_clean; try assumption; apply Cc; auto.
    - rewrite (utf8_app_ascii Rg_BYTES) by reflexivity. rewrite (utf8_app_ascii [32]) by reflexivity. rewrite utf8_valid_app by exact U1.
      rewrite (utf8_app_ascii [45]) by reflexivity. rewrite utf8_valid_app by exact U2. rewrite (utf8_app_ascii [47]) by reflexivity. exact U3.
    - intro E. discriminate. }
  assert (Wcl : wf_header (mkH Hd_CONTENT_LENGTH (show_N (N.of_nat (length body))))).
  { destruct (digits_clean _ (show_N_digits (N.of_nat (length body)))) as (D1 & U1 & _). apply mk_wf; auto. intros _. apply parse_usize_show, Hl. }
  unfold lib_derived, the_part, pr_type, pr_body. cbn [fst snd]. destruct inst; cbn [app]; repeat (apply Forall_cons; [assumption|]); apply Forall_nil.
Qed.

Lemma gen_headers_length (l : list header) : (length l <= length (flat_map gen_header l))%nat.
Proof. induction l as [|h l IH]; [cbn; lia|]. cbn [flat_map length]. rewrite app_length. unfold gen_header at 1. rewrite !app_length. cbn [length CRLF COLON_SP]. lia. Qed.

(* every response with a registered status and its phrase, any well-formed user headers and one part (any body bytes, start <= end <= size):
   written with either serialiser and parsed back.  The associated function returns it whole; the instance method loses the content type (C15-F2). *)
Theorem single_part_round_trip inst v c rsn hs st en z body ty :
  resp_status_ok v c rsn = true -> forallb user_header_ok hs = true -> type_ok ty = true ->
  st <= en -> en <= z -> z < 2 ^ 63 -> N.of_nat (length body) < 2 ^ 64 ->
  let p := the_part st en z body ty in
  response_parse (lib_generate inst (mkPresp v c rsn hs [p])) =
  POk (mkPresp v c rsn (hs ++ lib_derived inst [p]) [(st, en, show_N z, body, if inst then OCTET else ty)]).
Proof.
  intros Hs Hh Ht H1 H2 H3 Hl p.
  assert (Hu : Forall (fun h => wf_header h /\ hname h <> Hd_CONTENT_TYPE /\ hname h <> Hd_CONTENT_RANGE /\ hname h <> Hd_CONTENT_LENGTH) hs).
  { apply Forall_forall. intros h Hi. apply user_header_wf. exact (proj1 (forallb_forall _ _) Hh h Hi). }
  assert (Hw : Forall wf_header (hs ++ lib_derived inst [p])).
  { apply Forall_app. split; [eapply Forall_impl; [|exact Hu]; intros h G; apply G|apply derived_wf; assumption]. }
  unfold lib_generate. cbn [pr_version pr_status pr_reason pr_headers pr_ranges lib_body pr_body].
  destruct (status_line_facts v c rsn (flat_map gen_header (hs ++ lib_derived inst [p]) ++ CRLF ++ body) Hs) as (S1 & S2 & S3 & S4). cbv zeta in *.
  unfold response_parse.
  replace (v ++ [32] ++ show_N c ++ [32] ++ rsn ++ CRLF ++ flat_map gen_header (hs ++ lib_derived inst [p]) ++ CRLF ++ pr_body p)
    with ((status_text v c rsn ++ CRLF) ++ flat_map gen_header (hs ++ lib_derived inst [p]) ++ CRLF ++ body)
    by (unfold status_text, p, the_part, pr_body; cbn [fst snd]; rewrite <- !app_assoc; reflexivity).
  rewrite S1, S2, S3, S4. cbn [negb].
  rewrite resp_headers_roundtrip by (auto; pose proof (gen_headers_length (hs ++ lib_derived inst [p])); rewrite !app_length in *; lia). cbn [app].
  assert (Nct : Forall (fun h => hname h <> CT_NAME) hs) by (eapply Forall_impl; [|exact Hu]; intros h G; apply G).
  assert (Ncr : Forall (fun h => hname h <> CR_NAME) hs) by (eapply Forall_impl; [|exact Hu]; intros h G; apply G).
  rewrite (find_skip CT_NAME hs _ Nct).
  assert (Ecr : parse_cr_value (cr_text p) = Some ((false, st), (false, en), (false, z))).
  { unfold cr_text, p, the_part, pr_start, pr_end, pr_size. cbn [fst snd]. apply cr_value_parse; assumption. }
  unfold type_ok in Ht. apply andb_prop in Ht as [_ Hm]. apply negb_true_iff in Hm.
  destruct inst; unfold lib_derived; cbn [app find hname hvalue].
  - (* the instance method writes no Content-Type *)
    change (beqs Hd_CONTENT_RANGE CT_NAME) with false. change (beqs Hd_CONTENT_LENGTH CT_NAME) with false. cbv iota.
    unfold single_part. rewrite (find_skip CR_NAME hs _ Ncr). cbn [find hname hvalue]. change (beqs Hd_CONTENT_RANGE CR_NAME) with true. cbv iota.
    cbn [hvalue]. rewrite Ecr. unfold to_u64. cbn [fst snd]. rewrite show_signed_pos. reflexivity.
  - change (beqs Hd_CONTENT_TYPE CT_NAME) with true. cbv iota. cbn [hvalue]. change (pr_type p) with ty. rewrite Hm.
    unfold single_part. rewrite (find_skip CR_NAME hs _ Ncr). cbn [find hname hvalue]. change (beqs Hd_CONTENT_TYPE CR_NAME) with false. change (beqs Hd_CONTENT_RANGE CR_NAME) with true. cbv iota.
    fold p. cbn [hvalue]. rewrite Ecr. unfold to_u64. cbn [fst snd]. rewrite show_signed_pos. reflexivity.
Qed.

(* the same, over the decidable domain predicate the model runner evaluates on every generated case *)
Theorem single_ok_round_trip inst r : single_ok r = true ->
  match pr_ranges r with
  | [p] => response_parse (lib_generate inst r) =
           POk (mkPresp (pr_version r) (pr_status r) (pr_reason r) (pr_headers r ++ lib_derived inst [p])
                        [(pr_start p, pr_end p, pr_size p, pr_body p, if inst then OCTET else pr_type p)])
  | _ => False
  end.
Proof.
  unfold single_ok. intro H. apply andb_prop in H as [H Hp]. apply andb_prop in H as [Hs Hh].
  destruct r as [v c rsn hs rs]. cbn [pr_version pr_status pr_reason pr_headers pr_ranges] in *.
  destruct rs as [|p [|q rs]]; try discriminate.
  destruct p as [[[[st en] sz] body] ty]. unfold pr_type, pr_body, pr_size, pr_start, pr_end in *. cbn [fst snd] in *.
  apply andb_prop in Hp as [Hp Hz]. apply andb_prop in Hp as [Ht Hl].
  destruct (digits_val 0 sz) as [z|] eqn:Ed; [|discriminate].
  apply andb_prop in Hz as [Hz H3]. apply andb_prop in Hz as [Hz H2]. apply andb_prop in Hz as [Esz H1].
  apply beqs_eq in Esz. apply N.leb_le in H1, H2. apply N.ltb_lt in H3, Hl. subst sz.
  exact (single_part_round_trip inst v c rsn hs st en z body ty Hs Hh Ht H1 H2 H3 Hl).
Qed.
