(* C19 — building blocks of the JSON round-trip proofs: the readers of the object scanner on the text the writer produces *)
From Coq Require Import Arith.
From Rws Require Import Str Utf8 Num RespParse Json JsonArray Server JsonRt StrLemmas TrimLemmas Utf8Lemmas C05Proof.
Open Scope N_scope.

(* ---------- read_until ---------- *)
Lemma read_until_found d a r : ~ In d a -> read_until d (a ++ d :: r) = (a ++ [d], r).
Proof.
  induction a as [|c a IH]; intro Hn.
  - cbn [app read_until]. rewrite N.eqb_refl. reflexivity.
  - cbn [app read_until]. destruct (N.eqb_spec c d) as [->|Hcd]; [exfalso; apply Hn; left; reflexivity|].
    rewrite IH by (intro Hi; apply Hn; right; exact Hi). reflexivity.
Qed.
Lemma read_until_absent d a : ~ In d a -> read_until d a = (a, []).
Proof.
  induction a as [|c a IH]; intro Hn; [reflexivity|].
  cbn [read_until]. destruct (N.eqb_spec c d) as [->|Hcd]; [exfalso; apply Hn; left; reflexivity|].
  rewrite IH by (intro Hi; apply Hn; right; exact Hi). reflexivity.
Qed.

(* ---------- decimal texts ---------- *)
Lemma show_pos_f_digits : forall f n acc, forallb is_digit acc = true -> forallb is_digit (show_pos_f f n acc) = true.
Proof.
  induction f as [|f IH]; intros n acc Ha; [exact Ha|].
  cbn [show_pos_f]. destruct (N.eqb n 0); [exact Ha|]. apply IH. cbn [forallb]. rewrite Ha, andb_true_r.
  pose proof (N.mod_lt n 10 ltac:(lia)) as Hm. remember (n mod 10) as d. unfold is_digit. apply andb_true_intro; split; apply N.leb_le; lia.
Qed.
Lemma show_pos_f_length : forall f n acc, (length acc <= length (show_pos_f f n acc))%nat.
Proof.
  induction f as [|f IH]; intros n acc; [cbn; lia|]. cbn [show_pos_f]. destruct (N.eqb n 0); [lia|].
  specialize (IH (n / 10) ((48 + n mod 10) :: acc)). cbn [length] in IH. lia.
Qed.
Lemma show_N_digits n : forallb is_digit (show_N n) = true.
Proof. unfold show_N. destruct (N.eqb n 0); [reflexivity|]. apply show_pos_f_digits. reflexivity. Qed.
Lemma show_pos_f_S f n acc : show_pos_f (S f) n acc = if N.eqb n 0 then acc else show_pos_f f (n / 10) ((48 + n mod 10) :: acc).
Proof. reflexivity. Qed.
Lemma show_N_nonempty n : show_N n <> [].
Proof.
  unfold show_N. destruct (N.eqb_spec n 0) as [->|Hz]; [discriminate|].
  change 80%nat with (S 79). rewrite show_pos_f_S. destruct (N.eqb_spec n 0) as [E|_]; [contradiction|].
  pose proof (show_pos_f_length 79 (n / 10) [48 + n mod 10]) as H. intro E. rewrite E in H. cbn [length] in H. lia.
Qed.
Lemma show_N_head n : exists c r, show_N n = c :: r /\ is_digit c = true /\ forallb is_digit r = true.
Proof.
  pose proof (show_N_digits n) as Hd. pose proof (show_N_nonempty n) as Hn.
  destruct (show_N n) as [|c r]; [contradiction|]. cbn [forallb] in Hd. apply andb_prop in Hd as [Hc Hr]. eauto.
Qed.

Lemma digit_not_sign c : is_digit c = true -> c <> 45 /\ c <> 43.
Proof. unfold is_digit. intro H. apply andb_prop in H as [H1 H2]. apply N.leb_le in H1. lia. Qed.

Theorem parse_signed_show bound ng m : bound < 10 ^ 39 -> int_ok bound ng m = true -> parse_signed bound (show_int ng m) = Some (ng, m).
Proof.
  intros Hb Hok. unfold int_ok in Hok. unfold parse_signed, show_int.
  destruct (show_N_head m) as (c & r & E & Hc & Hr). destruct (digit_not_sign c Hc) as [H45 H43].
  assert (Hm : m < 10 ^ 80).
  { assert (10 ^ 39 < 10 ^ 80) by (apply N.pow_lt_mono_r; lia).
    destruct ng; [apply andb_prop in Hok as [Hok _]; apply N.leb_le in Hok|apply N.ltb_lt in Hok]; lia. }
  pose proof (show_N_parses m Hm) as Hp.
  destruct ng.
  - rewrite E in *. rewrite Hp. apply andb_prop in Hok as [Hok Hnz]. rewrite Hok. apply negb_true_iff in Hnz. rewrite Hnz. reflexivity.
  - rewrite E in *.
    destruct (N.eqb_spec c 45) as [->|_]; [contradiction|]. destruct (N.eqb_spec c 43) as [->|_]; [contradiction|].
    destruct c as [|p]; [|do 6 (try destruct p as [p|p|])]; try contradiction; cbv iota; rewrite Hp, Hok; reflexivity.
Qed.

(* ---------- character classes ---------- *)
Lemma str_char_facts c : str_char_ok c = true -> N.leb 128 c = false /\ N.eqb c 34 = false /\ c <> 92 /\ c <> 34 /\ 32 <= c < 127.
Proof.
  unfold str_char_ok. intro H. repeat (apply andb_prop in H as [H ?]).
  apply N.leb_le in H. match goal with H1 : (c <? 127) = true |- _ => apply N.ltb_lt in H1 end.
  repeat match goal with H1 : negb (N.eqb _ _) = true |- _ => apply negb_true_iff, N.eqb_neq in H1 end.
  repeat split; try lia; [apply N.leb_gt; lia | apply N.eqb_neq; assumption].
Qed.
Lemma num_char_facts c : num_char c = true ->
  N.leb 128 c = false /\ (N.eqb c 13 || N.eqb c 10 || N.eqb c 32) = false /\ N.eqb c 44 = false /\ N.eqb c 125 = false /\ solid c = true.
Proof.
  unfold num_char, is_ascii_digit, solid, ascii_ws. intro H.
  assert (Hc : (48 <= c <= 57) \/ c = 46 \/ c = 101 \/ c = 45).
  { repeat (apply orb_prop in H as [H|H]); [|apply N.eqb_eq in H; auto..]. apply andb_prop in H as [H1 H2]. apply N.leb_le in H1, H2. auto. }
  repeat split.
  - apply N.leb_gt. lia.
  - repeat (apply orb_false_intro); apply N.eqb_neq; lia.
  - apply N.eqb_neq; lia.
  - apply N.eqb_neq; lia.
  - apply andb_true_intro; split; [apply N.ltb_lt; lia|]. apply negb_true_iff. apply orb_false_intro; [|apply N.eqb_neq; lia].
    apply andb_false_iff. destruct (N.leb_spec 9 c); [right; apply N.leb_gt; lia|left; reflexivity].
Qed.

(* ---------- the scanner's readers on written text ---------- *)
Lemma skip_ws_sp c r : N.leb 128 c = false -> is_ws_ctl c = false -> skip_ws (32 :: c :: r) = JOk (c, r).
Proof. intros H1 H2. cbn [skip_ws]. change (N.leb 128 32) with false. change (is_ws_ctl 32) with true. cbv iota. rewrite H1, H2. reflexivity. Qed.

Lemma read_string_ok s : forall last acc rest, str_ok s = true -> last <> 92 ->
  read_string (s ++ 34 :: rest) last acc = JOk (acc ++ s ++ [34], rest).
Proof.
  induction s as [|c s IH]; intros last acc rest Hs Hl.
  - cbn [app read_string]. change (N.leb 128 34) with false. change (N.eqb 34 QUOTE) with true. reflexivity.
  - cbn [str_ok forallb] in Hs. apply andb_prop in Hs as [Hc Hs]. destruct (str_char_facts c Hc) as (H1 & H2 & H3 & H4 & _).
    cbn [app read_string]. rewrite H1. unfold QUOTE. rewrite H2. apply N.eqb_neq in Hl. rewrite Hl. cbn [orb].
    rewrite IH by assumption. rewrite <- app_assoc. reflexivity.
Qed.

Lemma read_number_comma t : forall acc X, forallb num_char t = true -> read_number (t ++ 44 :: X) acc = JOk (acc ++ t, X, true).
Proof.
  induction t as [|c t IH]; intros acc X Ht.
  - cbn [app read_number]. rewrite app_nil_r. reflexivity.
  - cbn [forallb] in Ht. apply andb_prop in Ht as [Hc Ht]. destruct (num_char_facts c Hc) as (H1 & H2 & _).
    cbn [app read_number]. rewrite H1, H2. unfold num_char in Hc. rewrite Hc. rewrite IH by assumption. rewrite <- app_assoc. reflexivity.
Qed.
Lemma read_number_close t : forall acc, forallb num_char t = true -> read_number (t ++ [13; 10; 125]) acc = JOk (acc ++ t, [], false).
Proof.
  induction t as [|c t IH]; intros acc Ht.
  - cbn [app]. rewrite app_nil_r. reflexivity.
  - cbn [forallb] in Ht. apply andb_prop in Ht as [Hc Ht]. destruct (num_char_facts c Hc) as (H1 & H2 & _).
    cbn [app read_number]. rewrite H1, H2. unfold num_char in Hc. rewrite Hc. rewrite IH by assumption. rewrite <- app_assoc. reflexivity.
Qed.

Lemma tail_comma X : tail_till_comma (44 :: X) = JOk (X, match X with [] => true | _ => false end).
Proof. reflexivity. Qed.
Lemma tail_close : tail_till_comma [13; 10; 125] = JOk ([], true).
Proof. vm_compute. reflexivity. Qed.

(* ---------- trimming the key-value text ---------- *)
Lemma trim_start_f_ws w : forall f s, forallb ascii_ws w = true -> (length w <= f)%nat -> trim_start_f f (w ++ s) = trim_start_f (f - length w) s.
Proof.
  induction w as [|x w IH]; intros f s Hw Hl.
  - cbn [app length]. rewrite Nat.sub_0_r. reflexivity.
  - cbn [forallb] in Hw. apply andb_prop in Hw as [Hx Hw]. cbn [length] in Hl. destruct f as [|f]; [lia|].
    cbn [app trim_start_f]. unfold ws_prefix_len. rewrite Hx. cbn [skipn]. rewrite IH by (auto; lia). reflexivity.
Qed.
Lemma trim_ws_solid w x mid y : forallb ascii_ws w = true -> solid x = true -> solid y = true ->
  trim (w ++ x :: mid ++ [y]) = x :: mid ++ [y].
Proof.
  intros Hw Hx Hy. unfold trim, trim_start. rewrite trim_start_f_ws by (auto; rewrite app_length; lia).
  rewrite trim_start_f_solid by assumption.
  change (x :: mid ++ [y]) with ((x :: mid) ++ [y] ++ []). rewrite trim_end_solid_ws by auto. reflexivity.
Qed.
Lemma trim_solid_both x mid y : solid x = true -> solid y = true -> trim (x :: mid ++ [y]) = x :: mid ++ [y].
Proof. intros. apply (trim_ws_solid [] x mid y); auto. Qed.
Lemma trim_all_solid t : forallb solid t = true -> trim t = t.
Proof.
  intro H. destruct t as [|x t]; [reflexivity|].
  destruct (exists_last (l := x :: t) ltac:(discriminate)) as (body & y & E).
  destruct body as [|x' body].
  - cbn [app] in E. inversion E; subst. cbn [forallb] in H. apply andb_prop in H as [H _]. apply trim_solid_single; auto.
  - cbn [app] in E. injection E as Ex Et. subst x' t.
    assert (Hx : solid x = true). { cbn [forallb] in H. apply andb_prop in H as [H _]. exact H. }
    assert (Hy : solid y = true). { cbn [forallb] in H. apply andb_prop in H as [_ H]. rewrite forallb_app in H. apply andb_prop in H as [_ H]. cbn [forallb] in H. rewrite andb_true_r in H. exact H. }
    apply trim_solid_both; assumption.
Qed.

Lemma name_facts n : name_ok n = true -> n <> [] /\ ~ In 34 n /\ ~ In 58 n /\ is_ascii n = true /\ forallb solid n = true.
Proof.
  unfold name_ok. intro H. apply andb_prop in H as [Hn Hc]. split; [intro E; subst; discriminate|].
  assert (Hall : forall c, In c n -> name_char_ok c = true) by (apply forallb_forall; exact Hc).
  assert (Hrange : forall c, In c n -> (48 <= c <= 57) \/ (65 <= c <= 90) \/ (97 <= c <= 122) \/ c = 95).
  { intros c Hi. specialize (Hall c Hi). unfold name_char_ok in Hall.
    repeat (apply orb_prop in Hall as [Hall|Hall]); [| | |apply N.eqb_eq in Hall; auto];
      apply andb_prop in Hall as [H1 H2]; apply N.leb_le in H1, H2; auto. }
  repeat split.
  - intro Hi. apply Hrange in Hi. lia.
  - intro Hi. apply Hrange in Hi. lia.
  - unfold is_ascii. apply forallb_forall. intros c Hi. apply Hrange in Hi. apply N.ltb_lt. lia.
  - apply forallb_forall. intros c Hi. apply Hrange in Hi. unfold solid, ascii_ws.
    apply andb_true_intro; split; [apply N.ltb_lt; lia|]. apply negb_true_iff. apply orb_false_intro; [|apply N.eqb_neq; lia].
    apply andb_false_iff. right. apply N.leb_gt. lia.
Qed.

Definition KEY_LEAD : list N := [13; 10; 32; 32; 34].
(* the text the scanner hands to JSONProperty::parse for a property written by the writer *)
Theorem property_parse_written name vt body y : name_ok name = true -> vt = body ++ [y] -> solid y = true -> trim vt = vt ->
  property_parse (KEY_LEAD ++ name ++ [34] ++ [58] ++ vt) = property_value name vt.
Proof.
  intros Hn Hvt Hy Htv. destruct (name_facts name Hn) as (Hne & H34 & H58 & Ha & Hs).
  unfold property_parse.
  assert (Ht : trim (KEY_LEAD ++ name ++ [34] ++ [58] ++ vt) = (34 :: name ++ [34]) ++ 58 :: vt).
  { rewrite Hvt. change (KEY_LEAD ++ name ++ [34] ++ [58] ++ body ++ [y]) with ([13; 10; 32; 32] ++ 34 :: (name ++ [34] ++ [58] ++ body ++ [y])).
    replace (name ++ [34] ++ [58] ++ body ++ [y]) with ((name ++ [34] ++ [58] ++ body) ++ [y]) by (rewrite <- !app_assoc; reflexivity).
    rewrite trim_ws_solid by (auto; reflexivity). cbn [app]. rewrite <- !app_assoc. reflexivity. }
  rewrite Ht. rewrite split_once_1.
  2:{ intro Hi. cbn [In] in Hi. destruct Hi as [Hi|Hi]; [discriminate|]. apply in_app_or in Hi as [Hi|Hi]; [contradiction|].
      cbn [In] in Hi. destruct Hi as [Hi|[]]. discriminate. }
  rewrite trim_solid_both by reflexivity.
  unfold QUOTE. change (34 :: name ++ [34]) with ([34] ++ name ++ [34]). rewrite !remove_byte_app. rewrite (remove_byte_notin 34 name) by assumption.
  change (remove_byte 34 [34]) with (@nil N). cbn [app]. rewrite app_nil_r.
  rewrite Htv. reflexivity.
Qed.

(* ---------- JSONProperty::parse on each kind of written value ---------- *)
Lemma ends1_last s c : ends1 (s ++ [c]) c = true.
Proof. unfold ends1. rewrite rev_app_distr. cbn [rev app starts1]. apply N.eqb_refl. Qed.

Lemma pv_string name s : ~ In 34 s -> property_value name (34 :: s ++ [34]) = JOk (name, TString, VStr s).
Proof.
  intro H. unfold property_value, QUOTE.
  change (34 :: s ++ [34]) with ((34 :: s) ++ [34]). rewrite (ends1_last (34 :: s) 34).
  change (starts1 ((34 :: s) ++ [34]) 34) with true.
  change (starts1 ((34 :: s) ++ [34]) 91) with false. change (starts1 ((34 :: s) ++ [34]) 123) with false.
  change (beqs ((34 :: s) ++ [34]) NULL_S) with false. change (beqs ((34 :: s) ++ [34]) TRUE_S) with false. change (beqs ((34 :: s) ++ [34]) FALSE_S) with false.
  cbn [andb orb negb].
  change ((34 :: s) ++ [34]) with ([34] ++ s ++ [34]). rewrite !remove_byte_app, (remove_byte_notin 34 s) by assumption.
  change (remove_byte 34 [34]) with (@nil N). cbn [app]. rewrite app_nil_r. reflexivity.
Qed.
Lemma pv_true name : property_value name TRUE_S = JOk (name, TBool, VBool true).
Proof. reflexivity. Qed.
Lemma pv_false name : property_value name FALSE_S = JOk (name, TBool, VBool false).
Proof. reflexivity. Qed.

Lemma numstart_facts c : (is_ascii_digit c || N.eqb c 45) = true ->
  N.eqb c 110 = false /\ N.eqb c 34 = false /\ N.eqb c 91 = false /\ N.eqb c 123 = false /\ N.eqb c 116 = false /\ N.eqb c 102 = false.
Proof.
  intro H. assert (Hc : (48 <= c <= 57) \/ c = 45).
  { apply orb_prop in H as [H|H]; [|apply N.eqb_eq in H; auto]. unfold is_ascii_digit in H. apply andb_prop in H as [H1 H2]. apply N.leb_le in H1, H2. auto. }
  repeat split; apply N.eqb_neq; lia.
Qed.
Lemma pv_number name c r : (is_ascii_digit c || N.eqb c 45) = true ->
  property_value name (c :: r) =
  match parse_i128 (c :: r) with
  | Some (ng, m) => JOk (name, TInt, VInt ng m)
  | None => if f64_ok (c :: r) then JOk (name, TFloat, VFloat (c :: r)) else JErr
  end.
Proof.
  intro H. destruct (numstart_facts c H) as (E1 & E2 & E3 & E4 & E5 & E6). unfold property_value.
  unfold starts1, QUOTE, NULL_S, TRUE_S, FALSE_S. cbn [beqs]. rewrite E1, E2, E3, E4, E5, E6. cbn [andb orb negb].
  destruct (parse_i128 (c :: r)) as [[ng m]|]; [reflexivity|]. destruct (f64_ok (c :: r)); reflexivity.
Qed.
