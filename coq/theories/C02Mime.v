(* C02 — the media type is a function of the file extension, and that function is the frozen reference table *)
From Coq Require Import Arith.
From Rws Require Import Str Fs GenMime Mime RefMime StrLemmas.
Open Scope N_scope.

(* the rule chain read as a function of the extension alone *)
Fixpoint run_ext (e : list N) (rules : list mrule) : list N :=
  match rules with
  | [] => mime_default
  | RSuffix suf ty :: r => if beqs (DOT :: e) suf then ty else run_ext e r
  | RExt sufs ty :: r => if existsb (beqs (DOT :: e)) sufs then ty else run_ext e r
  end.

Lemma prefixb_dotfree : forall a b r, ~ In DOT a -> ~ In DOT b -> prefixb (a ++ [DOT]) (b ++ DOT :: r) = beqs a b.
Proof.
  induction a as [|x a IH]; intros b r Ha Hb.
  - destruct b as [|y b]; [cbn; reflexivity|]. cbn [app prefixb beqs]. replace (N.eqb DOT y) with false; [reflexivity|]. symmetry. apply N.eqb_neq. intro E. apply Hb. left. auto.
  - destruct b as [|y b].
    + cbn [app prefixb beqs]. replace (N.eqb x DOT) with false; [reflexivity|]. symmetry. apply N.eqb_neq. intro E. apply Ha. left. auto.
    + cbn [app prefixb beqs]. rewrite IH; [reflexivity| |]; intro Hi; [apply Ha|apply Hb]; right; exact Hi.
Qed.
Lemma ends_with_ext q e s : ~ In DOT e -> ~ In DOT s -> ends_with (q ++ DOT :: e) (DOT :: s) = beqs (DOT :: e) (DOT :: s).
Proof.
  intros He Hs. unfold ends_with. change (DOT :: s) with ([DOT] ++ s). rewrite !rev_app_distr. cbn [rev app].
  change (rev (DOT :: e)) with (rev e ++ [DOT]). rewrite <- app_assoc. cbn [app].
  rewrite prefixb_dotfree by (rewrite <- in_rev; assumption). cbn [beqs]. change (N.eqb DOT DOT) with true. cbn [andb].
  destruct (beqs e s) eqn:E.
  - apply beqs_eq in E. subst. apply beqs_eq. reflexivity.
  - destruct (beqs (rev s) (rev e)) eqn:E2; [|reflexivity]. apply beqs_eq in E2. apply (f_equal (@rev N)) in E2. rewrite !rev_involutive in E2. subst.
    rewrite (proj2 (beqs_eq _ _) eq_refl) in E. discriminate.
Qed.

(* the suffix rules of the regenerated chain are all of the form dot + letters without a dot *)
Definition rule_ok (r : mrule) : bool :=
  match r with
  | RSuffix (d :: s) _ => N.eqb d DOT && negb (existsb (N.eqb DOT) s)
  | RSuffix [] _ => false
  | RExt _ _ => true
  end.
Lemma chain_rules_ok : forallb rule_ok mime_chain = true.
Proof. vm_compute. reflexivity. Qed.

Theorem mime_by_extension p q e : p = q ++ DOT :: e -> ~ In DOT e -> path_extension p = Some e -> detect_mime p = run_ext e mime_chain.
Proof.
  intros Hp He Hx. unfold detect_mime. rewrite Hx. pose proof chain_rules_ok as Hok. revert Hok. generalize mime_chain.
  induction l as [|r l IH]; intro Hok; [reflexivity|]. cbn [forallb] in Hok. apply andb_prop in Hok as [Hr Hok].
  destruct r as [suf ty|sufs ty]; cbn [Mime.run_chain run_ext].
  - destruct suf as [|d s]; [discriminate|]. cbn [rule_ok] in Hr. apply andb_prop in Hr as [Hd Hs]. apply N.eqb_eq in Hd. subst d.
    apply negb_true_iff in Hs. assert (Hs' : ~ In DOT s).
    { intro Hi. assert (existsb (N.eqb DOT) s = true); [|congruence]. apply existsb_exists. exists DOT. split; [assumption|apply N.eqb_refl]. }
    rewrite Hp, ends_with_ext by assumption. rewrite <- Hp. rewrite IH by exact Hok. reflexivity.
  - rewrite IH by exact Hok. reflexivity.
Qed.

(* ---------- the reference table ---------- *)
Lemma ref_default : mime_default = ref_mime_default.
Proof. vm_compute. reflexivity. Qed.
Lemma ref_agrees : forallb (fun et => beqs (run_ext (fst et) mime_chain) (snd et)) ref_mime_table = true.
Proof. vm_compute. reflexivity. Qed.
Definition rule_sufs (r : mrule) : list (list N) := match r with RSuffix s _ => [s] | RExt l _ => l end.
Definition chain_sufs : list (list N) := flat_map rule_sufs mime_chain.
(* every suffix the code knows is a dot followed by an extension; every extension of the reference table is known to the code (or is typed
   with the default).  The converse is NOT asked: an extension the code registers beyond the reference table is an addition, not a
   departure from it (the run lists such extensions in the evidence; they are typed by the code's own entry) *)
Lemma chain_sufs_dotted : forallb (fun s => match s with d :: _ => N.eqb d DOT | [] => false end) chain_sufs = true.
Proof. vm_compute. reflexivity. Qed.
Lemma chain_covers_ref : forallb (fun et => existsb (beqs (DOT :: fst et)) chain_sufs || beqs (snd et) ref_mime_default) ref_mime_table = true.
Proof. vm_compute. reflexivity. Qed.
(* the extensions the code registers beyond the reference table (empty at the pinned commit: shown by the example) *)
Definition beyond_reference : list (list N) :=
  filter (fun s => match s with _ :: e => negb (existsb (fun et => beqs (fst et) e) ref_mime_table) | [] => true end) chain_sufs.
Lemma run_ext_unknown e : forall rules, existsb (beqs (DOT :: e)) (flat_map rule_sufs rules) = false -> run_ext e rules = mime_default.
Proof.
  induction rules as [|r rules IH]; intro H; [reflexivity|]. cbn [flat_map] in H. rewrite existsb_app in H. apply orb_false_elim in H as [H1 H2].
  destruct r as [suf ty|sufs ty]; cbn [run_ext rule_sufs existsb] in *.
  - rewrite orb_false_r in H1. rewrite H1. apply IH, H2.
  - rewrite H1. apply IH, H2.
Qed.

(* ---------- the path of a file: directory, slash, stem, dot, extension ---------- *)
From Rws Require Import C01Proof.
Lemma beqs_len a : forall b, length a <> length b -> beqs a b = false.
Proof. induction a as [|x a IH]; intros [|y b] H; cbn [beqs]; try reflexivity; [contradiction|]. rewrite IH by (cbn [length] in H; lia). apply andb_false_r. Qed.
Lemma file_path_extension dir stem e : ~ In SLASH stem -> ~ In SLASH e -> ~ In DOT e -> stem <> [] -> e <> [] ->
  path_extension (dir ++ SLASH :: stem ++ DOT :: e) = Some e.
Proof.
  intros Hs1 Hs2 Hd Hne He. set (n := stem ++ DOT :: e).
  assert (Hn : ~ In SLASH n). { unfold n. intro Hi. apply in_app_or in Hi as [Hi|[Hi|Hi]]; [contradiction|discriminate|contradiction]. }
  unfold path_extension, file_name. rewrite comps_app, (comps_noslash n Hn).
  rewrite filter_app. cbn [filter].
  assert (Hlen : (3 <= length n)%nat).
  { unfold n. rewrite app_length. cbn [length]. destruct stem; [contradiction|]. destruct e; [contradiction|]. cbn [length]. lia. }
  assert (Hsk : is_skip n = false) by (unfold is_skip; rewrite !beqs_len by (cbn [length]; lia); reflexivity).
  rewrite Hsk. cbn [negb app].
  destruct (filter (fun c => negb (is_skip c)) (comps dir) ++ [n]) as [|c0 cs] eqn:E; [destruct (filter _ (comps dir)); discriminate|].
  rewrite <- E, last_last.
  assert (Hdd : is_dotdot n = false) by (unfold is_dotdot; apply beqs_len; cbn [length]; lia).
  rewrite Hdd. unfold n. rewrite rev_app_distr. cbn [rev]. rewrite <- app_assoc. cbn [app].
  rewrite split_once_1 by (rewrite <- in_rev; exact Hd).
  destruct (rev stem) eqn:Er; [apply (f_equal (@rev N)) in Er; rewrite rev_involutive in Er; contradiction|]. rewrite rev_involutive. reflexivity.
Qed.

(* the media type of a file is the reference type of its extension, whatever the directory and the stem *)
Theorem mime_is_reference dir stem e t : ~ In SLASH stem -> ~ In SLASH e -> ~ In DOT e -> stem <> [] -> e <> [] ->
  In (e, t) ref_mime_table -> detect_mime (dir ++ SLASH :: stem ++ DOT :: e) = t.
Proof.
  intros Hs1 Hs2 Hd Hne He Hin.
  rewrite (mime_by_extension _ (dir ++ SLASH :: stem) e); [| rewrite <- app_assoc; reflexivity | exact Hd | apply file_path_extension; assumption].
  pose proof (proj1 (forallb_forall _ _) ref_agrees (e, t) Hin) as G. cbn [fst snd] in G. apply beqs_eq in G. exact G.
Qed.
Theorem mime_unknown_is_default dir stem e : ~ In SLASH stem -> ~ In SLASH e -> ~ In DOT e -> stem <> [] -> e <> [] ->
  existsb (beqs (DOT :: e)) chain_sufs = false -> detect_mime (dir ++ SLASH :: stem ++ DOT :: e) = ref_mime_default.
Proof.
  intros Hs1 Hs2 Hd Hne He Hun.
  rewrite (mime_by_extension _ (dir ++ SLASH :: stem) e); [| rewrite <- app_assoc; reflexivity | exact Hd | apply file_path_extension; assumption].
  rewrite run_ext_unknown by exact Hun. apply ref_default.
Qed.
