(* Model of StaticResourceController (production entry point) and Range::get_content_range_list *)
From Rws Require Import Str Num Unicase Fs UrlParse RangeSpec Request GenMime Mime.
Open Scope N_scope.

Inductive prov := FromFile (canon : list (list N)) (via_link : bool) | BuiltIn | Message.
Record crange := mkCr { c_start : N; c_end : N; c_size : N; c_body : list N; c_type : list N; c_prov : prov }.

Inductive site := SUrlUnwrap | SPortUnwrap | SLastChar | SRangeSub | SReadOverflow | SSymlinkResolve.
Inductive sres (A : Type) := SOk (a : A) | SErr (status : N) | SPanic (s : site).
Arguments SOk {A}. Arguments SErr {A}. Arguments SPanic {A}.

Definition INDEX_HTML : list N := [105;110;100;101;120;46;104;116;109;108].
Definition DOT_HTML : list N := [46;104;116;109;108].
Definition BYTES_EQ : list N := [98;121;116;101;115;61].
Definition GET : list N := [71;69;84].
Definition OPTIONS : list N := [79;80;84;73;79;78;83].
Definition RANGE_NAME : list N := [82;97;110;103;101].
Definition DEFAULT_RANGE : list N := BYTES_EQ ++ [48;45].       (* "bytes=0-" *)

Definition get_header (r : request) (name : list N) : option header :=
  find (fun h => beqs (ulower (hname h)) (ulower name)) (headers r).

(* URL::parse(...).unwrap() on "http://localhost" ++ uri *)
Definition path_or_panic (uri : list N) : sres (list N) :=
  match target_url uri with
  | UOk u => SOk (u_path u)
  | UErr _ => SPanic SUrlUnwrap
  | UPanicPort => SPanic SPortUnwrap
  end.

Definition dir_index (P : list N) : sres (list N) :=
  match rev P with
  | [] => SPanic SLastChar                                      (* path.chars().last().unwrap() *)
  | c :: _ => SOk (if N.eqb c 47 then INDEX_HTML else 47 :: INDEX_HTML)
  end.

(* URL::has_parent_directory_segment (fix b366efe): some segment, splitting at '/' and at '\', is ".." *)
Definition has_dotdot (P : list N) : bool := existsb is_dotdot (flat_map (fun c => split c [92]) (comps P)).
(* lexical climbing (used by the containment proof): some prefix has more ".." than names *)
Fixpoint climbs_aux (depth : nat) (cs : list (list N)) : bool :=
  match cs with
  | [] => false
  | c :: r => if is_skip c then climbs_aux depth r
              else if is_dotdot c then match depth with O => true | S d => climbs_aux d r end
              else climbs_aux (S depth) r
  end.
Definition climbs (P : list N) : bool := climbs_aux 0 (comps P).

Definition HEAD : list N := [72;69;65;68].
Definition is_reg (fs : fsys) (p : list N) : bool := match metadata fs p with Some KFile => true | _ => false end.
Definition is_ghO (m : list N) : bool := beqs m GET || beqs m HEAD || beqs m OPTIONS.    (* GET, HEAD or OPTIONS *)
Definition is_matching (fs : fsys) (r : request) : sres bool :=
  match path_or_panic (uri r) with SErr s => SErr s | SPanic s => SPanic s | SOk P =>
  if has_dotdot P then SOk false else
  let SP := cwd_str fs ++ P in
  match (match metadata fs SP with
         | Some KDir => match dir_index P with
                        | SOk di => SOk (Some (is_reg fs (SP ++ di)))        (* open succeeds and it is a regular file *)
                        | SPanic s => SPanic s | SErr s => SErr s end
         | _ => SOk None end) with
  | SPanic s => SPanic s | SErr s => SErr s
  | SOk (Some false) => SOk false                               (* directory without index.html *)
  | SOk didx =>
    let dir_idx := match didx with Some true => true | _ => false end in
    let mm := is_ghO (method r) && negb (beqs (uri r) [47]) in
    if can_open fs SP || dir_idx then SOk mm
    else if ends_with SP DOT_HTML then SOk false
    else SOk (is_reg fs (cwd_str fs ++ P ++ DOT_HTML) && mm)
  end end.

(* FileExt::resolve_symlink_path, lexical *)
Fixpoint resolve_symlink_lex (fuel : nat) (dir tgt : list N) : option (list N) :=
  match fuel with O => None | S f =>
  if (match tgt with _ :: 58 :: _ => true | _ => false end) then Some tgt else      (* "windows specific check": second character ':' *)
  if is_abs tgt then Some tgt else
  match split_once tgt [47] with
  | None => Some (dir ++ [47] ++ tgt)
  | Some (part, rest) =>
    if is_dotdot part then
      match dir with [] => None | _ =>
        match split_once (rev dir) [47] with
        | Some (_, up) => resolve_symlink_lex f (rev up) rest
        | None => resolve_symlink_lex f [] rest
        end end
    else resolve_symlink_lex f (match dir with [] => part | _ => dir ++ [47] ++ part end) rest
  end end.


Fixpoint read_specs (fs : fsys) (lnk : bool) (path : list N) (L : N) (specs : list (list N)) : sres (list crange) :=
  match specs with
  | [] => SOk []
  | sp :: rest =>
    match parse_range L sp with
    | R416 => SErr 416 | RPanicSub => SPanic SRangeSub
    | ROk' (st, en) =>
      match read_range fs path st en with
      | RdErr => SErr 416 | RdPanicOverflow => SPanic SReadOverflow
      | RdOk data q via =>
        match read_specs fs lnk path L rest with
        | SOk l => SOk (mkCr st en L data (detect_mime path) (FromFile q (via || lnk)) :: l)
        | e => e end
      end
    end
  end.
Definition parse_content_range (fs : fsys) (lnk : bool) (path : list N) (L : N) (value : list N) : sres (list crange) :=
  if negb (starts_with value BYTES_EQ) then SErr 416 else
  match split value [61] with
  | _ :: raw :: _ => read_specs fs lnk path L (split raw [44])
  | _ => SErr 416
  end.

Definition get_content_range_list (fs : fsys) (uri' : list N) (range_value : list N) : sres (list crange) :=
  match path_or_panic uri' with SErr s => SErr s | SPanic s => SPanic s | SOk P =>
  if has_dotdot P then SErr 404 else
  let SP := cwd_str fs ++ P in
  match metadata fs SP with
  | None => SErr 500
  | Some KFile =>
    match is_symlink fs SP, file_len fs SP with
    | Some false, Some L => parse_content_range fs false SP L range_value
    | Some true, Some L =>
      match read_link fs SP with
      | None => SErr 500
      | Some tgt =>
        let dir := match split_once (rev SP) [47] with Some (_, up) => rev up | None => [] end in
        match resolve_symlink_lex FUEL dir tgt with
        | None => SErr 500            (* fix 3697778: was an unwrap panic *)
        | Some path =>                (* the owner's symlink: excepted by C01; a relative result is opened relative to the cwd *)
          parse_content_range fs true (if is_abs path then path else cwd_str fs ++ [47] ++ path) L range_value
        end
      end
    | _, _ => SErr 500
    end
  | Some _ => SOk []
  end end.

Definition process_static (fs : fsys) (r : request) : sres (list crange) :=
  match path_or_panic (uri r) with SErr s => SErr s | SPanic s => SPanic s | SOk P =>
  let SP := cwd_str fs ++ P in
  let rv := match get_header r RANGE_NAME with Some h => hvalue h | None => DEFAULT_RANGE end in
  let md := match metadata fs SP with Some k => Some k | None =>
            match metadata fs (SP ++ DOT_HTML) with Some k => Some k | None => metadata fs (SP ++ [47] ++ INDEX_HTML) end end in
  match md with
  | None => SOk []
  | Some KDir => match dir_index P with
                 | SOk di => get_content_range_list fs (P ++ di) rv
                 | SPanic s => SPanic s | SErr s => SErr s end
  | Some _ =>
    if can_open fs SP then
      match metadata fs SP with
      | Some KFile => get_content_range_list fs (uri r) rv
      | _ => SOk [] end
    else
      let SP2 := cwd_str fs ++ P ++ DOT_HTML in
      if can_open fs SP2 then
        match metadata fs SP2 with Some KFile => get_content_range_list fs (P ++ DOT_HTML) rv | _ => SOk [] end
      else SOk []
  end end.

Fixpoint prefixb_names (a b' : list (list N)) : bool :=
  match a, b' with [], _ => true | x :: a', y :: b'' => beqs x y && prefixb_names a' b'' | _, [] => false end.
(* does some body come from a file outside the served directory without any symlink being followed? *)
Definition served_outside (fs : fsys) (l : list crange) : bool :=
  existsb (fun c => match c_prov c with
                    | FromFile q via => negb via && negb (prefixb_names (cwd fs) q)
                    | _ => false end) l.

(* ---- observed behaviours, by computation ---- *)
Definition GET_req (u : list N) (hs : list header) := mkR GET u [72;84;84;80;47;49;46;49] hs [].
Definition escape_uri : list N := [47;46;46;47;115;101;99;114;101;116;46;116;120;116].   (* /../secret.txt *)
(* the pinned tree served /../secret.txt (C01 finding, fixed by b366efe); now it is not matched *)
Example C01_escape_refused : is_matching fs0 (GET_req escape_uri []) = SOk false.
Proof. vm_compute. reflexivity. Qed.
Example C01_escape_refused_reader : get_content_range_list fs0 escape_uri DEFAULT_RANGE = SErr 404.
Proof. vm_compute. reflexivity. Qed.
(* observed: Range: bytes=-3 on the 10-byte file is labelled 7-10 *)
Example range_suffix :
  exists l, process_static fs0 (GET_req [47;97;46;116;120;116] [mkH RANGE_NAME (BYTES_EQ ++ [45;51])]) = SOk l
            /\ map (fun c => (c_start c, c_end c, c_size c, c_body c)) l = [(7, 10, 10, [55;56;57])].
Proof. eexists. split; vm_compute; reflexivity. Qed.
(* observed: symlinked file is served, provenance says via link *)
Example symlink_served :
  exists l, process_static fs0 (GET_req [47;108;97] []) = SOk l /\ map c_body l = [[48;49;50;51;52;53;54;55;56;57]].
Proof. eexists. split; vm_compute; reflexivity. Qed.
