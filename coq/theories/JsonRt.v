(* Model of the JSON writers (JSON::to_json_string, the JSONArrayOf... writers) and of the typed readers, composed the way a
   struct implementing ToJSON / FromJSON composes them (src/json/array/object/example_multi_nested_object/example_object.rs
   is the idiom): a value tree is written field by field, and read back driven by the declared type of each field. *)
From Rws Require Import Str Utf8 Num RespParse Json JsonArray Server.
Open Scope N_scope.

Inductive iw := I8 | I16 | I32 | I64 | I128 | U8 | U16 | U32 | U64 | U128.
(* A float is carried as the two texts Rust's formatter prints for it: {:?} (object fields) and Display (arrays).
   Rust's float printing and parsing are not modelled (trusted base); the harness checks both texts on every case. *)
Inductive jv :=
| JS (s : list N) | JB (b : bool) | JI (neg : bool) (m : N) | JF (dbg disp : list N) | JNull
| JO (fs : list (list N * jv))
| JAI (w : iw) (xs : list (bool * N)) | JAF (xs : list (list N * list N)) | JAS (xs : list (list N)) | JAB (xs : list bool) | JAN (n : nat)
| JAO (xs : list jv).

Inductive rtres (A : Type) := RtOk (a : A) | RtErr | RtPanic.
Arguments RtOk {A}. Arguments RtErr {A}. Arguments RtPanic {A}.

Definition show_int (ng : bool) (m : N) : list N := if ng then 45 :: show_N m else show_N m.
Fixpoint join (sep : list N) (l : list (list N)) : list N :=
  match l with [] => [] | [x] => x | x :: r => x ++ sep ++ join sep r end.

(* JSON::to_json_string: "{" CRLF props joined by ",\r\n" CRLF "}" ; each prop is two spaces, the quoted name, ": ", the value text *)
Definition prop_line (name : list N) (v : list N) : list N := [32; 32; QUOTE] ++ name ++ [QUOTE; 58; 32] ++ v.
Definition obj_text (props : list (list N)) : list N := [123] ++ CRLF ++ join ([44] ++ CRLF) props ++ CRLF ++ [125].
Definition arr_text (items : list (list N)) : list N := [91] ++ join [44] items ++ [93].

(* to_json_from_list_f64: zero is written 0.0, anything else with Display *)
Definition arr_float (disp : list N) : list N := if beqs disp [48] || beqs disp [45; 48] then [48; 46; 48] else disp.
Fixpoint to_json (v : jv) : option (list N) :=       (* None: the field is not written (a None / null field) *)
  match v with
  | JS s => Some (QUOTE :: s ++ [QUOTE])
  | JB b => Some (if b then TRUE_S else FALSE_S)
  | JI ng m => Some (show_int ng m)
  | JF d _ => Some d
  | JNull => None
  | JO fs => Some (obj_text (flat_map (fun nv => match to_json (snd nv) with Some t => [prop_line (fst nv) t] | None => [] end) fs))
  | JAI _ xs => Some (arr_text (map (fun x => show_int (fst x) (snd x)) xs))
  | JAF xs => Some (arr_text (map (fun x => arr_float (snd x)) xs))
  | JAS xs => Some (arr_text (map (fun s => QUOTE :: s ++ [QUOTE]) xs))
  | JAB xs => Some (arr_text (map (fun b : bool => if b then TRUE_S else FALSE_S) xs))
  | JAN n => Some (arr_text (repeat NULL_S n))
  | JAO xs => Some ([91] ++ join ([44] ++ CRLF) (flat_map (fun x => match to_json x with Some t => [t] | None => [] end) xs) ++ [93])
  end.

(* item.parse::<iN / uN>() *)
Definition parse_int (w : iw) (s : list N) : option (bool * N) :=
  let u b := match parse_unsigned b s with Some v => Some (false, v) | None => None end in
  match w with
  | I8 => parse_signed (2 ^ 7) s | I16 => parse_signed (2 ^ 15) s | I32 => parse_signed (2 ^ 31) s | I64 => parse_signed (2 ^ 63) s | I128 => parse_signed (2 ^ 127) s
  | U8 => u (2 ^ 8) | U16 => u (2 ^ 16) | U32 => u (2 ^ 32) | U64 => u (2 ^ 64) | U128 => u (2 ^ 128)
  end.

Section AllOk.
  Context {A B : Type} (f : A -> rtres B).
  Fixpoint all_ok (l : list A) : rtres (list B) :=
    match l with [] => RtOk [] | x :: r => match f x with RtOk y => match all_ok r with RtOk ys => RtOk (y :: ys) | e => e end | RtErr => RtErr | RtPanic => RtPanic end end.
End AllOk.

Definition of_ares (a : ares) : rtres (list (list N)) := match a with AOk i => RtOk i | AErr => RtErr | APanicUtf8 => RtPanic end.
Definition typed_list {B} (f : list N -> rtres B) (raw : list N) : rtres (list B) :=
  match of_ares (split_array raw) with RtOk items => all_ok f items | RtErr => RtErr | RtPanic => RtPanic end.

Definition read_int (w : iw) (s : list N) : rtres (bool * N) := match parse_int w s with Some x => RtOk x | None => RtErr end.
Definition read_float (s : list N) : rtres (list N * list N) := if f64_ok s then RtOk (s, s) else RtErr.
Definition read_bool (s : list N) : rtres bool := if beqs s TRUE_S then RtOk true else if beqs s FALSE_S then RtOk false else RtErr.
Definition read_null (s : list N) : rtres unit := if beqs (trim s) NULL_S then RtOk tt else RtErr.
(* parse_as_list_string: trim, first and last character must be the quotation mark (chars().next().unwrap() on an empty item) *)
Definition read_str (s : list N) : rtres (list N) :=
  let t := trim s in
  match t with
  | [] => RtPanic
  | c :: _ => if N.eqb c QUOTE && ends1 t QUOTE then RtOk (removelast (tl t)) else RtErr
  end.

Definition find_last (name : list N) (ps : list (list N * jty * jval)) : option jval :=
  fold_left (fun acc p => if beqs (fst (fst p)) name then Some (snd p) else acc) ps None.

Definition of_jres {A} (r : jres A) : rtres A := match r with JOk a => RtOk a | JErr => RtErr end.

(* the value a field declared like [sch] takes when the parsed property holds [val]; JNull = the field keeps its default *)
Fixpoint read_back (sch : jv) (val : jval) : rtres jv :=
  match sch, val with
  | JS _, VStr s => RtOk (JS s)
  | JB _, VBool b => RtOk (JB b)
  | JI _ _, VInt ng m => RtOk (JI ng m)
  | JF _ _, VFloat raw => RtOk (JF raw raw)
  | JO fs, VObj raw =>
    match parse_as_properties raw with
    | JErr => RtErr
    | JOk ps =>
      match all_ok (fun nv => match find_last (fst nv) ps with
                              | Some v => match read_back (snd nv) v with RtOk x => RtOk (fst nv, x) | RtErr => RtErr | RtPanic => RtPanic end
                              | None => RtOk (fst nv, JNull) end) fs with
      | RtOk fs' => RtOk (JO fs') | RtErr => RtErr | RtPanic => RtPanic
      end
    end
  (* an array that does not read is ignored by the idiom (if boxed_array.is_ok()) - except that a panic is a panic *)
  | JAI w _, VArr raw => match typed_list (read_int w) raw with RtOk xs => RtOk (JAI w xs) | RtErr => RtOk JNull | RtPanic => RtPanic end
  | JAF _, VArr raw => match typed_list read_float raw with RtOk xs => RtOk (JAF xs) | RtErr => RtOk JNull | RtPanic => RtPanic end
  | JAS _, VArr raw => match typed_list read_str raw with RtOk xs => RtOk (JAS xs) | RtErr => RtOk JNull | RtPanic => RtPanic end
  | JAB _, VArr raw => match typed_list read_bool raw with RtOk xs => RtOk (JAB xs) | RtErr => RtOk JNull | RtPanic => RtPanic end
  | JAN _, VArr raw => match typed_list read_null raw with RtOk xs => RtOk (JAN (length xs)) | RtErr => RtOk JNull | RtPanic => RtPanic end
  | JAO xs, VArr raw =>
    match of_ares (split_array raw) with
    | RtOk items =>
      match xs with
      | [] => match items with [] => RtOk (JAO []) | _ => RtOk JNull end
      | s0 :: _ => match all_ok (fun it => read_back s0 (VObj it)) items with RtOk ys => RtOk (JAO ys) | RtErr => RtOk JNull | RtPanic => RtPanic end
      end
    | RtErr => RtOk JNull | RtPanic => RtPanic
    end
  | _, _ => RtOk JNull
  end.

(* write, then read back: the text and the value read from it. A top-level object is parsed with FromJSON::parse, a
   top-level array with its typed reader (an error there is an error, not a skipped field) *)
Definition round_trip (v : jv) : option (list N * rtres jv) :=
  match to_json v with
  | None => None
  | Some t => Some (t, match v with
                       | JO _ => read_back v (VObj t)
                       | JAI w _ => match typed_list (read_int w) t with RtOk xs => RtOk (JAI w xs) | RtErr => RtErr | RtPanic => RtPanic end
                       | JAF _ => match typed_list read_float t with RtOk xs => RtOk (JAF xs) | RtErr => RtErr | RtPanic => RtPanic end
                       | JAS _ => match typed_list read_str t with RtOk xs => RtOk (JAS xs) | RtErr => RtErr | RtPanic => RtPanic end
                       | JAB _ => match typed_list read_bool t with RtOk xs => RtOk (JAB xs) | RtErr => RtErr | RtPanic => RtPanic end
                       | JAN _ => match typed_list read_null t with RtOk xs => RtOk (JAN (length xs)) | RtErr => RtErr | RtPanic => RtPanic end
                       | JAO xs => match of_ares (split_array t) with
                                   | RtOk items => match xs with [] => RtOk (JAO []) | s0 :: _ => match all_ok (fun it => read_back s0 (VObj it)) items with RtOk ys => RtOk (JAO ys) | e => match e with RtPanic => RtPanic | _ => RtErr end end end
                                   | RtErr => RtErr | RtPanic => RtPanic end
                       | _ => RtErr
                       end)
  end.

(* ---- the domain of the round-trip theorems (decidable, printed by the model runner for every case) ---- *)
(* printable ASCII without the quotation mark and the backslash *)
Definition str_char_ok (c : N) : bool := N.leb 32 c && N.ltb c 127 && negb (N.eqb c 34) && negb (N.eqb c 92).
Definition str_ok (s : list N) : bool := forallb str_char_ok s.
Definition name_char_ok (c : N) : bool := (N.leb 48 c && N.leb c 57) || (N.leb 65 c && N.leb c 90) || (N.leb 97 c && N.leb c 122) || N.eqb c 95.
Definition name_ok (s : list N) : bool := negb (beqs s []) && forallb name_char_ok s.
Definition int_ok (bound : N) (ng : bool) (m : N) : bool := if ng then N.leb m bound && negb (N.eqb m 0) else N.ltb m bound.
Definition num_char (c : N) : bool := is_ascii_digit c || N.eqb c 46 || N.eqb c 101 || N.eqb c 45.
(* what Rust prints with {:?} for a finite f64: a number text that is not an integer text *)
Definition dbg_ok (d : list N) : bool :=
  f64_ok d && forallb num_char d && match parse_i128 d with Some _ => false | None => true end
  && match d with c :: _ => is_ascii_digit c || N.eqb c 45 | [] => false end.
Definition scalar_ok (v : jv) : bool :=
  match v with
  | JS s => str_ok s | JB _ => true | JI ng m => int_ok (2 ^ 127) ng m | JF d _ => dbg_ok d | JNull => true
  | _ => false
  end.
Fixpoint distinct (l : list (list N)) : bool :=
  match l with [] => true | x :: r => negb (existsb (beqs x) r) && distinct r end.
Definition flat_ok (v : jv) : bool :=
  match v with
  | JO fs => forallb (fun nv => name_ok (fst nv) && scalar_ok (snd nv)) fs && distinct (map fst fs)
  | _ => false
  end.
(* a float keeps its text, everything else is itself *)
Definition norm_scalar (v : jv) : jv := match v with JF d _ => JF d d | x => x end.

Definition numstart (c : N) : bool := is_ascii_digit c || N.eqb c 45.
(* every value of the width *)
Definition width_ok (w : iw) (x : bool * N) : bool :=
  let (ng, m) := x in
  match w with
  | I8 => int_ok (2 ^ 7) ng m | I16 => int_ok (2 ^ 15) ng m | I32 => int_ok (2 ^ 31) ng m | I64 => int_ok (2 ^ 63) ng m | I128 => int_ok (2 ^ 127) ng m
  | U8 => negb ng && N.ltb m (2 ^ 8) | U16 => negb ng && N.ltb m (2 ^ 16) | U32 => negb ng && N.ltb m (2 ^ 32) | U64 => negb ng && N.ltb m (2 ^ 64) | U128 => negb ng && N.ltb m (2 ^ 128)
  end.

(* what Rust's Display prints for a finite f64: optional minus, digits, optionally a point and digits - and a text f64::from_str accepts *)
Definition disp_ok (d : list N) : bool :=
  match d with
  | c :: body => numstart c && (let (ds1, r) := take_digits body in match r with [] => true | 46 :: ds2 => forallb is_digit ds2 | _ => false end) && f64_ok d
  | [] => false
  end.

(* arrays of each element kind, and trees: objects whose fields are scalars, such arrays, or objects again (C19_nested_round_trip) *)
Definition arr_ok (v : jv) : bool :=
  match v with
  | JAI w xs => forallb (width_ok w) xs | JAF xs => forallb (fun x => disp_ok (snd x)) xs | JAS xs => forallb str_ok xs | JAB _ | JAN _ => true
  | _ => false
  end.
Definition iw_eqb (a b : iw) : bool :=
  match a, b with
  | I8, I8 | I16, I16 | I32, I32 | I64, I64 | I128, I128 | U8, U8 | U16, U16 | U32, U32 | U64, U64 | U128, U128 => true
  | _, _ => false
  end.
(* a value can be read with the declared type [sch] (read_back is driven by the declared type, for arrays of objects by the FIRST element):
   same kind at every position, same field names in the same order, null allowed anywhere in the value *)
Fixpoint conforms (sch x : jv) {struct x} : bool :=
  match x, sch with
  | JNull, _ => true
  | JS _, JS _ | JB _, JB _ | JI _ _, JI _ _ | JF _ _, JF _ _ => true
  | JAI w _, JAI w' _ => iw_eqb w w'
  | JAF _, JAF _ | JAS _, JAS _ | JAB _, JAB _ | JAN _, JAN _ => true
  | JO gs, JO fs =>
    (fix go (gl fl : list (list N * jv)) : bool :=
       match gl, fl with
       | [], [] => true
       | g :: gr, f :: fr => beqs (fst g) (fst f) && conforms (snd f) (snd g) && go gr fr
       | _, _ => false
       end) gs fs
  | JAO ys, JAO ss =>
    match ss with
    | [] => match ys with [] => true | _ => false end
    | s0 :: _ => (fix go (l : list jv) : bool := match l with [] => true | y :: r => conforms s0 y && go r end) ys
    end
  | _, _ => false
  end.
Fixpoint tree_ok (v : jv) : bool :=
  match v with
  | JO fs => (fix go (l : list (list N * jv)) : bool := match l with [] => true | nv :: r => name_ok (fst nv) && tree_ok (snd nv) && go r end) fs
             && distinct (map fst fs)
  (* an array of objects: every element an object of the domain that can be read with the first element as its declared type *)
  | JAO xs => (fix go (l : list jv) : bool := match l with [] => true | y :: r => (match y with JO _ => tree_ok y | _ => false end) && go r end) xs
              && match xs with [] => true | s0 :: _ => forallb (conforms s0) xs end
  | JAI _ _ | JAF _ | JAS _ | JAB _ | JAN _ => arr_ok v
  | x => scalar_ok x
  end.

(* is the tree inside the domain of one of the round-trip theorems (Props/C19.v)?  printed by the model runner for every case *)
Definition in_domain (v : jv) : bool :=
  match v with
  | JO _ => tree_ok v
  | JAI w xs => forallb (width_ok w) xs
  | JAF xs => forallb (fun x => disp_ok (snd x)) xs
  | JAS xs => forallb str_ok xs
  | JAB _ => true | JAN _ => true
  | JAO _ => tree_ok v
  | _ => false
  end.
