(* C20 — the parsers return a value or an error: every panic site of the models is unreachable *)
From Coq Require Import Arith.
From Rws Require Import Str Utf8 Num RespParse Json JsonArray Server JsonRt StrLemmas TrimLemmas Utf8Lemmas Forms UrlPath Parsers Base64.
Open Scope N_scope.

(* ---------- the JSON array splitter: no from_utf8 panic once the text is ASCII (the guard at its entry) ---------- *)
Definition asc (s : list N) : Prop := existsb (fun x => N.leb 128 x) s = false.
Lemma asc_cons c s : asc (c :: s) <-> N.leb 128 c = false /\ asc s.
Proof. unfold asc. cbn [existsb]. rewrite orb_false_iff. tauto. Qed.
Lemma asc_app a b : asc (a ++ b) <-> asc a /\ asc b.
Proof. unfold asc. rewrite existsb_app, orb_false_iff. tauto. Qed.
Lemma asc_utf8 s : asc s -> utf8_valid s = true.
Proof.
  intro H. apply ascii_utf8. unfold is_ascii. apply forallb_forall. intros c Hc.
  destruct (N.ltb_spec c 128) as [|Hge]; [reflexivity|]. exfalso.
  assert (existsb (fun x => N.leb 128 x) s = true); [|unfold asc in H; congruence].
  apply existsb_exists. exists c. split; [assumption|]. apply N.leb_le. assumption.
Qed.

Lemma read_string_asc : forall s last acc sv r, asc s -> read_string s last acc = JOk (sv, r) -> asc r.
Proof.
  induction s as [|c s IH]; intros last acc sv r Ha H; [discriminate|].
  apply asc_cons in Ha as [Hc Ha]. cbn [read_string] in H. rewrite Hc in H.
  destruct (N.eqb c QUOTE || N.eqb last 92); [inversion H; subst; exact Ha|]. eapply IH; eauto.
Qed.
Lemma read_exact_n_asc : forall n s w r, asc s -> read_exact_n n s = Some (w, r) -> asc w /\ asc r.
Proof.
  induction n as [|n IH]; intros s w r Ha H.
  - cbn in H. inversion H; subst. split; [reflexivity|assumption].
  - cbn [read_exact_n] in H. destruct s as [|c s]; [discriminate|]. apply asc_cons in Ha as [Hc Ha].
    destruct (read_exact_n n s) as [[a b']|] eqn:E; [|discriminate]. inversion H; subst.
    destruct (IH s a r Ha E) as [Hw Hr]. split; [apply asc_cons; auto|assumption].
Qed.
Lemma read_balanced_asc op cl : forall s o k ins acc sv r, asc s -> read_balanced_s op cl s o k ins acc = JOk (sv, r) -> asc r.
Proof.
  induction s as [|c s IH]; intros o k ins acc sv r Ha H; [discriminate|].
  apply asc_cons in Ha as [Hc Ha]. cbn [read_balanced_s] in H. rewrite Hc in H.
  match type of H with (if ?b then _ else _) = _ => destruct b end; [inversion H; subst; exact Ha|]. eapply IH; eauto.
Qed.
Lemma ws_then_sep_asc s : asc s -> (forall b, ws_then_sep s <> inr b) /\ (forall sep r, ws_then_sep s = inl (Some (sep, r)) -> asc r).
Proof.
  intro Ha. destruct s as [|c s]; [split; [intros b H; discriminate|intros sep r H; discriminate]|].
  apply asc_cons in Ha as [Hc Ha]. cbn [ws_then_sep]. rewrite Hc.
  destruct (N.eqb c 44); [split; [intros b H; discriminate|intros sep r H; inversion H; subst; exact Ha]|].
  destruct (N.eqb c 93); [split; [intros b H; discriminate|intros sep r H; inversion H; subst; exact Ha]|].
  split; [intros b H; discriminate|intros sep r H; discriminate].
Qed.
Lemma num_loop_asc : forall fuel s tok pt ex mi, asc s -> num_loop fuel s tok pt ex mi <> NPanic /\
  (forall tok' last r e, num_loop fuel s tok pt ex mi = NOk tok' last r e -> asc r /\ exists more, tok' = tok ++ more).
Proof.
  induction fuel as [|f IH]; intros s tok pt ex mi Ha; [split; [discriminate|intros; discriminate]|].
  destruct s as [|c s]; [split; [discriminate|intros; discriminate]|].
  apply asc_cons in Ha as [Hc Ha]. cbn [num_loop]. rewrite Hc.
  destruct (N.eqb c 46 && pt); [split; [discriminate|intros; discriminate]|].
  destruct (N.eqb c 101 && ex); [split; [discriminate|intros; discriminate]|].
  destruct (N.eqb c 45 && mi); [split; [discriminate|intros; discriminate]|].
  destruct (N.eqb c 32).
  - destruct (ws_then_sep_asc s Ha) as [Hn Hr]. destruct (ws_then_sep s) as [[[sep r']|]|b] eqn:E.
    + pose proof (Hr sep r' eq_refl) as Hr'. split; [discriminate|]. intros tok' last r e H. inversion H; subst. split; [exact Hr'|exists []; rewrite app_nil_r; reflexivity].
    + split; [discriminate|intros; discriminate].
    + exfalso. apply (Hn b). reflexivity.
  - match goal with |- context [if ?b then num_loop _ _ _ _ _ _ else _] => destruct b end.
    + destruct (IH s (tok ++ [c]) (pt || N.eqb c 46) (ex || N.eqb c 101) mi Ha) as [Hn Hr]. split; [exact Hn|].
      intros tok' last r e H. destruct (Hr _ _ _ _ H) as [Hr1 [more ->]]. split; [exact Hr1|]. exists ([c] ++ more). rewrite app_assoc. reflexivity.
    + match goal with |- context [if ?b then NErr else _] => destruct b end; [split; [discriminate|intros; discriminate]|].
      split; [discriminate|]. intros tok' last r e H. inversion H; subst. split; [exact Ha|exists []; rewrite app_nil_r; reflexivity].
Qed.

(* every token the splitter returns starts with a non-blank ASCII character *)
Definition headed (it : list N) : Prop := exists c r, it = c :: r /\ solid c = true.
Lemma headed_const c r : solid c = true -> headed (c :: r).
Proof. intro H. exists c, r. auto. Qed.
Lemma Forall_snoc {A} (P : A -> Prop) l x : Forall P l -> P x -> Forall P (l ++ [x]).
Proof. intros Hl Hx. apply Forall_app. split; [assumption|constructor; [assumption|constructor]]. Qed.
Lemma numstart_solid c : (is_ascii_digit c || N.eqb c 45) = true -> solid c = true.
Proof.
  intro H. assert (Hc : (48 <= c <= 57) \/ c = 45).
  { apply orb_prop in H as [H|H]; [|apply N.eqb_eq in H; auto]. unfold is_ascii_digit in H. apply andb_prop in H as [H1 H2]. apply N.leb_le in H1, H2. auto. }
  unfold solid, ascii_ws. apply andb_true_intro; split; [apply N.ltb_lt; lia|]. apply negb_true_iff. apply orb_false_intro; [|apply N.eqb_neq; lia].
  apply andb_false_iff. right. apply N.leb_gt. lia.
Qed.

Lemma items_loop_ok : forall fuel s acc, asc s -> Forall headed acc ->
  fst (items_loop fuel s acc) <> APanicUtf8 /\ (forall items r, items_loop fuel s acc = (AOk items, r) -> asc r /\ Forall headed items).
Proof.
  induction fuel as [|f IH]; intros s acc Ha Hacc; [split; [discriminate|intros; discriminate]|].
  destruct s as [|c s]; [split; [discriminate|intros; discriminate]|].
  apply asc_cons in Ha as [Hc Ha]. cbn [items_loop]. rewrite Hc.
  assert (Herr : fst (@pair ares (list N) AErr []) <> APanicUtf8 /\ (forall items r, (AErr, @nil N) = (AOk items, r) -> asc r /\ Forall headed items))
    by (split; [discriminate|intros; discriminate]).
  assert (Hsame : forall acc', Forall headed acc' -> fst (items_loop f s acc') <> APanicUtf8 /\ (forall items r, items_loop f s acc' = (AOk items, r) -> asc r /\ Forall headed items))
    by (intros acc' H'; apply IH; assumption).
  destruct (N.eqb c 93). { split; [discriminate|]. intros items r H. inversion H; subst. auto. }
  destruct (N.eqb c 32); [apply Hsame, Hacc|].
  destruct (N.eqb c QUOTE).
  { destruct (read_string s QUOTE []) as [[sv r']|] eqn:E.
    - apply IH; [eapply read_string_asc; eauto|]. apply Forall_snoc; [assumption|]. apply headed_const. reflexivity.
    - destruct s as [|d s']; [exact Herr|]. unfold asc in Ha. rewrite Ha. exact Herr. }
  destruct (N.eqb c 110).
  { destruct (read_exact_n 3 s) as [[w r']|] eqn:E; [|exact Herr]. destruct (read_exact_n_asc _ _ _ _ Ha E) as [Hw Hr].
    rewrite (asc_utf8 w Hw). cbn [negb]. destruct (beqs w [117;108;108]); [|exact Herr].
    apply IH; [assumption|]. apply Forall_snoc; [assumption|apply headed_const; reflexivity]. }
  destruct (N.eqb c 116).
  { destruct (read_exact_n 3 s) as [[w r']|] eqn:E; [|exact Herr]. destruct (read_exact_n_asc _ _ _ _ Ha E) as [Hw Hr].
    rewrite (asc_utf8 w Hw). cbn [negb]. destruct (beqs w [114;117;101]); [|exact Herr].
    apply IH; [assumption|]. apply Forall_snoc; [assumption|apply headed_const; reflexivity]. }
  destruct (N.eqb c 102).
  { destruct (read_exact_n 4 s) as [[w r']|] eqn:E; [|exact Herr]. destruct (read_exact_n_asc _ _ _ _ Ha E) as [Hw Hr].
    rewrite (asc_utf8 w Hw). cbn [negb]. destruct (beqs w [97;108;115;101]); [|exact Herr].
    apply IH; [assumption|]. apply Forall_snoc; [assumption|apply headed_const; reflexivity]. }
  destruct (N.eqb c 91).
  { unfold read_balanced. destruct (read_balanced_s 91 93 s 1 0 false []) as [[sv r']|] eqn:E.
    - apply IH; [eapply read_balanced_asc; eauto|]. apply Forall_snoc; [assumption|apply headed_const; reflexivity].
    - unfold asc in Ha. rewrite Ha. exact Herr. }
  destruct (N.eqb c 123).
  { unfold read_balanced. destruct (read_balanced_s 123 125 s 1 0 false []) as [[sv r']|] eqn:E.
    - apply IH; [eapply read_balanced_asc; eauto|]. apply Forall_snoc; [assumption|apply headed_const; reflexivity].
    - unfold asc in Ha. rewrite Ha. exact Herr. }
  destruct (N.eqb c 44); [apply Hsame, Hacc|].
  destruct (is_ascii_digit c || N.eqb c 45) eqn:En.
  { destruct (num_loop_asc (S (length s)) s [c] false false (N.eqb c 45) Ha) as [Hn Hr].
    destruct (num_loop (S (length s)) s [c] false false (N.eqb c 45)) as [tok last r' e| |] eqn:E; [|exact Herr|contradiction].
    destruct (Hr _ _ _ _ eq_refl) as [Hr' [more ->]].
    match goal with |- context [if ?b then (AErr, []) else _] => destruct b end; [exact Herr|].
    assert (Hh : Forall headed (acc ++ [[c] ++ more])) by (apply Forall_snoc; [assumption|apply headed_const, numstart_solid, En]).
    destruct (e || N.eqb last 93).
    - split; [discriminate|]. intros items r H. inversion H; subst. auto.
    - apply IH; assumption. }
  destruct (N.eqb c 13 || N.eqb c 10 || is_ascii_control c); [apply Hsame, Hacc|exact Herr].
Qed.

Lemma open_bracket_ok : forall s, asc s -> fst (open_bracket s) <> APanicUtf8 /\ asc (snd (open_bracket s)).
Proof.
  induction s as [|c s IH]; intro Ha; [split; [discriminate|reflexivity]|].
  apply asc_cons in Ha as [Hc Ha]. cbn [open_bracket]. destruct s as [|d s']; [split; [discriminate|reflexivity]|].
  rewrite Hc. destruct (negb (ws1 c) && negb (N.eqb c 91)); [split; [discriminate|reflexivity]|].
  destruct (N.eqb c 91); [split; [discriminate|exact Ha]|]. apply IH, Ha.
Qed.
Lemma trailing_ws_ok : forall s, asc s -> trailing_ws s <> APanicUtf8.
Proof.
  induction s as [|c s IH]; intro Ha; [discriminate|]. apply asc_cons in Ha as [Hc Ha]. cbn [trailing_ws]. rewrite Hc.
  destruct (ws1 c); [apply IH, Ha|discriminate].
Qed.

(* the splitter never panics, and each token it returns starts with a non-blank character *)
Theorem split_array_total json : split_array json <> APanicUtf8 /\ (forall items, split_array json = AOk items -> Forall headed items).
Proof.
  unfold split_array. destruct (existsb (fun x => N.leb 128 x) json) eqn:Ha; [split; [discriminate|intros; discriminate]|].
  destruct (open_bracket_ok json Ha) as [Ho Hr]. destruct (open_bracket json) as [[its| |] r] eqn:E; cbn [fst snd] in *;
    [|split; [discriminate|intros; discriminate]|contradiction].
  destruct (items_loop_ok (S (length r)) r [] Hr ltac:(constructor)) as [Hi Hk].
  destruct (items_loop (S (length r)) r []) as [[items| |] r'] eqn:E2; cbn [fst] in Hi; [|split; [discriminate|intros; discriminate]|contradiction].
  destruct (Hk items r' eq_refl) as [Hr' Hh]. pose proof (trailing_ws_ok r' Hr') as Ht.
  destruct (trailing_ws r') eqn:E3; [|split; [discriminate|intros; discriminate]|contradiction].
  split; [discriminate|]. intros items' H. inversion H; subst. exact Hh.
Qed.

(* the typed readers *)
Lemma all_ok_nopanic {A B} (f : A -> rtres B) (P : A -> Prop) l : (forall x, P x -> f x <> RtPanic) -> Forall P l -> all_ok f l <> RtPanic.
Proof.
  intros Hf Hl. induction Hl as [|x l Hx Hl IH]; [discriminate|]. cbn [all_ok]. specialize (Hf x Hx).
  destruct (f x); [|discriminate|contradiction]. destruct (all_ok f l); [discriminate|discriminate|contradiction].
Qed.
Lemma headed_trim it : headed it -> trim it <> [].
Proof.
  intros (c & r & -> & Hc) E. pose proof (csolid_trim (c :: r)) as H. rewrite E in H. rewrite csolid_cons, Hc in H. cbn in H. lia.
Qed.
Lemma typed_list_nopanic {B} (f : list N -> rtres B) raw : (forall it, headed it -> f it <> RtPanic) -> typed_list f raw <> RtPanic.
Proof.
  intro Hf. unfold typed_list. destruct (split_array_total raw) as [Hp Hh]. destruct (split_array raw) as [items| |]; cbn [of_ares]; [|discriminate|contradiction].
  apply (all_ok_nopanic f headed); [exact Hf|apply Hh; reflexivity].
Qed.
Theorem typed_read_total k raw : typed_read k raw <> RtPanic.
Proof.
  assert (M : forall A B (g : A -> B) (r : rtres A), r <> RtPanic -> map_rt g r <> RtPanic) by (intros A B g [a| |] H; [discriminate|discriminate|contradiction]).
  destruct k as [w| | | |]; cbn [typed_read]; apply M, typed_list_nopanic; intros it Hh.
  - unfold read_int. destruct (parse_int w it); discriminate.
  - unfold read_float. destruct (f64_ok it); discriminate.
  - unfold read_str. pose proof (headed_trim it Hh) as Ht. destruct (trim it) as [|c t]; [contradiction|].
    destruct (N.eqb c QUOTE && ends1 (c :: t) QUOTE); discriminate.
  - unfold read_bool. destruct (beqs it TRUE_S); [discriminate|]. destruct (beqs it FALSE_S); discriminate.
  - unfold read_null. destruct (beqs (trim it) NULL_S); discriminate.
Qed.

(* ContentDisposition::parse: parts.get(0).unwrap() - str::split always yields at least one piece *)
Theorem cd_first_piece raw : split raw [59] <> [].
Proof. unfold split. apply split_aux_nonempty. Qed.

(* ---------- UrlPath ---------- *)
Definition part_wf (p : upart) : Prop :=
  if up_static p then exists c r, up_pat p = Some (c :: r) else exists k, up_name p = Some k.
(* static and token parts alternate *)
Fixpoint alt (ps : list upart) : Prop :=
  match ps with
  | [] => True
  | p :: r => match r with [] => True | q :: _ => up_static p <> up_static q end /\ alt r
  end.
Definition last_static (ps : list upart) : option bool := match rev ps with p :: _ => Some (up_static p) | [] => None end.
Lemma last_static_snoc ps p : last_static (ps ++ [p]) = Some (up_static p).
Proof. unfold last_static. rewrite rev_app_distr. reflexivity. Qed.
Lemma alt_snoc ps p : alt ps -> last_static ps <> Some (up_static p) -> alt (ps ++ [p]).
Proof.
  induction ps as [|a ps IH]; intros Ha Hl; [cbn; auto|].
  destruct ps as [|b ps].
  - cbn [app alt]. split; [|cbn; auto]. intro E. apply Hl. unfold last_static. cbn. rewrite E. reflexivity.
  - destruct Ha as [Hab Ha]. change ((a :: b :: ps) ++ [p]) with (a :: (b :: ps) ++ [p]). split; [exact Hab|].
    apply IH; [exact Ha|]. intro E. apply Hl. unfold last_static in *. cbn [rev] in *.
    destruct (rev ps ++ [b]) as [|x l] eqn:Er; [destruct (rev ps); discriminate|]. cbn [app]. cbn [app] in E. exact E.
Qed.
Lemma last_is_token_spec ps : last_is_token ps = match last_static ps with Some false => true | _ => false end.
Proof. unfold last_is_token, last_static. destruct (rev ps) as [|p l]; [reflexivity|]. destruct (up_static p); reflexivity. Qed.

(* the invariant of the pattern loop *)
Definition pat_inv (parts : list upart) (buf : list N) (prev : option N) (opened : bool) : Prop :=
  Forall part_wf parts /\ alt parts /\
  (if opened then last_static parts <> Some false else last_static parts <> Some true) /\
  (opened = true -> buf = [] -> prev = Some 91).

Lemma static_wf pat : pat <> [] -> part_wf (static_part pat).
Proof. intro H. unfold part_wf, static_part. cbn. destruct pat as [|c r]; [contradiction|eauto]. Qed.
Lemma token_wf k : part_wf (token_part k).
Proof. unfold part_wf, token_part. cbn. eauto. Qed.

Lemma pat_loop_ok : forall cs parts buf prev opened, pat_inv parts buf prev opened ->
  pat_loop cs parts buf prev opened <> URPanic /\
  (forall ps, pat_loop cs parts buf prev opened = UROk ps -> Forall part_wf ps /\ alt ps).
Proof.
  induction cs as [|c cs IH]; intros parts buf prev opened (Hwf & Halt & Hlast & Hbuf).
  - cbn [pat_loop]. destruct opened; [split; [discriminate|intros; discriminate]|]. split; [discriminate|].
    intros ps H. inversion H; subst. destruct buf as [|b buf]; [auto|]. split.
    + apply Forall_snoc; [assumption|apply static_wf; discriminate].
    + apply alt_snoc; [assumption|exact Hlast].
  - cbn [pat_loop]. destruct (cp_bad c); [split; [discriminate|intros; discriminate]|].
    destruct (N.eqb c 91 && prev_is prev 91) eqn:E1.
    + destruct opened; [split; [discriminate|intros; discriminate]|].
      set (parts1 := if Nat.leb 2 (length (buf ++ [c])) then match firstn (length (buf ++ [c]) - 2) (buf ++ [c]) with [] => parts | pat => parts ++ [static_part pat] end else parts).
      assert (H1 : Forall part_wf parts1 /\ alt parts1 /\ (last_static parts1 = last_static parts \/ last_static parts1 = Some true)).
      { unfold parts1. destruct (Nat.leb 2 (length (buf ++ [c]))); [|auto]. destruct (firstn (length (buf ++ [c]) - 2) (buf ++ [c])) as [|x pat] eqn:Ef; [auto|].
        split; [apply Forall_snoc; [assumption|apply static_wf; discriminate]|]. split; [apply alt_snoc; [assumption|exact Hlast]|]. right. apply last_static_snoc. }
      destruct H1 as (W1 & A1 & L1). rewrite last_is_token_spec.
      destruct (last_static parts1) as [[|]|] eqn:El; [| split; [discriminate|intros; discriminate] |].
      * apply IH. repeat split; auto; [rewrite El; discriminate|]. intros _ _. apply andb_prop in E1 as [E1 _]. apply N.eqb_eq in E1. subst c. reflexivity.
      * apply IH. repeat split; auto; [rewrite El; discriminate|]. intros _ _. apply andb_prop in E1 as [E1 _]. apply N.eqb_eq in E1. subst c. reflexivity.
    + destruct (N.eqb c 93 && prev_is prev 93) eqn:E2.
      * destruct opened; cbn [negb]; [|split; [discriminate|intros; discriminate]].
        assert (Hlen : Nat.ltb (length (buf ++ [c])) 2 = false).
        { apply Nat.ltb_ge. rewrite app_length. cbn [length]. destruct buf as [|b buf]; [|cbn [length]; lia].
          exfalso. specialize (Hbuf eq_refl eq_refl). subst prev. apply andb_prop in E2 as [_ E2]. discriminate. }
        rewrite Hlen. apply IH. repeat split.
        -- apply Forall_snoc; [assumption|apply token_wf].
        -- apply alt_snoc; [assumption|exact Hlast].
        -- rewrite last_static_snoc. discriminate.
        -- discriminate.
      * apply IH. repeat split; auto. intros _ Hb. destruct buf; discriminate.
Qed.
Theorem pattern_parts_total pattern : pattern_parts pattern <> URPanic /\ (forall ps, pattern_parts pattern = UROk ps -> Forall part_wf ps /\ alt ps).
Proof. apply pat_loop_ok. repeat split; [constructor|discriminate|discriminate]. Qed.

Lemma alt_tail p r : alt (p :: r) -> alt r.
Proof. intros [_ H]. exact H. Qed.
Lemma match_loop_ok : forall parts path, Forall part_wf parts -> alt parts -> match_loop parts path <> URPanic.
Proof.
  induction parts as [|p rest IH]; intros path Hwf Halt; [discriminate|].
  inversion Hwf as [|? ? Hp Hrest]; subst. cbn [match_loop]. unfold part_wf in Hp.
  destruct (up_static p) eqn:Es.
  - destruct Hp as (c & r & ->). destruct (prefixb (c :: r) path); [apply IH; [assumption|eapply alt_tail; eauto]|discriminate].
  - destruct rest as [|nx rest']; [discriminate|]. destruct Halt as [Hne Halt]. rewrite Es in Hne.
    inversion Hrest as [|? ? Hnx _]; subst. unfold part_wf in Hnx. destruct (up_static nx); [|contradiction].
    destruct Hnx as (d & r & ->). destruct (before d path); [apply IH; assumption|discriminate].
Qed.
Theorem is_matching_total path pattern : is_matching path pattern <> URPanic.
Proof.
  unfold is_matching. destruct (existsb cp_bad path); [discriminate|].
  destruct (pattern_parts_total pattern) as [Hn Hk]. destruct (pattern_parts pattern) as [ps| |]; [|discriminate|contradiction].
  destruct (Hk ps eq_refl). apply match_loop_ok; assumption.
Qed.

Definition valued_token (p : upart) : Prop := exists k v, up_name p = Some k /\ up_value p = Some v.
Lemma ext_loop_ok : forall parts prev path acc, Forall part_wf parts -> alt parts ->
  (match prev, parts with Some pp, p :: _ => up_static pp <> up_static p /\ part_wf pp | _, _ => True end) ->
  Forall valued_token acc ->
  ext_loop parts prev path acc <> URPanic /\ (forall rs, ext_loop parts prev path acc = UROk rs -> Forall valued_token rs).
Proof.
  induction parts as [|p rest IH]; intros prev path acc Hwf Halt Hprev Hacc.
  - split; [discriminate|]. intros rs H. inversion H; subst. exact Hacc.
  - inversion Hwf as [|? ? Hp Hrest]; subst. cbn [ext_loop]. pose proof Hp as Hp0. unfold part_wf in Hp.
    assert (Hnext : match rest with q :: _ => up_static p <> up_static q /\ part_wf p | [] => True end).
    { destruct rest as [|q rest']; [exact I|]. destruct Halt as [Hne _]. auto. }
    destruct (up_static p) eqn:Es.
    + destruct Hp as (c & r & Ep). rewrite Ep.
      destruct prev as [pp|].
      * destruct Hprev as [Hne Hpp]. unfold part_wf in Hpp. destruct (up_static pp); [contradiction|]. destruct Hpp as [k Ek].
        destruct (span_until c path) as [tok rest_path]. destruct (prefixb (c :: r) rest_path); [|split; [discriminate|intros; discriminate]].
        apply IH; [assumption|eapply alt_tail; eauto| |].
        -- destruct rest; [exact I|]. rewrite Es. exact Hnext.
        -- apply Forall_snoc; [assumption|]. exists k, tok. unfold with_value. cbn. auto.
      * destruct (prefixb (c :: r) path); [|split; [discriminate|intros; discriminate]].
        apply IH; [assumption|eapply alt_tail; eauto| |assumption]. destruct rest; [exact I|]. rewrite Es. exact Hnext.
    + destruct Hp as [k Ek]. apply IH; [assumption|eapply alt_tail; eauto| |].
      * destruct rest; [exact I|]. rewrite Es. exact Hnext.
      * destruct rest; [|assumption]. apply Forall_snoc; [assumption|]. exists k, path. unfold with_value. cbn. auto.
Qed.
Lemma to_map_ok : forall ps m, Forall valued_token ps -> to_map ps m <> URPanic.
Proof.
  induction ps as [|p r IH]; intros m H; [discriminate|]. inversion H as [|? ? (k & v & Ek & Ev) Hr]; subst.
  cbn [to_map]. rewrite Ek, Ev. apply IH, Hr.
Qed.
Theorem extract_total path pattern : extract path pattern <> URPanic.
Proof.
  unfold extract. destruct (pattern_parts_total pattern) as [Hn Hk]. destruct (pattern_parts pattern) as [ps| |]; [|discriminate|contradiction].
  destruct (Hk ps eq_refl) as [Hwf Halt].
  destruct (ext_loop_ok ps None path [] Hwf Halt I ltac:(constructor)) as [He Hr].
  destruct (ext_loop ps None path []) as [rs| |]; [|discriminate|contradiction]. apply to_map_ok, Hr. reflexivity.
Qed.
Lemma build_loop_ok : forall parts params, Forall part_wf parts -> build_loop parts params <> URPanic.
Proof.
  induction parts as [|p r IH]; intros params H; [discriminate|]. inversion H as [|? ? Hp Hr]; subst. cbn [build_loop]. unfold part_wf in Hp.
  specialize (IH params Hr).
  destruct (up_static p).
  - destruct Hp as (c & t & ->). destruct (build_loop r params); [discriminate|discriminate|contradiction].
  - destruct Hp as [k ->]. destruct (lookup k params); [|discriminate]. destruct (build_loop r params); [discriminate|discriminate|contradiction].
Qed.
Theorem build_total params pattern : build params pattern <> URPanic.
Proof.
  unfold build. destruct (pattern_parts_total pattern) as [Hn Hk]. destruct (pattern_parts pattern) as [ps| |]; [|discriminate|contradiction].
  apply build_loop_ok. apply (Hk ps eq_refl).
Qed.

(* ---------- termination: the fuel of the JSON loops is never what ends them ---------- *)
Lemma read_until_len d : forall s, (length (snd (read_until d s)) <= length s)%nat.
Proof.
  induction s as [|c s IH]; [cbn; lia|]. cbn [read_until]. destruct (N.eqb c d); [cbn; lia|].
  destruct (read_until d s) as [a b']. cbn [snd length] in *. lia.
Qed.
Lemma skip_ws_len : forall s c r, skip_ws s = JOk (c, r) -> (length r < length s)%nat.
Proof.
  induction s as [|x s IH]; intros c r H; [discriminate|]. cbn [skip_ws] in H. destruct (N.leb 128 x); [discriminate|].
  destruct (is_ws_ctl x); [specialize (IH _ _ H); cbn [length]; lia|]. inversion H; subst. cbn [length]. lia.
Qed.
Lemma read_string_len : forall s last acc sv r, read_string s last acc = JOk (sv, r) -> (length r < length s)%nat.
Proof.
  induction s as [|c s IH]; intros last acc sv r H; [discriminate|]. cbn [read_string] in H. destruct (N.leb 128 c); [discriminate|].
  destruct (N.eqb c QUOTE || N.eqb last 92); [inversion H; subst; cbn [length]; lia|]. specialize (IH _ _ _ _ H). cbn [length]. lia.
Qed.
Lemma read_exact_n_len : forall n s w r, read_exact_n n s = Some (w, r) -> (length r <= length s)%nat.
Proof.
  induction n as [|n IH]; intros s w r H; [cbn in H; inversion H; subst; lia|]. cbn [read_exact_n] in H.
  destruct s as [|c s]; [discriminate|]. destruct (read_exact_n n s) as [[a b']|] eqn:E; [|discriminate]. inversion H; subst.
  specialize (IH _ _ _ E). cbn [length]. lia.
Qed.
Lemma read_balanced_len op cl : forall s o k ins acc sv r, read_balanced_s op cl s o k ins acc = JOk (sv, r) -> (length r < length s)%nat.
Proof.
  induction s as [|c s IH]; intros o k ins acc sv r H; [discriminate|]. cbn [read_balanced_s] in H. destruct (N.leb 128 c); [discriminate|].
  match type of H with (if ?b then _ else _) = _ => destruct b end; [inversion H; subst; cbn [length]; lia|]. specialize (IH _ _ _ _ _ _ H). cbn [length]. lia.
Qed.
Lemma read_number_len : forall s acc num r comma, read_number s acc = JOk (num, r, comma) -> (length r < length s)%nat.
Proof.
  induction s as [|c s IH]; intros acc num r comma H; [discriminate|]. cbn [read_number] in H. destruct (N.leb 128 c); [discriminate|].
  destruct (N.eqb c 13 || N.eqb c 10 || N.eqb c 32); [specialize (IH _ _ _ _ H); cbn [length]; lia|].
  destruct (is_ascii_digit c || N.eqb c 46 || N.eqb c 101 || N.eqb c 45); [specialize (IH _ _ _ _ H); cbn [length]; lia|].
  destruct (N.eqb c 125); [inversion H; subst; cbn [length]; lia|]. destruct (N.eqb c 44); [inversion H; subst; cbn [length]; lia|discriminate].
Qed.
Lemma tail_till_comma_len s r d : tail_till_comma s = JOk (r, d) -> (length r <= length s)%nat.
Proof.
  unfold tail_till_comma. pose proof (read_until_len 44 s) as H. destruct (read_until 44 s) as [buf rest']. cbn [snd] in H.
  destruct (negb (utf8_valid buf)); [discriminate|]. match goal with |- (if ?b then _ else _) = _ -> _ => destruct b end; [discriminate|].
  intro E. inversion E; subst. exact H.
Qed.
Lemma read_key_len first rest kv1 v r4 : read_key first rest = KOk kv1 v r4 -> (length r4 < length rest)%nat.
Proof.
  unfold read_key. pose proof (read_until_len QUOTE rest) as H1. destruct (read_until QUOTE rest) as [b1 r1]. cbn [snd] in H1.
  destruct (negb (utf8_valid b1)); [discriminate|]. destruct (first && beqs (filter_ascii_control b1) [125]); [discriminate|].
  destruct (negb (beqs (filter_ascii_control b1) [QUOTE])); [discriminate|].
  pose proof (read_until_len QUOTE r1) as H2. destruct (read_until QUOTE r1) as [b2 r2]. cbn [snd] in H2.
  destruct (negb (utf8_valid b2)); [discriminate|]. destruct (skip_ws r2) as [[c r3]|] eqn:E1; [|discriminate].
  destruct (negb (N.eqb c 58)); [discriminate|]. destruct (skip_ws r3) as [[v' r4']|] eqn:E2; [|discriminate].
  intro E. inversion E; subst. apply skip_ws_len in E1, E2. lia.
Qed.
Lemma read_value_len kv1 v r4 kv rest' fin : read_value kv1 v r4 = JOk (kv, rest', fin) -> (length rest' <= length r4)%nat.
Proof.
  unfold read_value.
  assert (T : forall kv0 r5, (length r5 <= length r4)%nat ->
              match tail_till_comma r5 with JErr => JErr | JOk (r', done) => JOk (kv0, r', done) end = JOk (kv, rest', fin) -> (length rest' <= length r4)%nat).
  { intros kv0 r5 Hl E. destruct (tail_till_comma r5) as [[r' d]|] eqn:Et; [|discriminate]. inversion E; subst. apply tail_till_comma_len in Et. lia. }
  destruct (N.eqb v QUOTE).
  { destruct (read_string r4 QUOTE []) as [[s r5]|] eqn:E; [|discriminate]. apply T. apply read_string_len in E. lia. }
  destruct (N.eqb v 110).
  { destruct (read_exact_n 3 r4) as [[w r5]|] eqn:E; [|discriminate]. destruct (utf8_valid w && beqs w [117;108;108]); [|discriminate]. apply T. eapply read_exact_n_len; eauto. }
  destruct (N.eqb v 116).
  { destruct (read_exact_n 3 r4) as [[w r5]|] eqn:E; [|discriminate]. destruct (utf8_valid w && beqs w [114;117;101]); [|discriminate]. apply T. eapply read_exact_n_len; eauto. }
  destruct (N.eqb v 102).
  { destruct (read_exact_n 4 r4) as [[w r5]|] eqn:E; [|discriminate]. destruct (utf8_valid w && beqs w [97;108;115;101]); [|discriminate]. apply T. eapply read_exact_n_len; eauto. }
  destruct (N.eqb v 91).
  { unfold read_balanced. destruct (read_balanced_s 91 93 r4 1 0 false []) as [[s r5]|] eqn:E; [|discriminate]. apply T. apply read_balanced_len in E. lia. }
  destruct (N.eqb v 123).
  { unfold read_balanced. destruct (read_balanced_s 123 125 r4 1 0 false []) as [[s r5]|] eqn:E; [|discriminate]. apply T. apply read_balanced_len in E. lia. }
  destruct (is_ascii_digit v || N.eqb v 45); [|discriminate].
  destruct (read_number r4 [v]) as [[[num r5] comma]|] eqn:E; [|discriminate]. apply read_number_len in E.
  destruct comma; [intro H; inversion H; subst; lia|].
  pose proof (read_until_len 44 r5) as Hu. destruct (read_until 44 r5) as [x r6]. cbn [snd] in Hu. intro H. inversion H; subst. lia.
Qed.

(* any two amounts of fuel above the length of the text give the same result: the object scanner stops because the text is used up *)
Theorem props_loop_fuel : forall f1 f2 rest acc, (length rest < f1)%nat -> (length rest < f2)%nat -> props_loop f1 rest acc = props_loop f2 rest acc.
Proof.
  induction f1 as [|f1 IH]; intros f2 rest acc H1 H2; [lia|]. destruct f2 as [|f2]; [lia|].
  cbn [props_loop]. destruct (read_key _ rest) as [kv1 v r4| |] eqn:Ek; [|reflexivity|reflexivity].
  destruct (read_value kv1 v r4) as [[[kv rest'] fin]|] eqn:Ev; [|reflexivity].
  destruct (property_parse kv) as [p|]; [|reflexivity]. destruct fin; [reflexivity|].
  apply read_key_len in Ek. apply read_value_len in Ev. apply IH; lia.
Qed.
Theorem parse_as_properties_fuel json k : let (b0, r0) := read_until 123 json in
  utf8_valid b0 = true -> parse_as_properties json = props_loop (S (length json) + k) r0 [].
Proof.
  unfold parse_as_properties. pose proof (read_until_len 123 json) as H. destruct (read_until 123 json) as [b0 r0]. cbn [snd] in H.
  intro Hu. rewrite Hu. cbn [negb]. apply props_loop_fuel; lia.
Qed.

Lemma ws_then_sep_len s sep r : ws_then_sep s = inl (Some (sep, r)) -> (length r < length s)%nat.
Proof.
  destruct s as [|c s]; [discriminate|]. cbn [ws_then_sep]. destruct (N.leb 128 c); [discriminate|].
  destruct (N.eqb c 44); [intro H; inversion H; subst; cbn [length]; lia|]. destruct (N.eqb c 93); [intro H; inversion H; subst; cbn [length]; lia|discriminate].
Qed.
Theorem num_loop_fuel : forall f1 f2 s tok pt ex mi, (length s < f1)%nat -> (length s < f2)%nat ->
  num_loop f1 s tok pt ex mi = num_loop f2 s tok pt ex mi.
Proof.
  induction f1 as [|f1 IH]; intros f2 s tok pt ex mi H1 H2; [lia|]. destruct f2 as [|f2]; [lia|].
  cbn [num_loop]. destruct s as [|c s]; [reflexivity|]. cbn [length] in *.
  destruct (N.leb 128 c); [reflexivity|]. destruct (N.eqb c 46 && pt); [reflexivity|]. destruct (N.eqb c 101 && ex); [reflexivity|].
  destruct (N.eqb c 45 && mi); [reflexivity|]. destruct (N.eqb c 32); [reflexivity|].
  match goal with |- context [if ?b then num_loop f1 _ _ _ _ _ else _] => destruct b end; [apply IH; lia|reflexivity].
Qed.
Lemma num_loop_len : forall f s tok pt ex mi tok' last r e, num_loop f s tok pt ex mi = NOk tok' last r e -> (length r < length s)%nat.
Proof.
  induction f as [|f IH]; intros s tok pt ex mi tok' last r e H; [discriminate|]. cbn [num_loop] in H. destruct s as [|c s]; [discriminate|].
  destruct (N.leb 128 c); [discriminate|]. destruct (N.eqb c 46 && pt); [discriminate|]. destruct (N.eqb c 101 && ex); [discriminate|].
  destruct (N.eqb c 45 && mi); [discriminate|]. destruct (N.eqb c 32).
  - destruct (ws_then_sep s) as [[[sep r']|]|b] eqn:E; try discriminate. inversion H; subst. apply ws_then_sep_len in E. cbn [length]. lia.
  - match type of H with (if ?b then _ else _) = _ => destruct b end.
    + specialize (IH _ _ _ _ _ _ _ _ _ H). cbn [length]. lia.
    + match type of H with (if ?b then _ else _) = _ => destruct b end; [discriminate|]. inversion H; subst. cbn [length]. lia.
Qed.
Theorem items_loop_fuel : forall f1 f2 s acc, (length s < f1)%nat -> (length s < f2)%nat -> items_loop f1 s acc = items_loop f2 s acc.
Proof.
  induction f1 as [|f1 IH]; intros f2 s acc H1 H2; [lia|]. destruct f2 as [|f2]; [lia|].
  cbn [items_loop]. destruct s as [|c s]; [reflexivity|]. cbn [length] in *.
  destruct (N.leb 128 c); [reflexivity|]. destruct (N.eqb c 93); [reflexivity|]. destruct (N.eqb c 32); [apply IH; lia|].
  destruct (N.eqb c QUOTE). { destruct (read_string s QUOTE []) as [[sv r']|] eqn:E; [|reflexivity]. apply read_string_len in E. apply IH; lia. }
  destruct (N.eqb c 110). { destruct (read_exact_n 3 s) as [[w r']|] eqn:E; [|reflexivity]. apply read_exact_n_len in E. destruct (negb (utf8_valid w)); [reflexivity|]. destruct (beqs w [117;108;108]); [apply IH; lia|reflexivity]. }
  destruct (N.eqb c 116). { destruct (read_exact_n 3 s) as [[w r']|] eqn:E; [|reflexivity]. apply read_exact_n_len in E. destruct (negb (utf8_valid w)); [reflexivity|]. destruct (beqs w [114;117;101]); [apply IH; lia|reflexivity]. }
  destruct (N.eqb c 102). { destruct (read_exact_n 4 s) as [[w r']|] eqn:E; [|reflexivity]. apply read_exact_n_len in E. destruct (negb (utf8_valid w)); [reflexivity|]. destruct (beqs w [97;108;115;101]); [apply IH; lia|reflexivity]. }
  destruct (N.eqb c 91). { unfold read_balanced. destruct (read_balanced_s 91 93 s 1 0 false []) as [[sv r']|] eqn:E; [|reflexivity]. apply read_balanced_len in E. apply IH; lia. }
  destruct (N.eqb c 123). { unfold read_balanced. destruct (read_balanced_s 123 125 s 1 0 false []) as [[sv r']|] eqn:E; [|reflexivity]. apply read_balanced_len in E. apply IH; lia. }
  destruct (N.eqb c 44); [apply IH; lia|].
  destruct (is_ascii_digit c || N.eqb c 45).
  { destruct (num_loop (S (length s)) s [c] false false (N.eqb c 45)) as [tok last r' e| |] eqn:E; [|reflexivity|reflexivity].
    apply num_loop_len in E. match goal with |- context [if ?b then (AErr, []) else _] => destruct b end; [reflexivity|].
    destruct (e || N.eqb last 93); [reflexivity|]. apply IH; lia. }
  destruct (N.eqb c 13 || N.eqb c 10 || is_ascii_control c); [apply IH; lia|reflexivity].
Qed.
