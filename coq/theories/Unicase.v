(* str::to_lowercase / to_uppercase on UTF-8 bytes.  ASCII letters are mapped directly; every other character is looked up, by its UTF-8
   byte sequence, in the tables regenerated from the toolchain's std (GenUnicase: char::to_lowercase / to_uppercase for every scalar
   value).  The one context-dependent rule of str::to_lowercase is modelled too: a capital sigma becomes the final small sigma when -
   skipping case-ignorable characters - a cased character precedes it and none follows; the two character classes are regenerated from
   the toolchain as ranges of code points (GenUnicase.ci_ranges, cased_ranges). *)
From Rws Require Import Str Utf8 GenUnicase.
Open Scope N_scope.

(* the length of the UTF-8 sequence a lead byte announces *)
Definition seq_len (c : N) : nat := if N.ltb c 128 then 1%nat else if N.ltb c 224 then 2%nat else if N.ltb c 240 then 3%nat else 4%nat.
Definition tab_find (tab : list (list N * list N)) (k : list N) : list N :=
  match find (fun e => beqs (fst e) k) tab with Some e => snd e | None => k end.
(* the code point of one UTF-8 sequence *)
Definition cp (k : list N) : N :=
  match k with
  | [a] => a
  | [a; b] => (a - 192) * 64 + (b - 128)
  | [a; b; c] => (a - 224) * 4096 + (b - 128) * 64 + (c - 128)
  | [a; b; c; d] => (a - 240) * 262144 + (b - 128) * 4096 + (c - 128) * 64 + (d - 128)
  | _ => 0
  end.
Definition in_ranges (t : list (N * N)) (x : N) : bool := existsb (fun r => N.leb (fst r) x && N.leb x (snd r)) t.
Fixpoint chars (fuel : nat) (s : list N) : list (list N) :=
  match fuel with O => [] | S f =>
  match s with [] => [] | c :: _ => let n := seq_len c in firstn n s :: chars f (skipn n s) end end.
(* std's case_ignorable_then_cased: skip the case-ignorable characters, the next one decides *)
Fixpoint ci_then_cased (cs : list (list N)) : bool :=
  match cs with
  | [] => false
  | k :: r => if in_ranges ci_ranges (cp k) then ci_then_cased r else in_ranges cased_ranges (cp k)
  end.
Definition SIGMA : list N := [206; 163].
Definition SIGMA_FINAL : list N := [207; 130].
Definition SIGMA_SMALL : list N := [207; 131].
(* sig: apply the sigma rule (lower-casing only); before: the characters already passed, nearest first *)
Fixpoint map_case (fuel : nat) (sig : bool) (tab : list (list N * list N)) (asc : N -> N) (before : list (list N)) (s : list N) : list N :=
  match fuel with O => s | S f =>
  match s with
  | [] => []
  | c :: r => if N.ltb c 128 then asc c :: map_case f sig tab asc ([c] :: before) r
              else let n := seq_len c in let k := firstn n s in let rest := skipn n s in
                   (if sig && beqs k SIGMA
                    then (if ci_then_cased before && negb (ci_then_cased (chars (length rest) rest)) then SIGMA_FINAL else SIGMA_SMALL)
                    else tab_find tab k) ++ map_case f sig tab asc (k :: before) rest
  end end.
(* strings of ASCII bytes take the direct route (the two routes agree on them: map_case_ascii below) *)
Definition ulower (s : list N) : list N := if is_ascii s then lower s else map_case (length s) true lower_tab to_ascii_lower [] s.
Definition uupper (s : list N) : list N := if is_ascii s then upper s else map_case (length s) false upper_tab to_ascii_upper [] s.
