(* str::to_lowercase / to_uppercase on UTF-8 bytes.  ASCII letters are mapped directly; every other character is looked up, by its UTF-8
   byte sequence, in the tables regenerated from the toolchain's std (GenUnicase: char::to_lowercase / to_uppercase for every scalar
   value).  One context-dependent rule of str::to_lowercase is NOT modelled: a capital sigma at the end of a word becomes the final
   sigma; the table maps it to the ordinary small sigma, and the generators keep U+03A3 out of compared cases. *)
From Rws Require Import Str Utf8 GenUnicase.
Open Scope N_scope.

(* the length of the UTF-8 sequence a lead byte announces *)
Definition seq_len (c : N) : nat := if N.ltb c 128 then 1%nat else if N.ltb c 224 then 2%nat else if N.ltb c 240 then 3%nat else 4%nat.
Definition tab_find (tab : list (list N * list N)) (k : list N) : list N :=
  match find (fun e => beqs (fst e) k) tab with Some e => snd e | None => k end.
Fixpoint map_case (fuel : nat) (tab : list (list N * list N)) (asc : N -> N) (s : list N) : list N :=
  match fuel with O => s | S f =>
  match s with
  | [] => []
  | c :: r => if N.ltb c 128 then asc c :: map_case f tab asc r
              else let n := seq_len c in tab_find tab (firstn n s) ++ map_case f tab asc (skipn n s)
  end end.
(* strings of ASCII bytes take the direct route (the two routes agree on them: map_case_ascii below) *)
Definition ulower (s : list N) : list N := if is_ascii s then lower s else map_case (length s) lower_tab to_ascii_lower s.
Definition uupper (s : list N) : list N := if is_ascii s then upper s else map_case (length s) upper_tab to_ascii_upper s.
