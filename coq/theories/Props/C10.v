(* C10 — every response carries the hardening and no-cache headers, each exactly once.  Property theorems only. *)
From Rws Require Import Str Utf8 Num Fs UrlParse RangeSpec Request GenMime Mime StaticRes GenConsts Forms Server C10Proof.
Open Scope N_scope.

(* the six required (name, value) pairs, built from the constants the translator reads out of /repo *)
Definition C10_required : list (list N * list N) := required.

(* the generated constants are the documented header lines *)
Theorem C10_table_is_documented :
  nth_error C10_required 0 = Some lit_nosniff /\ nth_error C10_required 1 = Some lit_sameorigin /\
  nth_error C10_required 3 = Some lit_accept_ranges /\
  (exists v, nth_error C10_required 2 = Some (lit_cache_control_name, v) /\ contains v lit_no_store = true) /\
  (exists v, nth_error C10_required 4 = Some (lit_accept_ch_name, v) /\ v <> []) /\
  (exists v, nth_error C10_required 5 = Some (lit_vary_name, v) /\ starts_with v lit_origin = true).
Proof. exact table_is_documented. Qed.

(* every response either entry point writes — 200, 204, 206, 400 (unparseable input, bad target, failing handler), 404, 416, 500 —
   carries each required header exactly once, with the required value *)
Theorem C10_each_exactly_once : forall lg cfg fs input rs raw ok,
  process_gen lg cfg fs input = Wrote rs raw ok ->
  Forall (fun nv => count_name (fst nv) (all_headers rs) = 1%nat /\ In (H (fst nv) (snd nv)) (all_headers rs)) C10_required.
Proof. exact C10_each_exactly_once. Qed.
Check C10_each_exactly_once : forall lg cfg fs input rs raw ok,
  process_gen lg cfg fs input = Wrote rs raw ok ->
  Forall (fun nv => count_name (fst nv) (all_headers rs) = 1%nat /\ In (H (fst nv) (snd nv)) (all_headers rs)) C10_required.

Theorem C10_handler_error : forall cfg app input rs raw ok,
  (forall r, exists st, app r = SErr st) -> process_with app cfg input = Wrote rs raw ok ->
  Forall (fun nv => count_name (fst nv) (all_headers rs) = 1%nat /\ In (H (fst nv) (snd nv)) (all_headers rs)) C10_required.
Proof. exact C10_handler_error. Qed.

(* the bytes on the wire are exactly status line, those header lines, blank line, body *)
Theorem C10_wire : forall rs meth, exists body,
  generate_response rs meth = HTTP11 ++ [32] ++ show_N (rs_status rs) ++ [32] ++ rs_reason rs ++ CRLF ++
                              flat_map gen_header (all_headers rs) ++ CRLF ++ body.
Proof. exact wire_shape. Qed.
