(* C14 — request parsing accepts exactly well-formed requests and round-trips them.  Property theorems only. *)
From Rws Require Import Str Utf8 Num Unicase Request StrLemmas Utf8Lemmas TrimLemmas RequestProofs StaticRes C14Proof.
Open Scope N_scope.

(* round trip: for every well-formed request value (known method/version, target and method without space, names without ':',
   CR, LF, values without CR/LF - they may contain ": " -, valid UTF-8 head, numeric Content-Length; ANY body bytes),
   parsing the serialisation gives back exactly method, target, version, headers in order and body *)
Theorem C14_roundtrip : forall r, wf_request r ->
  parse_request (generate r) = Ok (mkR (method r) (uri r) (version r) (headers r) (body r)).
Proof. exact C14_roundtrip. Qed.
Check C14_roundtrip : forall r, wf_request r ->
  parse_request (generate r) = Ok (mkR (method r) (uri r) (version r) (headers r) (body r)).

Theorem C14_accept : forall input m u v,
  utf8_valid (fst (split_line input)) = true -> parse_request_line (fst (split_line input)) = Some (m, u, v) ->
  exists hs bd, parse_request input = Ok (mkR m u v hs bd).
Proof. exact accept. Qed.
Theorem C14_request_line_accepts : forall line m u v,
  trim line = m ++ [SP] ++ u ++ [SP] ++ v -> ~ In 32 m -> ~ In 32 u ->
  mem (uupper m) methods = true -> mem (uupper v) versions = true ->
  parse_request_line line = Some (m, u, v).
Proof. exact request_line_accepts. Qed.

Theorem C14_reject_non_utf8 : forall input, utf8_valid (fst (split_line input)) = false -> parse_request input = Err ENotUtf8.
Proof. exact reject_non_utf8. Qed.
Theorem C14_reject_request_line : forall input, utf8_valid (fst (split_line input)) = true ->
  parse_request_line (fst (split_line input)) = None -> parse_request input = Err EReqLine.
Proof. exact reject_request_line. Qed.
Theorem C14_request_line_rejects : forall line,
  (split_once (trim line) [SP] = None) \/
  (exists m rest, split_once (trim line) [SP] = Some (m, rest) /\
     (mem (uupper m) methods = false \/ split_once rest [SP] = None \/
      exists u v, split_once rest [SP] = Some (u, v) /\ mem (uupper v) versions = false)) ->
  parse_request_line line = None.
Proof. exact request_line_rejects. Qed.
Theorem C14_request_line_accept_shape : forall line m u v, parse_request_line line = Some (m, u, v) ->
  exists rest, split_once (trim line) [SP] = Some (m, rest) /\ split_once rest [SP] = Some (u, v) /\
               mem (uupper m) methods = true /\ mem (uupper v) versions = true.
Proof. exact request_line_accept_shape. Qed.

Theorem C14_no_panic : forall input p, parse_request input <> Panic p.
Proof. exact parse_no_panic. Qed.

Theorem C14_lookup_ci : forall r n n', ulower n = ulower n' -> get_header r n = get_header r n'.
Proof. exact lookup_ci. Qed.
Theorem C14_lookup_first : forall r n h, get_header r n = Some h ->
  exists pre post, headers r = pre ++ h :: post /\ ulower (hname h) = ulower n /\ Forall (fun x => ulower (hname x) <> ulower n) pre.
Proof. exact lookup_first. Qed.

Theorem C14_nonvacuous : wf_request ex_req /\ parse_request (generate ex_req) = Ok ex_req.
Proof. exact (conj ex_req_wf ex_req_roundtrips). Qed.
(* C14-F1 (listed finding): "GET  HTTP/1.1" - no target between the two blanks - is not an error; the repository pins this in its own tests *)
Theorem C14_F1_witness : parse_request_line [71;69;84;32;32;72;84;84;80;47;49;46;49;13;10] = Some ([71;69;84], [], [72;84;84;80;47;49;46;49]).
Proof. exact empty_target_witness. Qed.
