(* C09 — HEAD and OPTIONS behave consistently with GET.  Property theorems only. *)
From Rws Require Import Str Utf8 Num Fs UrlParse RangeSpec Request GenMime Mime StaticRes GenConsts Forms Server C09Proof.
Open Scope N_scope.

(* for every configuration, tree, entry point and GET request (any target, any headers) outside the GET-only demo endpoint
   /form-get-method: the response computed for HEAD is the response computed for GET - status, reason, headers and parts *)
Theorem C09_head_as_get : forall lg cfg fs r,
  method r = GET -> form_get_target r = false ->
  app_execute_gen lg cfg fs (with_method HEAD r) = app_execute_gen lg cfg fs r.
Proof. exact head_as_get. Qed.
Check C09_head_as_get : forall lg cfg fs r,
  method r = GET -> form_get_target r = false ->
  app_execute_gen lg cfg fs (with_method HEAD r) = app_execute_gen lg cfg fs r.

(* ... and on the wire the HEAD response is the GET response minus the body (so it carries the GET body's Content-Length) *)
Theorem C09_head_wire : forall rs, generate_response rs GET = generate_response rs HEAD ++ gen_body (rs_ranges rs).
Proof. exact wire_head. Qed.

(* whenever GET is served (200 / 206), OPTIONS is answered with a success status (200 for built-in pages, 204 for files) ... *)
Theorem C09_options_success : forall lg cfg fs r rs,
  method r = GET -> form_get_target r = false ->
  app_execute_gen lg cfg fs r = SOk rs -> served (rs_status rs) = true ->
  exists rs', app_execute_gen lg cfg fs (with_method OPTIONS r) = SOk rs' /\ success_no_content (rs_status rs') = true.
Proof. exact options_success. Qed.
(* ... without a body ... *)
Theorem C09_options_bodiless : forall rs, generate_response rs OPTIONS = generate_response rs HEAD.
Proof. exact wire_options_bodiless. Qed.
(* ... and its headers start with the cross-origin grants computed for the OPTIONS request (which C11 characterises) *)
Theorem C09_options_grants : forall lg cfg fs r rs',
  app_execute_gen lg cfg fs (with_method OPTIONS r) = SOk rs' ->
  exists rest, rs_headers rs' = cors_headers (cf_cors cfg) (with_method OPTIONS r) ++ rest.
Proof. exact options_grants. Qed.

Theorem C09_nonvacuous :
  (exists rs, app_execute_gen false C01Process.cfg0 fs0 (rq GET [47;97;46;116;120;116]) = SOk rs /\ rs_status rs = 200 /\
              app_execute_gen false C01Process.cfg0 fs0 (rq HEAD [47;97;46;116;120;116]) = SOk rs) /\
  (exists rs', app_execute_gen false C01Process.cfg0 fs0 (rq OPTIONS [47;97;46;116;120;116]) = SOk rs' /\ rs_status rs' = 204).
Proof. exact triple_a_txt. Qed.
