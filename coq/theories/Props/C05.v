(* C05 — responses are well-formed, self-consistent HTTP and delivered in full.  Property theorems only. *)
From Rws Require Import Str Utf8 Num Fs UrlParse RangeSpec Request GenMime Mime StaticRes GenConsts Forms Server C10Proof C05Proof.
Open Scope N_scope.

(* the wire form: status line, header lines "name: value", blank line, body; no body for HEAD and OPTIONS *)
Theorem C05_wire_form : forall rs meth,
  generate_response rs meth = HTTP11 ++ [32] ++ show_N (rs_status rs) ++ [32] ++ rs_reason rs ++ CRLF ++
     flat_map (fun h => hname h ++ COLON_SP ++ hvalue h ++ CRLF) (all_headers rs) ++ CRLF ++
     (if beqs meth HEAD || beqs meth OPTIONS then [] else gen_body (rs_ranges rs)).
Proof. exact (fun rs meth => eq_refl). Qed.

(* the status line carries a registered code with that code's IANA reason phrase *)
Theorem C05_status_line : forall lg cfg fs input rs raw ok, process_gen lg cfg fs input = Wrote rs raw ok ->
  In (rs_status rs) used_statuses /\ rs_reason rs = reason (rs_status rs).
Proof. exact status_line_ok. Qed.
Theorem C05_reasons_are_iana : forallb (fun cp => beqs (reason (fst cp)) (snd cp)) iana_used = true /\ map fst iana_used = used_statuses.
Proof. exact reasons_are_iana. Qed.

(* no header line of any response contains CR or LF in its name or value - whatever the client sent (configuration strings and the
   timestamp are assumed free of line breaks): client text can neither add nor split header lines *)
Theorem C05_no_injection : forall lg cfg fs input rs raw ok,
  cfg_clean cfg = true -> process_gen lg cfg fs input = Wrote rs raw ok -> forallb hclean (all_headers rs) = true.
Proof. exact response_headers_clean. Qed.
Check C05_no_injection : forall lg cfg fs input rs raw ok,
  cfg_clean cfg = true -> process_gen lg cfg fs input = Wrote rs raw ok -> forallb hclean (all_headers rs) = true.
(* ... because the request parser strips both bytes from every header name and value it returns *)
Theorem C05_parsed_headers_clean : forall input r, parse_request input = Ok r -> forallb hclean (headers r) = true.
Proof. exact parsed_headers_clean. Qed.
(* ... and the set of header lines is the default list, optionally Last-Modified, and the derived framing headers *)
Theorem C05_header_list_form : forall lg cfg fs r rs, app_execute_gen lg cfg fs r = SOk rs ->
  rs_headers rs = default_headers cfg r \/ rs_headers rs = default_headers cfg r ++ [H Hd_LAST_MODIFIED_UNIX_EPOCH_NANOS []].
Proof. exact hform_execute. Qed.

(* framing headers: Content-Length / Content-Type / Content-Range come only from the parts and at most once each;
   Content-Length is the decimal number of body bytes, and that decimal parses back to the number *)
Theorem C05_framing_headers_once : forall lg cfg fs r rs, app_execute_gen lg cfg fs r = SOk rs ->
  forall n, mem n [Hd_CONTENT_LENGTH; Hd_CONTENT_TYPE; Hd_CONTENT_RANGE] = true ->
  count_name n (all_headers rs) = count_name n (derived_headers (rs_ranges rs)) /\ (count_name n (derived_headers (rs_ranges rs)) <= 1)%nat.
Proof. exact framing_headers. Qed.
Theorem C05_content_length_is_body_length : forall rs v, In (H Hd_CONTENT_LENGTH v) (derived_headers (rs_ranges rs)) ->
  v = show_N (N.of_nat (length (gen_body (rs_ranges rs)))).
Proof. exact content_length_is_body_length. Qed.
Theorem C05_decimal_is_right : forall n, n < 10 ^ 80 -> digits_val 0 (show_N n) = Some n.
Proof. exact show_N_parses. Qed.

(* delivery: write_all (fix ad85a8c) hands over every byte under every pattern of short writes; the single write did not *)
Theorem C05_write_all_delivers : forall accept, (forall k, 0 < accept k)%nat ->
  forall fuel k buf, (length buf < fuel)%nat -> write_all fuel accept k buf = (buf, true).
Proof. exact write_all_delivers. Qed.
Theorem C05_single_write_refuted : exists accept buf, (forall k, 0 < accept k)%nat /\ write_once accept buf <> buf.
Proof. exact write_once_loses. Qed.
