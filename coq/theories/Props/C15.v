(* C15 — responses written by the library can be read back by it.  Property theorems only.
   FULL statement: for both serialisers S and every response r with a registered status and its phrase, well-formed headers, one part
   or 2..n parts whose bodies contain no line containing the boundary token:  response_parse (S r) = POk r' with r' = r up to the
   derived headers.  PROVED for one part (C15_single_part_round_trip: every status of the regenerated table, any header list, any body
   bytes, any range start <= end <= size) - where the instance serialiser is shown to lose the content type for EVERY such response
   (finding C15-F2, now characterised in general) - and for two or more parts (C15_multi_part_round_trip: any number of parts, any body
   bytes as long as no body line is valid UTF-8 and contains the separator text, the condition under which the reader itself stops).
   Both domains are decidable predicates the model runner evaluates on every generated case. *)
From Rws Require Import Str Utf8 Num Unicase Fs UrlParse RangeSpec Request GenMime Mime StaticRes GenConsts Forms Server RespParse RespDomain C15Proof C15Round C15Multi.
Open Scope N_scope.

Theorem C15_single_part_round_trip : forall inst r, single_ok r = true ->
  match pr_ranges r with
  | [p] => response_parse (lib_generate inst r) =
           POk (mkPresp (pr_version r) (pr_status r) (pr_reason r) (pr_headers r ++ lib_derived inst [p])
                        [(pr_start p, pr_end p, pr_size p, pr_body p, if inst then OCTET else pr_type p)])
  | _ => False
  end.
Proof. exact single_ok_round_trip. Qed.
(* the domain is inhabited: a sub-range of a binary body with CR LF inside, an empty body, extreme offsets, headers with ": " in the value *)
Theorem C15_single_part_domain :
  single_ok resp_single = true /\
  single_ok (mkPresp HTTP11 404 (reason 404) [mkH [88;45;65] [98;58;32;99]; mkH [86;97;114;121] []] [(0, 0, [48], [], [116;101;120;116;47;104;116;109;108])]) = true /\
  single_ok (mkPresp HTTP11 200 (reason 200) [] [(9223372036854775806, 9223372036854775807, show_N 9223372036854775807, [255; 0; 13; 10; 13; 10], [97;47;98])]) = true.
Proof. vm_compute. repeat split. Qed.

(* two or more parts, both serialisers: the parse returns the status, the given headers followed by the multipart Content-Type, and
   every part with its range, size text, body bytes and type *)
Theorem C15_multi_part_round_trip : forall inst r, multi_ok r = true ->
  response_parse (lib_generate inst r) =
  POk (mkPresp (pr_version r) (pr_status r) (pr_reason r) (pr_headers r ++ [mkH Hd_CONTENT_TYPE Rg_MULTIPART_BYTERANGES_CONTENT_TYPE]) (pr_ranges r)).
Proof. exact multi_ok_round_trip. Qed.
(* the domain is inhabited: binary, empty and CR LF bodies; a body containing dashes and a body line that holds the separator but is not UTF-8 *)
Theorem C15_multi_part_domain :
  multi_ok resp_multi = true /\
  multi_ok (mkPresp HTTP11 200 (reason 200) [] [(0, 1, [50], [45;45;45;45], [97;47;98]); (1, 1, [50], [255] ++ Rg_STRING_SEPARATOR ++ [10; 45], [97;47;98])]) = true /\
  multi_ok (mkPresp HTTP11 200 (reason 200) [] [(0, 1, [50], [120], [97;47;98]); (1, 1, [50], Rg_STRING_SEPARATOR, [97;47;98])]) = false.
Proof. vm_compute. repeat split. Qed.

(* proved for representative values by computation: three parts with binary, empty and CRLF bodies through both serialisers; one
   part with a proper sub-range (the former finding C15-F1, repaired by 5f94c65) *)
Theorem C15_roundtrip_partial :
  response_parse (lib_generate false resp_multi) =
    POk (mkPresp HTTP11 206 (reason 206) (pr_headers resp_multi ++ lib_derived false (pr_ranges resp_multi)) (pr_ranges resp_multi)) /\
  response_parse (lib_generate true resp_multi) =
    POk (mkPresp HTTP11 206 (reason 206) (pr_headers resp_multi ++ lib_derived true (pr_ranges resp_multi)) (pr_ranges resp_multi)) /\
  response_parse (lib_generate false resp_single) =
    POk (mkPresp HTTP11 206 (reason 206) (pr_headers resp_single ++ lib_derived false (pr_ranges resp_single)) (pr_ranges resp_single)).
Proof. exact (conj roundtrip_multi_static (conj roundtrip_multi_inst roundtrip_single_static)). Qed.
(* the listed finding C15-F2, as a theorem about the model: the instance serialiser loses the Content-Type of a single part *)
Theorem C15_F2_witness : exists t, response_parse (lib_generate true resp_single) =
  POk (mkPresp HTTP11 206 (reason 206) (pr_headers resp_single ++ lib_derived true (pr_ranges resp_single)) [(2, 5, [49;48], [0;255;13;10], t)])
  /\ t = OCTET /\ t <> [97;47;98].
Proof. exact inst_loses_type. Qed.

(* reject: an accepted status line has a registered code and that code's phrase; anything else is an error, for every input *)
Theorem C15_status_line_shape : forall line v c rsn, parse_status_line line = Some (v, c, rsn) ->
  exists rest code, split_once (truncate_nl_cr line) [32] = Some (v, rest) /\ split_once rest [32] = Some (code, rsn) /\
    mem (uupper v) version_list = true /\ parse_i16 code = Some (false, c) /\
    exists p, find (fun p => N.eqb (fst p) c) status_table = Some p /\ uupper (snd p) = uupper rsn.
Proof. exact status_line_shape. Qed.
Theorem C15_reject_unknown_status : forall line v rest code rsn c,
  split_once (truncate_nl_cr line) [32] = Some (v, rest) -> split_once rest [32] = Some (code, rsn) -> parse_i16 code = Some (false, c) ->
  find (fun p => N.eqb (fst p) c) status_table = None -> parse_status_line line = None.
Proof. exact reject_unknown_status. Qed.
Theorem C15_reject_mismatched_phrase : forall line v rest code rsn c p,
  split_once (truncate_nl_cr line) [32] = Some (v, rest) -> split_once rest [32] = Some (code, rsn) -> parse_i16 code = Some (false, c) ->
  find (fun p => N.eqb (fst p) c) status_table = Some p -> uupper (snd p) <> uupper rsn -> parse_status_line line = None.
Proof. exact reject_mismatched_phrase. Qed.
Theorem C15_parse_needs_status_line : forall input, parse_status_line (fst (split_line input)) = None -> response_parse input = PErr.
Proof. exact parse_needs_status_line. Qed.

(* no panic (the two former panic sites are errors since 9d21363 and 6a8176b) *)
Theorem C15_no_panic : forall input, response_parse input <> PPanicCL /\ response_parse input <> PPanicIdx.
Proof. exact response_parse_no_panic. Qed.
