(* C03 — byte-range requests return exactly the requested bytes.  Property theorems only. *)
From Rws Require Import Str Utf8 Num Fs UrlParse RangeSpec Request GenMime Mime StaticRes GenConsts Forms Server
                        C01Proof C02Proof C03Proof C02Chain.
Open Scope N_scope.

(* every spec the parser accepts lies in the file: st <= en <= L, for every input string *)
Theorem C03_parse_range_bounds : forall L spec st en, parse_range L spec = ROk' (st, en) -> st <= en /\ en <= L.
Proof. exact parse_range_bounds. Qed.

(* one part per requested range, in request order, each typed by the file's name and sized by the true file length *)
Theorem C03_multi_range : forall fs SP data q specs ses,
  regular_at fs SP data q -> specs <> [] -> Forall (fun sp => ~ In 61 sp /\ ~ In 44 sp) specs ->
  Forall2 (fun sp se => parse_range (N.of_nat (length data)) sp = ROk' se /\ snd se - fst se <> 2 ^ 64 - 1) specs ses ->
  parse_content_range fs false SP (N.of_nat (length data)) (BYTES_EQ ++ join_with 44 specs) = SOk (map (part_of SP data q) ses).
Proof. exact C03_multi_range. Qed.

(* each part: the bytes at the requested offsets, never other offsets; exact when the range ends inside the file;
   clamped to the file when the parsed end equals the length (C03-F1: that case is labelled one past the last byte) *)
Theorem C03_part_facts : forall data SP q se, let L := N.of_nat (length data) in
  fst se <= snd se -> snd se <= L ->
  let c := part_of SP data q se in
  c_start c = fst se /\ c_end c = snd se /\ c_size c = L /\
  c_body c = firstn (N.to_nat (snd se - fst se + 1)) (skipn (N.to_nat (fst se)) data) /\
  (snd se < L -> N.of_nat (length (c_body c)) = snd se - fst se + 1) /\
  (snd se = L -> c_body c = skipn (N.to_nat (fst se)) data /\ N.of_nat (length (c_body c)) = L - fst se).
Proof. exact C03_part_facts. Qed.

(* a spec the parser rejects makes the whole answer 416, whatever precedes it *)
Theorem C03_bad_spec_is_416 : forall fs SP data q, regular_at fs SP data q ->
  forall good ses bad rest,
  Forall2 (fun sp se => parse_range (N.of_nat (length data)) sp = ROk' se /\ snd se - fst se <> 2 ^ 64 - 1) good ses ->
  parse_range (N.of_nat (length data)) bad = R416 ->
  read_specs fs false SP (N.of_nat (length data)) (good ++ bad :: rest) = SErr 416.
Proof. exact read_specs_416. Qed.

(* the known class, exactly: the label announces one byte more than is sent iff the parsed end equals the file length *)
Theorem C03_label_class : forall fs SP data q spec st,
  regular_at fs SP data q -> ~ In 61 spec -> ~ In 44 spec ->
  let L := N.of_nat (length data) in
  L < 2 ^ 64 - 1 -> 0 < L -> parse_range L spec = ROk' (st, L) ->
  exists c, parse_content_range fs false SP L (BYTES_EQ ++ spec) = SOk [c] /\
            c_end c = L /\ c_body c = skipn (N.to_nat st) data /\ N.of_nat (length (c_body c)) <> c_end c - c_start c + 1.
Proof. exact C03_label_class. Qed.
Theorem C03_inside_exact : forall fs SP data q spec st en,
  regular_at fs SP data q -> ~ In 61 spec -> ~ In 44 spec ->
  let L := N.of_nat (length data) in
  L < 2 ^ 64 -> parse_range L spec = ROk' (st, en) -> en < L ->
  exists c, parse_content_range fs false SP L (BYTES_EQ ++ spec) = SOk [c] /\
            c_start c = st /\ c_end c = en /\ c_size c = L /\
            c_body c = firstn (N.to_nat (en - st + 1)) (skipn (N.to_nat st) data) /\
            N.of_nat (length (c_body c)) = en - st + 1.
Proof. exact C03_inside_exact. Qed.

(* on the wire: single range => Content-Range from the part, Content-Length = bytes sent; several => multipart/byteranges *)
Theorem C03_wire_single : forall rs c, rs_ranges rs = [c] ->
  derived_headers (rs_ranges rs) = [H Hd_CONTENT_TYPE (c_type c); H Hd_CONTENT_RANGE (content_range_value c);
                                    H Hd_CONTENT_LENGTH (show_N (N.of_nat (length (c_body c))))] /\
  gen_body (rs_ranges rs) = c_body c.
Proof. exact wire_single. Qed.
Theorem C03_wire_multi : forall c1 c2 rest,
  derived_headers (c1 :: c2 :: rest) = [H Hd_CONTENT_TYPE Rg_MULTIPART_BYTERANGES_CONTENT_TYPE] /\
  gen_body (c1 :: c2 :: rest) = bpart true c1 ++ flat_map (bpart false) (c2 :: rest) ++ CRLF ++ SEP_LINE.
Proof. exact wire_multi. Qed.
Theorem C03_part_on_wire : forall first c,
  bpart first c = (if first then [] else CRLF) ++ SEP_LINE ++ CRLF ++ Hd_CONTENT_TYPE ++ COLON_SP ++ [32] ++ c_type c ++ CRLF ++
                  Hd_CONTENT_RANGE ++ COLON_SP ++ [32] ++ content_range_value c ++ CRLF ++ CRLF ++ c_body c.
Proof. exact (fun first c => eq_refl). Qed.
(* the observed examples of the design note, by computation: "-3" on 10 bytes is labelled 7-10; "-11" now selects the whole file *)
Theorem C03_examples : parse_range 10 [45;51] = ROk' (7, 10) /\ parse_range 10 [45;49;49] = ROk' (0, 10) /\ parse_range 10 [48;45;49;49] = R416.
Proof. exact (conj r2 (conj r4 r5)). Qed.
