(* C08 — concurrent requests do not influence one another.  Property theorems only. *)
From Coq Require Import List Arith Lia Bool.
From Rws Require Import Str Utf8 Num Fs UrlParse RangeSpec Request GenMime Mime StaticRes GenConsts Forms Server Pool GenSharedState Isolation.
Import ListNotations.
Local Open Scope nat_scope.

(* for every configuration, file system, entry point, assignment of inputs to connections, pool size and interleaving: each answered
   connection received exactly the response it would receive alone, at most once *)
Theorem C08_isolation : forall cfg fs legacy inputs rs n ls s, run rs (init n) ls = Some s ->
  (forall j o, In (j, o) (outputs cfg fs legacy inputs s) -> o = process_gen legacy cfg fs (inputs j)) /\
  (forall j, cnt j (map fst (outputs cfg fs legacy inputs s)) <= 1) /\
  (forall j, In j (map fst (outputs cfg fs legacy inputs s)) -> In j (submitted s)).
Proof. exact isolation. Qed.
Theorem C08_schedule_independent : forall cfg fs legacy inputs rs1 rs2 n1 n2 ls1 ls2 s1 s2 j o1 o2,
  run rs1 (init n1) ls1 = Some s1 -> run rs2 (init n2) ls2 = Some s2 ->
  In (j, o1) (outputs cfg fs legacy inputs s1) -> In (j, o2) (outputs cfg fs legacy inputs s2) -> o1 = o2.
Proof. exact schedule_independent. Qed.
(* the premise of that shape, re-checked on every run: the scan of /repo finds no shared mutable state on the request path *)
Theorem C08_shared_state_ok : shared_state_ok shared_state_scan = true.
Proof. exact scan_ok. Qed.
Theorem C08_scan_rejects : row_ok (KStaticMut, OnRequestPath) = false /\ row_ok (KEnvWrite, OnRequestPath) = false /\ row_ok (KArcLock, OnRequestPath) = false /\
                     row_ok (KThreadLocal, OnRequestPath) = false /\ row_ok (KLazyStatic, OnRequestPath) = false /\ row_ok (KStaticInterior, InPool) = false /\
                     row_ok (KChdir, OnRequestPath) = false /\ row_ok (KUnsafe, OnRequestPath) = false.
Proof. exact scan_rejects. Qed.
