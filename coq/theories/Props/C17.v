(* C17 — form and query decoding returns the submitted fields.  Property theorems only.
   FULL statement (NOT true of the code: C17_refuted, the listed class C17-F1):  for every string s: decode_uri (encode_uri s) = s.
   PROVED: the statement for EVERY byte string outside the class (C17_round_trip_outside_F1) - the class being "a percent sign followed by
   one of the 15 codes the decoder handles after percent-2-5", a decidable predicate on the original string that the model runner
   evaluates on every generated case - and the class is sharp on its shortest members (each late code itself fails).  The query and
   form parsers around the codec: C17_parse_query_spec for one pair, representative maps by computation, correspondence for the rest. *)
From Rws Require Import Str Utf8 Num Request GenCodec Forms C17Proof C17Round C17General C17Map C17Collide.
Open Scope N_scope.

Definition C17_full : Prop := forall s, decode_uri (encode_uri s) = s.
(* refuted: the decoder of the vendored crate handles percent-2-5 as its 8th step, before 15 other codes *)
Theorem C17_refuted : exists s, decode_uri (encode_uri s) <> s.
Proof. exists [37;50;54]. intro H. pose proof F1_witness as [W _]. rewrite W in H. discriminate. Qed.
Theorem C17_late_codes_fail : length late_codes = 15%nat /\ forallb (fun c => negb (roundtrips c)) late_codes = true.
Proof. exact late_codes_fail. Qed.
Theorem C17_early_codes_ok : forallb roundtrips early_codes = true.
Proof. exact early_codes_ok. Qed.
Theorem C17_percent_is_eighth : nth_error dec_chain 7 = Some ([37;50;53], [37]).
Proof. exact percent_is_eighth. Qed.
Theorem C17_tables_shape :
  forallb (fun pr => Nat.eqb (length (fst pr)) 1 && Nat.eqb (length (snd pr)) 3 && beqs (firstn 1 (snd pr)) [37]) enc_chain = true /\
  nth_error enc_chain 0 = Some ([37], [37;50;53]) /\
  forallb (fun pr => existsb (fun d => beqs (fst d) (snd pr) && beqs (snd d) (fst pr)) dec_chain) enc_chain = true.
Proof. exact tables_shape. Qed.
(* outside the class: proved for representative strings and a representative map by computation *)
Theorem C17_roundtrip_partial : forallb roundtrips rep_strings = true /\
  parse_query (enc_pair (nth 0 rep_map ([],[])) ++ [38] ++ enc_pair (nth 1 rep_map ([],[])) ++ [38] ++ enc_pair (nth 2 rep_map ([],[])) ++ [38] ++ enc_pair (nth 3 rep_map ([],[]))) = rep_map.
Proof. exact (conj rep_strings_roundtrip rep_map_roundtrip). Qed.
Theorem C17_parse_query_spec : forall k v, ~ In 38 k -> ~ In 61 k -> ~ In 38 v -> ~ In 61 v -> k <> [] -> trim (k ++ [61] ++ v) <> [] ->
  parse_query (k ++ [61] ++ v) = [(decode_uri k, decode_uri v)].
Proof. exact parse_query_single. Qed.
(* GENERAL: every byte string without a percent sign - of any length, over all 255 other byte values, reserved and non-ASCII bytes
   included - survives encode then decode.  (The encoder is proved character-wise, the decoder token-wise, over the regenerated tables.) *)
Theorem C17_percent_free_round_trip : forall s, bytes_ok s -> ~ In 37 s -> decode_uri (encode_uri s) = s.
Proof. exact percent_free_round_trip. Qed.
Theorem C17_encoder_is_characterwise : forall s, encode_uri s = flat_map (fun c => encode_uri [c]) s.
Proof. exact encode_charwise. Qed.

(* GENERAL, outside the listed class: every byte string - any length, any bytes, percent signs included - in which no percent sign is
   followed by a late code survives encode then decode.  (Each original character is followed through the 23 decoder steps as a token;
   a step can only go wrong at a raw percent sign, which exists only after step 8, and then only if the next two characters spell the
   step's code - which is the class.) *)
Theorem C17_round_trip_outside_F1 : forall s, bytes_ok s -> in_F1 s = false -> decode_uri (encode_uri s) = s.
Proof. exact round_trip_outside_F1. Qed.
(* the class is inhabited and sharp where it is smallest: every late code is in it and fails; strings with percent signs that are not
   followed by a late code are outside it (and therefore round-trip); percent-free strings are outside it *)
Theorem C17_F1_class :
  forallb in_F1 late_codes = true /\ forallb (fun c => negb (roundtrips c)) late_codes = true /\
  in_F1 [37] = false /\ in_F1 [37; 37; 50; 48] = false /\ in_F1 [37; 50; 53] = false /\ in_F1 [97; 37; 52; 49; 37] = false /\ in_F1 [37; 37; 50; 54] = true.
Proof. exact F1_inhabited_and_sharp. Qed.
Theorem C17_percent_free_outside_F1 : forall s, ~ In 37 s -> in_F1 s = false.
Proof. exact percent_free_outside_F1. Qed.

(* THE PROPERTY'S STATEMENT, outside the class: for every non-empty list of fields with distinct, non-empty names, every name and value
   any byte string outside C17-F1, the query text the encoder builds (name=value pairs joined by ampersands) is parsed back to exactly
   that list by the query parser, and by the form-body parser whenever the text is valid UTF-8 and passes its control-character filter
   unchanged.  map_ok and form_text_ok are decidable and evaluated by the model runner on every generated map. *)
Theorem C17_fields_round_trip : forall m, map_ok m = true ->
  parse_query (build_query m) = m /\ (form_text_ok (build_query m) = true -> form_urlencoded_parse (build_query m) = Some m).
Proof. exact map_ok_round_trip. Qed.
Theorem C17_fields_domain :
  map_ok [([107;32;49], [118;38;61;37]); ([195;169], [240;159;152;128]); ([97;61;98], [63;35;47;13;10]); ([120], [37;52;49]); ([121], [])] = true /\
  form_text_ok (build_query [([107;32;49], [118;38;61;37]); ([195;169], [240;159;152;128]); ([97;61;98], [63;35;47;13;10]); ([120], [37;52;49]); ([121], [])]) = true /\
  map_ok [([107], [37;50;54])] = false /\ map_ok [([107], [1]); ([107], [2])] = false /\ map_ok [([], [1])] = false.
Proof. exact map_ok_example. Qed.

(* NAMES MAY REPEAT: for every non-empty list of fields outside the class - the distinct-names hypothesis dropped - looking a name up in
   what the query parser returns gives the value of the LAST field submitted under that name (and nothing for a name never submitted),
   the returned list holds every name once, and the form-body parser returns the same list whenever the text passes its filter. *)
Theorem C17_last_value_wins : forall m, fields_ok m = true ->
  (forall k, lookup k (parse_query (build_query m)) = last_value k m) /\ distinct_keys (parse_query (build_query m)) = true /\
  (form_text_ok (build_query m) = true -> form_urlencoded_parse (build_query m) = Some (parse_query (build_query m))).
Proof. exact last_value_wins. Qed.
Theorem C17_last_value_domain :
  let m := [([107], [49]); ([120], [37;52;49]); ([107], [50]); ([107], [])] in
  fields_ok m = true /\ map_ok m = false /\ last_value [107] m = Some [] /\ last_value [120] m = Some [37;52;49] /\ last_value [121] m = None /\
  length (parse_query (build_query m)) = 2%nat.
Proof. exact last_value_example. Qed.
