(* C17 — form and query decoding returns the submitted fields.  Property theorems only.
   FULL statement (NOT true of the code: C17-F1; and the safe half is not proved in general yet):
     for every map m of distinct non-empty keys to values:  parse_query (build_query m) = m. *)
From Rws Require Import Str Utf8 Num Request GenCodec Forms C17Proof C17Round.
Open Scope N_scope.

Definition C17_full : Prop := forall s, decode_uri (encode_uri s) = s.
(* refuted: the decoder of the vendored crate handles percent-2-5 as its 8th step, before 15 other codes *)
Theorem C17_refuted : exists s, decode_uri (encode_uri s) <> s.
Proof. exists [37;50;54]. intro H. pose proof F1_witness as [W _]. rewrite W in H. discriminate. Qed.
Theorem C17_late_codes_fail : length late_codes = 15%nat /\ forallb (fun c => negb (roundtrips c)) late_codes = true.
Proof. exact late_codes_fail. Qed.
Theorem C17_early_codes_ok : forallb roundtrips early_codes = true.
Proof. exact early_codes_ok. Qed.
Theorem C17_percent_is_eighth : nth_error dec_chain 7 = Some ([37;50;53], [37]).
Proof. exact percent_is_eighth. Qed.
Theorem C17_tables_shape :
  forallb (fun pr => Nat.eqb (length (fst pr)) 1 && Nat.eqb (length (snd pr)) 3 && beqs (firstn 1 (snd pr)) [37]) enc_chain = true /\
  nth_error enc_chain 0 = Some ([37], [37;50;53]) /\
  forallb (fun pr => existsb (fun d => beqs (fst d) (snd pr) && beqs (snd d) (fst pr)) dec_chain) enc_chain = true.
Proof. exact tables_shape. Qed.
(* outside the class: proved for representative strings and a representative map by computation *)
Theorem C17_roundtrip_partial : forallb roundtrips rep_strings = true /\
  parse_query (enc_pair (nth 0 rep_map ([],[])) ++ [38] ++ enc_pair (nth 1 rep_map ([],[])) ++ [38] ++ enc_pair (nth 2 rep_map ([],[])) ++ [38] ++ enc_pair (nth 3 rep_map ([],[]))) = rep_map.
Proof. exact (conj rep_strings_roundtrip rep_map_roundtrip). Qed.
Theorem C17_parse_query_spec : forall k v, ~ In 38 k -> ~ In 61 k -> ~ In 38 v -> ~ In 61 v -> k <> [] -> trim (k ++ [61] ++ v) <> [] ->
  parse_query (k ++ [61] ++ v) = [(decode_uri k, decode_uri v)].
Proof. exact parse_query_single. Qed.
(* GENERAL: every byte string without a percent sign - of any length, over all 255 other byte values, reserved and non-ASCII bytes
   included - survives encode then decode.  (The encoder is proved character-wise, the decoder token-wise, over the regenerated tables.) *)
Theorem C17_percent_free_round_trip : forall s, bytes_ok s -> ~ In 37 s -> decode_uri (encode_uri s) = s.
Proof. exact percent_free_round_trip. Qed.
Theorem C17_encoder_is_characterwise : forall s, encode_uri s = flat_map (fun c => encode_uri [c]) s.
Proof. exact encode_charwise. Qed.
