(* C19 — JSON serialisation round-trips and is valid JSON.  Property theorems only.
   FULL statement (NOT true of the code: C19-F1, non-ASCII strings):
     for every value v of the supported model:  round_trip v = Some (t, RtOk (norm v)).
   PROVED for every tree of the domain tree_ok (C19_nested_round_trip, C19_object_array_round_trip: objects of any depth whose fields are
   strings of printable ASCII, booleans, integers, floats, null, typed arrays of every element kind, objects again, and arrays of objects
   that can be read with their first element as the declared type) and for every top-level typed array. *)
From Rws Require Import Str Utf8 Num RespParse Json JsonArray Server JsonRt C19Lemmas C19Proof C19Nested.
Open Scope N_scope.

(* refuted on printable non-ASCII text: the object scanner and the array splitter return an error on their own output *)
Theorem C19_refuted_nonascii : (exists t, round_trip (JO [([97], JS [195; 169])]) = Some (t, RtErr)) /\ (exists t, round_trip (JAS [[195; 169]]) = Some (t, RtErr)).
Proof. exact (conj F1_witness F1_array_witness). Qed.

(* every flat object - distinct identifier names; strings of printable ASCII without quote and backslash; booleans; the whole i128 range;
   floats carried as the text Rust prints; null fields - is read back field by field as written *)
Theorem C19_flat_object_round_trip : forall fs, flat_ok (JO fs) = true ->
  exists t, round_trip (JO fs) = Some (t, RtOk (JO (map (fun nv => (fst nv, norm_scalar (snd nv))) fs))).
Proof. exact flat_round_trip. Qed.
Theorem C19_flat_domain_inhabited : flat_ok flat_example = true.
Proof. exact flat_example_ok. Qed.

(* the scanner on the writer's text: the typed properties, in order (any number of fields) *)
Theorem C19_scanner_reads_written : forall fs, forallb field_ok fs = true ->
  parse_as_properties (obj_text (map line (wfs fs))) = JOk (map prop_of' (wfs fs)).
Proof. exact parse_written. Qed.

(* integers: the decimal text of every in-range value parses back, for every width up to 128 bits, at both extremes *)
Theorem C19_integer_text_parses : forall bound ng m, bound < 10 ^ 39 -> int_ok bound ng m = true -> parse_signed bound (show_int ng m) = Some (ng, m).
Proof. exact parse_signed_show. Qed.

(* typed integer arrays of every width (i8 .. u128), any length, every value of the width incl. both extremes: written, split and read back *)
Theorem C19_int_array_round_trip : forall w xs, forallb (width_ok w) xs = true -> exists t, round_trip (JAI w xs) = Some (t, RtOk (JAI w xs)).
Proof. exact int_array_round_trip. Qed.
Theorem C19_int_array_domain_inhabited :
  (forallb (width_ok I8) [(true, 128); (false, 127); (false, 0)] = true) /\ (forallb (width_ok U128) [(false, 2 ^ 128 - 1); (false, 0)] = true) /\
  (forallb (width_ok I128) [(true, 2 ^ 127); (false, 2 ^ 127 - 1)] = true) /\ (forallb (width_ok U64) [(false, 2 ^ 64 - 1)] = true).
Proof. vm_compute. repeat split. Qed.

(* arrays of booleans and nulls of any length, and of strings of printable ASCII without quote and backslash (brackets, commas included) *)
Theorem C19_bool_array_round_trip : forall xs, exists t, round_trip (JAB xs) = Some (t, RtOk (JAB xs)).
Proof. exact bool_array_round_trip. Qed.
Theorem C19_null_array_round_trip : forall n, exists t, round_trip (JAN n) = Some (t, RtOk (JAN n)).
Proof. exact null_array_round_trip. Qed.
Theorem C19_string_array_round_trip : forall xs, forallb str_ok xs = true -> exists t, round_trip (JAS xs) = Some (t, RtOk (JAS xs)).
Proof. exact string_array_round_trip. Qed.

(* arrays of floats: every list of Display texts (sign, digits, at most one point) that f64::from_str accepts; zero is normalised to 0.0 *)
Theorem C19_float_array_round_trip : forall xs, forallb (fun x => disp_ok (snd x)) xs = true ->
  exists t, round_trip (JAF xs) = Some (t, RtOk (JAF (map (fun x => (arr_float (snd x), arr_float (snd x))) xs))).
Proof. exact float_array_round_trip. Qed.

(* GENERAL, by induction over the tree: every object whose fields are - at any depth - strings of printable ASCII, booleans, integers of
   the whole i128 range, floats, null, typed arrays of every element kind and width, or objects of the same kind (distinct identifier
   names at every level) is written to a text that the scanner reads back, field by field and level by level, to the same tree (floats
   keep their text).  The balanced reader is shown to return exactly the nested block because the text of every value is neutral for it:
   braces and brackets inside strings are not counted, every inner block closes before the outer one. *)
Theorem C19_nested_round_trip : forall fs, tree_ok (JO fs) = true -> exists t, round_trip (JO fs) = Some (t, RtOk (norm (JO fs))).
Proof. exact nested_round_trip. Qed.
(* arrays of objects, at the top or as a field at any depth: the reader takes the FIRST element as the declared type of every element, so
   the domain asks that every element can be read with it (same field names in the same order, same kinds, null anywhere): conforms *)
Theorem C19_object_array_round_trip : forall xs, tree_ok (JAO xs) = true -> exists t, round_trip (JAO xs) = Some (t, RtOk (norm (JAO xs))).
Proof. exact object_array_round_trip. Qed.
Theorem C19_nested_domain_inhabited : tree_ok tree_example = true /\ flat_ok tree_example = false /\ (3 <= depth tree_example)%nat.
Proof. exact tree_example_ok. Qed.
(* nested objects, arrays of every element kind and brackets inside strings: one representative tree, by evaluation *)
Theorem C19_nested_example : exists t, round_trip nested_example = Some (t, RtOk nested_expected).
Proof. exact nested_example_round_trips. Qed.
