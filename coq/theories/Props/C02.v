(* C02 — static resources: the right file, its exact bytes, its media type.  Property theorems only. *)
From Rws Require Import Str Utf8 Num Fs UrlParse RangeSpec Request GenMime Mime StaticRes GenConsts Forms Server
                        C01Proof C02Proof C03Proof C02Chain RefMime C02Mime.
Open Scope N_scope.

(* the documented lookup, as a specification: the file itself | index.html inside the named directory | the file with .html appended *)
Definition C02_lookup := lookup.

(* the static controller refines the documented lookup, for every file system and every target whose path is clean
   (starts with '/', no '?' '#' left in it), has no ".." segment, is not "/", outside the tree-side class KF_C02_tree *)
Theorem C02_lookup_refines : forall fs u hs P,
  path_or_panic u = SOk P -> clean_path P -> has_dotdot P = false -> u <> [47] -> KF_C02_tree fs P = false ->
  match C02_lookup fs P with
  | Some Q => is_matching fs (GETh u hs) = SOk true /\
              process_static fs (GETh u hs) = get_content_range_list fs Q (range_value (GETh u hs))
  | None => is_matching fs (GETh u hs) = SOk false
  end.
Proof. exact C02_lookup_refines_gen. Qed.

(* first sentence: 200, one part, body = the selected file's bytes, typed by the selected file's name, sized by its length *)
Theorem C02_served_exact : forall cfg fs u hs P Q data q,
  special_target u = false -> get_header (GETh u hs) RANGE_NAME = None ->
  path_or_panic u = SOk P -> clean_path P -> has_dotdot P = false -> KF_C02_tree fs P = false ->
  C02_lookup fs P = Some Q -> clean_path Q -> has_dotdot Q = false ->
  regular_at fs (cwd_str fs ++ Q) data q -> is_symlink fs (cwd_str fs ++ Q) = Some false ->
  N.of_nat (length data) < 2 ^ 64 - 1 ->
  exists rs, app_execute_gen false cfg fs (GETh u hs) = SOk rs /\ rs_status rs = 200 /\
             rs_ranges rs = [mkCr 0 (N.of_nat (length data)) (N.of_nat (length data)) data (detect_mime (cwd_str fs ++ Q)) (FromFile q false)].
Proof. exact served_exact. Qed.
Theorem C02_wire_single : forall rs c, rs_ranges rs = [c] ->
  derived_headers (rs_ranges rs) = [H Hd_CONTENT_TYPE (c_type c); H Hd_CONTENT_RANGE (content_range_value c);
                                    H Hd_CONTENT_LENGTH (show_N (N.of_nat (length (c_body c))))] /\
  gen_body (rs_ranges rs) = c_body c.
Proof. exact wire_single. Qed.

(* second sentence: nothing selected => 404 (500 if the tree's own 404.html cannot be read), never a listing or another file *)
Theorem C02_none_is_404 : forall cfg fs u hs P,
  special_target u = false ->
  path_or_panic u = SOk P -> clean_path P -> has_dotdot P = false -> KF_C02_tree fs P = false ->
  C02_lookup fs P = None ->
  exists rs, app_execute_gen false cfg fs (GETh u hs) = SOk rs /\ (rs_status rs = 404 \/ rs_status rs = 500) /\
             rs_ranges rs = rs_ranges (asset_controller fs NAME_404 (as_404 (cf_assets cfg)) Mt_TEXT_HTML 404 rs).
Proof. exact none_is_404. Qed.

(* query strings and fragments: two targets with the same parsed path get the same answer *)
Theorem C02_query_fragment_irrelevant : forall fs u1 u2 hs P,
  path_or_panic u1 = SOk P -> path_or_panic u2 = SOk P -> clean_path P -> has_dotdot P = false ->
  u1 <> [47] -> u2 <> [47] -> KF_C02_tree fs P = false ->
  is_matching fs (GETh u1 hs) = is_matching fs (GETh u2 hs) /\
  (C02_lookup fs P <> None -> process_static fs (GETh u1 hs) = process_static fs (GETh u2 hs)).
Proof. exact same_path_same_answer. Qed.
Theorem C02_reparse_clean : forall P, clean_path P -> path_or_panic P = SOk P.
Proof. exact reparse_clean. Qed.
(* the listed finding C02-F4, as a fact about the model of the vendored URL parser: with a '#' before the first '?' the path keeps the
   fragment ("/a.txt#f?x" has the path "/a.txt#f"), and parsing that path again drops it ("/a.txt") - so the theorems above, which ask
   for a clean path, say nothing about such targets, and the oracle judges them by RFC 3986 *)
Theorem C02_F4_witness :
  path_or_panic [47;97;46;116;120;116;35;102;63;120] = SOk [47;97;46;116;120;116;35;102] /\
  path_or_panic [47;97;46;116;120;116;35;102] = SOk [47;97;46;116;120;116].
Proof. split; vm_compute; reflexivity. Qed.

(* the media type: a function of the extension alone, equal to the frozen reference table (89 extensions, IANA / MDN as adopted by rws) for
   every directory and every stem; an extension the chain does not know gets the default.  The chain is regenerated from /repo on every run; an
   extension it registers beyond the reference table is an addition the theorems allow (listed in the evidence). *)
Theorem C02_mime_by_extension : forall p q e, p = q ++ DOT :: e -> ~ In DOT e -> path_extension p = Some e -> detect_mime p = run_ext e mime_chain.
Proof. exact mime_by_extension. Qed.
Theorem C02_mime_is_reference : forall dir stem e t, ~ In SLASH stem -> ~ In SLASH e -> ~ In DOT e -> stem <> [] -> e <> [] ->
  In (e, t) ref_mime_table -> detect_mime (dir ++ SLASH :: stem ++ DOT :: e) = t.
Proof. exact mime_is_reference. Qed.
Theorem C02_mime_unknown_is_default : forall dir stem e, ~ In SLASH stem -> ~ In SLASH e -> ~ In DOT e -> stem <> [] -> e <> [] ->
  existsb (beqs (DOT :: e)) chain_sufs = false -> detect_mime (dir ++ SLASH :: stem ++ DOT :: e) = ref_mime_default.
Proof. exact mime_unknown_is_default. Qed.
Theorem C02_mime_tables_agree :
  forallb (fun s => match s with d :: _ => N.eqb d DOT | [] => false end) chain_sufs = true /\
  forallb (fun et => existsb (beqs (DOT :: fst et)) chain_sufs || beqs (snd et) ref_mime_default) ref_mime_table = true.
Proof. exact (conj chain_sufs_dotted chain_covers_ref). Qed.
