(* C20 — library parsers report errors instead of panicking.  Property theorems only.
   FULL statement: for every parsing entry point p and every input x, p x is a value or an error - no panic, no stack overflow,
   no divergence.  In the models every unwrap / index / usize subtraction of the code is an explicit panic value; the theorems below
   show each unreachable.  Stack depth and termination of the REAL code are runtime behaviour: the model carries the loop structure
   (fuel never decides, C20_*_fuel) and the inventory of self-recursive functions (C20_no_recursive_parser); the deep-input campaign
   of the check exhibits the rest. *)
From Coq Require Import List String. Import ListNotations.
From Rws Require Import Str Utf8 Num Request RespParse RangeSpec Forms Json JsonArray JsonRt UrlPath Parsers GenPanicSites
     C14Proof C15Proof C16Proof C04Proof C20Proof C20Sites.
Open Scope N_scope.

(* JSON arrays: the splitter and every typed reader *)
Theorem C20_json_array_total : forall json, split_array json <> APanicUtf8.
Proof. intro json. exact (proj1 (split_array_total json)). Qed.
Theorem C20_typed_readers_total : forall k raw, typed_read k raw <> RtPanic.
Proof. exact typed_read_total. Qed.
(* JSON objects: the scanner has no panic site (Infallible in the inventory); its loop ends because the text is used up *)
Theorem C20_json_object_fuel : forall f1 f2 rest acc, (List.length rest < f1)%nat -> (List.length rest < f2)%nat -> props_loop f1 rest acc = props_loop f2 rest acc.
Proof. exact props_loop_fuel. Qed.
Theorem C20_json_array_fuel : forall f1 f2 s acc, (List.length s < f1)%nat -> (List.length s < f2)%nat -> items_loop f1 s acc = items_loop f2 s acc.
Proof. exact items_loop_fuel. Qed.
(* HTTP requests and responses, multipart bodies, range values *)
Theorem C20_request_total : forall input p, parse_request input <> Request.Panic p.
Proof. exact parse_no_panic. Qed.
Theorem C20_response_total : forall input, response_parse input <> PPanicCL /\ response_parse input <> PPanicIdx.
Proof. exact response_parse_no_panic. Qed.
Theorem C20_range_multipart_total : forall input, rmp_parse input <> PPanicCL /\ rmp_parse input <> PPanicIdx.
Proof. exact rmp_parse_no_panic. Qed.
Theorem C20_multipart_total : forall data boundary, multipart_parse data boundary <> MPanicWindows0.
Proof. exact multipart_no_panic. Qed.
Theorem C20_range_total : forall L spec, parse_range L spec <> RPanicSub.
Proof. exact parse_range_nopanic. Qed.
(* Content-Disposition: the first piece of a split always exists *)
Theorem C20_content_disposition_first_piece : forall raw, split raw [59] <> [].
Proof. exact cd_first_piece. Qed.
(* URL path patterns *)
Theorem C20_url_pattern_total : forall pattern, pattern_parts pattern <> URPanic.
Proof. intro p. exact (proj1 (pattern_parts_total p)). Qed.
Theorem C20_url_match_total : forall path pattern, is_matching path pattern <> URPanic.
Proof. exact is_matching_total. Qed.
Theorem C20_url_extract_total : forall path pattern, extract path pattern <> URPanic.
Proof. exact extract_total. Qed.
Theorem C20_url_build_total : forall params pattern, build params pattern <> URPanic.
Proof. exact build_total. Qed.
(* the source still has exactly the vetted panic sites, and no parser entry point calls itself *)
Theorem C20_panic_sites_vetted : forallb site_ok panic_sites = true.
Proof. exact panic_sites_vetted. Qed.
Theorem C20_no_legacy_twin_called : forallb (fun c => negb (is_legacy (snd c))) twin_calls = true.
Proof. exact no_legacy_twin_called. Qed.
Theorem C20_no_recursive_parser : forallb (fun f => existsb (String.eqb f) legacy_recursive) self_recursive = true.
Proof. exact recursion_vetted. Qed.
