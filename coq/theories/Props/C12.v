(* C12 — effective settings: command line over config file over environment over defaults.  Property theorems only. *)
From Rws Require Import Str Utf8 GenCli GenCliDoc Config C12Proof.
Open Scope N_scope.

(* for every variable, every environment, every (optional) config file content and every argument vector the value in force after
   start-up is: the last command-line argument that sets it, else the last config-file entry that sets it, else the environment,
   else the default *)
Theorem C12_precedence : forall V e file args,
  env_get V (setup e file args) =
  first_some [cli_last V args; match file with Some c => file_last V c | None => None end; env_get V e; default_of V].
Proof. exact C12_precedence. Qed.
Check C12_precedence : forall V e file args,
  env_get V (setup e file args) =
  first_some [cli_last V args; match file with Some c => file_last V c | None => None end; env_get V e; default_of V].

(* settings are independent: what the sources say about other settings does not matter *)
Theorem C12_independent : forall V e e' file file' args args',
  cli_last V args = cli_last V args' ->
  match file with Some c => file_last V c | None => None end = match file' with Some c => file_last V c | None => None end ->
  env_get V e = env_get V e' ->
  env_get V (setup e file args) = env_get V (setup e' file' args').
Proof. exact independent. Qed.

(* every spelling of the flag table reaches its variable and every variable has a default *)
Theorem C12_flags_reach : forallb (fun f => let '(s, l, v) := f in oeqb (flag_var (45 :: s)) v && oeqb (flag_var ([45;45] ++ l)) v) flag_table = true.
Proof. exact flags_reach. Qed.
Theorem C12_all_have_defaults : forallb (fun f => let '(_, _, v) := f in match default_of v with Some _ => true | None => false end) flag_table = true.
Proof. exact all_have_defaults. Qed.
(* every spelling the repository documents (rws.command_line, rws.config.toml incl. the [cors] table, rws.variables) reaches a
   setting, and every setting is documented in all three places *)
Theorem C12_documented_reach :
  forallb (fun f => match flag_var f with Some _ => true | None => false end) doc_cli_flags = true /\
  forallb (fun tk => match flag_var (toml_flag tk) with Some _ => true | None => false end) doc_toml_keys = true /\
  forallb is_var doc_variables = true /\
  forallb (fun f => let '(s, l, v) := f in existsb (beqs (45 :: s)) doc_cli_flags && existsb (beqs ([45;45] ++ l)) doc_cli_flags &&
                     existsb (fun tk => oeqb (flag_var (toml_flag tk)) v) doc_toml_keys && existsb (beqs v) doc_variables) flag_table = true.
Proof. exact documented_reach. Qed.

(* the config-file reader on a rendered entry: key, pads of spaces/tabs around '=', either quote style or none *)
Theorem C12_file_entry_render : forall prefix k v q p2 p3 p4,
  plainb k = true -> k <> [] -> plainb v = true -> quote_ok q = true -> padb p2 = true -> padb p3 = true -> padb p4 = true ->
  line_to_arg prefix (k ++ p2 ++ [61] ++ p3 ++ q ++ v ++ q ++ p4) =
    (prefix, Some ([45;45] ++ (match prefix with [] => [] | _ => prefix ++ [45] end) ++ replace k [95] [45] ++ [61] ++ v)).
Proof. exact line_to_arg_render. Qed.
