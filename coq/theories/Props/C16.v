(* C16 — multipart/form-data bodies round-trip part for part.  Property theorems only.
   FULL statement, proved (C16_round_trip): for every list of parts - each with at least one header whose name is printable ASCII
   without blank and colon and whose value is printable ASCII not beginning or ending with a blank, and a body of ARBITRARY bytes - and
   every boundary of printable non-blank ASCII with at least one character that is not a hyphen, such that no header line and no line
   of a body (its closing CRLF included) is taken for a delimiter:  multipart_parse (multipart_generate parts b) b = MOk parts. *)
From Rws Require Import Str Utf8 Num Request GenCodec Forms FormsDomain C16Proof C16Round.
Open Scope N_scope.

Theorem C16_round_trip : forall bd ps, bd_ok bd = true -> forallb (part_ok bd) ps = true ->
  multipart_parse (multipart_generate ps bd) bd = MOk ps.
Proof. exact multipart_round_trip. Qed.
(* the domain is inhabited: two headers, bodies that are empty, binary, end in CR / LF / CRLF, contain dashes; boundaries with leading dashes and an interior hyphen *)
Theorem C16_domain_inhabited : multipart_in_domain parts_rep B1 = true /\ multipart_in_domain parts_rep BD_INNER = true /\
  multipart_in_domain [mkPart [H1] [0; 255; 13; 10; 45; 45; 13]; mkPart [H1; H2] []; mkPart [H2] [10]] [45; 45; 45; 45; 120; 57] = true.
Proof. vm_compute. repeat split. Qed.

Theorem C16_roundtrip_partial :
  multipart_parse (multipart_generate parts_rep B1) B1 = MOk parts_rep /\
  multipart_parse (multipart_generate parts_rep BD_INNER) BD_INNER = MOk parts_rep.
Proof. exact (conj roundtrip_rep_b1 roundtrip_rep_inner_hyphen). Qed.
Theorem C16_reject_no_opening_boundary : forall data boundary,
  is_boundary_line (truncate_nl_cr (filter_ascii_control (fst (split_line data)))) boundary = false -> multipart_parse data boundary = MErr.
Proof. exact reject_no_opening_boundary. Qed.
Theorem C16_reject_partial :
  multipart_parse (skipn (length B1) (multipart_generate parts_rep B1)) B1 = MErr /\
  multipart_parse (firstn (length (multipart_generate parts_rep B1) - length B1) (multipart_generate parts_rep B1)) B1 = MErr /\
  multipart_parse (B1 ++ CRLF ++ CRLF ++ [97] ++ CRLF ++ B1) B1 = MErr /\
  multipart_parse ([66;49;13;10;72;58;32;118;13;10]) [66;49] = MErr.
Proof. exact reject_rep. Qed.
Theorem C16_empty_body_trim : forall b, trim_body_end (b ++ [13; 10]) = b.
Proof. exact trim_body_end_crlf. Qed.
Theorem C16_no_panic : forall data boundary, multipart_parse data boundary <> MPanicWindows0.
Proof. exact multipart_no_panic. Qed.
