(* C16 — multipart/form-data bodies round-trip part for part.  Property theorems only.
   FULL statement (not proved in general yet): for every non-empty part list (each part with at least one well-formed header, any body
   bytes) and every boundary whose hyphen-less form ends no body line:  multipart_parse (multipart_generate parts b) b = MOk parts. *)
From Rws Require Import Str Utf8 Num Request GenCodec Forms C16Proof.
Open Scope N_scope.

Definition C16_full : Prop := forall parts b, parts <> [] -> (* well-formedness elided, see above *) True ->
  multipart_parse (multipart_generate parts b) b = MOk parts.

Theorem C16_roundtrip_partial :
  multipart_parse (multipart_generate parts_rep B1) B1 = MOk parts_rep /\
  multipart_parse (multipart_generate parts_rep BD_INNER) BD_INNER = MOk parts_rep.
Proof. exact (conj roundtrip_rep_b1 roundtrip_rep_inner_hyphen). Qed.
Theorem C16_reject_no_opening_boundary : forall data boundary,
  is_boundary_line (truncate_nl_cr (filter_ascii_control (fst (split_line data)))) boundary = false -> multipart_parse data boundary = MErr.
Proof. exact reject_no_opening_boundary. Qed.
Theorem C16_reject_partial :
  multipart_parse (skipn (length B1) (multipart_generate parts_rep B1)) B1 = MErr /\
  multipart_parse (firstn (length (multipart_generate parts_rep B1) - length B1) (multipart_generate parts_rep B1)) B1 = MErr /\
  multipart_parse (B1 ++ CRLF ++ CRLF ++ [97] ++ CRLF ++ B1) B1 = MErr /\
  multipart_parse ([66;49;13;10;72;58;32;118;13;10]) [66;49] = MErr.
Proof. exact reject_rep. Qed.
Theorem C16_empty_body_trim : forall b, trim_body_end (b ++ [13; 10]) = b.
Proof. exact trim_body_end_crlf. Qed.
Theorem C16_no_panic : forall data boundary, multipart_parse data boundary <> MPanicWindows0.
Proof. exact multipart_no_panic. Qed.
