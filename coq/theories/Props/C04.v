(* C04 — every connection is answered; no input can crash the server.  Property theorems only. *)
From Rws Require Import Str Utf8 Num Fs UrlParse RangeSpec Request GenMime Mime StaticRes GenConsts Forms Server C14Proof C04Proof.
Open Scope N_scope.

(* for every configuration, every file system whose files are shorter than 2^64-1 bytes, every input byte string and both
   entry points the request path ends in a write of one response: the panic value of the model is unreachable *)
Theorem C04_always_answers : forall lg cfg fs input, fs_small fs ->
  exists rs raw ok, process_gen lg cfg fs input = Wrote rs raw ok.
Proof. exact process_always_answers. Qed.
Check C04_always_answers : forall lg cfg fs input, fs_small fs ->
  exists rs raw ok, process_gen lg cfg fs input = Wrote rs raw ok.

(* requests that cannot be parsed get the 400 *)
Theorem C04_unparseable_is_400 : forall lg cfg fs input e,
  parse_request (let n := N.to_nat (cf_size cfg) in firstn n input ++ repeat 0 (n - length (firstn n input))) = Request.Err e ->
  exists raw, process_gen lg cfg fs input = Wrote (bad_request_response cfg) raw false /\ rs_status (bad_request_response cfg) = 400.
Proof. exact unparseable_is_400. Qed.

(* every application handler that does not itself panic is answered, and a handler error is answered with the 400 *)
Theorem C04_handler_always_answered : forall app cfg input, (forall r, sres_ok (app r)) ->
  exists rs raw ok, process_with app cfg input = Wrote rs raw ok /\ (forall r st, app r = SErr st -> True).
Proof. exact handler_always_answered. Qed.
Theorem C04_handler_error_is_400 : forall app cfg input r st,
  parse_request (let n := N.to_nat (cf_size cfg) in firstn n input ++ repeat 0 (n - length (firstn n input))) = Request.Ok r ->
  app r = SErr st ->
  exists raw, process_with app cfg input = Wrote (bad_request_response cfg) raw false.
Proof. exact handler_error_is_400. Qed.

(* the ingredients: the built-in application never panics; the request parser never panics; every origin-form target parses
   (no unwrap inside url-build-parse fires); the windows(0) hazard of the multipart parser is unreachable *)
Theorem C04_execute_never_panics : forall lg cfg fs r, fs_small fs -> sres_ok (app_execute_gen lg cfg fs r).
Proof. exact execute_never_panics. Qed.
Theorem C04_parse_no_panic : forall input p, parse_request input <> Request.Panic p.
Proof. exact parse_no_panic. Qed.
Theorem C04_origin_form_parses : forall t, exists x p', target_url (47 :: t) = UOk x /\ u_path x = 47 :: p'.
Proof. exact origin_form_parses. Qed.
Theorem C04_windows0_unreachable : forall data boundary, multipart_parse data boundary <> MPanicWindows0.
Proof. exact windows0_unreachable. Qed.
Theorem C04_nonvacuous : fs_small fs0.
Proof. exact fs0_small. Qed.
