(* C13 — the server never modifies the files it serves.  Property theorems only. *)
From Coq Require Import List Bool.
From Rws Require Import Fs GenFsCalls FsCalls.
Import ListNotations.

(* whatever the mutating primitives do, a history of calls made only from the call sites the scanner found on the request path
   leaves every file system as it was *)
Theorem C13_request_history_read_only : forall eff ops, (forall p, In p ops -> In p request_path_prims) ->
  forall fs, fold_left (exec eff) ops fs = fs.
Proof. exact (fun eff => history_read_only eff request_path_prims request_path_read_only). Qed.
Check C13_request_history_read_only : forall eff ops, (forall p, In p ops -> In p request_path_prims) ->
  forall fs, fold_left (exec eff) ops fs = fs.
Theorem C13_table_read_only : forallb (fun p => negb (mutating p)) request_path_prims = true.
Proof. exact request_path_read_only. Qed.
Theorem C13_read_only_closed : forall eff ops fs, forallb (fun p => negb (mutating p)) ops = true -> fold_left (exec eff) ops fs = fs.
Proof. exact read_only_closed. Qed.
Theorem C13_nonvacuous : request_path_prims <> [] /\ In PNetWrite request_path_prims /\ In POpen request_path_prims.
Proof. exact request_path_nonempty. Qed.
Theorem C13_classification :
  forallb mutating [PWrite; PCreate; POpenWrite; PRemoveFile; PRemoveDir; PRename; PCopy; PCreateDir; PSymlink; PChmod; PSpawn; PChdir; PEnvWrite] = true /\
  forallb (fun p => negb (mutating p)) [PMetadata; PLMetadata; POpen; PRead; PReadLink; PReadDir; PSeek; PCurrentDir; PEnvRead; PNetWrite] = true.
Proof. exact mutating_classification. Qed.
