(* C01 — requests cannot read files outside the served directory.  Property theorems only. *)
From Rws Require Import Str Utf8 Num Fs UrlParse RangeSpec Request GenMime Mime StaticRes GenConsts Forms Server C01Proof C01Process.
Open Scope N_scope.

(* where a body comes from: FromFile q via = the file at canonical path q, via = some symlink was followed on the way *)
Definition C01_provenance_ok (fs : fsys) (c : crange) : Prop :=
  match c_prov c with FromFile q via => via = true \/ prefixb_names (cwd fs) q = true | _ => True end.

(* for every configuration, every file system whose working directory is a link-free canonical directory, every input byte
   string and both entry points: each body part of the response is a built-in asset, a message, read through an owner's
   symlink, or read from a canonical path that extends the served directory *)
Theorem C01_contained : forall lg cfg fs input rs raw ok,
  cwd_ok fs -> process_gen lg cfg fs input = Wrote rs raw ok -> Forall (C01_provenance_ok fs) (rs_ranges rs).
Proof. exact process_contained. Qed.
Check C01_contained : forall lg cfg fs input rs raw ok,
  cwd_ok fs -> process_gen lg cfg fs input = Wrote rs raw ok -> Forall (C01_provenance_ok fs) (rs_ranges rs).

(* ... and the bytes written are the status line, the headers and exactly those parts *)
Theorem C01_wire_is_those_parts : forall rs meth,
  generate_response rs meth = HTTP11 ++ [32] ++ show_N (rs_status rs) ++ [32] ++ rs_reason rs ++ CRLF ++
     flat_map gen_header (all_headers rs) ++ CRLF ++ (if beqs meth HEAD || beqs meth OPTIONS then [] else gen_body (rs_ranges rs)).
Proof. exact (fun rs meth => eq_refl). Qed.

(* the path handed to the file system always starts with '/' (or is empty): no gluing onto a sibling directory name *)
Theorem C01_target_path_shape : forall uri P, path_or_panic uri = SOk P -> P = [] \/ exists t, P = SLASH :: t.
Proof. exact target_path_shape. Qed.

(* a target whose path has a ".." segment is answered with an error status *)
Theorem C01_climb_is_error : forall lg cfg fs r P rs,
  path_or_panic (uri r) = SOk P -> has_dotdot P = true -> (lg = true -> has_dotdot (uri r) = true) ->
  app_execute_gen lg cfg fs r = SOk rs -> error_status (rs_status rs) = true.
Proof. exact climb_is_error. Qed.
(* lexically climbing above the root needs a ".." segment *)
Theorem C01_climbing_needs_dotdot : forall P, has_dotdot P = false -> climbs P = false.
Proof. exact no_dotdot_no_climb. Qed.

(* non-vacuity and the regression witness of the original finding (GET /../secret.txt) *)
Theorem C01_nonvacuous : cwd_ok fs0 /\
  (exists rs raw, process cfg0 fs0 (req_bytes [47;97;46;116;120;116]) = Wrote rs raw true /\ rs_status rs = 200 /\
     map c_body (rs_ranges rs) = [[48;49;50;51;52;53;54;55;56;57]] /\
     map c_prov (rs_ranges rs) = [FromFile [[111;117;116;101;114]; [114;111;111;116]; [97;46;116;120;116]] false]) /\
  (exists rs raw, process cfg0 fs0 (req_bytes escape_uri) = Wrote rs raw true /\ rs_status rs = 404 /\ map c_prov (rs_ranges rs) = [BuiltIn]).
Proof. exact (conj fs0_cwd_ok (conj served_inside escape_is_404)). Qed.
