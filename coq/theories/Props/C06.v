(* C06 — serving capacity survives any history of connections.  Property theorems only. *)
From Coq Require Import List Arith Lia Bool.
From Rws Require Import Pool.
Import ListNotations.

(* the worker loop with the unwind guard (the current code): after ANY sequence of steps - submissions, lock hand-overs, jobs
   finishing and jobs panicking (Crash) in any interleaving - the pool still has its N workers and none of them is dead *)
Theorem C06_pool_never_loses_a_worker : forall n ls s, run true (init n) ls = Some s -> length (ws s) = n /\ dead (ws s) = 0.
Proof. exact pool_never_loses_a_worker. Qed.
Check C06_pool_never_loses_a_worker : forall n ls s, run true (init n) ls = Some s -> length (ws s) = n /\ dead (ws s) = 0.
(* ... and the invariant that makes a following request serviceable (conservation of jobs, lock discipline) holds there *)
Theorem C06_invariant_reachable : forall n ls s, run true (init n) ls = Some s -> Inv n s.
Proof. exact (fun n ls s H => reachable_inv true n ls _ (init_inv n) _ H). Qed.

(* the accept loop (the current code): after any sequence of accepted connections, failed accepts and failed address lookups the
   listener is still listening and exactly the accepted connections were handed to the pool, in order *)
Theorem C06_accept_loop_survives : forall es, fold_left accept_step es (Listening, []) = (Listening, accepted es).
Proof. exact accept_loop_survives. Qed.

(* regression witnesses of the two original defects (fixed by 0717595 and 8e432a0): without the unwind guard two panicking
   jobs kill a pool of two; the returning accept loop exits on one failed address lookup *)
Theorem C06_unguarded_loop_refuted : exists ls s, run false (init 2) ls = Some s /\ dead (ws s) = 2.
Proof. exact all_dead. Qed.
Theorem C06_returning_accept_loop_refuted : fst (fold_left accept_step_pinned [AcceptOk 0; PeerAddrErr; AcceptOk 1] (Listening, [])) = Exited.
Proof. exact accept_loop_pinned_exits. Qed.
