(* C07 — the worker pool runs every task exactly once, N at a time, without deadlock.  Property theorems only.
   States: FIFO queue, per-worker WantLock | HoldsLock | Running j | Dead, lock owner, done and submitted lists.
   Labels (= all interleavings): Submit j | Acquire w | Receive w | Finish w | Crash w. *)
From Coq Require Import List Arith Lia Bool.
From Rws Require Import Pool.
Import ListNotations.

(* the invariant holds in every reachable state, for every pool size and every sequence of steps *)
Theorem C07_inv_reachable : forall rs n ls s, run rs (init n) ls = Some s -> Inv n s.
Proof. exact (fun rs n ls s H => reachable_inv rs n ls _ (init_inv n) _ H). Qed.
Check C07_inv_reachable : forall rs n ls s, run rs (init n) ls = Some s -> Inv n s.

(* exactly once: every submitted job is in exactly one of queue / running on one worker / done, and is never submitted twice *)
Theorem C07_exactly_once : forall rs n ls s, run rs (init n) ls = Some s ->
  forall j, cnt j (queue s) + cnt j (running (ws s)) + cnt j (done s) = cnt j (submitted s) /\ cnt j (submitted s) <= 1.
Proof. exact exactly_once. Qed.

(* a slow task delays only its own worker: whoever owns the queue lock is inside the receive statement, not running a job *)
Theorem C07_no_lock_while_running : forall rs n ls s w, run rs (init n) ls = Some s -> lock s = Some w -> nth_error (ws s) w = Some HoldsLock.
Proof. exact no_lock_while_running. Qed.

(* pool-internal steps (acquire, receive) strictly decrease mu = 2|queue| + [lock free]: they cannot go on forever *)
Theorem C07_internal_terminates : forall rs s l s', internal l = true -> step rs s l = Some s' -> mu s' < mu s.
Proof. exact internal_decreases. Qed.
(* ... and when none is enabled the queue is empty or no live worker is idle: N tasks run at a time, no task waits while a worker idles *)
Theorem C07_stuck_saturated : forall rs n s, Inv n s -> (forall l, internal l = true -> step rs s l = None) ->
  queue s = [] \/ forallb (fun w => negb (idle_pred w)) (ws s) = true.
Proof. exact stuck_means_saturated. Qed.

(* the executable acceptor used to validate recorded traces of the real pool only accepts traces that keep the invariant *)
Theorem C07_trace_acceptor_sound : forall n fuel s ls s', Inv n s -> accept_trace fuel s ls = Some s' -> Inv n s'.
Proof. exact accept_trace_inv. Qed.

Theorem C07_nonvacuous : exists s, run true (init 2) [Submit 0; Submit 1; Acquire 0; Receive 0; Acquire 1; Receive 1; Finish 0; Finish 1] = Some s /\ done s = [1; 0].
Proof. eexists. split; reflexivity. Qed.
