(* C11 — cross-origin grants follow the configuration exactly.  Property theorems only. *)
From Rws Require Import Str Num Unicase Fs UrlParse RangeSpec Request GenMime Mime StaticRes GenConsts Server StrLemmas C10Proof C11Proof.
Open Scope N_scope.

Theorem C11_no_origin_no_grants : forall c r, get_header r Hd_ORIGIN = None -> cors_headers c r = [].
Proof. exact C11_no_origin. Qed.

Theorem C11_on_echo : forall r o, get_header r Hd_ORIGIN = Some o ->
  exists rest, cors_headers CAllowAll r = H Hd_ACCESS_CONTROL_ALLOW_ORIGIN (hvalue o) :: H Hd_ACCESS_CONTROL_ALLOW_CREDENTIALS TRUE :: rest.
Proof. exact C11_on_echo. Qed.

Theorem C11_off_exact_membership : forall o cr m h e a r org,
  get_header r Hd_ORIGIN = Some org ->
  has_name Hd_ACCESS_CONTROL_ALLOW_ORIGIN (cors_headers (COff o cr m h e a) r) = member o (hvalue org) /\
  (member o (hvalue org) = true -> In (H Hd_ACCESS_CONTROL_ALLOW_ORIGIN (hvalue org)) (cors_headers (COff o cr m h e a) r)).
Proof. exact C11_off_exact. Qed.

Theorem C11_member_is_configured_origin : forall o v, member o v = true <-> v <> [] /\ In v (split o [44]).
Proof. exact member_spec. Qed.

Theorem C11_off_not_member_nothing : forall o cr m h e a r org,
  get_header r Hd_ORIGIN = Some org -> member o (hvalue org) = false -> cors_headers (COff o cr m h e a) r = [].
Proof. exact C11_off_not_member_nothing. Qed.

Theorem C11_off_grants_exact : forall o cr m h e a r org,
  get_header r Hd_ORIGIN = Some org -> member o (hvalue org) = true ->
  cors_headers (COff o cr m h e a) r =
    [H Hd_ACCESS_CONTROL_ALLOW_ORIGIN (hvalue org)] ++ (if beqs cr TRUE then [H Hd_ACCESS_CONTROL_ALLOW_CREDENTIALS TRUE] else []) ++
    (if beqs (method r) OPTIONS then
       [H Hd_ACCESS_CONTROL_ALLOW_METHODS m; H Hd_ACCESS_CONTROL_ALLOW_HEADERS (ulower h);
        H Hd_ACCESS_CONTROL_EXPOSE_HEADERS (ulower e); H Hd_ACCESS_CONTROL_MAX_AGE a] else []).
Proof. exact C11_off_preflight. Qed.

(* the grants reach the wire: every response's header list starts with the CORS headers of its request *)
Theorem C11_in_every_response : forall lg cfg fs r rs, app_execute_gen lg cfg fs r = SOk rs ->
  exists rest, rs_headers rs = cors_headers (cf_cors cfg) r ++ rest.
Proof. exact cors_prefix. Qed.
