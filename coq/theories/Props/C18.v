(* C18 — Base64 conforms to RFC 4648 and round-trips.  Property theorems only. *)
From Rws Require Import Str Utf8 Base64 Base64Proofs C18Proof.
Open Scope N_scope.
(* the encoder is the RFC 4648 section 4 encoding (table and padding written out independently in Base64Proofs.v) of every byte string *)
Theorem C18_encode_is_rfc4648 : forall bs, bytes_ok bs -> encode bs = Some (rfc4648 bs).
Proof. exact encode_is_rfc4648. Qed.
Check C18_encode_is_rfc4648 : forall bs, bytes_ok bs -> encode bs = Some (rfc4648 bs).
(* the decoder inverts the standard encoding of every byte string, of any length *)
Theorem C18_decode_rfc4648 : forall bs, bytes_ok bs -> decode (rfc4648 bs) = Some bs.
Proof. exact decode_rfc4648. Qed.
Theorem C18_round_trip : forall bs, bytes_ok bs -> match encode bs with Some t => decode t = Some bs | None => False end.
Proof. exact round_trip. Qed.
(* the decoding loop, one group: the four sextets of the alphabet characters are recombined as RFC 4648 says *)
Theorem C18_group : forall d1 d2 d3 d4, d1 < 64 -> d2 < 64 -> d3 < 64 -> d4 < 64 ->
  dec_seq [al d1; al d2; al d3; al d4] = Some [out1 d1 d2; out2 d2 d3; out3 d3 d4].
Proof. exact dec_seq_sextets. Qed.
(* rejected texts (observed classes, by evaluation): a character outside the alphabet, a truncated group, a non-ASCII character, three '=' *)
Theorem C18_rejects : decode [33;61;61;61] = None /\ decode [81;81] = None /\ decode [81;85;74;68;195;169] = None /\ decode [81;61;61;61] = None.
Proof. vm_compute. repeat split. Qed.
