(* C18 — Base64 conforms to RFC 4648 and round-trips.  Property theorems only. *)
From Rws Require Import Str Utf8 Base64 Base64Proofs.
Open Scope N_scope.
Theorem C18_encode_is_rfc4648 : forall bs, bytes_ok bs -> encode bs = Some (rfc4648 bs).
Proof. exact encode_is_rfc4648. Qed.
Check C18_encode_is_rfc4648 : forall bs, bytes_ok bs -> encode bs = Some (rfc4648 bs).
