(* C14 — accept / reject clauses, totality of the header loop, case-insensitive lookup *)
From Coq Require Import Arith.
From Rws Require Import Str Utf8 Num Unicase Request StrLemmas Utf8Lemmas TrimLemmas RequestProofs StaticRes.
Open Scope N_scope.

(* the header loop never runs out of fuel and has no panic site: with fuel > length of the rest it returns Ok *)
Lemma headers_loop_total : forall fuel rest, (length rest < fuel)%nat -> exists hs bd, headers_loop fuel rest = Ok (hs, bd).
Proof.
  induction fuel as [|f IH]; intros rest Hf; [lia|].
  cbn [headers_loop]. destruct (split_line rest) as [line rest'] eqn:Es.
  destruct (negb (utf8_valid line)); [eauto|].
  destruct (beqs (trim line) []) eqn:Eb; [eauto|].
  match goal with |- context [if ?c then _ else _] => destruct c end; [eauto|].
  assert (Hlt : (length rest' < f)%nat).
  { destruct rest as [|c r].
    - cbn in Es. inversion Es; subst. cbn in Eb. discriminate.
    - pose proof (split_line_length (c :: r)) as H. rewrite Es in H. cbn [snd] in H. specialize (H ltac:(discriminate)). lia. }
  destruct (IH rest' Hlt) as [hs [bd E]]. rewrite E. eauto.
Qed.

(* accept: a UTF-8 request line that the request-line parser accepts makes the whole parse succeed, whatever follows *)
Theorem accept input m u v :
  utf8_valid (fst (split_line input)) = true -> parse_request_line (fst (split_line input)) = Some (m, u, v) ->
  exists hs bd, parse_request input = Ok (mkR m u v hs bd).
Proof.
  intros Hu Hp. unfold parse_request. destruct (split_line input) as [line rest]. cbn [fst] in *.
  rewrite Hu, Hp. cbn [negb].
  destruct (headers_loop_total (S (length rest)) rest ltac:(lia)) as [hs [bd E]]. rewrite E. eauto.
Qed.
(* ... and the request-line parser accepts: known method (any letter case), a target without space, known version *)
Theorem request_line_accepts line m u v :
  trim line = m ++ [SP] ++ u ++ [SP] ++ v -> ~ In 32 m -> ~ In 32 u ->
  mem (uupper m) methods = true -> mem (uupper v) versions = true ->
  parse_request_line line = Some (m, u, v).
Proof.
  intros Ht Hm Hu Hmm Hv. unfold parse_request_line. rewrite Ht.
  change (m ++ [SP] ++ u ++ [SP] ++ v) with (m ++ SP :: (u ++ [SP] ++ v)).
  rewrite split_once_1 by exact Hm. rewrite Hmm. cbn [negb].
  change (u ++ [SP] ++ v) with (u ++ SP :: v). rewrite split_once_1 by exact Hu. rewrite Hv. reflexivity.
Qed.

(* reject *)
Theorem reject_non_utf8 input : utf8_valid (fst (split_line input)) = false -> parse_request input = Err ENotUtf8.
Proof. intro H. unfold parse_request. destruct (split_line input) as [line rest]. cbn [fst] in H. rewrite H. reflexivity. Qed.
Theorem reject_request_line input : utf8_valid (fst (split_line input)) = true ->
  parse_request_line (fst (split_line input)) = None -> parse_request input = Err EReqLine.
Proof. intros Hu H. unfold parse_request. destruct (split_line input) as [line rest]. cbn [fst] in *. rewrite Hu, H. reflexivity. Qed.
(* the request-line parser rejects: fewer than three space-separated fields, unknown method, unknown version *)
Theorem request_line_rejects line :
  (split_once (trim line) [SP] = None) \/
  (exists m rest, split_once (trim line) [SP] = Some (m, rest) /\
     (mem (uupper m) methods = false \/ split_once rest [SP] = None \/
      exists u v, split_once rest [SP] = Some (u, v) /\ mem (uupper v) versions = false)) ->
  parse_request_line line = None.
Proof.
  unfold parse_request_line. intros [H | (m & rest & H & Hc)]; rewrite H; [reflexivity|].
  destruct Hc as [Hm | [Hs | (u & v & Hs & Hv)]].
  - rewrite Hm. reflexivity.
  - destruct (negb (mem (uupper m) methods)); [reflexivity|]. rewrite Hs. reflexivity.
  - destruct (negb (mem (uupper m) methods)); [reflexivity|]. rewrite Hs, Hv. reflexivity.
Qed.
(* conversely, acceptance implies the three-field shape: the parser accepts exactly those lines *)
Theorem request_line_accept_shape line m u v : parse_request_line line = Some (m, u, v) ->
  exists rest, split_once (trim line) [SP] = Some (m, rest) /\ split_once rest [SP] = Some (u, v) /\
               mem (uupper m) methods = true /\ mem (uupper v) versions = true.
Proof.
  unfold parse_request_line. destruct (split_once (trim line) [SP]) as [[m' rest]|]; [|discriminate].
  destruct (mem (uupper m') methods) eqn:Em; cbn [negb]; [|discriminate].
  destruct (split_once rest [SP]) as [[u' v']|] eqn:Es; [|discriminate].
  destruct (mem (uupper v') versions) eqn:Ev; cbn [negb]; [|discriminate].
  intro H. inversion H; subst. exists rest. auto.
Qed.

(* no panic, for every input *)
Lemma headers_loop_nopanic : forall fuel rest p, headers_loop fuel rest <> Panic p.
Proof.
  induction fuel as [|f IH]; intros rest p; cbn [headers_loop]; [discriminate|].
  destruct (split_line rest) as [line rest']. destruct (negb (utf8_valid line)); [discriminate|].
  destruct (beqs (trim line) []); [discriminate|].
  match goal with |- context [if ?c then _ else _] => destruct c end; [discriminate|].
  destruct (headers_loop f rest') as [[hs bd]| |] eqn:E; try discriminate. exfalso. eapply IH; eauto.
Qed.
Theorem parse_no_panic input p : parse_request input <> Panic p.
Proof. unfold parse_request. destruct (split_line input) as [line rest]. destruct (negb (utf8_valid line)); [discriminate|].
  destruct (parse_request_line line) as [[[m u] v]|]; [|discriminate].
  destruct (headers_loop (S (length rest)) rest) as [[hs bd]| |] eqn:E; try discriminate. exfalso. eapply headers_loop_nopanic; eauto. Qed.

(* header lookup ignores ASCII letter case and returns the first match *)
Theorem lookup_ci r n n' : ulower n = ulower n' -> get_header r n = get_header r n'.
Proof. intro H. unfold get_header. rewrite H. reflexivity. Qed.
Theorem lookup_first r n h : get_header r n = Some h ->
  exists pre post, headers r = pre ++ h :: post /\ ulower (hname h) = ulower n /\ Forall (fun x => ulower (hname x) <> ulower n) pre.
Proof.
  unfold get_header. generalize (headers r) as hs. induction hs as [|x hs IH]; cbn [find]; [discriminate|].
  destruct (beqs (ulower (hname x)) (ulower n)) eqn:E.
  - intro H. inversion H; subst. exists [], hs. apply beqs_eq in E. repeat split; auto.
  - intro H. destruct (IH H) as (pre & post & E1 & E2 & E3). exists (x :: pre), post. rewrite E1. repeat split; auto.
    constructor; [|exact E3]. intro Hx. rewrite Hx, beqs_refl in E. discriminate.
Qed.
Example lookup_example : get_header (mkR [] [] [] [mkH [72;111;115;116] [49]; mkH [104;79;83;84] [50]] []) [104;111;115;116] = Some (mkH [72;111;115;116] [49]).
Proof. reflexivity. Qed.

(* finding C14-F1: a request line without a target is accepted with the empty target *)
Lemma empty_target_witness : parse_request_line [71;69;84;32;32;72;84;84;80;47;49;46;49;13;10] = Some ([71;69;84], [], [72;84;84;80;47;49;46;49]).
Proof. vm_compute. reflexivity. Qed.
