(* the domain of the general single-part response round-trip theorem (C15): decidable, evaluated by the model runner on every generated case *)
From Rws Require Import Str Utf8 Num Fs UrlParse RangeSpec Request GenMime Mime StaticRes GenConsts Forms Server RespParse.
Open Scope N_scope.

(* ---------- the domain (decidable) ---------- *)
Definition clean_b (s : list N) : bool := negb (existsb (N.eqb 10) s) && negb (existsb (N.eqb 13) s).
Definition user_header_ok (h : header) : bool :=
  negb (existsb (N.eqb 58) (hname h)) && clean_b (hname h) && clean_b (hvalue h) && utf8_valid (hname h) && utf8_valid (hvalue h)
  && negb (beqs (hname h) Hd_CONTENT_TYPE) && negb (beqs (hname h) Hd_CONTENT_RANGE) && negb (beqs (hname h) Hd_CONTENT_LENGTH).
Definition type_ok (t : list N) : bool := clean_b t && utf8_valid t && negb (starts_with t MULTIPART_BYTERANGES).
Definition resp_status_ok (v : list N) (c : N) (rsn : list N) : bool :=
  mem v version_list &&
  match find (fun p => N.eqb (fst p) c) status_table with Some p => N.eqb (fst p) c && beqs (snd p) rsn | None => false end.
(* one part: start <= end <= size < 2^63, the size text is the decimal of the size, the body is arbitrary, fewer than 2^64 bytes *)
Definition single_ok (r : presp) : bool :=
  resp_status_ok (pr_version r) (pr_status r) (pr_reason r) && forallb user_header_ok (pr_headers r) &&
  match pr_ranges r with
  | [p] => type_ok (pr_type p) && N.ltb (N.of_nat (length (pr_body p))) (2 ^ 64) &&
           match digits_val 0 (pr_size p) with
           | Some z => beqs (pr_size p) (show_N z) && N.leb (pr_start p) (pr_end p) && N.leb (pr_end p) z && N.ltb z (2 ^ 63)
           | None => false
           end
  | _ => false
  end.

