(* the domain of the general single-part response round-trip theorem (C15): decidable, evaluated by the model runner on every generated case *)
From Rws Require Import Str Utf8 Num Fs UrlParse RangeSpec Request GenMime Mime StaticRes GenConsts Forms Server RespParse.
Open Scope N_scope.

(* ---------- the domain (decidable) ---------- *)
Definition clean_b (s : list N) : bool := negb (existsb (N.eqb 10) s) && negb (existsb (N.eqb 13) s).
Definition user_header_ok (h : header) : bool :=
  negb (existsb (N.eqb 58) (hname h)) && clean_b (hname h) && clean_b (hvalue h) && utf8_valid (hname h) && utf8_valid (hvalue h)
  && negb (beqs (hname h) Hd_CONTENT_TYPE) && negb (beqs (hname h) Hd_CONTENT_RANGE) && negb (beqs (hname h) Hd_CONTENT_LENGTH).
Definition type_ok (t : list N) : bool := clean_b t && utf8_valid t && negb (starts_with t MULTIPART_BYTERANGES).
Definition resp_status_ok (v : list N) (c : N) (rsn : list N) : bool :=
  mem v version_list &&
  match find (fun p => N.eqb (fst p) c) status_table with Some p => N.eqb (fst p) c && beqs (snd p) rsn | None => false end.
(* one part: start <= end <= size < 2^63, the size text is the decimal of the size, the body is arbitrary, fewer than 2^64 bytes *)
Definition single_ok (r : presp) : bool :=
  resp_status_ok (pr_version r) (pr_status r) (pr_reason r) && forallb user_header_ok (pr_headers r) &&
  match pr_ranges r with
  | [p] => type_ok (pr_type p) && N.ltb (N.of_nat (length (pr_body p))) (2 ^ 64) &&
           match digits_val 0 (pr_size p) with
           | Some z => beqs (pr_size p) (show_N z) && N.leb (pr_start p) (pr_end p) && N.leb (pr_end p) z && N.ltb z (2 ^ 63)
           | None => false
           end
  | _ => false
  end.

(* ---------- several parts (multipart/byteranges): the domain of C15_multi_part_round_trip ---------- *)
Definition hsolid (s : list N) : bool := match s with c :: _ => N.ltb c 128 && negb (ascii_ws c) | [] => false end.
Definition BD : list N := Rg_STRING_SEPARATOR.
Definition ct_line (ty : list N) : list N := Hd_CONTENT_TYPE ++ COLON_SP ++ [32] ++ ty ++ CRLF.
Definition cr_line (st en z : N) : list N := Hd_CONTENT_RANGE ++ COLON_SP ++ [32] ++ (Rg_BYTES ++ [32] ++ show_N st ++ [45] ++ show_N en ++ [47] ++ show_N z) ++ CRLF.
(* a body line ends the part when it is valid UTF-8 and contains the separator *)
Definition stops (line : list N) : bool := utf8_valid line && contains line BD.
Fixpoint blines_ok (fuel : nat) (s : list N) : bool :=
  match fuel with O => true | S f =>
  match s with [] => true | _ => let (l, r) := split_line s in negb (stops l) && blines_ok f r end end.
Definition mtype_ok (ty : list N) : bool :=
  clean_b ty && utf8_valid ty && hsolid ty && hsolid (rev ty) && negb (contains (ct_line ty) BD).
Definition mpart_ok (p : N * N * list N * list N * list N) : bool :=
  mtype_ok (pr_type p) &&
  match digits_val 0 (pr_size p) with
  | Some z => beqs (pr_size p) (show_N z) && N.leb (pr_start p) (pr_end p) && N.leb (pr_end p) z && N.ltb z (2 ^ 63)
  | None => false
  end && blines_ok (S (length (pr_body p ++ CRLF))) (pr_body p ++ CRLF).
(* two or more parts, each with a clean type text and a body no line of which is valid UTF-8 and contains the separator text *)
Definition multi_ok (r : presp) : bool :=
  resp_status_ok (pr_version r) (pr_status r) (pr_reason r) && forallb user_header_ok (pr_headers r) &&
  match pr_ranges r with _ :: _ :: _ => forallb mpart_ok (pr_ranges r) | _ => false end.
