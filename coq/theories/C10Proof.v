From Rws Require Import Str Utf8 Num Fs UrlParse RangeSpec Request GenMime Mime StaticRes GenConsts Forms Server.
Open Scope N_scope.

Definition count_name (n : list N) (hs : list header) : nat := length (filter (fun h => beqs (hname h) n) hs).
Lemma count_app n a b : count_name n (a ++ b) = (count_name n a + count_name n b)%nat.
Proof. unfold count_name. rewrite filter_app, app_length. reflexivity. Qed.

(* names a CORS header can have *)
Definition aca_names : list (list N) :=
  [Hd_ACCESS_CONTROL_ALLOW_ORIGIN; Hd_ACCESS_CONTROL_ALLOW_CREDENTIALS; Hd_ACCESS_CONTROL_ALLOW_METHODS;
   Hd_ACCESS_CONTROL_ALLOW_HEADERS; Hd_ACCESS_CONTROL_EXPOSE_HEADERS; Hd_ACCESS_CONTROL_MAX_AGE].
Definition names_in (allowed : list (list N)) (hs : list header) : Prop := Forall (fun h => mem (hname h) allowed = true) hs.

Lemma names_in_app al a b : names_in al a -> names_in al b -> names_in al (a ++ b).
Proof. intros. apply Forall_app; auto. Qed.
Ltac names_tac := repeat first [ apply names_in_app | apply Forall_cons; [vm_compute; reflexivity|] | apply Forall_nil ].

Lemma cors_names c r : names_in aca_names (cors_headers c r).
Proof.
  destruct c as [|o cr m h e a]; cbn [cors_headers]; unfold cors_allow_all, cors_off.
  - destruct (get_header r Hd_ORIGIN); [|apply Forall_nil].
    destruct (beqs (method r) OPTIONS);
    destruct (get_header r Hd_ACCESS_CONTROL_REQUEST_METHOD); destruct (get_header r Hd_ACCESS_CONTROL_REQUEST_HEADERS); names_tac.
  - destruct (get_header r Hd_ORIGIN); [|apply Forall_nil].
    match goal with |- names_in _ (if ?c then _ else _) => destruct c end; [apply Forall_nil|].
    destruct (beqs cr TRUE); destruct (beqs (method r) OPTIONS); names_tac.
Qed.

Lemma count_not_in al n hs : names_in al hs -> mem n al = false -> count_name n hs = 0%nat.
Proof.
  intros H Hn. unfold count_name. induction H as [|h hs Hh Hs IH]; simpl; auto.
  destruct (beqs (hname h) n) eqn:E; auto. apply beqs_eq in E. rewrite E in Hh. congruence.
Qed.

(* the six hardening / no-cache headers and their values *)
Definition required : list (list N * list N) :=
  [ (Hd_X_CONTENT_TYPE_OPTIONS, Hd_X_CONTENT_TYPE_OPTIONS_VALUE_NOSNIFF);
    (Hd_X_FRAME_OPTIONS, Hd_X_FRAME_OPTIONS_VALUE_SAME_ORIGIN);
    (Hd_CACHE_CONTROL, Hd_DO_NOT_STORE_CACHE);
    (Hd_ACCEPT_RANGES, Rg_BYTES);
    (Ch_ACCEPT_CLIENT_HINTS, join COMMA_SP hint_list);
    (Hd_VARY, join COMMA_SP [Hd_ORIGIN; join COMMA_SP vary_hints]) ].
Example vary_names_origin : starts_with (join COMMA_SP [Hd_ORIGIN; join COMMA_SP vary_hints]) (Hd_ORIGIN ++ COMMA_SP) = true.
Proof. vm_compute. reflexivity. Qed.
Definition fixed_part (cfg : config) : list header :=
  [H Ch_ACCEPT_CLIENT_HINTS (join COMMA_SP hint_list); H Ch_CRITICAL_CLIENT_HINTS (join COMMA_SP hint_list);
   H Hd_VARY (join COMMA_SP [Hd_ORIGIN; join COMMA_SP vary_hints]);
   H Hd_X_CONTENT_TYPE_OPTIONS Hd_X_CONTENT_TYPE_OPTIONS_VALUE_NOSNIFF; H Hd_ACCEPT_RANGES Rg_BYTES;
   H Hd_X_FRAME_OPTIONS Hd_X_FRAME_OPTIONS_VALUE_SAME_ORIGIN; H Hd_DATE_UNIX_EPOCH_NANOS (cf_time cfg);
   H Hd_CACHE_CONTROL Hd_DO_NOT_STORE_CACHE].
Lemma default_split cfg r : default_headers cfg r = cors_headers (cf_cors cfg) r ++ fixed_part cfg.
Proof. reflexivity. Qed.

Definition extra_names : list (list N) :=
  [Hd_LAST_MODIFIED_UNIX_EPOCH_NANOS; Hd_CONTENT_TYPE; Hd_CONTENT_RANGE; Hd_CONTENT_LENGTH].
Lemma derived_names l : names_in extra_names (derived_headers l).
Proof. destruct l as [|c [|c2 r]]; cbn [derived_headers]; names_tac. Qed.

(* every response the chain produces keeps the default list as a prefix, followed at most by Last-Modified *)
Definition shape (cfg : config) (r : request) (rs : response) : Prop :=
  exists extra, rs_headers rs = default_headers cfg r ++ extra /\ names_in extra_names extra.

Lemma shape_asset cfg r fs f b ct st rs0 : shape cfg r rs0 -> shape cfg r (asset_controller fs f b ct st rs0).
Proof. intros [ex [E N]]. unfold asset_controller.
  destruct (is_file fs (rel fs f)); [|exists ex; auto].
  destruct (node_at fs (rel fs f) true) as [[[nd q] via]|]; [destruct nd|]; exists ex; auto. Qed.

(* the demo controllers only ever reuse the header list they were given *)
Definition keeps_headers (rs0 : response) (f : fres) : Prop := match f with FResp x => rs_headers x = rs_headers rs0 | _ => True end.
Ltac kh := repeat match goal with
  | |- keeps_headers _ (match ?x with _ => _ end) => destruct x
  | |- keeps_headers _ (if ?c then _ else _) => destruct c
  end; simpl; auto.
Lemma kh_upload cfg r rs0 : keeps_headers rs0 (upload_controller cfg r rs0). Proof. unfold upload_controller. kh. Qed.
Lemma kh_urlenc r rs0 : keeps_headers rs0 (urlenc_controller r rs0). Proof. unfold urlenc_controller. kh. Qed.
Lemma kh_formget r rs0 : keeps_headers rs0 (formget_controller r rs0). Proof. unfold formget_controller. kh. Qed.
Lemma kh_multi r rs0 : keeps_headers rs0 (multipart_controller r rs0). Proof. unfold multipart_controller. kh. Qed.
Lemma shape_same cfg r rs0 x : shape cfg r rs0 -> rs_headers x = rs_headers rs0 -> shape cfg r x.
Proof. intros [ex [E N]] H. exists ex. rewrite H. auto. Qed.

Lemma shape_execute lg cfg fs r rs : app_execute_gen lg cfg fs r = SOk rs -> shape cfg r rs.
Proof.
  unfold app_execute_gen. set (rs0 := mkResp 501 (reason 501) (default_headers cfg r) []).
  assert (S0 : shape cfg r rs0) by (exists []; split; [simpl; rewrite app_nil_r; reflexivity|apply Forall_nil]).
  pose proof (kh_upload cfg r rs0) as K1. pose proof (kh_urlenc r rs0) as K2.
  pose proof (kh_formget r rs0) as K3. pose proof (kh_multi r rs0) as K4.
  intro Hx.
  repeat match type of Hx with
  | (if ?c then _ else _) = _ => destruct c
  end; try discriminate;
  try (inversion Hx; subst; apply shape_asset; exact S0);
  try (inversion Hx; subst; eapply shape_same; [exact S0|reflexivity]).
  all: destruct (upload_controller cfg r rs0); try discriminate; try (inversion Hx; subst; eapply shape_same; eauto; fail).
  all: destruct (urlenc_controller r rs0); try discriminate; try (inversion Hx; subst; eapply shape_same; eauto; fail).
  all: destruct (formget_controller r rs0); try discriminate; try (inversion Hx; subst; eapply shape_same; eauto; fail).
  all: destruct (multipart_controller r rs0); try discriminate; try (inversion Hx; subst; eapply shape_same; eauto; fail).
  all: repeat match type of Hx with
  | (if ?c then _ else _) = _ => destruct c
  end; try discriminate;
  try (inversion Hx; subst; apply shape_asset; exact S0).
  all: try (destruct (is_matching fs r) as [[|]| |]; try discriminate;
       try (inversion Hx; subst; apply shape_asset; exact S0)).
  all: unfold static_process, static_process_legacy in Hx; destruct (process_static fs r) as [[|c l]|st|]; try discriminate;
       try (inversion Hx; subst; first [exact S0 | exists []; split; [simpl; rewrite app_nil_r; reflexivity|apply Forall_nil]]).
  all: try (destruct (path_or_panic (uri r)) as [P| |]; try discriminate; inversion Hx; subst; cbn [rs_headers];
       destruct (can_open fs (cwd_str fs ++ P)); eexists; (split; [reflexivity|names_tac]); fail).
  all: inversion Hx; subst; cbn [rs_headers];
       destruct (can_open fs (cwd_str fs ++ uri r)); eexists; (split; [reflexivity|names_tac]).
Qed.

Lemma required_of_shape cfg r rs : shape cfg r rs ->
  Forall (fun nv => count_name (fst nv) (all_headers rs) = 1%nat /\
                    In (H (fst nv) (snd nv)) (all_headers rs)) required.
Proof.
  intros [extra [E Nx]].
  unfold all_headers. rewrite E, default_split.
  pose proof (cors_names (cf_cors cfg) r) as Nc. pose proof (derived_names (rs_ranges rs)) as Nd.
  unfold required. repeat apply Forall_cons; try apply Forall_nil; cbn [fst snd]; (split;
  [ rewrite !count_app;
    rewrite (count_not_in aca_names _ _ Nc) by (vm_compute; reflexivity);
    rewrite (count_not_in extra_names _ _ Nx) by (vm_compute; reflexivity);
    rewrite (count_not_in extra_names _ _ Nd) by (vm_compute; reflexivity); vm_compute; reflexivity
  | rewrite !in_app_iff; left; left; right; unfold fixed_part; simpl; tauto ]).
Qed.
Lemma shape_bad_request cfg : shape cfg synthetic_request (bad_request_response cfg).
Proof. exists []. split; [cbn [bad_request_response rs_headers]; rewrite app_nil_r; reflexivity|apply Forall_nil]. Qed.

(* every response written by either entry point — including the 400 for unparseable input and for a failing handler *)
Theorem C10_each_exactly_once lg cfg fs input rs raw ok :
  process_gen lg cfg fs input = Wrote rs raw ok ->
  Forall (fun nv => count_name (fst nv) (all_headers rs) = 1%nat /\
                    In (H (fst nv) (snd nv)) (all_headers rs)) required.
Proof.
  unfold process_gen, process_with. intro Hp.
  destruct (parse_request _) as [r| |]; try discriminate.
  - destruct (app_execute_gen lg cfg fs r) as [rs'| |] eqn:Ex; try discriminate.
    + inversion Hp; subst rs' raw ok. eapply required_of_shape, shape_execute, Ex.
    + inversion Hp; subst. eapply required_of_shape, shape_bad_request.
  - inversion Hp; subst. eapply required_of_shape, shape_bad_request.
Qed.
(* the same for an arbitrary application handler that reports an error: the 400 carries the headers *)
Theorem C10_handler_error cfg app input rs raw ok :
  (forall r, exists st, app r = SErr st) -> process_with app cfg input = Wrote rs raw ok ->
  Forall (fun nv => count_name (fst nv) (all_headers rs) = 1%nat /\
                    In (H (fst nv) (snd nv)) (all_headers rs)) required.
Proof.
  intros Ha. unfold process_with. intro Hp.
  destruct (parse_request _) as [r| |]; try discriminate.
  - destruct (Ha r) as [st E]. rewrite E in Hp. inversion Hp; subst. eapply required_of_shape, shape_bad_request.
  - inversion Hp; subst. eapply required_of_shape, shape_bad_request.
Qed.

(* spec side: the literal header lines the property names (frozen; independent of /repo) *)
Definition lit_nosniff : list N * list N :=
  ([88;45;67;111;110;116;101;110;116;45;84;121;112;101;45;79;112;116;105;111;110;115], [110;111;115;110;105;102;102]).
Definition lit_sameorigin : list N * list N :=
  ([88;45;70;114;97;109;101;45;79;112;116;105;111;110;115], [83;65;77;69;79;82;73;71;73;78]).
Definition lit_accept_ranges : list N * list N := ([65;99;99;101;112;116;45;82;97;110;103;101;115], [98;121;116;101;115]).
Definition lit_cache_control_name : list N := [67;97;99;104;101;45;67;111;110;116;114;111;108].
Definition lit_no_store : list N := [110;111;45;115;116;111;114;101].
Definition lit_vary_name : list N := [86;97;114;121].
Definition lit_origin : list N := [79;114;105;103;105;110].
Definition lit_accept_ch_name : list N := [65;99;99;101;112;116;45;67;72].

(* the generated constants are the documented ones *)
Lemma table_is_documented :
  nth_error required 0 = Some lit_nosniff /\ nth_error required 1 = Some lit_sameorigin /\
  nth_error required 3 = Some lit_accept_ranges /\
  (exists v, nth_error required 2 = Some (lit_cache_control_name, v) /\ contains v lit_no_store = true) /\
  (exists v, nth_error required 4 = Some (lit_accept_ch_name, v) /\ v <> []) /\
  (exists v, nth_error required 5 = Some (lit_vary_name, v) /\ starts_with v lit_origin = true).
Proof. repeat split; try reflexivity; eexists; (split; [reflexivity|]); vm_compute; congruence. Qed.


Lemma wire_shape rs meth : exists body,
  generate_response rs meth = HTTP11 ++ [32] ++ show_N (rs_status rs) ++ [32] ++ rs_reason rs ++ CRLF ++
                              flat_map gen_header (all_headers rs) ++ CRLF ++ body.
Proof. eexists. reflexivity. Qed.

(* the header list of every response starts with the CORS headers computed for its request *)
Lemma cors_prefix lg cfg fs r rs : app_execute_gen lg cfg fs r = SOk rs ->
  exists rest, rs_headers rs = cors_headers (cf_cors cfg) r ++ rest.
Proof. intro E. destruct (shape_execute _ _ _ _ _ E) as [ex [Eh _]]. rewrite Eh, default_split, <- app_assoc. eexists. reflexivity. Qed.
