(* C17 — form and query decoding returns the submitted fields.  The codec is the vendored url-search-params crate; its two ordered
   replace chains are regenerated from the crate's source on every run (GenCodec). *)
From Coq Require Import Arith.
From Rws Require Import Str Utf8 Num Request GenCodec Forms StrLemmas C03Proof.
Open Scope N_scope.

Definition roundtrips (s : list N) : bool := beqs (decode_uri (encode_uri s)) s.
(* the codes the decoder handles AFTER percent-2-5: a literal percent followed by such a code does not survive (C17-F1), the earlier ones do *)
Lemma percent_is_eighth : nth_error dec_chain 7 = Some ([37;50;53], [37]). Proof. vm_compute. reflexivity. Qed.
Lemma late_codes_fail : length late_codes = 15%nat /\ forallb (fun c => negb (roundtrips c)) late_codes = true.
Proof. split; vm_compute; reflexivity. Qed.
Lemma early_codes_ok : forallb roundtrips early_codes = true.
Proof. vm_compute. reflexivity. Qed.

(* the shape of the two tables: the encoder replaces single characters by a percent code, the percent sign first; the decoder has the inverse entries *)
Lemma tables_shape :
  forallb (fun pr => Nat.eqb (length (fst pr)) 1 && Nat.eqb (length (snd pr)) 3 && beqs (firstn 1 (snd pr)) [37]) enc_chain = true /\
  nth_error enc_chain 0 = Some ([37], [37;50;53]) /\
  forallb (fun pr => existsb (fun d => beqs (fst d) (snd pr) && beqs (snd d) (fst pr)) dec_chain) enc_chain = true.
Proof. repeat split; vm_compute; reflexivity. Qed.

(* round trips on representative strings, by computation: every reserved character, multi-byte and astral characters, '%' followed by
   hex digits that are not a late code, by non-hex characters and at the end of the string *)
Definition rep_strings : list (list N) :=
  [ [37;32;38;61;43;63;35;47;58;59;64;91;93;33;36;39;40;41;42;44;34];                      (* every reserved character: percent space ampersand equals plus question hash slash colon semicolon at brackets bang dollar quote parens star comma dquote *)
    [195;169;240;159;152;128;195;188;230;151;165];                                        (* é 😀 ü 日 *)
    [37;52;49]; [37;122;122]; [37]; [37;37]; [97;37;50;48;98]; [37;50;53]; [37;48;65];     (* percent followed by hex digits that are no late code, by non-hex characters, alone, doubled, inside text *)
    [97;61;98;38;99;61;100]; [] ].
Lemma rep_strings_roundtrip : forallb roundtrips rep_strings = true.
Proof. vm_compute. reflexivity. Qed.
(* and through the query parser: the encoded pair list decodes to the pairs *)
Definition rep_map : list (list N * list N) :=
  [ ([107;32;49], [118;38;61;37]); ([195;169], [240;159;152;128]); ([97;61;98], [63;35;47]); ([120], [37;52;49]) ].
Lemma rep_map_roundtrip :
  parse_query (enc_pair (nth 0 rep_map ([],[])) ++ [38] ++ enc_pair (nth 1 rep_map ([],[])) ++ [38] ++ enc_pair (nth 2 rep_map ([],[])) ++ [38] ++ enc_pair (nth 3 rep_map ([],[]))) = rep_map.
Proof. vm_compute. reflexivity. Qed.
(* C17-F1: the value percent-2-6 is submitted, an ampersand comes back *)
Lemma F1_witness : decode_uri (encode_uri [37;50;54]) = [38] /\ parse_query (enc_pair ([107], [37;50;54])) = [([107], [38])].
Proof. split; vm_compute; reflexivity. Qed.

(* the query parser: split at '&', then at '=' (first two fields), empty keys skipped, later duplicates win *)
Lemma parse_query_single k v : ~ In 38 k -> ~ In 61 k -> ~ In 38 v -> ~ In 61 v -> k <> [] -> trim (k ++ [61] ++ v) <> [] ->
  parse_query (k ++ [61] ++ v) = [(decode_uri k, decode_uri v)].
Proof.
  intros Hk1 Hk2 Hv1 Hv2 Hne Ht. unfold parse_query.
  destruct (beqs (trim (k ++ [61] ++ v)) []) eqn:E; [apply beqs_eq in E; contradiction|].
  assert (H38 : ~ In 38 (k ++ [61] ++ v)) by (rewrite !in_app_iff; cbn [In]; intuition discriminate).
  rewrite (split_nochar 38 _ H38). cbn [fold_left].
  change (k ++ [61] ++ v) with (k ++ 61 :: v). rewrite (split_one_sep 61 k v Hk2 Hv2).
  destruct (beqs k []) eqn:Ek; [apply beqs_eq in Ek; contradiction|]. reflexivity.
Qed.
