(* Model of UrlPath (src/url/path/mod.rs): patterns with double-square-bracket tokens.  Strings are lists of Unicode scalar values;
   the entry points take UTF-8 bytes and decode them with Base64.chars.  Every unwrap and usize subtraction of the code is a URPanic here. *)
From Rws Require Import Str Base64.
Open Scope N_scope.

Record upart := mkUP { up_static : bool; up_name : option (list N); up_value : option (list N); up_pat : option (list N) }.
Inductive ures (A : Type) := UROk (a : A) | URErr | URPanic.
Arguments UROk {A}. Arguments URErr {A}. Arguments URPanic {A}.

(* char::is_whitespace (White_Space) and char::is_control (Cc) *)
Definition cp_ws (c : N) : bool :=
  (N.leb 9 c && N.leb c 13) || N.eqb c 32 || N.eqb c 133 || N.eqb c 160 || N.eqb c 5760 || (N.leb 8192 c && N.leb c 8202)
  || N.eqb c 8232 || N.eqb c 8233 || N.eqb c 8239 || N.eqb c 8287 || N.eqb c 12288.
Definition cp_ctl (c : N) : bool := N.ltb c 32 || (N.leb 127 c && N.leb c 159).
Definition cp_bad (c : N) : bool := cp_ws c || cp_ctl c.

Definition static_part (pat : list N) : upart := mkUP true None None (Some pat).
Definition token_part (key : list N) : upart := mkUP false (Some key) None None.
Definition last_is_token (ps : list upart) : bool := match rev ps with p :: _ => negb (up_static p) | [] => false end.
Definition prev_is (prev : option N) (x : N) : bool := match prev with Some p => N.eqb p x | None => false end.

(* extract_parts_from_pattern: one step per character *)
Fixpoint pat_loop (cs : list N) (parts : list upart) (buf : list N) (prev : option N) (opened : bool) : ures (list upart) :=
  match cs with
  | [] => if opened then URErr else UROk (match buf with [] => parts | _ => parts ++ [static_part buf] end)     (* unclosed token (fix) *)
  | c :: r =>
    if cp_bad c then URErr else
    let buf1 := buf ++ [c] in
    if N.eqb c 91 && prev_is prev 91 then
      if opened then URErr else
      let parts1 := if Nat.leb 2 (length buf1)
                    then match firstn (length buf1 - 2) buf1 with [] => parts | pat => parts ++ [static_part pat] end
                    else parts in
      if last_is_token parts1 then URErr else pat_loop r parts1 [] (Some c) true
    else if N.eqb c 93 && prev_is prev 93 then
      if negb opened then URErr else                       (* unopened token end (fix) *)
      if Nat.ltb (length buf1) 2 then URPanic else         (* _buffer.len() - 2 *)
      pat_loop r (parts ++ [token_part (firstn (length buf1 - 2) buf1)]) [] (Some c) false
    else pat_loop r parts buf1 (Some c) opened
  end.
Definition pattern_parts (pattern : list N) : ures (list upart) := pat_loop pattern [] [] None false.

(* number of bytes of the UTF-8 encoding *)
Definition utf8_len (c : N) : nat := if N.ltb c 128 then 1 else if N.ltb c 2048 then 2 else if N.ltb c 65536 then 3 else 4.
Fixpoint bytes_len (s : list N) : nat := match s with [] => O | c :: r => (utf8_len c + bytes_len r)%nat end.
(* str::find(char): the characters before the first occurrence *)
Fixpoint before (d : N) (s : list N) : option (list N) :=
  match s with [] => None | c :: r => if N.eqb c d then Some [] else match before d r with Some p => Some (c :: p) | None => None end end.

(* is_matching: the loop over the parts *)
Fixpoint match_loop (parts : list upart) (path : list N) : ures bool :=
  match parts with
  | [] => UROk true
  | p :: rest =>
    if up_static p then
      match up_pat p with
      | None => URPanic                                              (* static_pattern.unwrap() *)
      | Some pat => if prefixb pat path then match_loop rest (skipn (length pat) path) else UROk false
      end
    else
      match rest with
      | [] => UROk true
      | nx :: _ =>
        match up_pat nx with
        | None => URPanic                                            (* next_part.static_pattern.unwrap() *)
        | Some [] => URPanic                                         (* .chars().next().unwrap() *)
        | Some (d :: _) =>
          match before d path with
          | None => UROk false
          (* url_path.chars().skip(occurence_place): a BYTE offset used as a number of characters *)
          | Some pre => match_loop rest (skipn (bytes_len pre) path)
          end
        end
      end
  end.
Definition is_matching (path pattern : list N) : ures bool :=
  if existsb cp_bad path then URErr else
  match pattern_parts pattern with UROk parts => match_loop parts path | URErr => URErr | URPanic => URPanic end.

(* extract: the loop over the parts; acc = resulting parts *)
Fixpoint span_until (d : N) (s : list N) : list N * list N :=
  match s with [] => ([], []) | c :: r => if N.eqb c d then ([], s) else let (a, b') := span_until d r in (c :: a, b') end.
Definition with_value (p : upart) (v : list N) : upart := mkUP (up_static p) (up_name p) (Some v) (up_pat p).
Fixpoint ext_loop (parts : list upart) (prev : option upart) (path : list N) (acc : list upart) : ures (list upart) :=
  match parts with
  | [] => UROk acc
  | p :: rest =>
    if up_static p then
      match up_pat p with
      | None => URPanic
      | Some pat =>
        match (match prev with
               | None => UROk (path, acc)
               | Some pp => match pat with
                            | [] => URPanic                          (* static_pattern.chars().next().unwrap() *)
                            | stop :: _ => let (tok, rest_path) := span_until stop path in UROk (rest_path, acc ++ [with_value pp tok])
                            end
               end) with
        | UROk (path1, acc1) =>
          if prefixb pat path1 then ext_loop rest (Some p) (skipn (length pat) path1) acc1
          else URErr                                                 (* strip_prefix is None (fix: was unwrap) *)
        | URErr => URErr | URPanic => URPanic
        end
      end
    else
      ext_loop rest (Some p) path (match rest with [] => acc ++ [with_value p path] | _ => acc end)
  end.
Fixpoint to_map (ps : list upart) (m : list (list N * list N)) : ures (list (list N * list N)) :=
  match ps with
  | [] => UROk m
  | p :: r => match up_name p, up_value p with
              | Some k, Some v => to_map r (filter (fun kv => negb (beqs (fst kv) k)) m ++ [(k, v)])
              | _, _ => URPanic                                     (* part.name.unwrap() / part.value.unwrap() *)
              end
  end.
Definition extract (path pattern : list N) : ures (list (list N * list N)) :=
  match pattern_parts pattern with
  | UROk parts => match ext_loop parts None path [] with UROk rs => to_map rs [] | URErr => URErr | URPanic => URPanic end
  | URErr => URErr | URPanic => URPanic
  end.

(* build *)
Fixpoint lookup (k : list N) (m : list (list N * list N)) : option (list N) :=
  match m with [] => None | (k', v) :: r => match lookup k r with Some x => Some x | None => if beqs k k' then Some v else None end end.
Fixpoint build_loop (parts : list upart) (params : list (list N * list N)) : ures (list N) :=
  match parts with
  | [] => UROk []
  | p :: r =>
    let piece := if up_static p then match up_pat p with Some s => UROk s | None => URPanic end
                 else match up_name p with None => URPanic | Some k => match lookup k params with Some v => UROk v | None => URErr end end in
    match piece with
    | UROk s => match build_loop r params with UROk t => UROk (s ++ t) | e => e end
    | URErr => URErr | URPanic => URPanic
    end
  end.
Definition build (params : list (list N * list N)) (pattern : list N) : ures (list N) :=
  match pattern_parts pattern with UROk parts => build_loop parts params | URErr => URErr | URPanic => URPanic end.

(* UTF-8 encoding of scalar values, for printing *)
Definition utf8_enc1 (c : N) : list N :=
  if N.ltb c 128 then [c] else
  if N.ltb c 2048 then [192 + c / 64; 128 + c mod 64] else
  if N.ltb c 65536 then [224 + c / 4096; 128 + (c / 64) mod 64; 128 + c mod 64] else
  [240 + c / 262144; 128 + (c / 4096) mod 64; 128 + (c / 64) mod 64; 128 + c mod 64].
Definition utf8_enc (s : list N) : list N := flat_map utf8_enc1 s.
