(* Model of entry_point: set_default_values, read_config_file, CommandLineArgument::_parse; env = association list *)
From Rws Require Import Str Utf8 GenCli.
Open Scope N_scope.

Definition env := list (list N * list N).
Fixpoint env_get (k : list N) (e : env) : option (list N) :=
  match e with [] => None | (k', v) :: r => if beqs k k' then Some v else env_get k r end.
Fixpoint env_set (k v : list N) (e : env) : env :=
  match e with [] => [(k, v)] | (k', v') :: r => if beqs k k' then (k, v) :: r else (k', v') :: env_set k v r end.

Definition set_defaults (e : env) : env :=
  fold_left (fun acc kv => match env_get (fst kv) acc with Some _ => acc | None => env_set (fst kv) (snd kv) acc end) default_table e.

(* CommandLineArgument::_parse *)
Definition flag_var (param : list N) : option (list N) :=
  match find (fun f => let '(s, l, _) := f in beqs param (45 :: s) || beqs param ([45;45] ++ l)) flag_table with
  | Some (_, _, v) => Some v | None => None end.
Definition apply_arg (e : env) (arg : list N) : env :=
  match split_once arg [61] with
  | None => e
  | Some (param, value) => match flag_var param with
                           | Some v => if existsb (N.eqb 0) value then e else env_set v value e     (* a value with NUL is skipped (fix: set_var panicked) *)
                           | None => e end
  end.
Definition cli_parse (args : list (list N)) (e : env) : env := fold_left apply_arg args e.

(* read_config_file: BufRead::lines (strips \n and a preceding \r) *)
Fixpoint lines_f (fuel : nat) (s : list N) : list (list N) :=
  match fuel with O => [] | S f =>
  match s with [] => [] | _ =>
    let (l, r) := split_line s in
    let l1 := match rev l with 10 :: 13 :: t => rev t | 10 :: t => rev t | _ => l end in
    l1 :: lines_f f r end end.
Definition strip_comment (l : list N) : list N := match split_once l [35] with Some (a, _) => trim a | None => l end.
Definition strip_spaces (l : list N) : list N := remove_byte 9 (remove_byte 32 l).     (* spaces, and tabs since the tab fix *)
Definition line_to_arg (prefix : list N) (l : list N) : list N * option (list N) :=   (* new prefix, argument *)
  let w := strip_spaces (strip_comment l) in
  let prefix' := if starts_with w [91] then remove_byte 93 (remove_byte 91 w) else prefix in
  match split_once w [61] with
  | None => (prefix', None)
  | Some (k, v) =>
    let value := remove_byte 91 (remove_byte 93 (remove_byte 34 (remove_byte 39 v))) in
    let key := replace k [95] [45] in
    (prefix', Some (match prefix' with
                    | [] => [45;45] ++ key ++ [61] ++ value
                    | _ => [45;45] ++ prefix' ++ [45] ++ key ++ [61] ++ value end))
  end.
Fixpoint file_args (prefix : list N) (ls : list (list N)) : list (list N) :=
  match ls with
  | [] => []
  | l :: r => let '(p', a) := line_to_arg prefix l in
              match a with Some x => x :: file_args p' r | None => file_args p' r end
  end.
Definition read_config (content : list N) (e : env) : env := cli_parse (file_args [] (lines_f (S (length content)) content)) e.

(* Server::setup: defaults (only where unset), then file, then command line *)
Definition setup (e : env) (file : option (list N)) (args : list (list N)) : env :=
  let e1 := set_defaults e in
  let e2 := match file with Some c => read_config c e1 | None => e1 end in
  cli_parse args e2.

(* observed *)
Definition PORTV : list N := [82;87;83;95;67;79;78;70;73;71;95;80;79;82;84].
Definition ORIGV : list N := [82;87;83;95;67;79;78;70;73;71;95;67;79;82;83;95;65;76;76;79;87;95;79;82;73;71;73;78;83].
Example cfg_ok : let e := read_config [112;111;114;116;32;61;32;55;48;48;50;32;35;32;99;10;91;99;111;114;115;93;10;97;108;108;111;119;95;111;114;105;103;105;110;115;32;61;32;91;34;120;34;44;32;39;121;39;93;10] [] in
  env_get PORTV e = Some [55;48;48;50] /\ env_get ORIGV e = Some [120;44;121].
Proof. vm_compute. auto. Qed.   (* port = 7002 # c \n [cors] \n allow_origins = ["x", 'y'] *)
Example cfg_tab : env_get PORTV (read_config [112;111;114;116;9;61;9;55;48;48;49;10] []) = Some [55;48;48;49]. Proof. vm_compute. reflexivity. Qed.   (* tab-separated: read (was ignored) *)

(* precedence *)
Lemma env_get_set_same k v e : env_get k (env_set k v e) = Some v.
Proof. induction e as [|[k' v'] e IH]; simpl; [rewrite beqs_refl; reflexivity|].
  destruct (beqs k k') eqn:E; simpl; rewrite ?beqs_refl, ?E; auto. Qed.
Lemma env_get_set_other k k' v e : beqs k' k = false -> env_get k' (env_set k v e) = env_get k' e.
Proof. intro H. induction e as [|[k2 v2] e IH]; simpl; [rewrite H; reflexivity|].
  destruct (beqs k k2) eqn:E; simpl.
  - apply beqs_eq in E. subst k2. rewrite H. reflexivity.
  - destruct (beqs k' k2); auto. Qed.
