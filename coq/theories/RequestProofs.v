From Coq Require Import Arith.
From Rws Require Import Str Utf8 Num Unicase Request StrLemmas Utf8Lemmas TrimLemmas.
Open Scope N_scope.

(* ---- the first ": " of a line whose name has no ':' ---- *)
Lemma split_once_aux_colon n rest : forall acc, ~ In 58 n ->
  split_once_aux COLON_SP (n ++ COLON_SP ++ rest) acc = Some (rev acc ++ n, rest).
Proof.
  induction n as [|x n IH]; intros acc H.
  - cbn [app]. unfold COLON_SP. cbn [split_once_aux prefixb app]. rewrite !N.eqb_refl. cbn [andb length skipn]. rewrite app_nil_r. reflexivity.
  - change ((x :: n) ++ COLON_SP ++ rest) with (x :: (n ++ COLON_SP ++ rest)). cbn [split_once_aux]. unfold COLON_SP at 1. cbn [prefixb].
    destruct (N.eqb_spec 58 x) as [E|E]; [exfalso; apply H; simpl; auto|]. cbn [andb].
    rewrite IH by (intro; apply H; simpl; auto). simpl. rewrite <- app_assoc. reflexivity.
Qed.
Lemma split_once_colon n rest : ~ In 58 n -> split_once (n ++ COLON_SP ++ rest) COLON_SP = Some (n, rest).
Proof. intro H. unfold split_once. rewrite split_once_aux_colon by assumption. reflexivity. Qed.

(* ---- well-formedness of a request value for the round trip ---- *)
Definition clean (s : bytes) : Prop := ~ In 10 s /\ ~ In 13 s.
Record wf_header (h : header) : Prop := {
  wh_nocolon : ~ In 58 (hname h);
  wh_name_clean : clean (hname h);
  wh_value_clean : clean (hvalue h);
  wh_name_utf8 : utf8_valid (hname h) = true;
  wh_value_utf8 : utf8_valid (hvalue h) = true;
  wh_cl : hname h = content_length_name -> parse_usize (hvalue h) <> None }.

Lemma header_line h rest : wf_header h ->
  split_line (gen_header h ++ rest) = (gen_header h, rest).
Proof.
  intros [Hc [Hn10 Hn13] [Hv10 Hv13] _ _ _]. unfold gen_header, CRLF.
  replace ((hname h ++ COLON_SP ++ hvalue h ++ [13; 10]) ++ rest)
    with ((hname h ++ COLON_SP ++ hvalue h ++ [13]) ++ 10 :: rest)
    by (rewrite <- !app_assoc; reflexivity).
  rewrite split_line_nolf.
  - rewrite <- !app_assoc. reflexivity.
  - rewrite !in_app_iff. unfold COLON_SP. simpl. intros [H|[H|[H|H]]]; try tauto; try (destruct H as [H|[H|H]]; try discriminate; auto).
    destruct H as [H|H]; [discriminate|auto].
Qed.

Lemma header_parse h : wf_header h -> parse_header_line (gen_header h) = h.
Proof.
  intros [Hc [Hn10 Hn13] [Hv10 Hv13] _ _ _]. unfold parse_header_line, gen_header.
  rewrite split_once_colon by assumption.
  rewrite truncate_clean by assumption. rewrite truncate_clean_crlf by assumption. destruct h; reflexivity.
Qed.

Lemma header_utf8 h : wf_header h -> utf8_valid (gen_header h) = true.
Proof. intros [_ _ _ Hn Hv _]. unfold gen_header. rewrite utf8_valid_app by assumption.
  rewrite (utf8_app_ascii COLON_SP) by reflexivity.
  rewrite utf8_valid_app by assumption. reflexivity. Qed.

Lemma header_nonblank h : trim (gen_header h) <> [].
Proof. apply (trim_nonempty _ 58); [|reflexivity]. unfold gen_header, COLON_SP. rewrite in_app_iff. right. simpl. auto. Qed.

Definition cl_ok (h : header) : bool :=
  negb (beqs (hname h) content_length_name && match parse_usize (hvalue h) with None => true | Some _ => false end).
Lemma wf_cl_ok h : wf_header h -> cl_ok h = true.
Proof. intros W. unfold cl_ok. destruct (beqs (hname h) content_length_name) eqn:E; [|reflexivity].
  apply beqs_eq in E. pose proof (wh_cl h W E). destruct (parse_usize (hvalue h)); [reflexivity|congruence]. Qed.

Lemma headers_loop_roundtrip hs : forall bd fuel, Forall wf_header hs ->
  (length (flat_map gen_header hs ++ CRLF ++ bd) < fuel)%nat ->
  headers_loop fuel (flat_map gen_header hs ++ CRLF ++ bd) = Ok (hs, bd).
Proof.
  induction hs as [|h hs IH]; intros bd fuel W Hf.
  - destruct fuel; [simpl in Hf; lia|]. cbn [flat_map app headers_loop]. unfold CRLF. cbn [app split_line N.eqb].
    change (N.eqb 13 10) with false. cbn iota. change (N.eqb 10 10) with true. cbn iota.
    reflexivity.
  - inversion W as [|? ? Wh Ws]; subst. destruct fuel; [simpl in Hf; lia|].
    cbn [flat_map]. rewrite <- app_assoc. cbn [headers_loop]. rewrite header_line by assumption.
    rewrite header_utf8 by assumption. cbn [negb].
    destruct (beqs (trim (gen_header h)) []) eqn:Eb; [apply beqs_eq in Eb; exfalso; eapply header_nonblank; eauto|].
    rewrite header_parse by assumption.
    pose proof (wf_cl_ok h Wh) as Hcl. unfold cl_ok in Hcl. apply negb_true_iff in Hcl. rewrite Hcl.
    rewrite IH; [reflexivity|assumption|].
    cbn [flat_map] in Hf. rewrite <- app_assoc, app_length in Hf.
    assert (1 <= length (gen_header h))%nat by (unfold gen_header, COLON_SP; rewrite !app_length; simpl; lia). lia.
Qed.

(* ---- request line ---- *)
Definition head_solid (s : bytes) : bool := match s with c :: _ => solid c | [] => false end.
Definition last_solid (s : bytes) : bool := head_solid (rev s).
Record wf_request (r : request) : Prop := {
  wr_method : mem (uupper (method r)) methods = true;
  wr_version : mem (uupper (version r)) versions = true;
  wr_m_head : head_solid (method r) = true;
  wr_v_last : last_solid (version r) = true;
  wr_m_nosp : ~ In 32 (method r);
  wr_u_nosp : ~ In 32 (uri r);
  wr_nolf : ~ In 10 (method r) /\ ~ In 10 (uri r) /\ ~ In 10 (version r);
  wr_utf8 : utf8_valid (method r) = true /\ utf8_valid (uri r) = true /\ utf8_valid (version r) = true;
  wr_headers : Forall wf_header (headers r) }.

Definition req_line (r : request) : bytes := method r ++ [SP] ++ uri r ++ [SP] ++ version r ++ [SP] ++ CRLF.

Lemma last_solid_split s : last_solid s = true -> exists s' y, s = s' ++ [y] /\ solid y = true.
Proof. unfold last_solid, head_solid. intro H. destruct (rev s) as [|y t] eqn:E; [discriminate|].
  exists (rev t), y. split; auto. rewrite <- (rev_involutive s), E. reflexivity. Qed.

Lemma req_line_trim r : wf_request r -> trim (req_line r) = method r ++ [SP] ++ uri r ++ [SP] ++ version r.
Proof.
  intros W. destruct (method r) as [|x m'] eqn:Em; [pose proof (wr_m_head r W) as H; rewrite Em in H; discriminate|].
  pose proof (wr_m_head r W) as Hx. rewrite Em in Hx. simpl in Hx.
  destruct (last_solid_split _ (wr_v_last r W)) as (v' & y & Ev & Hy).
  unfold req_line. rewrite Em, Ev.
  replace ((x :: m') ++ [SP] ++ uri r ++ [SP] ++ (v' ++ [y]) ++ [SP] ++ CRLF)
     with (x :: (m' ++ [SP] ++ uri r ++ [SP] ++ v') ++ [y] ++ ([SP] ++ CRLF))
     by (repeat (rewrite <- ?app_assoc; cbn [app]); reflexivity).
  rewrite trim_solid_ends by (auto; reflexivity).
  repeat (rewrite <- ?app_assoc; cbn [app]); reflexivity.
Qed.

Lemma req_line_parse r : wf_request r -> parse_request_line (req_line r) = Some (method r, uri r, version r).
Proof.
  intro W. unfold parse_request_line. rewrite req_line_trim by assumption.
  change (method r ++ [SP] ++ uri r ++ [SP] ++ version r) with (method r ++ SP :: (uri r ++ [SP] ++ version r)).
  rewrite split_once_1 by (apply (wr_m_nosp r W)). rewrite (wr_method r W). cbn [negb].
  change (uri r ++ [SP] ++ version r) with (uri r ++ SP :: version r).
  rewrite split_once_1 by (apply (wr_u_nosp r W)). rewrite (wr_version r W). reflexivity.
Qed.

Theorem C14_roundtrip r : wf_request r ->
  parse_request (generate r) = Ok (mkR (method r) (uri r) (version r) (headers r) (body r)).
Proof.
  intro W. unfold parse_request, generate.
  destruct (wr_nolf r W) as (Hm & Hu & Hv). destruct (wr_utf8 r W) as (Um & Uu & Uv).
  replace (method r ++ [SP] ++ uri r ++ [SP] ++ version r ++ [SP] ++ CRLF ++ flat_map gen_header (headers r) ++ CRLF ++ body r)
    with ((method r ++ [SP] ++ uri r ++ [SP] ++ version r ++ [SP] ++ [13]) ++ 10 :: (flat_map gen_header (headers r) ++ CRLF ++ body r))
    by (unfold CRLF; rewrite <- !app_assoc; reflexivity).
  rewrite split_line_nolf.
  2:{ rewrite !in_app_iff. unfold SP. simpl. intuition discriminate. }
  assert (E : (method r ++ [SP] ++ uri r ++ [SP] ++ version r ++ [SP] ++ [13]) ++ [10] = req_line r)
    by (unfold req_line, CRLF; repeat (rewrite <- ?app_assoc; cbn [app]); reflexivity).
  rewrite E.
  assert (utf8_valid (req_line r) = true) as Hu8.
  { unfold req_line. rewrite utf8_valid_app by assumption. rewrite (utf8_app_ascii [SP]) by reflexivity.
    rewrite utf8_valid_app by assumption. rewrite (utf8_app_ascii [SP]) by reflexivity.
    rewrite utf8_valid_app by assumption. reflexivity. }
  rewrite Hu8. cbn [negb]. rewrite req_line_parse by assumption.
  rewrite headers_loop_roundtrip; [reflexivity|apply (wr_headers r W)|lia].
Qed.

(* non-vacuity: a non-trivial request meets the hypotheses: a value with ": " and '=', a numeric Content-Length, a binary body *)
Definition ex_req : request :=
  mkR [71;69;84] [47;120;63;97;61;49] [72;84;84;80;47;49;46;49]
      [mkH [72;111;115;116] [108;111;99;97;108;58;32;56;48;61]; mkH content_length_name [52;50]] [13;10;0;255;10].
Example ex_req_roundtrips : parse_request (generate ex_req) = Ok ex_req.
Proof. vm_compute. reflexivity. Qed.
Lemma ex_req_wf : wf_request ex_req.
Proof.
  assert (Hh : Forall wf_header (headers ex_req)).
  { repeat constructor; cbn; try (intuition discriminate); try reflexivity; try discriminate.
    all: try (intro H; vm_compute; discriminate). }
  constructor; try (vm_compute; reflexivity); try (cbn; intuition discriminate); try exact Hh.
Qed.
