(* the domain of the general multipart round-trip theorem (C16): decidable, evaluated by the model runner on every generated case *)
From Rws Require Import Str Utf8 Num Request Forms.
Open Scope N_scope.

(* ---------- the domain ---------- *)
Definition pchar (c : N) : bool := N.leb 33 c && N.leb c 126.          (* printable ASCII, not a blank *)
Definition vchar (c : N) : bool := N.leb 32 c && N.leb c 126.          (* printable ASCII *)
Definition mh_ok (h : header) : bool :=
  negb (beqs (hname h) []) && forallb (fun c => pchar c && negb (N.eqb c 58)) (hname h)
  && forallb vchar (hvalue h) && (match hvalue h with [] => true | c :: _ => pchar c end) && (match rev (hvalue h) with [] => true | c :: _ => pchar c end).
Definition bd_ok (bd : list N) : bool := forallb pchar bd && negb (beqs (strip_hyphens bd) []).
Definition hdr_line (h : header) : list N := hname h ++ COLON_SP ++ hvalue h ++ CRLF.
Definition hdr_text (h : header) : list N := hname h ++ match hvalue h with [] => [58] | v => COLON_SP ++ v end.     (* the line, trimmed *)
(* no line of the data is taken for a delimiter *)
Fixpoint lines_ok (fuel : nat) (esc : list N) (s : list N) : bool :=
  match fuel with O => true | S f =>
  match s with [] => true | _ => let (l, r) := split_line s in negb (is_delim l esc) && lines_ok f esc r end end.
Definition part_ok (bd : list N) (p : part) : bool :=
  negb (match p_headers p with [] => true | _ => false end) && forallb mh_ok (p_headers p)
  && forallb (fun h => negb (is_boundary_line (hdr_text h) bd)) (p_headers p)
  && lines_ok (S (length (p_body p ++ CRLF))) (strip_hyphens bd) (p_body p ++ CRLF).


Definition multipart_in_domain (ps : list part) (bd : list N) : bool := bd_ok bd && forallb (part_ok bd) ps.
