From Rws Require Import Str Num Unicase Fs UrlParse RangeSpec Request GenMime Mime StaticRes GenConsts Server StrLemmas.
Open Scope N_scope.

(* a substring is found *)
Lemma split_once_aux_found pat b' : pat <> [] -> forall a acc, exists p r, split_once_aux pat (a ++ pat ++ b') acc = Some (p, r).
Proof.
  intros Hp. induction a as [|x a IH]; intro acc.
  - cbn [app]. destruct pat as [|c p]; [congruence|]. change ((c :: p) ++ b') with (c :: (p ++ b')). cbn [split_once_aux].
    change (c :: p ++ b') with ((c :: p) ++ b'). rewrite prefixb_app. eauto.
  - change ((x :: a) ++ pat ++ b') with (x :: (a ++ pat ++ b')). cbn [split_once_aux].
    destruct (prefixb pat (x :: a ++ pat ++ b')); eauto.
Qed.
Lemma contains_app a v b' : v <> [] -> contains (a ++ v ++ b') v = true.
Proof. intro H. unfold contains, split_once. destruct (split_once_aux_found v b' H a []) as [p [r ->]]. reflexivity. Qed.

(* every piece of a split on one byte is a substring of the whole *)
Lemma split_aux_1_pieces c : forall s cur v, In v (split_aux [c] O cur s) -> exists a b', rev cur ++ s = a ++ v ++ b'.
Proof.
  induction s as [|x s IH]; intros cur v Hin.
  - simpl in Hin. destruct Hin as [<-|[]]. exists [], []. rewrite !app_nil_r. reflexivity.
  - cbn [split_aux prefixb] in Hin. destruct (N.eqb_spec c x) as [E|E]; cbn [andb length Nat.pred] in Hin.
    + destruct Hin as [<-|Hin].
      * exists [], (x :: s). reflexivity.
      * apply IH in Hin as [a [b' Hab]]. cbn [rev app] in Hab. exists (rev cur ++ x :: a), b'.
        rewrite <- app_assoc. cbn [app]. rewrite Hab. reflexivity.
    + apply IH in Hin as [a [b' Hab]]. exists a, b'. rewrite <- Hab. cbn [rev]. rewrite <- app_assoc. reflexivity.
Qed.
Lemma elem_is_substring s c v : v <> [] -> In v (split s [c]) -> contains s v = true.
Proof. intros Hv Hin. apply split_aux_1_pieces in Hin as [a [b' E]]. cbn [rev app] in E. rewrite E. apply contains_app, Hv. Qed.

Definition elem (origins v : list N) : bool := existsb (beqs v) (split origins [44]).
(* "the request's Origin is exactly one of the configured origins" *)
Definition member (origins v : list N) : bool := negb (beqs v []) && elem origins v.
Definition has_name (n : list N) (hs : list header) : bool := existsb (fun h => beqs (hname h) n) hs.

Theorem C11_no_origin c r : get_header r Hd_ORIGIN = None -> cors_headers c r = [].
Proof. intro H. destruct c; cbn [cors_headers]; unfold cors_allow_all, cors_off; rewrite H; reflexivity. Qed.

Theorem C11_on_echo r o : get_header r Hd_ORIGIN = Some o ->
  exists rest, cors_headers CAllowAll r = H Hd_ACCESS_CONTROL_ALLOW_ORIGIN (hvalue o) :: H Hd_ACCESS_CONTROL_ALLOW_CREDENTIALS TRUE :: rest.
Proof. intro E. cbn [cors_headers]. unfold cors_allow_all. rewrite E. eexists. reflexivity. Qed.

(* switch off: no grant at all unless the Origin is a member *)
Theorem C11_off_not_member_nothing o cr m h e a r org :
  get_header r Hd_ORIGIN = Some org -> member o (hvalue org) = false -> cors_headers (COff o cr m h e a) r = [].
Proof. intros E Hm. cbn [cors_headers]. unfold cors_off. rewrite E. fold (elem o (hvalue org)). fold (member o (hvalue org)). rewrite Hm. reflexivity. Qed.

(* switch off: the origin grant is present iff the Origin is a member, and then it echoes exactly that origin *)
Theorem C11_off_exact o cr m h e a r org :
  get_header r Hd_ORIGIN = Some org ->
  has_name Hd_ACCESS_CONTROL_ALLOW_ORIGIN (cors_headers (COff o cr m h e a) r) = member o (hvalue org) /\
  (member o (hvalue org) = true -> In (H Hd_ACCESS_CONTROL_ALLOW_ORIGIN (hvalue org)) (cors_headers (COff o cr m h e a) r)).
Proof.
  intros E. cbn [cors_headers]. unfold cors_off. rewrite E. fold (elem o (hvalue org)). fold (member o (hvalue org)).
  destruct (member o (hvalue org)); cbn [negb]; split; try reflexivity; try discriminate. intros _. left. reflexivity.
Qed.
(* a member is literally one of the comma-separated configured origins, and is not empty *)
Lemma member_spec o v : member o v = true <-> v <> [] /\ In v (split o [44]).
Proof.
  unfold member, elem. rewrite andb_true_iff, negb_true_iff, existsb_exists. split.
  - intros [Hn [x [Hin Hx]]]. apply beqs_eq in Hx. subst x. split; [|exact Hin]. intro Ev. subst v. discriminate.
  - intros [Hn Hin]. split.
    + destruct (beqs v []) eqn:Eb; [apply beqs_eq in Eb; congruence|reflexivity].
    + exists v. split; [exact Hin|apply beqs_refl].
Qed.
(* credentials: only when configured as the literal true *)
Theorem C11_off_credentials o cr m h e a r org :
  get_header r Hd_ORIGIN = Some org -> member o (hvalue org) = true ->
  has_name Hd_ACCESS_CONTROL_ALLOW_CREDENTIALS (cors_headers (COff o cr m h e a) r) = beqs cr TRUE.
Proof.
  intros E Hm. cbn [cors_headers]. unfold cors_off. rewrite E. fold (elem o (hvalue org)). fold (member o (hvalue org)). rewrite Hm. cbn [negb].
  destruct (beqs cr TRUE); destruct (beqs (method r) OPTIONS); vm_compute; reflexivity.
Qed.
(* preflight grants are exactly the configured lists, and only on OPTIONS *)
Theorem C11_off_preflight o cr m h e a r org :
  get_header r Hd_ORIGIN = Some org -> member o (hvalue org) = true ->
  cors_headers (COff o cr m h e a) r =
    [H Hd_ACCESS_CONTROL_ALLOW_ORIGIN (hvalue org)] ++ (if beqs cr TRUE then [H Hd_ACCESS_CONTROL_ALLOW_CREDENTIALS TRUE] else []) ++
    (if beqs (method r) OPTIONS then
       [H Hd_ACCESS_CONTROL_ALLOW_METHODS m; H Hd_ACCESS_CONTROL_ALLOW_HEADERS (ulower h);
        H Hd_ACCESS_CONTROL_EXPOSE_HEADERS (ulower e); H Hd_ACCESS_CONTROL_MAX_AGE a] else []).
Proof. intros E Hm. cbn [cors_headers]. unfold cors_off. rewrite E. fold (elem o (hvalue org)). fold (member o (hvalue org)). rewrite Hm. reflexivity. Qed.

(* regression witnesses for the defect fixed by e79b41d: a prefix, the empty Origin and two origins joined are not granted *)
Definition O2 : list N := (* "https://foo.example,https://bar.example" *)
  [104;116;116;112;115;58;47;47;102;111;111;46;101;120;97;109;112;108;101;44;104;116;116;112;115;58;47;47;98;97;114;46;101;120;97;109;112;108;101].
Example C11_near_misses_not_granted :
  forallb (fun v => negb (has_name Hd_ACCESS_CONTROL_ALLOW_ORIGIN
                      (cors_headers (COff O2 TRUE [] [] [] []) (mkR GET [47] HTTP11 [mkH Hd_ORIGIN v] []))))
          [ [104;116;116;112;115;58;47;47;102;111;111] ; [] ; O2 ; [44] ] = true.
Proof. vm_compute. reflexivity. Qed.
(* non-vacuity: a configured origin is granted *)
Example C11_member_granted :
  has_name Hd_ACCESS_CONTROL_ALLOW_ORIGIN
    (cors_headers (COff O2 TRUE [] [] [] []) (mkR GET [47] HTTP11 [mkH Hd_ORIGIN (firstn 19 O2)] [])) = true /\ member O2 (firstn 19 O2) = true.
Proof. vm_compute. auto. Qed.
