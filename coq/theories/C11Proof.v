From Rws Require Import Str Num Fs UrlParse RangeSpec Request GenMime Mime StaticRes GenConsts Server StrLemmas.
Open Scope N_scope.

(* a substring is found *)
Lemma split_once_aux_found pat b' : pat <> [] -> forall a acc, exists p r, split_once_aux pat (a ++ pat ++ b') acc = Some (p, r).
Proof.
  intros Hp. induction a as [|x a IH]; intro acc.
  - cbn [app]. destruct pat as [|c p]; [congruence|]. change ((c :: p) ++ b') with (c :: (p ++ b')). cbn [split_once_aux].
    change (c :: p ++ b') with ((c :: p) ++ b'). rewrite prefixb_app. eauto.
  - change ((x :: a) ++ pat ++ b') with (x :: (a ++ pat ++ b')). cbn [split_once_aux].
    destruct (prefixb pat (x :: a ++ pat ++ b')); eauto.
Qed.
Lemma contains_app a v b' : v <> [] -> contains (a ++ v ++ b') v = true.
Proof. intro H. unfold contains, split_once. destruct (split_once_aux_found v b' H a []) as [p [r ->]]. reflexivity. Qed.

(* every piece of a split on one byte is a substring of the whole *)
Lemma split_aux_1_pieces c : forall s cur v, In v (split_aux [c] O cur s) -> exists a b', rev cur ++ s = a ++ v ++ b'.
Proof.
  induction s as [|x s IH]; intros cur v Hin.
  - simpl in Hin. destruct Hin as [<-|[]]. exists [], []. rewrite !app_nil_r. reflexivity.
  - cbn [split_aux prefixb] in Hin. destruct (N.eqb_spec c x) as [E|E]; cbn [andb length Nat.pred] in Hin.
    + destruct Hin as [<-|Hin].
      * exists [], (x :: s). reflexivity.
      * apply IH in Hin as [a [b' Hab]]. cbn [rev app] in Hab. exists (rev cur ++ x :: a), b'.
        rewrite <- app_assoc. cbn [app]. rewrite Hab. reflexivity.
    + apply IH in Hin as [a [b' Hab]]. exists a, b'. rewrite <- Hab. cbn [rev]. rewrite <- app_assoc. reflexivity.
Qed.
Lemma elem_is_substring s c v : v <> [] -> In v (split s [c]) -> contains s v = true.
Proof. intros Hv Hin. apply split_aux_1_pieces in Hin as [a [b' E]]. cbn [rev app] in E. rewrite E. apply contains_app, Hv. Qed.

Definition elem (origins v : list N) : bool := existsb (beqs v) (split origins [44]).
Definition has_name (n : list N) (hs : list header) : bool := existsb (fun h => beqs (hname h) n) hs.
(* the known class: granted by substring although not an element *)
Definition KF_C11 (origins v : list N) : bool := contains origins v && negb (elem origins v).

Theorem C11_no_origin c r : get_header r Hd_ORIGIN = None -> cors_headers c r = [].
Proof. intro H. destruct c; cbn [cors_headers]; unfold cors_allow_all, cors_off; rewrite H; reflexivity. Qed.

Theorem C11_on_echo r o : get_header r Hd_ORIGIN = Some o ->
  exists rest, cors_headers CAllowAll r = H Hd_ACCESS_CONTROL_ALLOW_ORIGIN (hvalue o) :: H Hd_ACCESS_CONTROL_ALLOW_CREDENTIALS TRUE :: rest.
Proof. intro E. cbn [cors_headers]. unfold cors_allow_all. rewrite E. eexists. reflexivity. Qed.

Theorem C11_off_exact_except_known o cr m h e a r org :
  get_header r Hd_ORIGIN = Some org -> hvalue org <> [] -> KF_C11 o (hvalue org) = false ->
  has_name Hd_ACCESS_CONTROL_ALLOW_ORIGIN (cors_headers (COff o cr m h e a) r) = elem o (hvalue org).
Proof.
  intros E Hne Hk. cbn [cors_headers]. unfold cors_off. rewrite E.
  unfold KF_C11 in Hk. destruct (elem o (hvalue org)) eqn:El.
  - assert (contains o (hvalue org) = true) as ->.
    { unfold elem in El. apply existsb_exists in El as [x [Hin Hx]]. apply beqs_eq in Hx. subst x. eapply elem_is_substring; eauto. }
    reflexivity.
  - rewrite andb_true_r in Hk. rewrite Hk. reflexivity.
Qed.
(* preflight grants are exactly the configured lists *)
Theorem C11_off_preflight o cr m h e a r org :
  get_header r Hd_ORIGIN = Some org -> contains o (hvalue org) = true -> method r = OPTIONS ->
  In (H Hd_ACCESS_CONTROL_ALLOW_METHODS m) (cors_headers (COff o cr m h e a) r) /\
  In (H Hd_ACCESS_CONTROL_ALLOW_HEADERS (lower h)) (cors_headers (COff o cr m h e a) r) /\
  In (H Hd_ACCESS_CONTROL_MAX_AGE a) (cors_headers (COff o cr m h e a) r).
Proof. intros E Hc Hm. cbn [cors_headers]. unfold cors_off. rewrite E, Hc, Hm. cbn [negb]. rewrite beqs_refl.
  repeat split; rewrite !in_app_iff; right; right; simpl; tauto. Qed.

(* the defect: three witnesses (prefix, empty, two joined) *)
Definition O2 : list N := (* "https://foo.example,https://bar.example" *)
  [104;116;116;112;115;58;47;47;102;111;111;46;101;120;97;109;112;108;101;44;104;116;116;112;115;58;47;47;98;97;114;46;101;120;97;109;112;108;101].
Example KF_C11_witnesses :
  forallb (fun v => KF_C11 O2 v) [ [104;116;116;112;115;58;47;47;102;111;111] ; [] ; O2 ] = true.
Proof. vm_compute. reflexivity. Qed.
Example C11_refuted : exists r, has_name Hd_ACCESS_CONTROL_ALLOW_ORIGIN
   (cors_headers (COff O2 TRUE [] [] [] []) r) = true /\ elem O2 (match get_header r Hd_ORIGIN with Some o => hvalue o | None => [] end) = false.
Proof. exists (mkR GET [47] HTTP11 [mkH Hd_ORIGIN [104;116;116;112;115;58;47;47;102;111;111]] []). vm_compute. auto. Qed.
Print Assumptions C11_off_exact_except_known.
