(* File-system model: tree, POSIX path resolution on byte-string paths, the queries rws makes. *)
From Rws Require Import Str.
Open Scope N_scope.

Inductive node :=
| File (data : list N)
| Dir (ents : list (list N * node))
| Link (target : list N).          (* raw link text, e.g. "../x" or "/abs/y" *)

Record fsys := mkFs { root : node; cwd : list (list N) }.   (* cwd: canonical path of the served directory *)

Definition SLASH : N := 47.
Definition DOT : N := 46.
Definition comps (p : list N) : list (list N) := split p [SLASH].
Definition is_abs (p : list N) : bool := match p with 47 :: _ => true | _ => false end.
Definition join_path (cs : list (list N)) : list N := flat_map (fun c => SLASH :: c) cs.   (* "/a/b"; "" for the root *)
Definition cwd_str (fs : fsys) : list N := join_path (cwd fs).

Fixpoint find_ent (n : list N) (ents : list (list N * node)) : option node :=
  match ents with
  | [] => None
  | (m, x) :: r => if beqs n m then Some x else find_ent n r
  end.
Fixpoint get (nd : node) (p : list (list N)) : option node :=
  match p with
  | [] => Some nd
  | n :: r => match nd with
              | Dir ents => match find_ent n ents with Some x => get x r | None => None end
              | _ => None
              end
  end.
Definition is_dir_at (rt : node) (p : list (list N)) : bool :=
  match get rt p with Some (Dir _) => true | _ => false end.

Inductive rerr := ENOENT | ENOTDIR | ELOOP.
Inductive sum_res (A : Type) := ROk (a : A) | RErr (e : rerr).
Arguments ROk {A}. Arguments RErr {A}.

Definition is_dotdot (c : list N) := beqs c [DOT; DOT].
Definition is_skip (c : list N) := beqs c [] || beqs c [DOT].

Fixpoint resolve (fuel : nat) (rt : node) (cur : list (list N)) (cs : list (list N))
         (follow_last via : bool) : sum_res (list (list N) * bool) :=
  match fuel with
  | O => RErr ELOOP
  | S f =>
    match cs with
    | [] => ROk (cur, via)
    | c :: rest =>
      if negb (is_dir_at rt cur) then RErr ENOTDIR else
      if is_skip c then resolve f rt cur rest follow_last via else
      if is_dotdot c then resolve f rt (removelast cur) rest follow_last via else
      match get rt (cur ++ [c]) with
      | None => RErr ENOENT
      | Some (Link tgt) =>
        match rest, follow_last with
        | [], false => ROk (cur ++ [c], via)
        | _, _ => resolve f rt (if is_abs tgt then [] else cur) (comps tgt ++ rest) follow_last true
        end
      | Some _ => resolve f rt (cur ++ [c]) rest follow_last via
      end
    end
  end.
Definition FUEL : nat := Nat.pow 2 12.
(* resolve an absolute path string *)
Definition resolve_path (fs : fsys) (p : list N) (follow_last : bool) := resolve FUEL (root fs) [] (comps p) follow_last false.

Inductive kind := KFile | KDir | KLink.
Definition kind_of (nd : node) : kind := match nd with File _ => KFile | Dir _ => KDir | Link _ => KLink end.
Definition node_at (fs : fsys) (p : list N) (follow_last : bool) : option (node * list (list N) * bool) :=
  match resolve_path fs p follow_last with
  | ROk (q, via) => match get (root fs) q with Some nd => Some (nd, q, via) | None => None end
  | RErr _ => None
  end.
(* std::fs::metadata / File::open / symlink_metadata / read_link *)
(* stat follows links, so the node reached is never a Link; that unreachable case is mapped to an error *)
Definition metadata (fs : fsys) (p : list N) : option kind :=
  match node_at fs p true with Some (File _, _, _) => Some KFile | Some (Dir _, _, _) => Some KDir | _ => None end.
Definition can_open (fs : fsys) (p : list N) : bool := match metadata fs p with Some _ => true | None => false end.
Definition is_symlink (fs : fsys) (p : list N) : option bool :=
  match node_at fs p false with Some (Link _, _, _) => Some true | Some _ => Some false | None => None end.
Definition read_link (fs : fsys) (p : list N) : option (list N) :=
  match node_at fs p false with Some (Link t, _, _) => Some t | _ => None end.
Definition file_len (fs : fsys) (p : list N) : option N :=
  match node_at fs p true with Some (File d, _, _) => Some (N.of_nat (length d)) | _ => None end.

(* file-ext FilterString::is_valid_input_string *)
Definition bad_path_char (c : N) : bool :=
  N.eqb c 32 || N.eqb c 39 || N.eqb c 34 || N.eqb c 38 || N.eqb c 124 || N.eqb c 59.
Definition filter_ok (p : list N) : bool := negb (existsb bad_path_char (filter_ascii_control p)).

Inductive rd_res := RdOk (data : list N) (from : list (list N)) (via : bool) | RdErr | RdPanicOverflow.
(* FileExt::read_file_partially(path, start, end): inclusive end, clamped at EOF *)
Definition read_range (fs : fsys) (p : list N) (st en : N) : rd_res :=
  if negb (filter_ok p) then RdErr else
  if N.ltb en st then RdPanicOverflow else          (* (end - start) + 1 on u64 *)
  if N.eqb (en - st) (2 ^ 64 - 1) then RdPanicOverflow else
  match node_at fs p true with
  | Some (File d, q, via) => RdOk (firstn (N.to_nat (en - st + 1)) (skipn (N.to_nat st) d)) q via
  | _ => RdErr
  end.

(* ---- sanity: the tree used in the probes ---- *)
Definition s (l : list N) := l.
Definition fs0 : fsys :=
  mkFs (Dir [ ([111;117;116;101;114] (* outer *),
               Dir [ ([115;101;99;114;101;116;46;116;120;116] (* secret.txt *), File [83;69;67]);
                     ([114;111;111;116] (* root *),
                      Dir [ ([97;46;116;120;116] (* a.txt *), File [48;49;50;51;52;53;54;55;56;57]);
                            ([108;97] (* la *), Link [97;46;116;120;116]);
                            ([115;117;98], Dir [ ([105;110;100;101;120;46;104;116;109;108], File [60;112;62]) ]) ]) ]) ])
       [[111;117;116;101;114]; [114;111;111;116]].
Example cwd0 : cwd_str fs0 = [47;111;117;116;101;114;47;114;111;111;116]. Proof. reflexivity. Qed.
Example escape0 : metadata fs0 (cwd_str fs0 ++ [47;46;46;47;115;101;99;114;101;116;46;116;120;116]) = Some KFile.
Proof. vm_compute. reflexivity. Qed.
Example link0 : is_symlink fs0 (cwd_str fs0 ++ [47;108;97]) = Some true /\ metadata fs0 (cwd_str fs0 ++ [47;108;97]) = Some KFile.
Proof. vm_compute. auto. Qed.
Example trailing0 : metadata fs0 (cwd_str fs0 ++ [47;97;46;116;120;116;47]) = None.
Proof. vm_compute. reflexivity. Qed.
Global Opaque FUEL.
