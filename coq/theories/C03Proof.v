From Rws Require Import Str Num Fs UrlParse RangeSpec Request GenMime Mime StaticRes StrLemmas C01Proof.
Open Scope N_scope.

Lemma split_aux_nochar c s : forall cur, ~ In c s -> split_aux [c] O cur s = [rev cur ++ s].
Proof. induction s as [|x s IH]; intros cur H.
  - simpl. rewrite app_nil_r. reflexivity.
  - cbn [split_aux prefixb]. destruct (N.eqb_spec c x) as [E|E]; [exfalso; apply H; simpl; auto|].
    cbn [andb]. rewrite IH by (intro; apply H; simpl; auto). simpl. rewrite <- app_assoc. reflexivity. Qed.
Lemma split_nochar c s : ~ In c s -> split s [c] = [s].
Proof. intro H. unfold split. rewrite split_aux_nochar by exact H. reflexivity. Qed.
Lemma split_one_sep c a t : ~ In c a -> ~ In c t -> split (a ++ c :: t) [c] = [a; t].
Proof. intros Ha Ht. unfold split. rewrite split_aux_1_app. rewrite !split_aux_nochar by assumption. reflexivity. Qed.

Definition BYTES_WORD : list N := [98;121;116;101;115].
Lemma bytes_eq_split : BYTES_EQ = BYTES_WORD ++ [61]. Proof. reflexivity. Qed.

(* a regular, directly reachable file: what the reader sees *)
Definition regular_at (fs : fsys) (SP : list N) (data : list N) (q : list (list N)) : Prop :=
  node_at fs SP true = Some (File data, q, false) /\ filter_ok SP = true.

Theorem C03_single_range fs SP data q spec st en :
  regular_at fs SP data q -> ~ In 61 spec -> ~ In 44 spec ->
  let L := N.of_nat (length data) in
  parse_range L spec = ROk' (st, en) -> en - st <> 2 ^ 64 - 1 ->
  parse_content_range fs false SP L (BYTES_EQ ++ spec) =
    SOk [mkCr st en L (slice data st en) (detect_mime SP) (FromFile q false)].
Proof.
  intros [Hn Hf] H61 H44 L Hp Hov. unfold parse_content_range.
  unfold starts_with. rewrite prefixb_app. cbn [negb].
  rewrite bytes_eq_split, <- app_assoc. cbn [app].
  change (BYTES_WORD ++ 61 :: spec) with (BYTES_WORD ++ 61 :: spec).
  rewrite split_one_sep by (auto; unfold BYTES_WORD; simpl; intuition discriminate).
  rewrite split_nochar by exact H44. cbn [read_specs]. rewrite Hp.
  unfold read_range. rewrite Hf. cbn [negb].
  destruct (parse_range_bounds _ _ _ _ Hp) as [Hle _].
  destruct (N.ltb_spec en st) as [Hlt|_]; [lia|].
  destruct (N.eqb_spec (en - st) (2 ^ 64 - 1)) as [E|_]; [contradiction|].
  rewrite Hn. cbn [orb]. reflexivity.
Qed.

(* the three facts the property asks for, for every accepted single spec *)
Corollary C03_inside_exact fs SP data q spec st en :
  regular_at fs SP data q -> ~ In 61 spec -> ~ In 44 spec ->
  let L := N.of_nat (length data) in
  L < 2 ^ 64 ->                                    (* metadata.len() is a u64 *)
  parse_range L spec = ROk' (st, en) -> en < L ->
  exists c, parse_content_range fs false SP L (BYTES_EQ ++ spec) = SOk [c] /\
            c_start c = st /\ c_end c = en /\ c_size c = L /\
            c_body c = firstn (N.to_nat (en - st + 1)) (skipn (N.to_nat st) data) /\
            N.of_nat (length (c_body c)) = en - st + 1.
Proof.
  intros R H61 H44 L HL64 Hp Hlt. destruct (parse_range_bounds _ _ _ _ Hp) as [Hle HL].
  assert (E64 : 2 ^ 64 = 18446744073709551616) by reflexivity.
  eexists. split; [apply C03_single_range; eauto; rewrite E64 in *; lia|].
  cbn [c_start c_end c_size c_body]. repeat split; auto. apply slice_exact; auto.
Qed.
(* and the known class: a spec whose parsed end equals L is sent clamped and labelled one past *)
Corollary C03_label_class fs SP data q spec st :
  regular_at fs SP data q -> ~ In 61 spec -> ~ In 44 spec ->
  let L := N.of_nat (length data) in
  L < 2 ^ 64 - 1 -> 0 < L -> parse_range L spec = ROk' (st, L) ->    (* at L = u64::MAX the inclusive length (end - start) + 1 itself overflows *)
  exists c, parse_content_range fs false SP L (BYTES_EQ ++ spec) = SOk [c] /\
            c_end c = L /\ c_body c = skipn (N.to_nat st) data /\ N.of_nat (length (c_body c)) <> c_end c - c_start c + 1.
Proof.
  intros R H61 H44 L HL64 Hpos Hp. destruct (parse_range_bounds _ _ _ _ Hp) as [Hle _].
  assert (E64 : 2 ^ 64 = 18446744073709551616) by reflexivity.
  eexists. split; [apply C03_single_range; eauto; rewrite E64 in *; lia|].
  cbn [c_start c_end c_body]. destruct (slice_clamped data st Hle) as [E1 E2]. fold L in E1, E2.
  repeat split; auto. rewrite E2. lia.
Qed.


(* ---------- several ranges: one part per requested range, in request order ---------- *)
Lemma split_app_sep c a t : split (a ++ c :: t) [c] = split a [c] ++ split t [c].
Proof. unfold split. apply split_aux_1_app. Qed.
Lemma split_join c specs : specs <> [] -> Forall (fun sp => ~ In c sp) specs -> split (join_with c specs) [c] = specs.
Proof.
  induction specs as [|x r IH]; intros Hne Hf; [congruence|].
  inversion Hf as [|? ? Hx Hr]; subst. destruct r as [|y r'].
  - cbn [join_with]. apply split_nochar, Hx.
  - change (join_with c (x :: y :: r')) with (x ++ c :: join_with c (y :: r')).
    rewrite split_app_sep, (split_nochar c x Hx), IH by (congruence || assumption). reflexivity.
Qed.

Definition part_of (SP data : list N) (q : list (list N)) (se : N * N) : crange :=
  mkCr (fst se) (snd se) (N.of_nat (length data)) (slice data (fst se) (snd se)) (detect_mime SP) (FromFile q false).

Lemma read_specs_all fs SP data q : regular_at fs SP data q ->
  forall specs ses,
  Forall2 (fun sp se => parse_range (N.of_nat (length data)) sp = ROk' se /\ snd se - fst se <> 2 ^ 64 - 1) specs ses ->
  read_specs fs false SP (N.of_nat (length data)) specs = SOk (map (part_of SP data q) ses).
Proof.
  intros [Hn Hf]. induction 1 as [|sp [st en] specs ses [Hp Hov] _ IH]; [reflexivity|].
  cbn [read_specs map]. rewrite Hp. cbn [fst snd] in Hov.
  unfold read_range. rewrite Hf. cbn [negb].
  destruct (parse_range_bounds _ _ _ _ Hp) as [Hle _].
  destruct (N.ltb_spec en st) as [Hlt|_]; [lia|].
  destruct (N.eqb_spec (en - st) (2 ^ 64 - 1)) as [E|_]; [contradiction|].
  rewrite Hn, IH. cbn [orb]. reflexivity.
Qed.
(* a spec the parser rejects makes the whole request a 416, whatever precedes it *)
Lemma read_specs_416 fs SP data q : regular_at fs SP data q ->
  forall good ses bad rest,
  Forall2 (fun sp se => parse_range (N.of_nat (length data)) sp = ROk' se /\ snd se - fst se <> 2 ^ 64 - 1) good ses ->
  parse_range (N.of_nat (length data)) bad = R416 ->
  read_specs fs false SP (N.of_nat (length data)) (good ++ bad :: rest) = SErr 416.
Proof.
  intros [Hn Hf] good ses bad rest H Hb. induction H as [|sp [st en] specs ses' [Hp Hov] _ IH]; cbn [app read_specs].
  - rewrite Hb. reflexivity.
  - rewrite Hp. cbn [fst snd] in Hov. unfold read_range. rewrite Hf. cbn [negb].
    destruct (parse_range_bounds _ _ _ _ Hp) as [Hle _].
    destruct (N.ltb_spec en st) as [Hlt|_]; [lia|].
    destruct (N.eqb_spec (en - st) (2 ^ 64 - 1)) as [E|_]; [contradiction|].
    rewrite Hn, IH. reflexivity.
Qed.

Theorem C03_multi_range fs SP data q specs ses :
  regular_at fs SP data q -> specs <> [] -> Forall (fun sp => ~ In 61 sp /\ ~ In 44 sp) specs ->
  Forall2 (fun sp se => parse_range (N.of_nat (length data)) sp = ROk' se /\ snd se - fst se <> 2 ^ 64 - 1) specs ses ->
  parse_content_range fs false SP (N.of_nat (length data)) (BYTES_EQ ++ join_with 44 specs) = SOk (map (part_of SP data q) ses).
Proof.
  intros R Hne Hc H. unfold parse_content_range.
  unfold starts_with. rewrite prefixb_app. cbn [negb].
  rewrite bytes_eq_split, <- app_assoc. cbn [app].
  assert (H61 : ~ In 61 (join_with 44 specs)).
  { clear -Hc. induction specs as [|x r IH]; [auto|]. inversion Hc as [|? ? [Hx _] Hr]; subst. destruct r as [|y r'].
    - exact Hx.
    - change (join_with 44 (x :: y :: r')) with (x ++ 44 :: join_with 44 (y :: r')). intro Hin. apply in_app_or in Hin as [Hin|[Hin|Hin]];
      [contradiction|discriminate|exact (IH Hr Hin)]. }
  rewrite split_one_sep by (auto; unfold BYTES_WORD; simpl; intuition discriminate).
  rewrite split_join; [|exact Hne|eapply Forall_impl; [|exact Hc]; intros a [_ Ha]; exact Ha].
  apply read_specs_all; assumption.
Qed.

(* every part the reader produces for an accepted spec: contiguous bytes starting at the requested offset, never beyond the file;
   exact length and a correct label when the spec ends inside the file (C03-F1 is the other case, en = L) *)
Theorem C03_part_facts data SP q se : let L := N.of_nat (length data) in
  fst se <= snd se -> snd se <= L ->
  let c := part_of SP data q se in
  c_start c = fst se /\ c_end c = snd se /\ c_size c = L /\
  c_body c = firstn (N.to_nat (snd se - fst se + 1)) (skipn (N.to_nat (fst se)) data) /\
  (snd se < L -> N.of_nat (length (c_body c)) = snd se - fst se + 1) /\
  (snd se = L -> c_body c = skipn (N.to_nat (fst se)) data /\ N.of_nat (length (c_body c)) = L - fst se).
Proof.
  intros L H1 H2 c. subst c. unfold part_of. cbn [c_start c_end c_size c_body]. repeat split; try reflexivity.
  - intro Hlt. apply slice_exact; assumption.
  - rewrite H. apply slice_clamped. fold L. lia.
  - rewrite H. apply slice_clamped. fold L. lia.
Qed.
