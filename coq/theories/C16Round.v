(* C16 — the general multipart/form-data round trip: parse (generate parts boundary) boundary = parts *)
From Coq Require Import Arith.
From Rws Require Import Str Utf8 Num Request Forms StrLemmas TrimLemmas Utf8Lemmas C16Proof.
Open Scope N_scope.

(* ---------- the domain ---------- *)
Definition pchar (c : N) : bool := N.leb 33 c && N.leb c 126.          (* printable ASCII, not a blank *)
Definition vchar (c : N) : bool := N.leb 32 c && N.leb c 126.          (* printable ASCII *)
Definition mh_ok (h : header) : bool :=
  negb (beqs (hname h) []) && forallb (fun c => pchar c && negb (N.eqb c 58)) (hname h)
  && forallb vchar (hvalue h) && (match hvalue h with [] => true | c :: _ => pchar c end) && (match rev (hvalue h) with [] => true | c :: _ => pchar c end).
Definition bd_ok (bd : list N) : bool := forallb pchar bd && negb (beqs (strip_hyphens bd) []).
Definition hdr_line (h : header) : list N := hname h ++ COLON_SP ++ hvalue h ++ CRLF.
Definition hdr_text (h : header) : list N := hname h ++ match hvalue h with [] => [58] | v => COLON_SP ++ v end.     (* the line, trimmed *)
(* no line of the data is taken for a delimiter *)
Fixpoint lines_ok (fuel : nat) (esc : list N) (s : list N) : bool :=
  match fuel with O => true | S f =>
  match s with [] => true | _ => let (l, r) := split_line s in negb (is_delim l esc) && lines_ok f esc r end end.
Definition part_ok (bd : list N) (p : part) : bool :=
  negb (match p_headers p with [] => true | _ => false end) && forallb mh_ok (p_headers p)
  && forallb (fun h => negb (is_boundary_line (hdr_text h) bd)) (p_headers p)
  && lines_ok (S (length (p_body p ++ CRLF))) (strip_hyphens bd) (p_body p ++ CRLF).

(* ---------- characters ---------- *)
Lemma pchar_facts c : pchar c = true -> 33 <= c <= 126 /\ solid c = true /\ is_ascii_control c = false /\ N.ltb c 128 = true.
Proof.
  unfold pchar. intro H. apply andb_prop in H as [H1 H2]. apply N.leb_le in H1, H2. split; [lia|]. repeat split.
  - unfold solid, ascii_ws. apply andb_true_intro; split; [apply N.ltb_lt; lia|]. apply negb_true_iff. apply orb_false_intro; [|apply N.eqb_neq; lia].
    apply andb_false_iff. right. apply N.leb_gt. lia.
  - unfold is_ascii_control. apply orb_false_intro; [apply N.ltb_ge; lia|apply N.eqb_neq; lia].
  - apply N.ltb_lt. lia.
Qed.
Lemma vchar_facts c : vchar c = true -> 32 <= c <= 126 /\ is_ascii_control c = false /\ N.ltb c 128 = true /\ c <> 10 /\ c <> 13.
Proof.
  unfold vchar. intro H. apply andb_prop in H as [H1 H2]. apply N.leb_le in H1, H2. split; [lia|]. repeat split; try lia.
  - unfold is_ascii_control. apply orb_false_intro; [apply N.ltb_ge; lia|apply N.eqb_neq; lia].
  - apply N.ltb_lt. lia.
Qed.
Lemma filter_keep (P : N -> bool) s : forallb P s = true -> filter P s = s.
Proof. induction s as [|c s IH]; intro H; [reflexivity|]. cbn [forallb] in H. apply andb_prop in H as [Hc H]. cbn [filter]. rewrite Hc, IH by exact H. reflexivity. Qed.

(* ---------- one header line ---------- *)
From Rws Require Import C19Lemmas.
Record mh_facts (h : header) : Prop := {
  mf_name : exists n0 n', hname h = n0 :: n' /\ solid n0 = true;
  mf_name_solid : forallb solid (hname h) = true;
  mf_name_nocolon : ~ In 58 (hname h);
  mf_name_noctl : forallb (fun c => negb (is_ascii_control c)) (hname h) = true;
  mf_value_noctl : forallb (fun c => negb (is_ascii_control c)) (hvalue h) = true;
  mf_value_shape : hvalue h = [] \/ exists v0 mid y, hvalue h = v0 :: mid /\ solid v0 = true /\ (v0 :: mid = [y] \/ exists m', v0 :: mid = v0 :: m' ++ [y]) /\ solid y = true;
  mf_ascii : is_ascii (hname h ++ COLON_SP ++ hvalue h ++ CRLF) = true;
  mf_nolf : ~ In 10 (hname h ++ COLON_SP ++ hvalue h) /\ ~ In 13 (hname h ++ COLON_SP ++ hvalue h) }.

Lemma forallb_in {A} (P : A -> bool) l x : forallb P l = true -> In x l -> P x = true.
Proof. intros H Hi. exact (proj1 (forallb_forall _ _) H x Hi). Qed.

Lemma mh_ok_facts h : mh_ok h = true -> mh_facts h.
Proof.
  unfold mh_ok. intro H. apply andb_prop in H as [H Hlast]. apply andb_prop in H as [H Hfirst]. apply andb_prop in H as [H Hv]. apply andb_prop in H as [Hne Hn].
  assert (Hnp : forall c, In c (hname h) -> pchar c = true /\ c <> 58).
  { intros c Hc. pose proof (forallb_in _ _ _ Hn Hc) as G. apply andb_prop in G as [G1 G2]. apply negb_true_iff, N.eqb_neq in G2. auto. }
  assert (Hvp : forall c, In c (hvalue h) -> vchar c = true) by (intros c Hc; exact (forallb_in _ _ _ Hv Hc)).
  constructor.
  - destruct (hname h) as [|n0 n'] eqn:E; [discriminate|]. exists n0, n'. split; [reflexivity|]. apply pchar_facts, Hnp. left. reflexivity.
  - apply forallb_forall. intros c Hc. apply pchar_facts, Hnp, Hc.
  - intro Hi. apply Hnp in Hi. tauto.
  - apply forallb_forall. intros c Hc. destruct (pchar_facts c (proj1 (Hnp c Hc))) as (_ & _ & G & _). rewrite G. reflexivity.
  - apply forallb_forall. intros c Hc. destruct (vchar_facts c (Hvp c Hc)) as (_ & G & _). rewrite G. reflexivity.
  - destruct (hvalue h) as [|v0 mid] eqn:E; [left; reflexivity|right].
    destruct (exists_last (l := v0 :: mid) ltac:(discriminate)) as (b' & y & Eb). rewrite Eb in Hlast. rewrite rev_app_distr in Hlast. cbn [rev app] in Hlast.
    exists v0, mid, y. split; [reflexivity|]. split; [apply pchar_facts, Hfirst|]. split; [|apply pchar_facts, Hlast].
    destruct b' as [|b0 b'']; [left; exact Eb|right]. cbn [app] in Eb. injection Eb as E0 E1. subst b0. exists b''. rewrite E1. reflexivity.
  - unfold is_ascii. rewrite !forallb_app. cbn [forallb COLON_SP CRLF].
    assert (A1 : forallb (fun b => N.ltb b 128) (hname h) = true) by (apply forallb_forall; intros c Hc; apply pchar_facts, Hnp, Hc).
    assert (A2 : forallb (fun b => N.ltb b 128) (hvalue h) = true) by (apply forallb_forall; intros c Hc; apply vchar_facts, Hvp, Hc).
    rewrite A1, A2. reflexivity.
  - split; intro Hi; apply in_app_or in Hi as [Hi|Hi].
    + apply Hnp in Hi. destruct Hi as [Hi _]. apply pchar_facts in Hi. lia.
    + apply in_app_or in Hi as [Hi|Hi]; [cbn in Hi; destruct Hi as [Hi|[Hi|[]]]; discriminate|]. apply Hvp, vchar_facts in Hi. lia.
    + apply Hnp in Hi. destruct Hi as [Hi _]. apply pchar_facts in Hi. lia.
    + apply in_app_or in Hi as [Hi|Hi]; [cbn in Hi; destruct Hi as [Hi|[Hi|[]]]; discriminate|]. apply Hvp, vchar_facts in Hi. lia.
Qed.

Lemma noctl_filter s : forallb (fun c => negb (is_ascii_control c)) s = true -> filter (fun c => negb (is_ascii_control c)) s = s.
Proof. apply filter_keep. Qed.
Lemma trim_ws_single w y : forallb ascii_ws w = true -> solid y = true -> trim (w ++ [y]) = [y].
Proof.
  intros Hw Hy. unfold trim, trim_start. rewrite trim_start_f_ws by (auto; rewrite app_length; lia).
  rewrite trim_start_f_solid by assumption. change [y] with ([] ++ [y] ++ []). rewrite trim_end_solid_ws by auto. reflexivity.
Qed.
Lemma hdr_text_trim h : mh_facts h -> trim (hname h ++ COLON_SP ++ hvalue h) = hdr_text h /\ trim (hdr_text h) = hdr_text h.
Proof.
  intros F. destruct (mf_name h F) as (n0 & n' & En & Hn0). unfold hdr_text. rewrite En.
  destruct (mf_value_shape h F) as [Ev | (v0 & mid & y & Ev & Hv0 & Hsh & Hy)].
  - rewrite Ev. cbn [app COLON_SP]. rewrite ?app_nil_r.
    assert (E1 : trim (n0 :: n' ++ [58; 32]) = n0 :: n' ++ [58]).
    { change (n0 :: n' ++ [58; 32]) with (n0 :: n' ++ [58] ++ [32]). apply trim_solid_ends; auto. }
    assert (E2 : trim (n0 :: n' ++ [58]) = n0 :: n' ++ [58]) by (apply trim_solid_both; auto).
    split; assumption.
  - rewrite Ev. destruct Hsh as [E1 | (m' & E1)].
    + rewrite E1. assert (G : trim (n0 :: n' ++ COLON_SP ++ [y]) = n0 :: n' ++ COLON_SP ++ [y]).
      { replace (n' ++ COLON_SP ++ [y]) with ((n' ++ COLON_SP) ++ [y]) by (rewrite <- app_assoc; reflexivity). apply trim_solid_both; auto. }
      split; exact G.
    + rewrite E1. assert (G : trim (n0 :: n' ++ COLON_SP ++ v0 :: m' ++ [y]) = n0 :: n' ++ COLON_SP ++ v0 :: m' ++ [y]).
      { replace (n' ++ COLON_SP ++ v0 :: m' ++ [y]) with ((n' ++ COLON_SP ++ v0 :: m') ++ [y]) by (rewrite <- !app_assoc; reflexivity). apply trim_solid_both; auto. }
      split; exact G.
Qed.

Lemma hdr_line_filter h : mh_facts h -> filter_ascii_control (hdr_line h) = hdr_text h /\ filter_ascii_control (hdr_text h) = hdr_text h.
Proof.
  intro F. destruct (hdr_text_trim h F) as [T1 T2]. unfold filter_ascii_control, hdr_line. split.
  - rewrite !filter_app. rewrite (noctl_filter _ (mf_name_noctl h F)), (noctl_filter _ (mf_value_noctl h F)).
    change (filter (fun c => negb (is_ascii_control c)) COLON_SP) with COLON_SP. change (filter (fun c => negb (is_ascii_control c)) CRLF) with (@nil N).
    rewrite app_nil_r. exact T1.
  - assert (G : filter (fun c => negb (is_ascii_control c)) (hdr_text h) = hdr_text h).
    { unfold hdr_text. rewrite filter_app, (noctl_filter _ (mf_name_noctl h F)). f_equal. destruct (hvalue h) as [|v0 mid] eqn:Ev; [reflexivity|].
      rewrite filter_app. change (filter (fun c => negb (is_ascii_control c)) COLON_SP) with COLON_SP. f_equal. rewrite <- Ev. apply noctl_filter, (mf_value_noctl h F). }
    rewrite G. exact T2.
Qed.

Lemma hdr_text_parse h : mh_facts h -> parse_header (hdr_text h) = Some h.
Proof.
  intro F. unfold parse_header. destruct (hdr_line_filter h F) as [_ E]. rewrite E.
  destruct (mf_nolf h F) as [N10 N13].
  assert (Hclean : ~ In 10 (hdr_text h) /\ ~ In 13 (hdr_text h)).
  { unfold hdr_text. destruct (hvalue h) as [|v0 mid] eqn:Ev.
    - split; intro Hi; apply in_app_or in Hi as [Hi|Hi]; try (cbn in Hi; destruct Hi as [Hi|[]]; discriminate).
      + apply N10. apply in_or_app. left. exact Hi.
      + apply N13. apply in_or_app. left. exact Hi.
    - split; assumption. }
  rewrite truncate_clean by tauto.
  unfold hdr_text. destruct (mf_name h F) as (n0 & n' & En & Hn0).
  assert (Tn : trim (hname h) = hname h) by (apply trim_all_solid, (mf_name_solid h F)).
  destruct (mf_value_shape h F) as [Ev | (v0 & mid & y & Ev & Hv0 & Hsh & Hy)].
  - rewrite Ev. rewrite split_once_1 by (apply (mf_name_nocolon h F)). rewrite Tn. destruct h as [n v]. cbn [hname hvalue] in *. subst v. reflexivity.
  - rewrite Ev. change (hname h ++ COLON_SP ++ v0 :: mid) with (hname h ++ 58 :: (32 :: v0 :: mid)).
    rewrite split_once_1 by (apply (mf_name_nocolon h F)). rewrite Tn.
    assert (Tv : trim (32 :: v0 :: mid) = v0 :: mid).
    { destruct Hsh as [E1 | (m' & E1)]; rewrite E1.
      - injection E1 as E0 E2. subst v0 mid. apply (trim_ws_single [32] y); auto.
      - change (32 :: v0 :: m' ++ [y]) with ([32] ++ v0 :: m' ++ [y]). apply trim_ws_solid; auto. }
    rewrite Tv. destruct h as [n v]. cbn [hname hvalue] in *. subst v. reflexivity.
Qed.

(* ---------- the header phase ---------- *)
Lemma hdr_line_split h rest : mh_facts h -> split_line (hdr_line h ++ rest) = (hdr_line h, rest).
Proof.
  intro F. unfold hdr_line, CRLF.
  replace ((hname h ++ COLON_SP ++ hvalue h ++ [13; 10]) ++ rest) with ((hname h ++ COLON_SP ++ hvalue h ++ [13]) ++ 10 :: rest) by (rewrite <- !app_assoc; reflexivity).
  rewrite split_line_nolf.
  - rewrite <- !app_assoc. reflexivity.
  - destruct (mf_nolf h F) as [N10 _]. intro Hi. rewrite !app_assoc in Hi. apply in_app_or in Hi as [Hi|Hi]; [rewrite <- app_assoc in Hi; contradiction|].
    cbn in Hi. destruct Hi as [Hi|[]]. discriminate.
Qed.
Lemma hdr_text_nonempty h : mh_facts h -> hdr_text h <> [].
Proof. intro F. destruct (mf_name h F) as (n0 & n' & En & _). unfold hdr_text. rewrite En. discriminate. Qed.

Lemma header_step f bd h rest hs : mh_facts h -> is_boundary_line (hdr_text h) bd = false -> rest <> [] ->
  header_phase (S f) bd (hdr_line h ++ rest) hs = header_phase f bd rest (hs ++ [h]).
Proof.
  intros F Hnb Hr. cbn [header_phase]. rewrite hdr_line_split by exact F.
  pose proof (ascii_utf8 _ (mf_ascii h F)) as Hu. fold (hdr_line h) in Hu. rewrite Hu. cbn [negb].
  destruct (hdr_line_filter h F) as [E1 _]. rewrite E1. destruct (hdr_text_trim h F) as [_ T]. rewrite T.
  assert (Hne : beqs (hdr_text h) [] = false).
  { destruct (beqs (hdr_text h) []) eqn:E; [|reflexivity]. apply beqs_eq in E. exfalso. exact (hdr_text_nonempty h F E). }
  rewrite Hne, Hnb. destruct rest as [|r0 rest']; [contradiction|]. cbn [andb]. rewrite hdr_text_parse by exact F. reflexivity.
Qed.
Lemma header_blank f bd rest hs : negb (beqs (strip_hyphens bd) []) = true -> hs <> [] -> rest <> [] ->
  header_phase (S f) bd (CRLF ++ rest) hs = HCont hs rest.
Proof.
  intros Hb Hh Hr. cbn [header_phase]. change (split_line (CRLF ++ rest)) with (CRLF, rest). cbv iota.
  change (utf8_valid CRLF) with true. change (filter_ascii_control CRLF) with (@nil N). change (trim []) with (@nil N). change (beqs [] []) with true. cbn [negb].
  assert (Hd : is_boundary_line [] bd = false).
  { unfold is_boundary_line, ends_with. change (strip_hyphens []) with (@nil N). cbn [rev].
    destruct (strip_hyphens bd) as [|x t] eqn:E; [discriminate|]. cbn [rev]. destruct (rev t ++ [x]) eqn:E2; [destruct (rev t); discriminate|reflexivity]. }
  rewrite Hd. destruct rest as [|r0 rest']; [contradiction|]. destruct hs as [|h0 hs']; [contradiction|]. reflexivity.
Qed.
Lemma headers_all bd : forall hs acc f rest, negb (beqs (strip_hyphens bd) []) = true -> Forall mh_facts hs -> Forall (fun h => is_boundary_line (hdr_text h) bd = false) hs ->
  acc ++ hs <> [] -> rest <> [] -> (length hs < f)%nat ->
  header_phase f bd (flat_map hdr_line hs ++ CRLF ++ rest) acc = HCont (acc ++ hs) rest.
Proof.
  induction hs as [|h hs IH]; intros acc f rest Hb HF HN Hne Hr Hf.
  - destruct f as [|f]; [cbn in Hf; lia|]. cbn [flat_map app]. rewrite app_nil_r in *. apply header_blank; auto.
  - inversion HF as [|? ? Fh HF']; subst. inversion HN as [|? ? Nh HN']; subst. destruct f as [|f]; [cbn in Hf; lia|].
    cbn [flat_map]. rewrite <- app_assoc. rewrite header_step; auto.
    + rewrite IH; auto; [rewrite <- app_assoc; reflexivity|rewrite <- app_assoc; exact Hne|cbn [length] in Hf; lia].
    + destruct (flat_map hdr_line hs ++ CRLF ++ rest) eqn:E; [|discriminate]. apply app_eq_nil in E as [_ E]. discriminate.
Qed.
