(* C16 — the general multipart/form-data round trip: parse (generate parts boundary) boundary = parts *)
From Coq Require Import Arith.
From Rws Require Import Str Utf8 Num Request Forms FormsDomain StrLemmas TrimLemmas Utf8Lemmas C16Proof.
Open Scope N_scope.

(* ---------- characters ---------- *)
Lemma pchar_facts c : pchar c = true -> 33 <= c <= 126 /\ solid c = true /\ is_ascii_control c = false /\ N.ltb c 128 = true.
Proof.
  unfold pchar. intro H. apply andb_prop in H as [H1 H2]. apply N.leb_le in H1, H2. split; [lia|]. repeat split.
  - unfold solid, ascii_ws. apply andb_true_intro; split; [apply N.ltb_lt; lia|]. apply negb_true_iff. apply orb_false_intro; [|apply N.eqb_neq; lia].
    apply andb_false_iff. right. apply N.leb_gt. lia.
  - unfold is_ascii_control. apply orb_false_intro; [apply N.ltb_ge; lia|apply N.eqb_neq; lia].
  - apply N.ltb_lt. lia.
Qed.
Lemma vchar_facts c : vchar c = true -> 32 <= c <= 126 /\ is_ascii_control c = false /\ N.ltb c 128 = true /\ c <> 10 /\ c <> 13.
Proof.
  unfold vchar. intro H. apply andb_prop in H as [H1 H2]. apply N.leb_le in H1, H2. split; [lia|]. repeat split; try lia.
  - unfold is_ascii_control. apply orb_false_intro; [apply N.ltb_ge; lia|apply N.eqb_neq; lia].
  - apply N.ltb_lt. lia.
Qed.
Lemma filter_keep (P : N -> bool) s : forallb P s = true -> filter P s = s.
Proof. induction s as [|c s IH]; intro H; [reflexivity|]. cbn [forallb] in H. apply andb_prop in H as [Hc H]. cbn [filter]. rewrite Hc, IH by exact H. reflexivity. Qed.

(* ---------- one header line ---------- *)
From Rws Require Import C19Lemmas.
Record mh_facts (h : header) : Prop := {
  mf_name : exists n0 n', hname h = n0 :: n' /\ solid n0 = true;
  mf_name_solid : forallb solid (hname h) = true;
  mf_name_nocolon : ~ In 58 (hname h);
  mf_name_noctl : forallb (fun c => negb (is_ascii_control c)) (hname h) = true;
  mf_value_noctl : forallb (fun c => negb (is_ascii_control c)) (hvalue h) = true;
  mf_value_shape : hvalue h = [] \/ exists v0 mid y, hvalue h = v0 :: mid /\ solid v0 = true /\ (v0 :: mid = [y] \/ exists m', v0 :: mid = v0 :: m' ++ [y]) /\ solid y = true;
  mf_ascii : is_ascii (hname h ++ COLON_SP ++ hvalue h ++ CRLF) = true;
  mf_nolf : ~ In 10 (hname h ++ COLON_SP ++ hvalue h) /\ ~ In 13 (hname h ++ COLON_SP ++ hvalue h) }.

Lemma forallb_in {A} (P : A -> bool) l x : forallb P l = true -> In x l -> P x = true.
Proof. intros H Hi. exact (proj1 (forallb_forall _ _) H x Hi). Qed.

Lemma mh_ok_facts h : mh_ok h = true -> mh_facts h.
Proof.
  unfold mh_ok. intro H. apply andb_prop in H as [H Hlast]. apply andb_prop in H as [H Hfirst]. apply andb_prop in H as [H Hv]. apply andb_prop in H as [Hne Hn].
  assert (Hnp : forall c, In c (hname h) -> pchar c = true /\ c <> 58).
  { intros c Hc. pose proof (forallb_in _ _ _ Hn Hc) as G. apply andb_prop in G as [G1 G2]. apply negb_true_iff, N.eqb_neq in G2. auto. }
  assert (Hvp : forall c, In c (hvalue h) -> vchar c = true) by (intros c Hc; exact (forallb_in _ _ _ Hv Hc)).
  constructor.
  - destruct (hname h) as [|n0 n'] eqn:E; [discriminate|]. exists n0, n'. split; [reflexivity|]. apply pchar_facts, Hnp. left. reflexivity.
  - apply forallb_forall. intros c Hc. apply pchar_facts, Hnp, Hc.
  - intro Hi. apply Hnp in Hi. tauto.
  - apply forallb_forall. intros c Hc. destruct (pchar_facts c (proj1 (Hnp c Hc))) as (_ & _ & G & _). rewrite G. reflexivity.
  - apply forallb_forall. intros c Hc. destruct (vchar_facts c (Hvp c Hc)) as (_ & G & _). rewrite G. reflexivity.
  - destruct (hvalue h) as [|v0 mid] eqn:E; [left; reflexivity|right].
    destruct (exists_last (l := v0 :: mid) ltac:(discriminate)) as (b' & y & Eb). rewrite Eb in Hlast. rewrite rev_app_distr in Hlast. cbn [rev app] in Hlast.
    exists v0, mid, y. split; [reflexivity|]. split; [apply pchar_facts, Hfirst|]. split; [|apply pchar_facts, Hlast].
    destruct b' as [|b0 b'']; [left; exact Eb|right]. cbn [app] in Eb. injection Eb as E0 E1. subst b0. exists b''. rewrite E1. reflexivity.
  - unfold is_ascii. rewrite !forallb_app. cbn [forallb COLON_SP CRLF].
    assert (A1 : forallb (fun b => N.ltb b 128) (hname h) = true) by (apply forallb_forall; intros c Hc; apply pchar_facts, Hnp, Hc).
    assert (A2 : forallb (fun b => N.ltb b 128) (hvalue h) = true) by (apply forallb_forall; intros c Hc; apply vchar_facts, Hvp, Hc).
    rewrite A1, A2. reflexivity.
  - split; intro Hi; apply in_app_or in Hi as [Hi|Hi].
    + apply Hnp in Hi. destruct Hi as [Hi _]. apply pchar_facts in Hi. lia.
    + apply in_app_or in Hi as [Hi|Hi]; [cbn in Hi; destruct Hi as [Hi|[Hi|[]]]; discriminate|]. apply Hvp, vchar_facts in Hi. lia.
    + apply Hnp in Hi. destruct Hi as [Hi _]. apply pchar_facts in Hi. lia.
    + apply in_app_or in Hi as [Hi|Hi]; [cbn in Hi; destruct Hi as [Hi|[Hi|[]]]; discriminate|]. apply Hvp, vchar_facts in Hi. lia.
Qed.

Lemma noctl_filter s : forallb (fun c => negb (is_ascii_control c)) s = true -> filter (fun c => negb (is_ascii_control c)) s = s.
Proof. apply filter_keep. Qed.
Lemma trim_ws_single w y : forallb ascii_ws w = true -> solid y = true -> trim (w ++ [y]) = [y].
Proof.
  intros Hw Hy. unfold trim, trim_start. rewrite trim_start_f_ws by (auto; rewrite app_length; lia).
  rewrite trim_start_f_solid by assumption. change [y] with ([] ++ [y] ++ []). rewrite trim_end_solid_ws by auto. reflexivity.
Qed.
Lemma hdr_text_trim h : mh_facts h -> trim (hname h ++ COLON_SP ++ hvalue h) = hdr_text h /\ trim (hdr_text h) = hdr_text h.
Proof.
  intros F. destruct (mf_name h F) as (n0 & n' & En & Hn0). unfold hdr_text. rewrite En.
  destruct (mf_value_shape h F) as [Ev | (v0 & mid & y & Ev & Hv0 & Hsh & Hy)].
  - rewrite Ev. cbn [app COLON_SP]. rewrite ?app_nil_r.
    assert (E1 : trim (n0 :: n' ++ [58; 32]) = n0 :: n' ++ [58]).
    { change (n0 :: n' ++ [58; 32]) with (n0 :: n' ++ [58] ++ [32]). apply trim_solid_ends; auto. }
    assert (E2 : trim (n0 :: n' ++ [58]) = n0 :: n' ++ [58]) by (apply trim_solid_both; auto).
    split; assumption.
  - rewrite Ev. destruct Hsh as [E1 | (m' & E1)].
    + rewrite E1. assert (G : trim (n0 :: n' ++ COLON_SP ++ [y]) = n0 :: n' ++ COLON_SP ++ [y]).
      { replace (n' ++ COLON_SP ++ [y]) with ((n' ++ COLON_SP) ++ [y]) by (rewrite <- app_assoc; reflexivity). apply trim_solid_both; auto. }
      split; exact G.
    + rewrite E1. assert (G : trim (n0 :: n' ++ COLON_SP ++ v0 :: m' ++ [y]) = n0 :: n' ++ COLON_SP ++ v0 :: m' ++ [y]).
      { replace (n' ++ COLON_SP ++ v0 :: m' ++ [y]) with ((n' ++ COLON_SP ++ v0 :: m') ++ [y]) by (rewrite <- !app_assoc; reflexivity). apply trim_solid_both; auto. }
      split; exact G.
Qed.

Lemma hdr_line_filter h : mh_facts h -> filter_ascii_control (hdr_line h) = hdr_text h /\ filter_ascii_control (hdr_text h) = hdr_text h.
Proof.
  intro F. destruct (hdr_text_trim h F) as [T1 T2]. unfold filter_ascii_control, hdr_line. split.
  - rewrite !filter_app. rewrite (noctl_filter _ (mf_name_noctl h F)), (noctl_filter _ (mf_value_noctl h F)).
    change (filter (fun c => negb (is_ascii_control c)) COLON_SP) with COLON_SP. change (filter (fun c => negb (is_ascii_control c)) CRLF) with (@nil N).
    rewrite app_nil_r. exact T1.
  - assert (G : filter (fun c => negb (is_ascii_control c)) (hdr_text h) = hdr_text h).
    { unfold hdr_text. rewrite filter_app, (noctl_filter _ (mf_name_noctl h F)). f_equal. destruct (hvalue h) as [|v0 mid] eqn:Ev; [reflexivity|].
      rewrite filter_app. change (filter (fun c => negb (is_ascii_control c)) COLON_SP) with COLON_SP. f_equal. rewrite <- Ev. apply noctl_filter, (mf_value_noctl h F). }
    rewrite G. exact T2.
Qed.

Lemma hdr_text_parse h : mh_facts h -> parse_header (hdr_text h) = Some h.
Proof.
  intro F. unfold parse_header. destruct (hdr_line_filter h F) as [_ E]. rewrite E.
  destruct (mf_nolf h F) as [N10 N13].
  assert (Hclean : ~ In 10 (hdr_text h) /\ ~ In 13 (hdr_text h)).
  { unfold hdr_text. destruct (hvalue h) as [|v0 mid] eqn:Ev.
    - split; intro Hi; apply in_app_or in Hi as [Hi|Hi]; try (cbn in Hi; destruct Hi as [Hi|[]]; discriminate).
      + apply N10. apply in_or_app. left. exact Hi.
      + apply N13. apply in_or_app. left. exact Hi.
    - split; assumption. }
  rewrite truncate_clean by tauto.
  unfold hdr_text. destruct (mf_name h F) as (n0 & n' & En & Hn0).
  assert (Tn : trim (hname h) = hname h) by (apply trim_all_solid, (mf_name_solid h F)).
  destruct (mf_value_shape h F) as [Ev | (v0 & mid & y & Ev & Hv0 & Hsh & Hy)].
  - rewrite Ev. rewrite split_once_1 by (apply (mf_name_nocolon h F)). rewrite Tn. destruct h as [n v]. cbn [hname hvalue] in *. subst v. reflexivity.
  - rewrite Ev. change (hname h ++ COLON_SP ++ v0 :: mid) with (hname h ++ 58 :: (32 :: v0 :: mid)).
    rewrite split_once_1 by (apply (mf_name_nocolon h F)). rewrite Tn.
    assert (Tv : trim (32 :: v0 :: mid) = v0 :: mid).
    { destruct Hsh as [E1 | (m' & E1)]; rewrite E1.
      - injection E1 as E0 E2. subst v0 mid. apply (trim_ws_single [32] y); auto.
      - change (32 :: v0 :: m' ++ [y]) with ([32] ++ v0 :: m' ++ [y]). apply trim_ws_solid; auto. }
    rewrite Tv. destruct h as [n v]. cbn [hname hvalue] in *. subst v. reflexivity.
Qed.

(* ---------- the header phase ---------- *)
Lemma hdr_line_split h rest : mh_facts h -> split_line (hdr_line h ++ rest) = (hdr_line h, rest).
Proof.
  intro F. unfold hdr_line, CRLF.
  replace ((hname h ++ COLON_SP ++ hvalue h ++ [13; 10]) ++ rest) with ((hname h ++ COLON_SP ++ hvalue h ++ [13]) ++ 10 :: rest) by (rewrite <- !app_assoc; reflexivity).
  rewrite split_line_nolf.
  - rewrite <- !app_assoc. reflexivity.
  - destruct (mf_nolf h F) as [N10 _]. intro Hi. rewrite !app_assoc in Hi. apply in_app_or in Hi as [Hi|Hi]; [rewrite <- app_assoc in Hi; contradiction|].
    cbn in Hi. destruct Hi as [Hi|[]]. discriminate.
Qed.
Lemma hdr_text_nonempty h : mh_facts h -> hdr_text h <> [].
Proof. intro F. destruct (mf_name h F) as (n0 & n' & En & _). unfold hdr_text. rewrite En. discriminate. Qed.

Lemma header_step f bd h rest hs : mh_facts h -> is_boundary_line (hdr_text h) bd = false -> rest <> [] ->
  header_phase (S f) bd (hdr_line h ++ rest) hs = header_phase f bd rest (hs ++ [h]).
Proof.
  intros F Hnb Hr. cbn [header_phase]. rewrite hdr_line_split by exact F.
  pose proof (ascii_utf8 _ (mf_ascii h F)) as Hu. fold (hdr_line h) in Hu. rewrite Hu. cbn [negb].
  destruct (hdr_line_filter h F) as [E1 _]. rewrite E1. destruct (hdr_text_trim h F) as [_ T]. rewrite T.
  assert (Hne : beqs (hdr_text h) [] = false).
  { destruct (beqs (hdr_text h) []) eqn:E; [|reflexivity]. apply beqs_eq in E. exfalso. exact (hdr_text_nonempty h F E). }
  rewrite Hne, Hnb. destruct rest as [|r0 rest']; [contradiction|]. cbn [andb]. rewrite hdr_text_parse by exact F. reflexivity.
Qed.
Lemma header_blank f bd rest hs : negb (beqs (strip_hyphens bd) []) = true -> hs <> [] -> rest <> [] ->
  header_phase (S f) bd (CRLF ++ rest) hs = HCont hs rest.
Proof.
  intros Hb Hh Hr. cbn [header_phase]. change (split_line (CRLF ++ rest)) with (CRLF, rest). cbv iota.
  change (utf8_valid CRLF) with true. change (filter_ascii_control CRLF) with (@nil N). change (trim []) with (@nil N). change (beqs [] []) with true. cbn [negb].
  assert (Hd : is_boundary_line [] bd = false).
  { unfold is_boundary_line, ends_with. change (strip_hyphens []) with (@nil N). cbn [rev].
    destruct (strip_hyphens bd) as [|x t] eqn:E; [discriminate|]. cbn [rev]. destruct (rev t ++ [x]) eqn:E2; [destruct (rev t); discriminate|reflexivity]. }
  rewrite Hd. destruct rest as [|r0 rest']; [contradiction|]. destruct hs as [|h0 hs']; [contradiction|]. reflexivity.
Qed.
Lemma headers_all bd : forall hs acc f rest, negb (beqs (strip_hyphens bd) []) = true -> Forall mh_facts hs -> Forall (fun h => is_boundary_line (hdr_text h) bd = false) hs ->
  acc ++ hs <> [] -> rest <> [] -> (length hs < f)%nat ->
  header_phase f bd (flat_map hdr_line hs ++ CRLF ++ rest) acc = HCont (acc ++ hs) rest.
Proof.
  induction hs as [|h hs IH]; intros acc f rest Hb HF HN Hne Hr Hf.
  - destruct f as [|f]; [cbn in Hf; lia|]. cbn [flat_map app]. rewrite app_nil_r in *. apply header_blank; auto.
  - inversion HF as [|? ? Fh HF']; subst. inversion HN as [|? ? Nh HN']; subst. destruct f as [|f]; [cbn in Hf; lia|].
    cbn [flat_map]. rewrite <- app_assoc. rewrite header_step; auto.
    + rewrite IH; auto; [rewrite <- app_assoc; reflexivity|rewrite <- app_assoc; exact Hne|cbn [length] in Hf; lia].
    + destruct (flat_map hdr_line hs ++ CRLF ++ rest) eqn:E; [|discriminate]. apply app_eq_nil in E as [_ E]. discriminate.
Qed.

(* ---------- the body phase ---------- *)
Lemma split_line_app_lf : forall X Y, In 10 X -> split_line (X ++ Y) = (fst (split_line X), snd (split_line X) ++ Y).
Proof.
  induction X as [|c X IH]; intros Y Hi; [contradiction|].
  cbn [app split_line]. destruct (N.eqb_spec c 10) as [->|Hc]; [reflexivity|].
  destruct Hi as [Hi|Hi]; [congruence|]. rewrite (IH Y Hi). destruct (split_line X) as [l r]. reflexivity.
Qed.
Definition ends_lf (X : list N) : Prop := X = [] \/ exists X', X = X' ++ [10].
Lemma ends_lf_tail X : ends_lf X -> X <> [] -> In 10 X /\ ends_lf (snd (split_line X)).
Proof.
  intros [->|[X' ->]] Hne; [contradiction|]. split; [apply in_or_app; right; left; reflexivity|].
  clear Hne. induction X' as [|c X' IH].
  - cbn. left. reflexivity.
  - cbn [app split_line]. destruct (N.eqb c 10); [right; exists X'; reflexivity|].
    destruct (split_line (X' ++ [10])) as [l r]. exact IH.
Qed.

Lemma body_phase_step f esc s acc : s <> [] ->
  body_phase (S f) esc s acc = let (line, rest') := split_line s in if is_delim line esc then BFound acc rest' else body_phase f esc rest' (acc ++ line).
Proof. destruct s; [contradiction|reflexivity]. Qed.
Lemma body_lines esc dl rest : split_line (dl ++ rest) = (dl, rest) -> is_delim dl esc = true -> dl <> [] ->
  forall f X acc, (length X < f)%nat -> lines_ok f esc X = true -> ends_lf X ->
  body_phase f esc (X ++ dl ++ rest) acc = BFound (acc ++ X) rest.
Proof.
  intros Hdl Hd Hne. induction f as [|f IH]; intros X acc Hf Hok Hlf; [lia|].
  destruct X as [|c X].
  - cbn [app]. rewrite body_phase_step by (destruct dl; [contradiction|discriminate]). rewrite Hdl, Hd, app_nil_r. reflexivity.
  - destruct (ends_lf_tail (c :: X) Hlf ltac:(discriminate)) as [Hin Htail].
    cbn [lines_ok] in Hok. rewrite body_phase_step by discriminate.
    rewrite (split_line_app_lf (c :: X) (dl ++ rest) Hin).
    destruct (split_line (c :: X)) as [l r] eqn:Es. cbn [fst snd] in *. apply andb_prop in Hok as [Hl Hr]. apply negb_true_iff in Hl. rewrite Hl.
    pose proof (split_line_app (c :: X)) as Happ. rewrite Es in Happ.
    pose proof (split_line_length (c :: X) ltac:(discriminate)) as Hlen. rewrite Es in Hlen. cbn [snd] in Hlen.
    rewrite IH by (auto; cbn [length] in *; lia). rewrite <- app_assoc, <- Happ. reflexivity.
Qed.

(* ---------- delimiter lines ---------- *)
Record bd_facts (bd : list N) : Prop := {
  bf_esc : strip_hyphens bd <> [];
  bf_solid : forallb solid bd = true;
  bf_noctl : forallb (fun c => negb (is_ascii_control c)) bd = true;
  bf_ascii : is_ascii bd = true;
  bf_nolf : ~ In 10 bd /\ ~ In 13 bd;
  bf_nonempty : bd <> [] }.
Lemma bd_ok_facts bd : bd_ok bd = true -> bd_facts bd.
Proof.
  unfold bd_ok. intro H. apply andb_prop in H as [Hp He]. apply negb_true_iff in He.
  assert (P : forall c, In c bd -> pchar c = true) by (intros c Hc; exact (forallb_in _ _ _ Hp Hc)).
  constructor.
  - intro E. rewrite E in He. discriminate.
  - apply forallb_forall. intros c Hc. apply pchar_facts, P, Hc.
  - apply forallb_forall. intros c Hc. destruct (pchar_facts c (P c Hc)) as (_ & _ & G & _). rewrite G. reflexivity.
  - unfold is_ascii. apply forallb_forall. intros c Hc. apply pchar_facts, P, Hc.
  - split; intro Hi; apply P, pchar_facts in Hi; lia.
  - intro E. subst bd. discriminate.
Qed.
Lemma ends_with_refl s : ends_with s s = true.
Proof. unfold ends_with. rewrite <- (app_nil_r (rev s)) at 2. apply prefixb_app. Qed.
Lemma delim_filter bd : ~ In 10 bd -> ~ In 13 bd -> filter (fun c => negb (N.eqb c 45 || N.eqb c 13 || N.eqb c 10)) bd = strip_hyphens bd.
Proof.
  unfold strip_hyphens, remove_byte. induction bd as [|c bd IH]; intros N10 N13; [reflexivity|].
  cbn [filter]. assert (c <> 10 /\ c <> 13) as [H10 H13] by (split; intro E; [apply N10|apply N13]; left; auto).
  replace (N.eqb c 13) with false by (symmetry; apply N.eqb_neq; exact H13). replace (N.eqb c 10) with false by (symmetry; apply N.eqb_neq; exact H10).
  rewrite !orb_false_r. rewrite IH; [reflexivity|intro Hi; apply N10; right; exact Hi|intro Hi; apply N13; right; exact Hi].
Qed.
Lemma delim_mid bd rest : bd_facts bd -> split_line ((bd ++ CRLF) ++ rest) = (bd ++ CRLF, rest) /\ is_delim (bd ++ CRLF) (strip_hyphens bd) = true.
Proof.
  intro F. destruct (bf_nolf bd F) as [N10 N13]. split.
  - unfold CRLF. replace ((bd ++ [13; 10]) ++ rest) with ((bd ++ [13]) ++ 10 :: rest) by (rewrite <- !app_assoc; reflexivity).
    rewrite split_line_nolf; [rewrite <- app_assoc; reflexivity|]. intro Hi. apply in_app_or in Hi as [Hi|Hi]; [contradiction|]. cbn in Hi. destruct Hi as [Hi|[]]. discriminate.
  - unfold is_delim. destruct (strip_hyphens bd) as [|x t] eqn:E; [exfalso; exact (bf_esc bd F E)|]. rewrite <- E.
    rewrite filter_app. change (filter (fun c => negb (N.eqb c 45 || N.eqb c 13 || N.eqb c 10)) CRLF) with (@nil N). rewrite app_nil_r.
    rewrite delim_filter by assumption. apply ends_with_refl.
Qed.
Lemma split_line_nolf_all s : ~ In 10 s -> split_line s = (s, []).
Proof. induction s as [|c s IH]; intro H; [reflexivity|]. cbn [split_line]. destruct (N.eqb_spec c 10) as [->|Hc]; [exfalso; apply H; left; reflexivity|]. rewrite IH by (intro Hi; apply H; right; exact Hi). reflexivity. Qed.
Lemma delim_last bd : bd_facts bd -> split_line (bd ++ []) = (bd, []) /\ is_delim bd (strip_hyphens bd) = true.
Proof.
  intro F. destruct (bf_nolf bd F) as [N10 N13]. split; [rewrite app_nil_r; apply split_line_nolf_all, N10|].
  unfold is_delim. destruct (strip_hyphens bd) as [|x t] eqn:E; [exfalso; exact (bf_esc bd F E)|]. rewrite <- E.
  rewrite delim_filter by assumption. apply ends_with_refl.
Qed.
Lemma bd_first_line bd : bd_facts bd -> truncate_nl_cr (filter_ascii_control (bd ++ CRLF)) = bd /\ truncate_nl_cr (filter_ascii_control bd) = bd /\ is_boundary_line bd bd = true.
Proof.
  intro F. destruct (bf_nolf bd F) as [N10 N13].
  assert (T : trim bd = bd) by (apply trim_all_solid, (bf_solid bd F)).
  assert (E2 : filter_ascii_control bd = bd) by (unfold filter_ascii_control; rewrite (noctl_filter _ (bf_noctl bd F)); exact T).
  assert (E1 : filter_ascii_control (bd ++ CRLF) = bd).
  { unfold filter_ascii_control. rewrite filter_app, (noctl_filter _ (bf_noctl bd F)). change (filter (fun c => negb (is_ascii_control c)) CRLF) with (@nil N). rewrite app_nil_r. exact T. }
  rewrite E1, E2. rewrite truncate_clean by assumption. repeat split. unfold is_boundary_line. apply ends_with_refl.
Qed.

(* ---------- the loop over the parts ---------- *)
Definition tailf (bd : list N) (ps : list part) : list N := flat_map (fun p => CRLF ++ gen_part p ++ CRLF ++ bd) ps.
Definition part_text (p : part) : list N := flat_map hdr_line (p_headers p) ++ CRLF ++ p_body p.
Lemma gen_part_text p : gen_part p = part_text p.
Proof. reflexivity. Qed.

Record part_facts (bd : list N) (p : part) : Prop := {
  pf_headers : p_headers p <> [];
  pf_mh : Forall mh_facts (p_headers p);
  pf_nodelim : Forall (fun h => is_boundary_line (hdr_text h) bd = false) (p_headers p);
  pf_lines : lines_ok (S (length (p_body p ++ CRLF))) (strip_hyphens bd) (p_body p ++ CRLF) = true }.
Lemma part_ok_facts bd p : part_ok bd p = true -> part_facts bd p.
Proof.
  unfold part_ok. intro H. apply andb_prop in H as [H Hl]. apply andb_prop in H as [H Hd]. apply andb_prop in H as [Hh Hm].
  constructor.
  - intro E. rewrite E in Hh. discriminate.
  - apply Forall_forall. intros h Hi. apply mh_ok_facts. exact (forallb_in _ _ _ Hm Hi).
  - apply Forall_forall. intros h Hi. apply negb_true_iff. exact (forallb_in _ _ _ Hd Hi).
  - exact Hl.
Qed.

Lemma lines_ok_more esc : forall f1 f2 X, (length X < f1)%nat -> (length X < f2)%nat -> lines_ok f1 esc X = lines_ok f2 esc X.
Proof.
  induction f1 as [|f1 IH]; intros f2 X H1 H2; [lia|]. destruct f2 as [|f2]; [lia|]. cbn [lines_ok]. destruct X as [|c X]; [reflexivity|].
  pose proof (split_line_length (c :: X) ltac:(discriminate)) as Hl. destruct (split_line (c :: X)) as [l r]. cbn [snd] in Hl.
  rewrite (IH f2 r) by (cbn [length] in *; lia). reflexivity.
Qed.
Lemma hdr_lines_length hs : (length hs <= length (flat_map hdr_line hs))%nat.
Proof.
  induction hs as [|h hs IH]; [cbn; lia|]. cbn [flat_map length]. rewrite app_length. unfold hdr_line at 1. rewrite !app_length. cbn [length CRLF COLON_SP]. lia.
Qed.

Lemma part_step bd p f acc dl r : bd_facts bd -> part_facts bd p ->
  split_line (dl ++ r) = (dl, r) -> is_delim dl (strip_hyphens bd) = true -> dl <> [] -> (exists d', dl = bd ++ d') ->
  parts_loop (S f) bd (part_text p ++ CRLF ++ dl ++ r) acc =
  match r with [] => MOk (acc ++ [p]) | _ => parts_loop f bd r (acc ++ [p]) end.
Proof.
  intros Fb Fp Hsp Hdl Hne (d' & Ed). destruct p as [hs body]. cbn [p_headers p_body part_text] in *.
  destruct Fp as [Hh Hm Hd Hl]. cbn [p_headers p_body] in *.
  set (rest1 := body ++ CRLF ++ dl ++ r).
  assert (Hr1 : rest1 <> []) by (unfold rest1; destruct body; discriminate).
  cbn [parts_loop]. unfold part_text. cbn [p_headers p_body]. replace ((flat_map hdr_line hs ++ CRLF ++ body) ++ CRLF ++ dl ++ r) with (flat_map hdr_line hs ++ CRLF ++ rest1) by (unfold rest1; rewrite <- !app_assoc; reflexivity).
  rewrite (headers_all bd hs [] _ rest1); auto.
  - cbn [app]. replace rest1 with ((body ++ CRLF) ++ dl ++ r) by (unfold rest1; rewrite <- app_assoc; reflexivity).
    rewrite (body_lines (strip_hyphens bd) dl r Hsp Hdl Hne).
    + cbn [app]. rewrite trim_body_end_crlf. reflexivity.
    + rewrite !app_length. lia.
    + rewrite (lines_ok_more _ _ (S (length (body ++ CRLF)))); [exact Hl|rewrite !app_length; lia|lia].
    + right. exists (body ++ [13]). rewrite <- app_assoc. reflexivity.
  - destruct (strip_hyphens bd) eqn:E; [exfalso; exact (bf_esc bd Fb E)|reflexivity].
  - pose proof (hdr_lines_length hs). rewrite !app_length. lia.
Qed.

Lemma tailf_cons bd p ps : tailf bd (p :: ps) = CRLF ++ part_text p ++ CRLF ++ bd ++ tailf bd ps.
Proof. unfold tailf. cbn [flat_map]. rewrite <- !app_assoc. reflexivity. Qed.
Lemma tailf_length bd ps : (length ps <= length (tailf bd ps))%nat.
Proof. induction ps as [|p ps IH]; [cbn; lia|]. rewrite tailf_cons, !app_length. cbn [length CRLF]. lia. Qed.

Lemma parts_all bd : bd_facts bd -> forall ps p acc f, Forall (part_facts bd) (p :: ps) -> (length ps < f)%nat ->
  parts_loop f bd (part_text p ++ CRLF ++ bd ++ tailf bd ps) acc = MOk (acc ++ p :: ps).
Proof.
  intros Fb. induction ps as [|p2 ps IH]; intros p acc f HF Hf; inversion HF as [|? ? Fp HF']; subst; (destruct f as [|f]; [cbn in Hf; lia|]).
  - cbn [tailf flat_map]. destruct (delim_last bd Fb) as [Hs Hd].
    pose proof (part_step bd p f acc bd [] Fb Fp Hs Hd (bf_nonempty bd Fb) (ex_intro _ [] (eq_sym (app_nil_r bd)))) as G. exact G.
  - rewrite tailf_cons. set (r := part_text p2 ++ CRLF ++ bd ++ tailf bd ps).
    destruct (delim_mid bd r Fb) as [Hs Hd].
    replace (part_text p ++ CRLF ++ bd ++ CRLF ++ r) with (part_text p ++ CRLF ++ (bd ++ CRLF) ++ r) by (rewrite <- !app_assoc; reflexivity).
    rewrite (part_step bd p f acc (bd ++ CRLF) r Fb Fp Hs Hd); [|destruct bd; discriminate|exists CRLF; reflexivity].
    assert (Hr : r <> []). { unfold r, part_text. destruct (flat_map hdr_line (p_headers p2)); discriminate. }
    destruct r as [|r0 r'] eqn:Er; [contradiction|]. rewrite <- Er. unfold r.
    rewrite IH by (auto; cbn [length] in Hf; lia). rewrite <- app_assoc. reflexivity.
Qed.

(* parsing what the writer produced, with the same boundary, returns the parts - any number of parts, any bodies *)
Theorem multipart_round_trip bd ps : bd_ok bd = true -> forallb (part_ok bd) ps = true ->
  multipart_parse (multipart_generate ps bd) bd = MOk ps.
Proof.
  intros Hb Hp. pose proof (bd_ok_facts bd Hb) as Fb. destruct (bd_first_line bd Fb) as (E1 & E2 & E3). destruct (bf_nolf bd Fb) as [N10 N13].
  assert (HF : Forall (part_facts bd) ps) by (apply Forall_forall; intros p Hi; apply part_ok_facts; exact (forallb_in _ _ _ Hp Hi)).
  unfold multipart_parse, multipart_generate. fold (tailf bd ps).
  destruct ps as [|p ps].
  - cbn [tailf flat_map]. rewrite app_nil_r. rewrite split_line_nolf_all by exact N10.
    rewrite (ascii_utf8 _ (bf_ascii bd Fb)). cbn [negb]. rewrite E2, E3. cbn [negb length parts_loop header_phase].
    change (split_line []) with (@nil N, @nil N). cbv iota. change (utf8_valid []) with true. change (filter_ascii_control []) with (@nil N). change (trim []) with (@nil N). change (beqs [] []) with true. cbn [negb].
    assert (Hd : is_boundary_line [] bd = false).
    { unfold is_boundary_line, ends_with. change (strip_hyphens []) with (@nil N). cbn [rev].
      destruct (strip_hyphens bd) as [|x t] eqn:E; [exfalso; exact (bf_esc bd Fb E)|]. cbn [rev]. destruct (rev t ++ [x]) eqn:E4; [destruct (rev t); discriminate|reflexivity]. }
    rewrite Hd. reflexivity.
  - rewrite tailf_cons. destruct (delim_mid bd (part_text p ++ CRLF ++ bd ++ tailf bd ps) Fb) as [Hs _].
    replace (bd ++ CRLF ++ part_text p ++ CRLF ++ bd ++ tailf bd ps) with ((bd ++ CRLF) ++ part_text p ++ CRLF ++ bd ++ tailf bd ps) by (rewrite <- app_assoc; reflexivity).
    rewrite Hs. assert (Hu : utf8_valid (bd ++ CRLF) = true).
    { apply ascii_utf8. pose proof (bf_ascii bd Fb) as Ha. unfold is_ascii in *. rewrite forallb_app, Ha. reflexivity. }
    rewrite Hu. cbn [negb]. rewrite E1, E3. cbn [negb].
    rewrite parts_all; [reflexivity|exact Fb|exact HF|]. pose proof (tailf_length bd ps). rewrite !app_length. lia.
Qed.
