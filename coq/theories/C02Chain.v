(* C02 at the level of the controller chain and the wire: a GET for a plain path is served by the static controller,
   with the file's exact bytes, its media type and its length; a lookup that selects nothing is a 404. *)
From Rws Require Import Str Utf8 Num Fs UrlParse RangeSpec Request GenMime Mime StaticRes GenConsts Forms Server StrLemmas
                        C01Proof C01Process C02Proof C03Proof C09Proof.
Open Scope N_scope.

(* targets that other controllers claim before the static controller is asked *)
Definition special_target (u : list N) : bool :=
  negb (starts_with u [47]) || beqs u [47] || beqs u (47 :: NAME_STYLE) || beqs u (47 :: NAME_SCRIPT) || beqs u (47 :: NAME_FAVICON)
  || match uri_path u with UOk p => beqs p PATH_FORM_GET | _ => true end.

Lemma execute_get_plain cfg fs u hs :
  special_target u = false ->
  let r := GETh u hs in
  let rs0 := mkResp 501 (reason 501) (default_headers cfg r) [] in
  app_execute_gen false cfg fs r =
    match is_matching fs r with
    | SOk true => static_process fs r rs0
    | SOk false => SOk (asset_controller fs NAME_404 (as_404 (cf_assets cfg)) Mt_TEXT_HTML 404 rs0)
    | SErr s => SErr s | SPanic s => SPanic s end.
Proof.
  intros Hs r rs0. unfold special_target in Hs. repeat (apply orb_false_iff in Hs as [Hs ?]).
  unfold app_execute_gen. fold rs0.
  assert (Hp : beqs (method r) POST = false) by reflexivity.
  assert (Hf : form_get_target r = false).
  { unfold form_get_target. cbn [uri r GETh]. destruct (uri_path u); congruence. }
  rewrite (upload_nopost cfg r rs0 Hp), (urlenc_nopost r rs0 Hp), (formget_nonform r rs0 Hf), (multi_nopost r rs0 Hp).
  cbn [uri r GETh method]. rewrite Hs. cbn [negb]. rewrite H3, H2, H1, H0. rewrite !andb_false_r. cbn [orb andb].
  unfold path_gate. destruct (uri_path u) as [p| |]; [|discriminate|discriminate].
  destruct (get_header r Hd_CONTENT_TYPE); reflexivity.
Qed.

(* "bytes=0-" selects the whole file *)
Lemma parse_range_whole L : parse_range L [48;45] = ROk' (0, L).
Proof.
  unfold parse_range. change (split [48;45] HYPHEN) with [[48]; @nil N]. cbn [loop_parts].
  unfold step_part at 1. change (trim [48]) with [48]. change (beqs [48] []) with false. cbn [negb Nat.eqb andb].
  change (parse_u64 [48]) with (Some 0). cbn [r_end r_start r_noprov].
  rewrite (proj2 (N.ltb_ge L L)) by lia. rewrite (proj2 (N.ltb_ge L 0)) by lia.
  unfold step_part. change (trim []) with (@nil N). change (beqs [] []) with true. cbn [negb Nat.eqb andb r_end r_start r_noprov].
  rewrite (proj2 (N.ltb_ge L L)) by lia. rewrite (proj2 (N.ltb_ge L 0)) by lia. reflexivity.
Qed.
Lemma slice_whole (data : list N) : slice data 0 (N.of_nat (length data)) = data.
Proof. unfold slice. cbn [skipn N.to_nat]. apply firstn_all2. lia. Qed.

(* the whole-file read of a regular file that is reached without any link *)
Lemma whole_file_read fs SP data q :
  regular_at fs SP data q -> N.of_nat (length data) < 2 ^ 64 - 1 ->
  parse_content_range fs false SP (N.of_nat (length data)) DEFAULT_RANGE =
    SOk [mkCr 0 (N.of_nat (length data)) (N.of_nat (length data)) data (detect_mime SP) (FromFile q false)].
Proof.
  intros R HL. change DEFAULT_RANGE with (BYTES_EQ ++ [48;45]).
  rewrite (C03_single_range fs SP data q [48;45] 0 (N.of_nat (length data)) R).
  - rewrite slice_whole. reflexivity.
  - simpl. intuition discriminate.
  - simpl. intuition discriminate.
  - apply parse_range_whole.
  - rewrite N.sub_0_r. lia.
Qed.

(* ---------- the property, first sentence ---------- *)
Theorem served_exact cfg fs u hs P Q data q :
  special_target u = false -> get_header (GETh u hs) RANGE_NAME = None ->
  path_or_panic u = SOk P -> clean_path P -> has_dotdot P = false -> KF_C02_tree fs P = false ->
  lookup fs P = Some Q -> clean_path Q -> has_dotdot Q = false ->
  regular_at fs (cwd_str fs ++ Q) data q -> is_symlink fs (cwd_str fs ++ Q) = Some false ->
  N.of_nat (length data) < 2 ^ 64 - 1 ->
  exists rs, app_execute_gen false cfg fs (GETh u hs) = SOk rs /\ rs_status rs = 200 /\
             rs_ranges rs = [mkCr 0 (N.of_nat (length data)) (N.of_nat (length data)) data (detect_mime (cwd_str fs ++ Q)) (FromFile q false)].
Proof.
  intros Hsp Hnr EP Hcl Hdd Hk Hl HclQ HddQ Hreg Hsym HL.
  assert (Hroot : u <> [47]).
  { intro E. subst u. unfold special_target in Hsp. vm_compute in Hsp. discriminate. }
  pose proof (C02_lookup_refines_gen fs u hs P EP Hcl Hdd Hroot Hk) as Href. rewrite Hl in Href. destruct Href as [Hm Hps].
  rewrite (execute_get_plain cfg fs u hs Hsp). rewrite Hm.
  unfold static_process. rewrite Hps. unfold range_value. rewrite Hnr.
  destruct Hreg as [Hn Hf].
  assert (Hmeta : metadata fs (cwd_str fs ++ Q) = Some KFile) by (unfold metadata; rewrite Hn; reflexivity).
  assert (Hlen : file_len fs (cwd_str fs ++ Q) = Some (N.of_nat (length data))) by (unfold file_len; rewrite Hn; reflexivity).
  rewrite (gcrl_regular fs Q DEFAULT_RANGE _ HclQ HddQ Hmeta Hsym Hlen).
  rewrite (whole_file_read fs _ data q (conj Hn Hf) HL).
  change (uri (GETh u hs)) with u. change (method (GETh u hs)) with GET. change (beqs GET OPTIONS) with false. cbv iota. rewrite EP.
  eexists. split; [reflexivity|]. split; reflexivity.
Qed.

(* what the single part means on the wire: Content-Type, Content-Length = number of body bytes, body = the file *)
Lemma wire_single rs c : rs_ranges rs = [c] ->
  derived_headers (rs_ranges rs) = [H Hd_CONTENT_TYPE (c_type c); H Hd_CONTENT_RANGE (content_range_value c);
                                    H Hd_CONTENT_LENGTH (show_N (N.of_nat (length (c_body c))))] /\
  gen_body (rs_ranges rs) = c_body c.
Proof. intros ->. split; reflexivity. Qed.

(* ---------- second sentence: a lookup that selects nothing is answered 404 (or 500 for a broken 404.html) ---------- *)
Theorem none_is_404 cfg fs u hs P :
  special_target u = false ->
  path_or_panic u = SOk P -> clean_path P -> has_dotdot P = false -> KF_C02_tree fs P = false ->
  lookup fs P = None ->
  exists rs, app_execute_gen false cfg fs (GETh u hs) = SOk rs /\ (rs_status rs = 404 \/ rs_status rs = 500) /\
             rs_ranges rs = rs_ranges (asset_controller fs NAME_404 (as_404 (cf_assets cfg)) Mt_TEXT_HTML 404 rs).
Proof.
  intros Hsp EP Hcl Hdd Hk Hl.
  assert (Hroot : u <> [47]).
  { intro E. subst u. unfold special_target in Hsp. vm_compute in Hsp. discriminate. }
  pose proof (C02_lookup_refines_gen fs u hs P EP Hcl Hdd Hroot Hk) as Href. rewrite Hl in Href.
  rewrite (execute_get_plain cfg fs u hs Hsp). rewrite Href.
  eexists. split; [reflexivity|]. split; [apply asset_status|].
  unfold asset_controller. destruct (is_file fs (rel fs NAME_404)); [|reflexivity].
  destruct (node_at fs (rel fs NAME_404) true) as [[[nd q'] via]|]; [destruct nd|]; reflexivity.
Qed.

(* ---------- query strings and fragments do not affect the lookup ---------- *)
Theorem same_path_same_answer fs u1 u2 hs P :
  path_or_panic u1 = SOk P -> path_or_panic u2 = SOk P -> clean_path P -> has_dotdot P = false ->
  u1 <> [47] -> u2 <> [47] -> KF_C02_tree fs P = false ->
  is_matching fs (GETh u1 hs) = is_matching fs (GETh u2 hs) /\
  (lookup fs P <> None -> process_static fs (GETh u1 hs) = process_static fs (GETh u2 hs)).
Proof.
  intros E1 E2 Hcl Hdd H1 H2 Hk.
  pose proof (C02_lookup_refines_gen fs u1 hs P E1 Hcl Hdd H1 Hk) as R1.
  pose proof (C02_lookup_refines_gen fs u2 hs P E2 Hcl Hdd H2 Hk) as R2.
  destruct (lookup fs P) as [Q|].
  - destruct R1 as [M1 S1], R2 as [M2 S2]. split; [congruence|]. intros _. rewrite S1, S2. reflexivity.
  - split; [congruence|]. intro Hn. congruence.
Qed.
(* e.g. "/a.txt?x=1#y" and "/a.txt" have the same path *)
Example query_fragment_same_path :
  path_or_panic [47;97;46;116;120;116;63;120;61;49;35;121] = SOk [47;97;46;116;120;116] /\ path_or_panic [47;97;46;116;120;116] = SOk [47;97;46;116;120;116].
Proof. split; vm_compute; reflexivity. Qed.

Lemma wire_multi c1 c2 rest :
  derived_headers (c1 :: c2 :: rest) = [H Hd_CONTENT_TYPE Rg_MULTIPART_BYTERANGES_CONTENT_TYPE] /\
  gen_body (c1 :: c2 :: rest) = bpart true c1 ++ flat_map (bpart false) (c2 :: rest) ++ CRLF ++ SEP_LINE.
Proof. split; reflexivity. Qed.
