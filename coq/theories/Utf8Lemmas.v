From Rws Require Import Str Utf8.
Open Scope N_scope.

Lemma utf8_valid_app_fuel n : forall a s, (length a <= n)%nat -> utf8_valid a = true -> utf8_valid (a ++ s) = utf8_valid s.
Proof.
  induction n as [|n IH]; intros a s Hl Hv.
  - destruct a; [reflexivity|simpl in Hl; lia].
  - destruct a as [|b0 r]; [reflexivity|].
    simpl in Hl. cbn [utf8_valid] in Hv. cbn [app utf8_valid].
    destruct (N.ltb b0 128); [apply IH; [lia|assumption]|].
    destruct (inrg 194 223 b0).
    { destruct r as [|c1 r1]; [discriminate|]. cbn [app]. apply andb_prop in Hv as [H1 H2]. rewrite H1. simpl.
      apply IH; [simpl in Hl; lia|assumption]. }
    destruct (N.eqb b0 224).
    { destruct r as [|c1 [|c2 r2]]; try discriminate. cbn [app].
      apply andb_prop in Hv as [H12 H3]. rewrite H12. simpl. apply IH; [simpl in Hl; lia|assumption]. }
    destruct (inrg 225 236 b0 || inrg 238 239 b0).
    { destruct r as [|c1 [|c2 r2]]; try discriminate. cbn [app].
      apply andb_prop in Hv as [H12 H3]. rewrite H12. simpl. apply IH; [simpl in Hl; lia|assumption]. }
    destruct (N.eqb b0 237).
    { destruct r as [|c1 [|c2 r2]]; try discriminate. cbn [app].
      apply andb_prop in Hv as [H12 H3]. rewrite H12. simpl. apply IH; [simpl in Hl; lia|assumption]. }
    destruct (N.eqb b0 240).
    { destruct r as [|c1 [|c2 [|c3 r3]]]; try discriminate. cbn [app].
      apply andb_prop in Hv as [H12 H3]. rewrite H12. simpl. apply IH; [simpl in Hl; lia|assumption]. }
    destruct (inrg 241 243 b0).
    { destruct r as [|c1 [|c2 [|c3 r3]]]; try discriminate. cbn [app].
      apply andb_prop in Hv as [H12 H3]. rewrite H12. simpl. apply IH; [simpl in Hl; lia|assumption]. }
    destruct (N.eqb b0 244).
    { destruct r as [|c1 [|c2 [|c3 r3]]]; try discriminate. cbn [app].
      apply andb_prop in Hv as [H12 H3]. rewrite H12. simpl. apply IH; [simpl in Hl; lia|assumption]. }
    discriminate.
Qed.
Lemma utf8_valid_app a s : utf8_valid a = true -> utf8_valid (a ++ s) = utf8_valid s.
Proof. apply (utf8_valid_app_fuel (length a)). lia. Qed.
