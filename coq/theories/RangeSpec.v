(* Model of Range::parse_range_in_content_range and Range::parse_content_range (src/range/mod.rs) *)
From Rws Require Import Str Num Fs.
Open Scope N_scope.

Inductive rres (A : Type) := ROk' (a : A) | R416 | RPanicSub.     (* 416 = every Err of this function *)
Arguments ROk' {A}. Arguments R416 {A}. Arguments RPanicSub {A}.
Definition HYPHEN : list N := [45].

(* state threaded through the for-loop over the '-'-separated parts *)
Record rstate := mkRs { r_start : N; r_end : N; r_noprov : bool }.

Definition step_part (L : N) (i : nat) (part : list N) (st : rstate) : rres rstate :=
  let num := trim part in
  let nonempty := negb (beqs num []) in
  (* i == 0 *)
  let st1 := if Nat.eqb i 0 && nonempty then
               match parse_u64 num with Some v => ROk' (mkRs v (r_end st) false) | None => R416 end
             else ROk' st in
  match st1 with R416 => R416 | RPanicSub => RPanicSub | ROk' s1 =>
  (* i == 1, end *)
  let st2 := if Nat.eqb i 1 && nonempty then
               match parse_u64 num with Some v => ROk' (mkRs (r_start s1) v (r_noprov s1)) | None => R416 end
             else ROk' s1 in
  match st2 with R416 => R416 | RPanicSub => RPanicSub | ROk' s2 =>
  (* i == 1, suffix form *)
  let st3 := if Nat.eqb i 1 && nonempty && r_noprov s2 then
               match parse_u64 num with
               | Some v => ROk' (mkRs (L - v) L (r_noprov s2))     (* saturating_sub (fix 6d64248); N subtraction truncates at 0 *)
               | None => R416 end
             else ROk' s2 in
  match st3 with R416 => R416 | RPanicSub => RPanicSub | ROk' s3 =>
  if N.ltb L (r_end s3) then R416 else
  if N.ltb L (r_start s3) then R416 else
  if N.ltb (r_end s3) (r_start s3) then R416 else ROk' s3
  end end end.

Fixpoint loop_parts (L : N) (i : nat) (parts : list (list N)) (st : rstate) : rres rstate :=
  match parts with
  | [] => ROk' st
  | p :: r => match step_part L i p st with
              | ROk' st' => loop_parts L (S i) r st'
              | R416 => R416 | RPanicSub => RPanicSub end
  end.
Definition parse_range (L : N) (spec : list N) : rres (N * N) :=
  match loop_parts L 0 (split spec HYPHEN) (mkRs 0 L true) with
  | ROk' st => ROk' (r_start st, r_end st) | R416 => R416 | RPanicSub => RPanicSub end.

(* what is sent for a parsed range (read_file_partially is inclusive and clamps at EOF) *)
Definition slice (data : list N) (st en : N) : list N := firstn (N.to_nat (en - st + 1)) (skipn (N.to_nat st) data).

(* ---- observed behaviour on a 10-byte file ---- *)
Definition asc (l : list N) := l.
Example r1 : parse_range 10 [50;45;53] = ROk' (2, 5). Proof. vm_compute. reflexivity. Qed.          (* "2-5"  *)
Example r2 : parse_range 10 [45;51] = ROk' (7, 10). Proof. vm_compute. reflexivity. Qed.            (* "-3": labelled 7-10 *)
Example r3 : parse_range 10 [48;45] = ROk' (0, 10). Proof. vm_compute. reflexivity. Qed.            (* "0-"  *)
Example r4 : parse_range 10 [45;49;49] = ROk' (0, 10). Proof. vm_compute. reflexivity. Qed.         (* "-11": whole file (was an overflow panic) *)
Example r5 : parse_range 10 [48;45;49;49] = R416. Proof. vm_compute. reflexivity. Qed.              (* "0-11" *)
Example r6 : parse_range 10 [45;45;49] = ROk' (0, 10). Proof. vm_compute. reflexivity. Qed.         (* "--1" *)
Example r7 : parse_range 10 [49;45;50;45;51] = ROk' (1, 2). Proof. vm_compute. reflexivity. Qed.    (* "1-2-3" *)
Example r8 : parse_range 10 [32;49;32;45;32;50;32] = ROk' (1, 2). Proof. vm_compute. reflexivity. Qed. (* " 1 - 2 " *)
Example r9 : parse_range 10 [53;45;50] = R416. Proof. vm_compute. reflexivity. Qed.                 (* "5-2" *)

(* ---- the arithmetic core of C03 ---- *)
Lemma parse_range_bounds L spec st en : parse_range L spec = ROk' (st, en) -> st <= en /\ en <= L.
Proof.
  unfold parse_range.
  assert (G : forall parts i s0 s1, (r_start s0 <= r_end s0 /\ r_end s0 <= L) ->
              loop_parts L i parts s0 = ROk' s1 -> r_start s1 <= r_end s1 /\ r_end s1 <= L).
  { induction parts as [|p ps IH]; intros i s0 s1 H0 H; simpl in H.
    - inversion H; subst; auto.
    - destruct (step_part L i p s0) as [s'| |] eqn:E; try discriminate.
      apply (IH _ _ _ ) in H; auto. clear H IH.
      unfold step_part in E.
      repeat match type of E with
      | match (if ?c then _ else _) with _ => _ end = _ => destruct c
      | match (match ?x with _ => _ end) with _ => _ end = _ => destruct x
      | (if ?c then _ else _) = _ => destruct c eqn:?
      | match ?x with _ => _ end = _ => destruct x eqn:?
      end; try discriminate; inversion E; subst; simpl in *;
      repeat match goal with H : N.ltb _ _ = false |- _ => apply N.ltb_ge in H end; lia. }
  destruct (loop_parts L 0 (split spec HYPHEN) (mkRs 0 L true)) as [s1| |] eqn:E; try discriminate.
  intro H. inversion H; subst. apply (G (split spec HYPHEN) 0%nat (mkRs 0 L true) s1); [simpl; lia|exact E].
Qed.

(* the bytes sent are exactly data[st .. min(en, L-1)] and the label is right iff en < L *)
Theorem slice_exact (data : list N) st en : let L := N.of_nat (length data) in
  st <= en -> en < L -> N.of_nat (length (slice data st en)) = en - st + 1.
Proof. intros L H1 H2. unfold slice. rewrite firstn_length, skipn_length. subst L. lia. Qed.
Theorem slice_clamped (data : list N) st : let L := N.of_nat (length data) in
  st <= L -> slice data st L = skipn (N.to_nat st) data /\ N.of_nat (length (slice data st L)) = L - st.
Proof. intros L H. unfold slice. split.
  - apply firstn_all2. rewrite skipn_length. subst L. lia.
  - rewrite firstn_length, skipn_length. subst L. lia. Qed.
(* so for en = L the Content-Range "st-L/L" announces L - st + 1 bytes while L - st are sent *)
Corollary label_off_by_one (data : list N) st : let L := N.of_nat (length data) in
  st <= L -> N.of_nat (length (slice data st L)) <> L - st + 1.
Proof. intros L H. destruct (slice_clamped data st H) as [_ E]. fold L in E. rewrite E. lia. Qed.
Print Assumptions parse_range_bounds.
