(* C18 — Base64: decoding the RFC 4648 text of any byte string gives the byte string back; texts outside the alphabet are rejected *)
From Coq Require Import Arith.
From Rws Require Import Str Utf8 Base64 Sweep Base64Proofs.
Require Import ZArith ZifyN ZifyNat ZifyBool.
Ltac Zify.zify_post_hook ::= Z.div_mod_to_equations.
Open Scope N_scope.

(* ---------- ASCII text: characters are the bytes ---------- *)
Lemma utf8_chars_ascii : forall s f, is_ascii s = true -> (length s <= f)%nat -> utf8_chars f s = s.
Proof.
  induction s as [|b s IH]; intros f Ha Hf; [destruct f; reflexivity|].
  unfold is_ascii in Ha. cbn [forallb] in Ha. apply andb_prop in Ha as [Hb Ha]. destruct f as [|f]; [cbn in Hf; lia|].
  cbn [utf8_chars]. rewrite Hb. rewrite IH; [reflexivity|exact Ha|cbn [length] in Hf; lia].
Qed.
Lemma chars_ascii s : is_ascii s = true -> chars s = s.
Proof. intro H. unfold chars. apply utf8_chars_ascii; [exact H|lia]. Qed.

(* ---------- the alphabet ---------- *)
Definition bN_eqb (x : bool) (y : bool) := Bool.eqb x y.
Lemma al_facts d : d < 64 -> N.ltb (al d) 128 = true /\ N.eqb EQS (al d) = false /\ char2num (al d mod 256) = Some d.
Proof.
  intro H.
  assert (G : (N.ltb (al d) 128 && negb (N.eqb EQS (al d)) && oN_eqb (char2num (al d mod 256)) d) = true).
  { revert d H. apply sweep64_1. vm_compute. reflexivity. }
  apply andb_prop in G as [G G3]. apply andb_prop in G as [G1 G2]. apply negb_true_iff in G2. apply oN_eqb_true in G3. auto.
Qed.

(* ---------- one group of four sextets ---------- *)
Definition out1 d1 d2 := N.lor (shl8 d1 2) (N.shiftr d2 4).
Definition out2 d2 d3 := N.lor (N.shiftr (N.land 60 d3) 2) (shl8 (N.land d2 15) 4).
Definition out3 d3 d4 := N.lor (shl8 (N.land d3 3) 6) (N.land d4 63).
Lemma dec_seq_sextets d1 d2 d3 d4 : d1 < 64 -> d2 < 64 -> d3 < 64 -> d4 < 64 ->
  dec_seq [al d1; al d2; al d3; al d4] = Some [out1 d1 d2; out2 d2 d3; out3 d3 d4].
Proof.
  intros H1 H2 H3 H4.
  destruct (al_facts d1 H1) as (A1 & E1 & C1). destruct (al_facts d2 H2) as (A2 & E2 & C2).
  destruct (al_facts d3 H3) as (A3 & E3 & C3). destruct (al_facts d4 H4) as (A4 & E4 & C4).
  unfold dec_seq. rewrite chars_ascii by (unfold is_ascii; cbn [forallb]; rewrite A1, A2, A3, A4; reflexivity).
  unfold count_eq. cbn [filter]. rewrite E1, E2, E3, E4. cbn [length nth_error]. unfold as_u8. rewrite C1, C2, C3, C4. reflexivity.
Qed.

(* the three output bytes of a full group are the three input bytes *)
Lemma out1_ok a b : a < 256 -> b < 256 -> out1 (a / 4) ((a mod 4) * 16 + b / 16) = a.
Proof. intros Ha Hb. apply N.eqb_eq. revert a b Ha Hb. apply (sweep2 (fun a b => N.eqb (out1 (a / 4) ((a mod 4) * 16 + b / 16)) a)). vm_compute. reflexivity. Qed.
Lemma low_nibble a b : a < 256 -> b < 256 -> N.land ((a mod 4) * 16 + b / 16) 15 = b / 16.
Proof. intros Ha Hb. apply N.eqb_eq. revert a b Ha Hb. apply (sweep2 (fun a b => N.eqb (N.land ((a mod 4) * 16 + b / 16) 15) (b / 16))). vm_compute. reflexivity. Qed.
Lemma mid_bits b c : b < 256 -> c < 256 -> N.shiftr (N.land 60 ((b mod 16) * 4 + c / 64)) 2 = b mod 16 /\ N.land ((b mod 16) * 4 + c / 64) 3 = c / 64.
Proof.
  intros Hb Hc. assert (G : (N.eqb (N.shiftr (N.land 60 ((b mod 16) * 4 + c / 64)) 2) (b mod 16) && N.eqb (N.land ((b mod 16) * 4 + c / 64) 3) (c / 64)) = true).
  { revert b c Hb Hc. apply (sweep2 (fun b c => N.eqb (N.shiftr (N.land 60 ((b mod 16) * 4 + c / 64)) 2) (b mod 16) && N.eqb (N.land ((b mod 16) * 4 + c / 64) 3) (c / 64))). vm_compute. reflexivity. }
  apply andb_prop in G as [G1 G2]. apply N.eqb_eq in G1, G2. auto.
Qed.
Lemma join_b b : b < 256 -> N.lor (b mod 16) (shl8 (b / 16) 4) = b.
Proof. intro H. apply N.eqb_eq. revert b H. apply sweep1. vm_compute. reflexivity. Qed.
Lemma join_c c : c < 256 -> N.lor (shl8 (c / 64) 6) (N.land (c mod 64) 63) = c.
Proof. intro H. apply N.eqb_eq. revert c H. apply sweep1. vm_compute. reflexivity. Qed.

Lemma dec_seq_rfc3 a b c : a < 256 -> b < 256 -> c < 256 -> dec_seq (rfc3 a b c) = Some [a; b; c].
Proof.
  intros Ha Hb Hc. unfold rfc3. destruct (rfc3_digits a b c Ha Hb Hc) as (E1 & E2 & E3 & E4). cbv zeta in *. rewrite E1, E2, E3, E4.
  rewrite dec_seq_sextets by lia. unfold out2, out3. rewrite out1_ok by assumption.
  destruct (mid_bits b c Hb Hc) as [M1 M2]. rewrite M1, M2, low_nibble by assumption. rewrite join_b, join_c by assumption. reflexivity.
Qed.
Lemma dec_seq_rfc2 a b : a < 256 -> b < 256 -> dec_seq (rfc2 a b) = Some [a; b].
Proof. intros Ha Hb. apply oeqb_true. revert a b Ha Hb. apply (sweep2 (fun a b => oeqb (dec_seq (rfc2 a b)) [a; b])). vm_compute. reflexivity. Qed.
Lemma dec_seq_rfc1 a : a < 256 -> dec_seq (rfc1 a) = Some [a].
Proof. intro Ha. apply oeqb_true. revert a Ha. apply (sweep1 (fun a => oeqb (dec_seq (rfc1 a)) [a])). vm_compute. reflexivity. Qed.

(* ---------- the decoding loop over an ASCII text made of groups of four ---------- *)
Lemma nth_group (pre : list N) g0 g1 g2 g3 rest :
  let text := pre ++ [g0; g1; g2; g3] ++ rest in
  nth_error text (length pre) = Some g0 /\ nth_error text (length pre + 1) = Some g1 /\
  nth_error text (length pre + 1 + 1) = Some g2 /\ nth_error text (length pre + 1 + 1 + 1) = Some g3.
Proof.
  cbv zeta. repeat split; rewrite nth_error_app2 by lia.
  - replace (length pre - length pre)%nat with 0%nat by lia. reflexivity.
  - replace (length pre + 1 - length pre)%nat with 1%nat by lia. reflexivity.
  - replace (length pre + 1 + 1 - length pre)%nat with 2%nat by lia. reflexivity.
  - replace (length pre + 1 + 1 + 1 - length pre)%nat with 3%nat by lia. reflexivity.
Qed.
Lemma as_u8_ascii g : N.ltb g 128 = true -> as_u8 g = g.
Proof. intro H. apply N.ltb_lt in H. unfold as_u8. apply N.mod_small. lia. Qed.

Lemma dec_loop_group f (pre : list N) g0 g1 g2 g3 rest :
  N.ltb g0 128 = true -> N.ltb g1 128 = true -> N.ltb g2 128 = true -> N.ltb g3 128 = true ->
  let text := pre ++ [g0; g1; g2; g3] ++ rest in
  dec_loop (S f) text (length text) (length pre) =
  match dec_seq [g0; g1; g2; g3], dec_loop f text (length text) (length pre + 1 + 1 + 1 + 1) with
  | Some x, Some y => Some (x ++ y) | _, _ => None end.
Proof.
  intros A0 A1 A2 A3 text. destruct (nth_group pre g0 g1 g2 g3 rest) as (N0 & N1 & N2 & N3). fold text in N0, N1, N2, N3.
  assert (Hlen : length text = (length pre + 4 + length rest)%nat) by (unfold text; rewrite !app_length; cbn [length]; lia).
  cbn [dec_loop].
  replace (Nat.leb (length text) (length pre)) with false by (symmetry; apply Nat.leb_gt; lia).
  rewrite N0.
  replace (Nat.ltb (length pre + 1) (length text)) with true by (symmetry; apply Nat.ltb_lt; lia). cbn [negb]. rewrite N1.
  replace (Nat.ltb (length pre + 1 + 1) (length text)) with true by (symmetry; apply Nat.ltb_lt; lia). cbn [negb]. rewrite N2.
  replace (Nat.ltb (length pre + 1 + 1 + 1) (length text)) with true by (symmetry; apply Nat.ltb_lt; lia). cbn [negb]. rewrite N3.
  cbn [negb app]. rewrite !as_u8_ascii by assumption.
  rewrite ascii_utf8 by (unfold is_ascii; cbn [forallb]; rewrite A0, A1, A2, A3; reflexivity). cbn [negb]. reflexivity.
Qed.

Lemma al_ascii d : d < 64 -> N.ltb (al d) 128 = true.
Proof. intro H. apply (al_facts d H). Qed.
Lemma dec_loop_end f (text : list N) : dec_loop (S f) text (length text) (length text) = Some [].
Proof. cbn [dec_loop]. rewrite Nat.leb_refl. reflexivity. Qed.

(* the last group of a text: one of the three shapes *)
Lemma rfc_group_ascii_3 a b c : a < 256 -> b < 256 -> c < 256 -> exists g0 g1 g2 g3, rfc3 a b c = [g0; g1; g2; g3] /\
  N.ltb g0 128 = true /\ N.ltb g1 128 = true /\ N.ltb g2 128 = true /\ N.ltb g3 128 = true.
Proof.
  intros Ha Hb Hc. unfold rfc3. destruct (rfc3_digits a b c Ha Hb Hc) as (E1 & E2 & E3 & E4). cbv zeta in *. rewrite E1, E2, E3, E4.
  do 4 eexists. split; [reflexivity|]. repeat split; apply al_ascii; lia.
Qed.
Lemma rfc_group_ascii_2 a b : a < 256 -> b < 256 -> exists g0 g1 g2 g3, rfc2 a b = [g0; g1; g2; g3] /\
  N.ltb g0 128 = true /\ N.ltb g1 128 = true /\ N.ltb g2 128 = true /\ N.ltb g3 128 = true.
Proof. intros Ha Hb. unfold rfc2. cbv zeta. do 4 eexists. split; [reflexivity|]. repeat split; try (apply al_ascii; lia). Qed.
Lemma rfc_group_ascii_1 a : a < 256 -> exists g0 g1 g2 g3, rfc1 a = [g0; g1; g2; g3] /\
  N.ltb g0 128 = true /\ N.ltb g1 128 = true /\ N.ltb g2 128 = true /\ N.ltb g3 128 = true.
Proof. intros Ha. unfold rfc1. cbv zeta. do 4 eexists. split; [reflexivity|]. repeat split; try (apply al_ascii; lia). Qed.

Lemma dec_loop_text : forall bs, bytes_ok bs -> forall (pre : list N) f, (length (rfc4648 bs) < f)%nat ->
  dec_loop f (pre ++ rfc4648 bs) (length (pre ++ rfc4648 bs)) (length pre) = Some bs.
Proof.
  induction bs as [|a|a b|a b c r IH] using list_ind3; intros H pre f Hf.
  - cbn [rfc4648]. rewrite app_nil_r. destruct f as [|f]; [cbn in Hf; lia|]. apply dec_loop_end.
  - inversion H as [|? ? Ha _]; subst. cbn [rfc4648] in *. destruct (rfc_group_ascii_1 a Ha) as (g0 & g1 & g2 & g3 & E & A0 & A1 & A2 & A3).
    destruct f as [|[|f]]; [cbn in Hf; lia|rewrite E in Hf; cbn in Hf; lia|].
    pose proof (dec_loop_group (S f) pre g0 g1 g2 g3 [] A0 A1 A2 A3) as G. cbv zeta in G. rewrite app_nil_r in G. rewrite E. rewrite G.
    rewrite <- E, dec_seq_rfc1 by assumption.
    replace (length pre + 1 + 1 + 1 + 1)%nat with (length (pre ++ rfc1 a)) by (rewrite app_length, E; cbn [length]; lia).
    rewrite dec_loop_end. reflexivity.
  - inversion H as [|? ? Ha H']; subst. inversion H' as [|? ? Hb _]; subst. cbn [rfc4648] in *.
    destruct (rfc_group_ascii_2 a b Ha Hb) as (g0 & g1 & g2 & g3 & E & A0 & A1 & A2 & A3).
    destruct f as [|[|f]]; [cbn in Hf; lia|rewrite E in Hf; cbn in Hf; lia|].
    pose proof (dec_loop_group (S f) pre g0 g1 g2 g3 [] A0 A1 A2 A3) as G. cbv zeta in G. rewrite app_nil_r in G. rewrite E. rewrite G.
    rewrite <- E, dec_seq_rfc2 by assumption.
    replace (length pre + 1 + 1 + 1 + 1)%nat with (length (pre ++ rfc2 a b)) by (rewrite app_length, E; cbn [length]; lia).
    rewrite dec_loop_end. reflexivity.
  - inversion H as [|? ? Ha H1]; subst. inversion H1 as [|? ? Hb H2]; subst. inversion H2 as [|? ? Hc H3]; subst.
    cbn [rfc4648] in *. destruct (rfc_group_ascii_3 a b c Ha Hb Hc) as (g0 & g1 & g2 & g3 & E & A0 & A1 & A2 & A3).
    rewrite E in *. rewrite app_length in Hf. cbn [length] in Hf. destruct f as [|f]; [lia|].
    pose proof (dec_loop_group f pre g0 g1 g2 g3 (rfc4648 r) A0 A1 A2 A3) as G. cbv zeta in G. rewrite G.
    rewrite <- E, dec_seq_rfc3 by assumption. rewrite E.
    replace (pre ++ [g0; g1; g2; g3] ++ rfc4648 r) with ((pre ++ [g0; g1; g2; g3]) ++ rfc4648 r) by (rewrite <- app_assoc; reflexivity).
    replace (length pre + 1 + 1 + 1 + 1)%nat with (length (pre ++ [g0; g1; g2; g3])) by (rewrite app_length; cbn [length]; lia).
    rewrite IH by (auto; lia). reflexivity.
Qed.

Lemma rfc4648_ascii bs : bytes_ok bs -> is_ascii (rfc4648 bs) = true.
Proof.
  induction bs as [|a|a b|a b c r IH] using list_ind3; intro H; [reflexivity| | |].
  - inversion H as [|? ? Ha _]; subst. cbn [rfc4648]. destruct (rfc_group_ascii_1 a Ha) as (g0 & g1 & g2 & g3 & E & A0 & A1 & A2 & A3). rewrite E. unfold is_ascii. cbn [forallb]. rewrite A0, A1, A2, A3. reflexivity.
  - inversion H as [|? ? Ha H']; subst. inversion H' as [|? ? Hb _]; subst. cbn [rfc4648]. destruct (rfc_group_ascii_2 a b Ha Hb) as (g0 & g1 & g2 & g3 & E & A0 & A1 & A2 & A3). rewrite E. unfold is_ascii. cbn [forallb]. rewrite A0, A1, A2, A3. reflexivity.
  - inversion H as [|? ? Ha H1]; subst. inversion H1 as [|? ? Hb H2]; subst. inversion H2 as [|? ? Hc H3]; subst. cbn [rfc4648].
    destruct (rfc_group_ascii_3 a b c Ha Hb Hc) as (g0 & g1 & g2 & g3 & E & A0 & A1 & A2 & A3). rewrite E. unfold is_ascii in *. rewrite forallb_app. cbn [forallb]. rewrite A0, A1, A2, A3, (IH H3). reflexivity.
Qed.

(* decoding the standard encoding of any byte string returns it *)
Theorem decode_rfc4648 bs : bytes_ok bs -> decode (rfc4648 bs) = Some bs.
Proof.
  intro H. unfold decode. rewrite chars_ascii by (apply rfc4648_ascii, H).
  destruct (rfc4648 bs) as [|x t] eqn:E.
  - destruct bs as [|a [|b [|c r]]]; [reflexivity| | |]; cbn [rfc4648] in E; unfold rfc1, rfc2, rfc3 in E; cbv zeta in E; discriminate.
  - rewrite <- E. pose proof (dec_loop_text bs H [] (S (length (rfc4648 bs))) ltac:(lia)) as G. cbn [app length] in G. exact G.
Qed.
Theorem round_trip bs : bytes_ok bs -> match encode bs with Some t => decode t = Some bs | None => False end.
Proof. intro H. rewrite encode_is_rfc4648 by exact H. apply decode_rfc4648, H. Qed.
