(* Model of src/request/mod.rs: Request::generate and Request::parse_request *)
From Rws Require Import Str Utf8 Num Unicase.
Open Scope N_scope.

Record header := mkH { hname : bytes; hvalue : bytes }.
Record request := mkR { method : bytes; uri : bytes; version : bytes;
                        headers : list header; body : bytes }.
Inductive perr := ENotUtf8 | EReqLine | EOutOfFuel.
Inductive psite := PContentLength.
Inductive res (A : Type) := Ok (a : A) | Err (e : perr) | Panic (p : psite).
Arguments Ok {A}. Arguments Err {A}. Arguments Panic {A}.

(* "GET" ... "PATCH", "HTTP/0.9" ... : will come from the generated tables *)
Definition b (l : list N) : bytes := l.
Definition methods : list bytes :=
  [ [71;69;84]; [72;69;65;68]; [80;79;83;84]; [80;85;84]; [68;69;76;69;84;69];
    [67;79;78;78;69;67;84]; [79;80;84;73;79;78;83]; [84;82;65;67;69]; [80;65;84;67;72] ].
Definition versions : list bytes :=
  [ [72;84;84;80;47;48;46;57]; [72;84;84;80;47;49;46;48]; [72;84;84;80;47;49;46;49]; [72;84;84;80;47;50;46;48] ].
Definition mem (x : bytes) (l : list bytes) : bool := existsb (beqs x) l.
Definition content_length_name : bytes := [67;111;110;116;101;110;116;45;76;101;110;103;116;104].

(* ---- serialiser: Request::generate ---- *)
Definition gen_header (h : header) : bytes := hname h ++ COLON_SP ++ hvalue h ++ CRLF.
Definition generate (r : request) : bytes :=
  method r ++ [SP] ++ uri r ++ [SP] ++ version r ++ [SP] ++ CRLF
  ++ flat_map gen_header (headers r) ++ CRLF ++ body r.

(* ---- parser ---- *)
Definition parse_request_line (line : bytes) : option (bytes * bytes * bytes) :=
  let t := trim line in
  match split_once t [SP] with
  | None => None
  | Some (m, rest) =>
    if negb (mem (uupper m) methods) then None else
    match split_once rest [SP] with
    | None => None
    | Some (u, v) => if negb (mem (uupper v) versions) then None else Some (m, u, v)
    end
  end.

(* splitn(2, ": ") (fix 2afe83c: the value keeps any further ": "), CR and LF removed from both pieces *)
Definition parse_header_line (line : bytes) : header :=
  match split_once line COLON_SP with
  | Some (n, v) => mkH (truncate_nl_cr n) (truncate_nl_cr v)
  | None => mkH (truncate_nl_cr line) []
  end.

(* the header-line loop of Request::cursor_read (iteration_number >= 1; a loop since fix f185786).
   Returns the headers pushed and what ends up in request.body. *)
Fixpoint headers_loop (fuel : nat) (rest : bytes) : res (list header * bytes) :=
  match fuel with
  | O => Err EOutOfFuel
  | S f =>
    let (line, rest') := split_line rest in
    if negb (utf8_valid line) then Ok ([], rest')          (* inner Err is only logged by the caller *)
    else if beqs (trim line) [] then Ok ([], rest')         (* blank line (or end of input) *)
    else
      let h := parse_header_line line in
      if beqs (hname h) content_length_name && (match parse_usize (hvalue h) with None => true | Some _ => false end)
      then Ok ([], rest')             (* fix d8787b6: an Err, logged by the caller like the non-UTF-8 case (was a panic) *)
      else match headers_loop f rest' with
           | Ok (hs, bd) => Ok (h :: hs, bd)
           | Err e => Err e
           | Panic p => Panic p
           end
  end.

Definition empty_header : header := mkH [] [].
Definition parse_request (input : bytes) : res request :=
  let (line, rest) := split_line input in
  if negb (utf8_valid line) then Err ENotUtf8 else
  match parse_request_line line with
  | None => Err EReqLine
  | Some (m, u, v) =>
    match headers_loop (S (length rest)) rest with
    | Ok (hs, bd) => Ok (mkR m u v hs bd)        (* fix 5df341a: no empty header for the request line *)
    | Err e => Err e
    | Panic p => Panic p
    end
  end.


(* quick sanity checks against the behaviour observed on the implementation *)
Definition s2b (l : list N) := l.
Example ex1 : parse_request ([71;69;84;32;47;120;32;72;84;84;80;47;49;46;49;32;13;10] (* "GET /x HTTP/1.1 \r\n" *)
                             ++ [65;58;32;98;58;32;99;13;10] (* "A: b: c\r\n" *)
                             ++ [13;10] ++ [120])
  = Ok (mkR [71;69;84] [47;120] [72;84;84;80;47;49;46;49] [mkH [65] [98;58;32;99]] [120]).
Proof. vm_compute. reflexivity. Qed.
Example ex2 : parse_request [71;69;84;32;32;47;32;72;84;84;80;47;49;46;49;13;10;13;10] = Err EReqLine.   (* two spaces *)
Proof. vm_compute. reflexivity. Qed.
Example ex3 : parse_request ([71;69;84;32;47;32;72;84;84;80;47;49;46;49;13;10] ++ content_length_name ++ [58;32;97;13;10;13;10])
  = Ok (mkR [71;69;84] [47] [72;84;84;80;47;49;46;49] [] [13;10]).
Proof. vm_compute. reflexivity. Qed.
