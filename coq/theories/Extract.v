From Rws Require Import Str Utf8 Num Request RangeSpec UrlParse Fs StaticRes Forms Server GenCli Config RespParse Base64 Json JsonArray.
Require Import ExtrOcamlBasic.
Extraction Language OCaml.
Extraction "model.ml" parse_request generate get_header parse_range target_url process process_with all_headers mkFs mkCfg mkAssets multipart_parse parse_query encode_uri decode_uri setup env_get flag_table response_parse Base64.encode Base64.decode parse_as_properties split_array process_legacy.
