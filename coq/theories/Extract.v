From Rws Require Pool.
From Rws Require Import Str Utf8 Num Request RangeSpec UrlParse Fs StaticRes Forms Server GenCli Config RespParse Base64 Json JsonArray JsonRt UrlPath Parsers FormsDomain RespDomain.
Require Import ExtrOcamlBasic.
Extraction Language OCaml.
(* the only directive beyond ExtrOcamlBasic: stdlib's List.rev is the quadratic one (rev l' ++ [x]); OCaml's List.rev is rev_append l [],
   which List.rev_alt proves equal.  Needed for 10 kB request lines (trim / ends_with / split_once reverse their argument). *)
Extract Constant List.rev => "List.rev".
Extraction "model.ml" parse_request generate get_header parse_range target_url process process_with all_headers mkFs mkCfg mkAssets multipart_parse multipart_generate parse_query form_urlencoded_parse encode_uri decode_uri in_F1 map_ok form_text_ok build_query setup env_get flag_table response_parse rmp_parse lib_generate Base64.encode Base64.decode parse_as_properties split_array round_trip flat_ok in_domain multipart_in_domain single_ok multi_ok Forms.parse_header cd_parse parse_range parse_cr_value read_config_bytes property_parse typed_read upath_parts upath_match upath_extract upath_build utf8_enc process_legacy Pool.accept_trace Pool.init Pool.dead Pool.done Pool.queue Pool.running.
