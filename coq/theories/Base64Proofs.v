(* Proofs about the Base64 model (Base64.v): the encoder equals the RFC 4648 specification
   for every byte string. *)
From Rws Require Import Str Utf8 Base64 Sweep.
Require Import ZArith ZifyN ZifyNat ZifyBool.
Ltac Zify.zify_post_hook ::= Z.div_mod_to_equations.
Open Scope N_scope.

(* ---------- independent RFC 4648 specification (section 4, table 1) ---------- *)
Definition rfc_alphabet : list N :=
  [65;66;67;68;69;70;71;72;73;74;75;76;77;78;79;80;81;82;83;84;85;86;87;88;89;90;
   97;98;99;100;101;102;103;104;105;106;107;108;109;110;111;112;113;114;115;116;117;118;119;120;121;122;
   48;49;50;51;52;53;54;55;56;57;43;47].
Definition al (d : N) : N := nth (N.to_nat d) rfc_alphabet 0.
Definition rfc3 a b c := let v := a * 65536 + b * 256 + c in
  [al (v / 262144); al ((v / 4096) mod 64); al ((v / 64) mod 64); al (v mod 64)].
Definition rfc2 a b := let v := (a * 256 + b) * 4 in [al (v / 4096); al ((v / 64) mod 64); al (v mod 64); EQS].
Definition rfc1 a := let v := a * 16 in [al (v / 64); al (v mod 64); EQS; EQS].
Fixpoint rfc4648 (bs : list N) : list N :=
  match bs with
  | [] => [] | [a] => rfc1 a | [a; b] => rfc2 a b
  | a :: b :: c :: r => rfc3 a b c ++ rfc4648 r
  end.

Definition list_eqb (x y : list N) : bool := if list_eq_dec N.eq_dec x y then true else false.
Lemma list_eqb_true x y : list_eqb x y = true -> x = y.
Proof. unfold list_eqb. destruct (list_eq_dec N.eq_dec x y); congruence. Qed.
Definition oeqb (x : option (list N)) (y : list N) := match x with Some l => list_eqb l y | None => false end.
Lemma oeqb_true x y : oeqb x y = true -> x = Some y.
Proof. destruct x as [l|]; cbn [oeqb]; [intro H; apply list_eqb_true in H; congruence|discriminate]. Qed.

Lemma alphabet_ok : alphabet = rfc_alphabet. Proof. vm_compute. reflexivity. Qed.

Lemma enc1_ok a : a < 256 -> enc1 a = Some (rfc1 a).
Proof. intro H. apply oeqb_true. revert a H. apply sweep1. vm_compute. reflexivity. Qed.
Lemma enc2_ok a b : a < 256 -> b < 256 -> enc2 a b = Some (rfc2 a b).
Proof. intros Ha Hb. apply oeqb_true. revert a b Ha Hb. apply (sweep2 (fun a b => oeqb (enc2 a b) (rfc2 a b))). vm_compute. reflexivity. Qed.

Lemma rfc3_digits a b c : a < 256 -> b < 256 -> c < 256 ->
  let v := a * 65536 + b * 256 + c in
  v / 262144 = a / 4 /\ (v / 4096) mod 64 = (a mod 4) * 16 + b / 16 /\
  (v / 64) mod 64 = (b mod 16) * 4 + c / 64 /\ v mod 64 = c mod 64.
Proof. intros Ha Hb Hc v. subst v. repeat split; lia. Qed.

Definition c1 a := num2char (N.shiftr a 2).
Definition c2 a b := num2char (N.lor (shl8 (N.land a 3) 4) (N.shiftr b 4)).
Definition c3 b c := num2char (N.lor (shl8 (N.land b 15) 2) (N.shiftr (N.land c 192) 6)).
Definition c4 c := num2char (N.land c 63).
Definition oN_eqb (x : option N) (y : N) := match x with Some v => N.eqb v y | None => false end.
Lemma oN_eqb_true x y : oN_eqb x y = true -> x = Some y.
Proof. destruct x as [v|]; cbn [oN_eqb]; [intro H; apply N.eqb_eq in H; congruence|discriminate]. Qed.

Lemma c1_ok a : a < 256 -> c1 a = Some (al (a / 4)).
Proof. intro H. apply oN_eqb_true. revert a H. apply sweep1. vm_compute. reflexivity. Qed.
Lemma c2_ok a b : a < 256 -> b < 256 -> c2 a b = Some (al ((a mod 4) * 16 + b / 16)).
Proof. intros Ha Hb. apply oN_eqb_true. revert a b Ha Hb.
  apply (sweep2 (fun a b => oN_eqb (c2 a b) (al ((a mod 4) * 16 + b / 16)))). vm_compute. reflexivity. Qed.
Lemma c3_ok b c : b < 256 -> c < 256 -> c3 b c = Some (al ((b mod 16) * 4 + c / 64)).
Proof. intros Ha Hb. apply oN_eqb_true. revert b c Ha Hb.
  apply (sweep2 (fun b c => oN_eqb (c3 b c) (al ((b mod 16) * 4 + c / 64)))). vm_compute. reflexivity. Qed.
Lemma c4_ok c : c < 256 -> c4 c = Some (al (c mod 64)).
Proof. intro H. apply oN_eqb_true. revert c H. apply sweep1. vm_compute. reflexivity. Qed.

Lemma enc3_ok a b c : a < 256 -> b < 256 -> c < 256 -> enc3 a b c = Some (rfc3 a b c).
Proof.
  intros Ha Hb Hc. unfold enc3. fold (c1 a) (c2 a b) (c3 b c) (c4 c).
  rewrite c1_ok, c2_ok, c3_ok, c4_ok by assumption. unfold rfc3.
  destruct (rfc3_digits a b c Ha Hb Hc) as (E1 & E2 & E3 & E4). cbv zeta in *.
  rewrite E1, E2, E3, E4. reflexivity.
Qed.

(* induction in steps of three *)
Lemma list_ind3 (P : list N -> Prop) :
  P [] -> (forall a, P [a]) -> (forall a b, P [a; b]) ->
  (forall a b c r, P r -> P (a :: b :: c :: r)) -> forall l, P l.
Proof.
  intros H0 H1 H2 H3. fix IH 1. intros [|a [|b [|c r]]]; [apply H0|apply H1|apply H2|apply H3, IH]. Qed.

Theorem encode_is_rfc4648 bs : bytes_ok bs -> encode bs = Some (rfc4648 bs).
Proof.
  induction bs as [|a|a b|a b c r IH] using list_ind3; intro H.
  - reflexivity.
  - inversion H; subst. cbn [encode rfc4648]. apply enc1_ok; auto.
  - inversion H as [|? ? Ha H']; subst. inversion H'; subst. cbn [encode rfc4648]. apply enc2_ok; auto.
  - inversion H as [|? ? Ha H1]; subst. inversion H1 as [|? ? Hb H2]; subst. inversion H2 as [|? ? Hc H3]; subst.
    cbn [encode rfc4648]. rewrite enc3_ok, IH by assumption. reflexivity.
Qed.
