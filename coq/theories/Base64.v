(* Model of src/core/base64/mod.rs: encode, decode (on a Rust String = valid UTF-8), and the RFC 4648 specification *)
From Rws Require Import Str Utf8.
Open Scope N_scope.

Definition shl8 (x k : N) : N := (N.shiftl x k) mod 256.
Definition rangeN (lo hi : N) : list N := map (fun i => lo + N.of_nat i) (seq 0 (N.to_nat (hi - lo + 1))).
Definition alphabet : list N := rangeN 65 90 ++ rangeN 97 122 ++ rangeN 48 57 ++ [43; 47].
Definition EQS : N := 61.
Definition num2char (n : N) : option N := if N.ltb 63 n then None else nth_error alphabet (N.to_nat n).
Fixpoint index_of (c : N) (l : list N) (i : N) : option N :=
  match l with [] => None | x :: r => if N.eqb x c then Some i else index_of c r (i + 1) end.
Definition char2num (c : N) : option N := index_of c alphabet 0.
Definition opt_list {A} (l : list (option A)) : option (list A) :=
  fold_right (fun o acc => match o, acc with Some x, Some r => Some (x :: r) | _, _ => None end) (Some []) l.

Definition enc1 a := opt_list [num2char (N.shiftr a 2); num2char (shl8 (N.land a 3) 4); Some EQS; Some EQS].
Definition enc2 a b := opt_list [num2char (N.shiftr a 2); num2char (N.lor (shl8 (N.land a 3) 4) (N.shiftr b 4));
                                 num2char (shl8 (N.land b 15) 2); Some EQS].
Definition enc3 a b c := opt_list [num2char (N.shiftr a 2); num2char (N.lor (shl8 (N.land a 3) 4) (N.shiftr b 4));
                                   num2char (N.lor (shl8 (N.land b 15) 2) (N.shiftr (N.land c 192) 6)); num2char (N.land c 63)].
Fixpoint encode (bs : list N) : option (list N) :=
  match bs with
  | [] => Some []
  | [a] => enc1 a
  | [a; b] => enc2 a b
  | a :: b :: c :: r => match enc3 a b c, encode r with Some x, Some y => Some (x ++ y) | _, _ => None end
  end.

(* ---- UTF-8 decoding to code points (input assumed valid) ---- *)
Fixpoint utf8_chars (fuel : nat) (s : list N) : list N :=
  match fuel with O => [] | S f =>
  match s with
  | [] => []
  | b :: r =>
    if N.ltb b 128 then b :: utf8_chars f r else
    if N.ltb b 224 then match r with c1 :: r1 => ((b - 192) * 64 + (c1 - 128)) :: utf8_chars f r1 | _ => [] end else
    if N.ltb b 240 then match r with c1 :: c2 :: r2 => ((b - 224) * 4096 + (c1 - 128) * 64 + (c2 - 128)) :: utf8_chars f r2 | _ => [] end else
    match r with c1 :: c2 :: c3 :: r3 => ((b - 240) * 262144 + (c1 - 128) * 4096 + (c2 - 128) * 64 + (c3 - 128)) :: utf8_chars f r3 | _ => [] end
  end end.
Definition chars (s : list N) : list N := utf8_chars (length s) s.

(* ---- decode ---- *)
Definition count_eq (cs : list N) : nat := length (filter (N.eqb EQS) cs).
Definition as_u8 (c : N) : N := c mod 256.
(* decode_sequence on the chunk String (its chars re-decoded from the chunk's bytes) *)
Definition dec_seq (chunk_bytes : list N) : option (list N) :=
  let cs := chars chunk_bytes in
  let cv k := match nth_error cs k with Some c => char2num (as_u8 c) | None => None end in
  match count_eq cs with
  | 2%nat => match cv 0%nat, cv 1%nat with Some x, Some y => Some [N.lor (shl8 x 2) (N.shiftr y 4)] | _, _ => None end
  | 1%nat => match cv 0%nat, cv 1%nat, cv 2%nat with
             | Some x, Some y, Some z => Some [N.lor (shl8 x 2) (N.shiftr y 4); N.lor (N.shiftr (N.land 60 z) 2) (shl8 (N.land y 15) 4)]
             | _, _, _ => None end
  | 0%nat => match cv 0%nat, cv 1%nat, cv 2%nat, cv 3%nat with
             | Some x, Some y, Some z, Some w =>
               Some [N.lor (shl8 x 2) (N.shiftr y 4); N.lor (N.shiftr (N.land 60 z) 2) (shl8 (N.land y 15) 4);
                     N.lor (shl8 (N.land z 3) 6) (N.land w 63)]
             | _, _, _, _ => None end
  | _ => None      (* three or more '=': rejected (fix c0ad785; the pinned tree returned Ok(empty) here) *)
  end.
(* the outer loop: index runs to the BYTE length, chars are fetched by CHAR index *)
Fixpoint dec_loop (fuel : nat) (cs : list N) (blen : nat) (index : nat) : option (list N) :=
  match fuel with O => None | S f =>
  if Nat.leb blen index then Some [] else
  match nth_error cs index with
  | None => None
  | Some c0 =>
    let take (st : list N * nat * bool) : list N * nat * bool :=
      let '(acc, idx, ok) := st in
      if negb ok then st else
      if Nat.ltb (idx + 1) blen then
        match nth_error cs (idx + 1) with Some c => (acc ++ [as_u8 c], (idx + 1)%nat, true) | None => (acc, idx, false) end
      else st in
    let '(chunk, idx, ok) := take (take (take ([as_u8 c0], index, true))) in
    if negb ok then None else
    if negb (utf8_valid chunk) then None else
    match dec_seq chunk, dec_loop f cs blen (idx + 1) with
    | Some x, Some y => Some (x ++ y)
    | _, _ => None end
  end end.
Definition decode (text : list N) : option (list N) :=      (* text: valid UTF-8 bytes of the String *)
  let cs := chars text in
  match cs with [] => Some [] | _ => dec_loop (S (length text)) cs (length text) 0 end.

(* observed *)
Example d1 : decode [33;61;61;61] = None. Proof. vm_compute. reflexivity. Qed.                    (* "!===" *)
Example d2 : decode [81;81] = None. Proof. vm_compute. reflexivity. Qed.                          (* "QQ" *)
Example d3 : decode [81;85;74;68;195;169] = None. Proof. vm_compute. reflexivity. Qed.           (* "QUJDé" *)
Example d4 : decode [81;85;74;68] = Some [65;66;67]. Proof. vm_compute. reflexivity. Qed.
