(* C04 — every connection is answered; no input can crash the server: the model of the request path never panics *)
From Coq Require Import Arith.
From Rws Require Import Str Utf8 Num Fs UrlParse RangeSpec Request GenMime Mime StaticRes GenConsts Forms Server StrLemmas
                        C01Proof C02Proof C14Proof.
Open Scope N_scope.

(* ---------- (A) an origin-form target always parses, and its path starts with '/' ---------- *)
Lemma contains_split_once s d : contains s [d] = true -> exists p r, split_once s [d] = Some (p, r).
Proof. unfold contains. destruct (split_once s [d]) as [[p r]|]; [eauto|discriminate]. Qed.

Theorem origin_form_parses t : exists x p', target_url (47 :: t) = UOk x /\ u_path x = 47 :: p'.
Proof.
  unfold target_url, parse_url.
  change (HTTP_LOCALHOST ++ 47 :: t) with ([104;116;116;112] ++ 58 :: (DSL ++ LOCALHOST ++ 47 :: t)).
  unfold COLON. rewrite split_once_1 by (simpl; intuition discriminate).
  unfold extract_authority. destruct (DSL ++ LOCALHOST ++ 47 :: t) eqn:Eu; [discriminate|]. rewrite <- Eu. clear Eu.
  rewrite split_once_prefix by (unfold DSL; congruence).
  assert (contains (LOCALHOST ++ 47 :: t) SL = true) as Hsl by (apply In_contains_1, in_or_app; right; left; reflexivity).
  rewrite Hsl. cbn [negb andb]. unfold SL. rewrite split_once_1 by (unfold LOCALHOST; simpl; intuition discriminate).
  rewrite parse_authority_localhost. cbn [app].
  unfold extract_path.
  destruct (contains (47 :: t) QM) eqn:Eq; destruct (contains (47 :: t) HASH) eqn:Eh; cbn [negb andb].
  - (* '?' present (and '#'): split at the first '?' *)
    destruct (contains_split_once _ _ Eq) as (p & r & Es). unfold QM in *. rewrite Es.
    destruct (split_once_head_neq 47 63 t p r ltac:(discriminate) Es) as [p' ->].
    unfold extract_query. cbn [app]. destruct (split_once (63 :: r) HASH) as [[q r']|] eqn:E2.
    + destruct (split_once_head_neq 63 35 r q r' ltac:(discriminate) E2) as [q' ->].
      unfold HASH. cbn [app]. rewrite split_once_head_eq. unfold QM. rewrite split_once_head_eq. eexists. eexists. split; reflexivity.
    + unfold QM. rewrite split_once_head_eq. eexists. eexists. split; reflexivity.
  - (* '?' only *)
    destruct (contains_split_once _ _ Eq) as (p & r & Es). unfold QM in *. rewrite Es.
    destruct (split_once_head_neq 47 63 t p r ltac:(discriminate) Es) as [p' ->].
    unfold extract_query. cbn [app]. destruct (split_once (63 :: r) HASH) as [[q r']|] eqn:E2.
    + destruct (split_once_head_neq 63 35 r q r' ltac:(discriminate) E2) as [q' ->].
      unfold HASH. cbn [app]. rewrite split_once_head_eq. unfold QM. rewrite split_once_head_eq. eexists. eexists. split; reflexivity.
    + unfold QM. rewrite split_once_head_eq. eexists. eexists. split; reflexivity.
  - (* '#' only: split at the first '#' *)
    destruct (contains_split_once _ _ Eh) as (p & r & Es). unfold HASH in *. rewrite Es.
    destruct (split_once_head_neq 47 35 t p r ltac:(discriminate) Es) as [p' ->].
    unfold extract_query. cbn [app]. unfold HASH. rewrite split_once_head_eq. cbn [app]. rewrite split_once_head_eq.
    eexists. eexists. split; reflexivity.
  - eexists. eexists. split; reflexivity.
Qed.

Corollary origin_path t : exists p', path_or_panic (47 :: t) = SOk (47 :: p').
Proof. destruct (origin_form_parses t) as (x & p' & E & Ep). exists p'. unfold path_or_panic. rewrite E, Ep. reflexivity. Qed.
Corollary origin_uri_path t : exists p', uri_path (47 :: t) = UOk (47 :: p').
Proof. destruct (origin_form_parses t) as (x & p' & E & Ep). exists p'. unfold uri_path. rewrite E, Ep. reflexivity. Qed.
Corollary origin_uri_query u : exists q, uri_query u = UOk q.
Proof. destruct (origin_form_parses u) as (x & p' & E & Ep). unfold uri_query. rewrite E. eauto. Qed.

(* ---------- (B) the demo controllers never panic on an origin-form target ---------- *)
Lemma header_phase_empty_esc : forall fuel boundary rest hs, strip_hyphens boundary = [] -> header_phase fuel boundary rest hs = HErr.
Proof.
  induction fuel as [|f IH]; intros boundary rest hs He; cbn [header_phase]; [reflexivity|].
  destruct (split_line rest) as [line rest']. destruct (negb (utf8_valid line)); [reflexivity|].
  unfold is_boundary_line. rewrite He. unfold ends_with. cbn [rev prefixb]. reflexivity.
Qed.
Lemma body_phase_nopanic : forall fuel esc rest acc, body_phase fuel esc rest acc <> BPanic.
Proof.
  induction fuel as [|f IH]; intros esc rest acc; cbn [body_phase]; [discriminate|].
  destruct rest as [|c r]; [discriminate|]. destruct (split_line (c :: r)) as [line rest'].
  destruct (is_delim line esc); [discriminate|apply IH].
Qed.
(* FormMultipartData::parse has no panic site (the windows(0) hazard disappeared with find_subsequence, fix 6696883) *)
Theorem windows0_unreachable data boundary : multipart_parse data boundary <> MPanicWindows0.
Proof.
  unfold multipart_parse. destruct (split_line data) as [line rest]. destruct (negb (utf8_valid line)); [discriminate|].
  destruct (negb (is_boundary_line _ boundary)); [discriminate|].
  generalize (S (length rest)) as fuel. generalize (@nil part) as acc. revert rest.
  intros rest acc fuel. revert rest acc. induction fuel as [|f IH]; intros rest acc; cbn [parts_loop]; [discriminate|].
  destruct (header_phase (S (length rest)) boundary rest []) as [hs rest1| |]; try discriminate.
  destruct (body_phase (S (length rest1)) (strip_hyphens boundary) rest1 []) as [b rest2|b|] eqn:Eb; try discriminate.
  - destruct rest2; [discriminate|apply IH].
  - exfalso. eapply body_phase_nopanic; exact Eb.
Qed.

Definition fres_ok (f : fres) : Prop := match f with FNoMatch | FResp _ => True | _ => False end.
Lemma upload_ok cfg r rs0 t : uri r = 47 :: t -> fres_ok (upload_controller cfg r rs0).
Proof. intro Hu. unfold upload_controller. rewrite Hu. destruct (origin_uri_path t) as [p' ->].
  destruct (negb _); [exact I|]. destruct (origin_uri_query (47 :: t)) as [q ->]. destruct q; [|exact I]. destruct (negb _); exact I. Qed.
Lemma urlenc_ok r rs0 : fres_ok (urlenc_controller r rs0).
Proof. unfold urlenc_controller. destruct (get_header r Hd_CONTENT_TYPE); [|exact I]. destruct (negb _); [exact I|]. destruct (negb _); [exact I|].
  destruct (form_urlencoded_parse (body r)); exact I. Qed.
Lemma formget_ok r rs0 t : uri r = 47 :: t -> fres_ok (formget_controller r rs0).
Proof. intro Hu. unfold formget_controller. rewrite Hu. destruct (origin_uri_path t) as [p' ->].
  destruct (negb _); [exact I|]. destruct (origin_uri_query (47 :: t)) as [q ->]. destruct q; exact I. Qed.
Lemma multi_ok r rs0 t : uri r = 47 :: t -> fres_ok (multipart_controller r rs0).
Proof. intro Hu. unfold multipart_controller. destruct (get_header r Hd_CONTENT_TYPE) as [ct|]; [|exact I]. rewrite Hu.
  destruct (origin_uri_path t) as [p' ->]. destruct (negb _); [exact I|]. destruct (negb _); [exact I|].
  destruct (extract_boundary (hvalue ct)) as [bd|]; [|exact I].
  destruct (multipart_parse (body r) bd) eqn:Em; try exact I; [|exfalso; eapply windows0_unreachable; eauto].
  destruct (multi_lines ps) as [[l|]|]; exact I. Qed.

(* ---------- (C) the static reader never panics: files are shorter than 2^64 - 1 bytes ---------- *)
Definition fs_small (fs : fsys) : Prop := forall p d q v, node_at fs p true = Some (File d, q, v) -> N.of_nat (length d) < 2 ^ 64 - 1.
Definition sres_ok {A} (x : sres A) : Prop := match x with SPanic _ => False | _ => True end.

Lemma parse_range_nopanic L spec : parse_range L spec <> RPanicSub.
Proof.
  unfold parse_range.
  assert (G : forall parts i st, loop_parts L i parts st <> RPanicSub).
  { induction parts as [|p ps IH]; intros i st; cbn [loop_parts]; [discriminate|].
    destruct (step_part L i p st) as [st'| |] eqn:E; [apply IH|discriminate|].
    exfalso. unfold step_part in E.
    repeat match type of E with
    | match (if ?c then _ else _) with _ => _ end = _ => destruct c
    | match (match ?x with _ => _ end) with _ => _ end = _ => destruct x
    | (if ?c then _ else _) = _ => destruct c
    | match ?x with _ => _ end = _ => destruct x
    end; discriminate. }
  destruct (loop_parts L 0 (split spec HYPHEN) (mkRs 0 L true)) eqn:E; try discriminate. exfalso. eapply G; eauto.
Qed.

Lemma read_specs_ok fs lnk path L : L < 2 ^ 64 - 1 -> forall specs, sres_ok (read_specs fs lnk path L specs).
Proof.
  intros HL. induction specs as [|sp rest IH]; cbn [read_specs]; [exact I|].
  destruct (parse_range L sp) as [[st en]| |] eqn:Ep; [|exact I|exfalso; eapply parse_range_nopanic; eauto].
  destruct (parse_range_bounds _ _ _ _ Ep) as [Hle HeL].
  unfold read_range. destruct (negb (filter_ok path)); [exact I|].
  destruct (N.ltb_spec en st) as [Hlt|_]; [lia|].
  destruct (N.eqb_spec (en - st) (2 ^ 64 - 1)) as [E|_]; [exfalso; lia|].
  destruct (node_at fs path true) as [[[nd q] via]|]; [destruct nd|]; try exact I.
  destruct (read_specs fs lnk path L rest); try exact I. exact IH.
Qed.
Lemma pcr_ok fs lnk path L v : L < 2 ^ 64 - 1 -> sres_ok (parse_content_range fs lnk path L v).
Proof. intro HL. unfold parse_content_range. destruct (negb _); [exact I|]. destruct (split v [61]) as [|x [|raw r]]; try exact I.
  apply read_specs_ok, HL. Qed.

Lemma gcrl_ok fs t rv : fs_small fs -> sres_ok (get_content_range_list fs (47 :: t) rv).
Proof.
  intros Hs. unfold get_content_range_list. destruct (origin_path t) as [p' ->].
  destruct (has_dotdot _); [exact I|].
  set (SP := cwd_str fs ++ 47 :: p').
  destruct (metadata fs SP) as [[| |]|]; try exact I.
  assert (HL : forall L, file_len fs SP = Some L -> L < 2 ^ 64 - 1).
  { intros L H. unfold file_len in H. destruct (node_at fs SP true) as [[[nd q] via]|] eqn:En; [destruct nd|]; try discriminate.
    inversion H; subst. eapply Hs; eauto. }
  destruct (is_symlink fs SP) as [[|]|]; destruct (file_len fs SP) as [L|] eqn:El; try exact I.
  - destruct (read_link fs SP); [|exact I].
    match goal with |- context [resolve_symlink_lex ?f ?d ?tt] => destruct (resolve_symlink_lex f d tt) end; [|exact I].
    apply pcr_ok, HL. reflexivity.
  - apply pcr_ok, HL. reflexivity.
Qed.

Lemma dir_index_ok p' : exists di, dir_index (47 :: p') = SOk di /\ exists t, (47 :: p') ++ di = 47 :: t.
Proof. unfold dir_index. destruct (rev (47 :: p')) as [|c r] eqn:Er.
  - apply (f_equal (@rev N)) in Er. rewrite rev_involutive in Er. discriminate.
  - eexists. split; [reflexivity|]. cbn [app]. eauto. Qed.

Lemma process_static_ok fs r t : fs_small fs -> uri r = 47 :: t -> sres_ok (process_static fs r).
Proof.
  intros Hs Hu. unfold process_static. rewrite Hu. destruct (origin_path t) as [p' ->].
  destruct (dir_index_ok p') as (di & Edi & tt & Ett).
  match goal with |- sres_ok (match ?md with _ => _ end) => destruct md as [[| |]|] end; try exact I.
  - destruct (can_open fs _).
    + destruct (metadata fs _) as [[| |]|]; try exact I. apply gcrl_ok, Hs.
    + destruct (can_open fs _); [|exact I]. destruct (metadata fs _) as [[| |]|]; try exact I.
      change ((47 :: p') ++ DOT_HTML) with (47 :: (p' ++ DOT_HTML)). apply gcrl_ok, Hs.
  - rewrite Edi, Ett. apply gcrl_ok, Hs.
  - destruct (can_open fs _).
    + destruct (metadata fs _) as [[| |]|]; try exact I. apply gcrl_ok, Hs.
    + destruct (can_open fs _); [|exact I]. destruct (metadata fs _) as [[| |]|]; try exact I.
      change ((47 :: p') ++ DOT_HTML) with (47 :: (p' ++ DOT_HTML)). apply gcrl_ok, Hs.
Qed.
Lemma is_matching_ok fs r t : uri r = 47 :: t -> exists b, is_matching fs r = SOk b.
Proof.
  intro Hu. unfold is_matching. rewrite Hu. destruct (origin_path t) as [p' ->].
  destruct (has_dotdot _); [eauto|].
  destruct (dir_index_ok p') as (di & Edi & _). rewrite Edi.
  destruct (metadata fs (cwd_str fs ++ 47 :: p')) as [[| |]|]; cbn iota beta.
  - destruct (can_open fs _ || false); [eauto|]. destruct (ends_with _ DOT_HTML); eauto.
  - destruct (is_reg fs _); [|eauto]. destruct (can_open fs _ || true); eauto. destruct (ends_with _ DOT_HTML); eauto.
  - destruct (can_open fs _ || false); [eauto|]. destruct (ends_with _ DOT_HTML); eauto.
  - destruct (can_open fs _ || false); [eauto|]. destruct (ends_with _ DOT_HTML); eauto.
Qed.

(* ---------- the controller chain and the whole request path ---------- *)
Lemma static_process_ok fs r rs0 t : fs_small fs -> uri r = 47 :: t -> sres_ok (static_process fs r rs0).
Proof.
  intros Hs Hu. unfold static_process. pose proof (process_static_ok fs r t Hs Hu) as Hp.
  destruct (process_static fs r) as [[|c l]|st|s]; try exact I; [|contradiction].
  rewrite Hu. destruct (origin_path t) as [p' ->]. exact I.
Qed.
Lemma static_process_legacy_ok fs r rs0 t : fs_small fs -> uri r = 47 :: t -> sres_ok (static_process_legacy fs r rs0).
Proof.
  intros Hs Hu. unfold static_process_legacy. pose proof (process_static_ok fs r t Hs Hu) as Hp.
  destruct (process_static fs r) as [[|c l]|st|s]; try exact I. contradiction.
Qed.

Theorem execute_never_panics lg cfg fs r : fs_small fs -> sres_ok (app_execute_gen lg cfg fs r).
Proof.
  intro Hs. unfold app_execute_gen. set (rs0 := mkResp 501 (reason 501) (default_headers cfg r) []).
  destruct (uri r) as [|c t] eqn:Hu; [exact I|].
  unfold starts_with. cbn [prefixb]. destruct (N.eqb_spec 47 c) as [<-|Hc]; cbn [andb negb]; [|exact I].
  rewrite <- Hu.
  pose proof (upload_ok cfg r rs0 t Hu) as K1. pose proof (urlenc_ok r rs0) as K2.
  pose proof (formget_ok r rs0 t Hu) as K3. pose proof (multi_ok r rs0 t Hu) as K4.
  repeat match goal with |- sres_ok (if ?c then _ else _) => destruct c end; try exact I.
  all: destruct (upload_controller cfg r rs0); try exact I; try contradiction.
  all: destruct (urlenc_controller r rs0); try exact I; try contradiction.
  all: destruct (formget_controller r rs0); try exact I; try contradiction.
  all: destruct (multipart_controller r rs0); try exact I; try contradiction.
  all: repeat match goal with |- sres_ok (if ?c then _ else _) => destruct c end; try exact I.
  all: try (eapply static_process_legacy_ok; eauto; fail).
  all: destruct (is_matching_ok fs r t Hu) as [b ->]; destruct b; [eapply static_process_ok; eauto|exact I].
Qed.

(* C04: for every configuration, every file system (files shorter than 2^64-1 bytes), every input byte string and both entry
   points, the request path writes a response; when the request cannot be parsed that response is the 400 *)
Theorem process_always_answers lg cfg fs input : fs_small fs ->
  exists rs raw ok, process_gen lg cfg fs input = Wrote rs raw ok.
Proof.
  intro Hs. unfold process_gen, process_with.
  destruct (parse_request _) as [r|e|p] eqn:Ep; [|eauto|exfalso; eapply parse_no_panic; eauto].
  pose proof (execute_never_panics lg cfg fs r Hs) as H.
  destruct (app_execute_gen lg cfg fs r); [eauto|eauto|contradiction].
Qed.
Theorem unparseable_is_400 lg cfg fs input e :
  parse_request (let n := N.to_nat (cf_size cfg) in firstn n input ++ repeat 0 (n - length (firstn n input))) = Request.Err e ->
  exists raw, process_gen lg cfg fs input = Wrote (bad_request_response cfg) raw false /\ rs_status (bad_request_response cfg) = 400.
Proof. intro H. unfold process_gen, process_with. cbv zeta in H. rewrite H. eexists. split; reflexivity. Qed.
(* any application handler that itself does not panic - whether it returns a response or an error - gets an answer written *)
Theorem handler_always_answered app cfg input : (forall r, sres_ok (app r)) ->
  exists rs raw ok, process_with app cfg input = Wrote rs raw ok /\ (forall r st, app r = SErr st -> True).
Proof.
  intro Ha. unfold process_with.
  destruct (parse_request _) as [r|e|p] eqn:Ep; [|eauto 6|exfalso; eapply parse_no_panic; eauto].
  specialize (Ha r). destruct (app r); [eauto 6|eauto 6|contradiction].
Qed.
Theorem handler_error_is_400 app cfg input r st :
  parse_request (let n := N.to_nat (cf_size cfg) in firstn n input ++ repeat 0 (n - length (firstn n input))) = Request.Ok r ->
  app r = SErr st ->
  exists raw, process_with app cfg input = Wrote (bad_request_response cfg) raw false.
Proof. intros H Ha. unfold process_with. cbv zeta in H. rewrite H, Ha. eexists. reflexivity. Qed.

(* a computable sufficient condition for fs_small: every file of the tree has at most b bytes *)
Fixpoint all_files_le (b : nat) (nd : node) : bool :=
  match nd with
  | File x => Nat.leb (length x) b
  | Dir es => (fix go (l : list (list N * node)) : bool := match l with [] => true | (_, m) :: r => all_files_le b m && go r end) es
  | Link _ => true
  end.
Lemma all_files_le_get b : forall nd q d, all_files_le b nd = true -> get nd q = Some (File d) -> (length d <= b)%nat.
Proof.
  fix IH 1. intros nd q d Ha Hg. destruct nd as [x|es|tg]; destruct q as [|c q']; cbn [get] in Hg; try discriminate.
  - inversion Hg; subst. cbn [all_files_le] in Ha. apply Nat.leb_le, Ha.
  - cbn [all_files_le] in Ha. induction es as [|[m x] es IHes]; cbn [find_ent] in Hg; [discriminate|].
    apply andb_prop in Ha as [Hx Hr]. destruct (beqs c m).
    + exact (IH x q' d Hx Hg).
    + exact (IHes Hr Hg).
Qed.
Lemma fs_small_of_bound fs b : all_files_le b (root fs) = true -> N.of_nat b < 2 ^ 64 - 1 -> fs_small fs.
Proof.
  intros Ha Hb p d q v H. unfold node_at in H. destruct (resolve_path fs p true) as [[q' v']|]; [|discriminate].
  destruct (get (root fs) q') as [nd|] eqn:G; [|discriminate]. inversion H; subst.
  pose proof (all_files_le_get b _ _ _ Ha G). lia.
Qed.
Lemma fs0_small : fs_small fs0.
Proof. apply (fs_small_of_bound fs0 16); [vm_compute; reflexivity|]. change (2 ^ 64) with 18446744073709551616. lia. Qed.
