(* MimeType::detect_mime_type as an interpreter of the generated rule chain *)
From Rws Require Import Str Fs GenMime.
Open Scope N_scope.

(* Path::new(p).extension() *)
Definition file_name (p : list N) : option (list N) :=
  match filter (fun c => negb (is_skip c)) (comps p) with
  | [] => None
  | cs => let n := last cs [] in if is_dotdot n then None else Some n
  end.
Definition path_extension (p : list N) : option (list N) :=
  match file_name p with
  | None => None
  | Some n =>
    match split_once (rev n) [DOT] with          (* last '.' *)
    | None => None
    | Some (rafter, rbefore) => match rbefore with [] => None | _ => Some (rev rafter) end
    end
  end.
Fixpoint run_chain (p : list N) (ext : option (list N)) (rules : list mrule) : list N :=
  match rules with
  | [] => mime_default
  | RSuffix suf ty :: r => if ends_with p suf then ty else run_chain p ext r
  | RExt sufs ty :: r =>
    match ext with
    | Some e => if existsb (beqs (DOT :: e)) sufs then ty else run_chain p ext r
    | None => run_chain p ext r
    end
  end.
Definition detect_mime (p : list N) : list N := run_chain p (path_extension p) mime_chain.

Example m1 : detect_mime [47;97;46;116;120;116] = [116;101;120;116;47;112;108;97;105;110]. Proof. vm_compute. reflexivity. Qed.  (* /a.txt *)
Example m2 : path_extension [47;120;47;46;104;116;109;108] = None. Proof. vm_compute. reflexivity. Qed.                       (* /x/.html *)
