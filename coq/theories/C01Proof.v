From Coq Require Import Arith.
From Rws Require Import Str Num Fs UrlParse RangeSpec Request GenMime Mime StaticRes StrLemmas.
Open Scope N_scope.

(* ---------- split on a single byte distributes over concatenation at a separator ---------- *)
Lemma split_aux_1_app c a t : forall cur,
  split_aux [c] O cur (a ++ c :: t) = split_aux [c] O cur a ++ split_aux [c] O [] t.
Proof.
  induction a as [|x a IH]; intro cur.
  - cbn [app split_aux prefixb]. rewrite N.eqb_refl. cbn [andb length Nat.pred app]. reflexivity.
  - change ((x :: a) ++ c :: t) with (x :: (a ++ c :: t)). cbn [split_aux prefixb].
    destruct (N.eqb c x); cbn [andb length Nat.pred].
    + rewrite IH. reflexivity.
    + apply IH.
Qed.
Lemma comps_app a t : comps (a ++ SLASH :: t) = comps a ++ comps t.
Proof. unfold comps, split, SLASH. apply split_aux_1_app. Qed.

Definition plain_name (c : list N) : Prop := ~ In 47 c /\ is_skip c = false /\ is_dotdot c = false.
Lemma split_aux_noslash c : forall cur, ~ In 47 c -> split_aux [47] O cur c = [rev cur ++ c].
Proof. induction c as [|x c IH]; intros cur H.
  - simpl. rewrite app_nil_r. reflexivity.
  - cbn [split_aux prefixb]. destruct (N.eqb_spec 47 x) as [E|E]; [exfalso; apply H; simpl; auto|].
    cbn [andb]. rewrite IH by (intro; apply H; simpl; auto). simpl. rewrite <- app_assoc. reflexivity. Qed.
Lemma comps_noslash c : ~ In 47 c -> comps c = [c].
Proof. intro H. unfold comps, split, SLASH. rewrite split_aux_noslash by exact H. reflexivity. Qed.
Lemma comps_name_join cs : forall c, Forall plain_name (c :: cs) -> comps (c ++ join_path cs) = c :: cs.
Proof.
  induction cs as [|d cs IH]; intros c H; inversion H as [|? ? [Hc _] H']; subst.
  - unfold join_path. cbn [flat_map]. rewrite app_nil_r. apply comps_noslash, Hc.
  - unfold join_path. cbn [flat_map]. fold (join_path cs).
    change ((SLASH :: d) ++ join_path cs) with (SLASH :: (d ++ join_path cs)).
    rewrite comps_app, comps_noslash by exact Hc.
    rewrite IH by exact H'. reflexivity.
Qed.
Lemma comps_join cs : Forall plain_name cs -> comps (join_path cs) = [] :: cs \/ cs = [].
Proof.
  destruct cs as [|c cs]; [right; reflexivity|left].
  unfold join_path. cbn [flat_map]. fold (join_path cs).
  change ((SLASH :: c) ++ join_path cs) with ([] ++ SLASH :: (c ++ join_path cs)).
  rewrite comps_app, comps_name_join by exact H. reflexivity.
Qed.

(* ---------- monotonicity of the via flag ---------- *)
Lemma via_monotone fuel rt : forall cur cs fl q v, resolve fuel rt cur cs fl true = ROk (q, v) -> v = true.
Proof.
  induction fuel as [|f IH]; intros cur cs fl q v Hr; cbn [resolve] in Hr; [discriminate|].
  destruct cs as [|c rest]; [inversion Hr; reflexivity|].
  destruct (negb (is_dir_at rt cur)); [discriminate|].
  destruct (is_skip c); [eapply IH; eauto|]. destruct (is_dotdot c); [eapply IH; eauto|].
  destruct (get rt (cur ++ [c])) as [[d|e|t]|]; try discriminate; try (eapply IH; eauto; fail).
  destruct rest, fl; try (eapply IH; eauto; fail). inversion Hr; reflexivity.
Qed.

(* ---------- containment with a lexical stack ---------- *)
Lemma removelast_app_stack (cw st : list (list N)) : st <> [] -> removelast (cw ++ st) = cw ++ removelast st.
Proof. intro H. apply removelast_app. exact H. Qed.

Lemma resolve_contained fuel rt cw : forall st cs fl q,
  climbs_aux (length st) cs = false ->
  resolve fuel rt (cw ++ st) cs fl false = ROk (q, false) ->
  prefixb_names cw q = true.
Proof.
  induction fuel as [|f IH]; intros st cs fl q Hc Hr; cbn [resolve] in Hr; [discriminate|].
  destruct cs as [|c rest].
  - inversion Hr; subst. clear. induction cw as [|x cw IHc]; simpl; auto. rewrite beqs_refl. auto.
  - cbn [climbs_aux] in Hc.
    destruct (negb (is_dir_at rt (cw ++ st))); [discriminate|].
    destruct (is_skip c); [eapply IH; eauto|].
    destruct (is_dotdot c).
    + destruct st as [|s0 st'] eqn:Est; cbn [length] in Hc; [discriminate|].
      rewrite removelast_app_stack in Hr by discriminate.
      eapply IH; [|exact Hr].
      assert (length (removelast (s0 :: st')) = length st') as ->; [|exact Hc].
      clear. revert s0; induction st' as [|y t IHt]; intro s0; [reflexivity|]. cbn [removelast length] in *. f_equal. apply IHt.
    + destruct (get rt ((cw ++ st) ++ [c])) as [[d|e|t]|]; try discriminate.
      * rewrite <- app_assoc in Hr. eapply IH; [|exact Hr]. rewrite app_length. simpl. rewrite Nat.add_1_r. exact Hc.
      * rewrite <- app_assoc in Hr. eapply IH; [|exact Hr]. rewrite app_length. simpl. rewrite Nat.add_1_r. exact Hc.
      * destruct rest, fl; try (apply via_monotone in Hr; discriminate).
        inversion Hr; subst. rewrite <- app_assoc. clear. induction cw as [|x cw IHc]; simpl; auto. rewrite beqs_refl. auto.
Qed.

(* ---------- walking down the (link-free, canonical) working directory ---------- *)
Definition cwd_ok (fs : fsys) : Prop :=
  Forall plain_name (cwd fs) /\ forall k, (k <= length (cwd fs))%nat -> is_dir_at (root fs) (firstn k (cwd fs)) = true.

Lemma walk_cwd fuel rt : forall done todo rest fl q v,
  Forall plain_name todo ->
  (forall k, (k <= length todo)%nat -> is_dir_at rt (done ++ firstn k todo) = true) ->
  resolve fuel rt done (todo ++ rest) fl false = ROk (q, v) ->
  exists fuel', resolve fuel' rt (done ++ todo) rest fl false = ROk (q, v).
Proof.
  induction fuel as [|f IH]; intros done todo rest fl q v Hp Hd Hr; [discriminate|].
  destruct todo as [|c todo'].
  - exists (S f). rewrite app_nil_r. exact Hr.
  - inversion Hp as [|? ? [Hs [Hk Hdd]] Hp']; subst. cbn [app resolve] in Hr.
    pose proof (Hd 0%nat (Nat.le_0_l _)) as D0. cbn [firstn] in D0. rewrite app_nil_r in D0. rewrite D0 in Hr. cbn [negb] in Hr.
    rewrite Hk, Hdd in Hr.
    pose proof (Hd 1%nat) as D1. cbn [firstn length] in D1. specialize (D1 (le_n_S _ _ (Nat.le_0_l _))).
    unfold is_dir_at in D1. destruct (get rt (done ++ [c])) as [[d|e|t]|] eqn:G; try discriminate.
    replace (done ++ c :: todo') with ((done ++ [c]) ++ todo') by (rewrite <- app_assoc; reflexivity).
    eapply IH; [exact Hp'| |exact Hr].
    intros k Hk'. rewrite <- app_assoc. apply (Hd (S k)). simpl. lia.
Qed.

(* ---------- the statement at the level of path strings ---------- *)
Theorem resolve_str_contained fs P q fuel :
  cwd_ok fs -> (P = [] \/ exists t, P = SLASH :: t) -> climbs P = false ->
  resolve fuel (root fs) [] (comps (cwd_str fs ++ P)) true false = ROk (q, false) ->
  prefixb_names (cwd fs) q = true.
Proof.
  intros [Hn Hd] HP Hc Hr.
  assert (E : exists rest, (comps (cwd_str fs ++ P) = ([] :: cwd fs) ++ rest /\ climbs_aux 0 rest = false)
                           \/ cwd fs = []).
  { unfold cwd_str. destruct HP as [->|[t ->]].
    - rewrite app_nil_r. destruct (comps_join _ Hn) as [E|E].
      + exists []. left. rewrite E, app_nil_r. auto.
      + exists []. right. exact E.
    - rewrite comps_app. unfold climbs in Hc. change (SLASH :: t) with ([] ++ SLASH :: t) in Hc. rewrite comps_app in Hc.
      change (comps []) with [@nil N] in Hc. cbn [app climbs_aux] in Hc. change (is_skip []) with true in Hc. cbv iota in Hc.
      destruct (comps_join _ Hn) as [E|E].
      + exists (comps t). left. rewrite E. auto.
      + exists []. right. exact E. }
  destruct E as [rest [[E Hc']|E0]].
  - rewrite E in Hr. change (([] :: cwd fs) ++ rest) with ([] :: (cwd fs ++ rest)) in Hr.
    destruct fuel as [|F']; [discriminate|]. cbn [resolve] in Hr.
    pose proof (Hd 0%nat (Nat.le_0_l _)) as D0. cbn [firstn] in D0. rewrite D0 in Hr. cbn [negb] in Hr.
    change (is_skip []) with true in Hr. cbv iota in Hr.
    destruct (walk_cwd F' (root fs) [] (cwd fs) rest true q false Hn) as [f' Hf'].
    + intros k Hk. cbn [app]. apply Hd, Hk.
    + exact Hr.
    + cbn [app] in Hf'. eapply (resolve_contained f' (root fs) (cwd fs) [] rest true q); [exact Hc'|].
      rewrite app_nil_r. exact Hf'.
  - rewrite E0. reflexivity.
Qed.
Corollary resolve_path_contained fs P q :
  cwd_ok fs -> (P = [] \/ exists t, P = SLASH :: t) -> climbs P = false ->
  resolve_path fs (cwd_str fs ++ P) true = ROk (q, false) -> prefixb_names (cwd fs) q = true.
Proof. intros H1 H2 H3 H4. unfold resolve_path in H4. exact (resolve_str_contained fs P q FUEL H1 H2 H3 H4). Qed.
Print Assumptions resolve_path_contained.

(* ---------- the path handed to the file system is "" or starts with '/' ---------- *)
Lemma split_once_head_eq d s : split_once (d :: s) [d] = Some ([], s).
Proof. unfold split_once. cbn [split_once_aux prefixb]. rewrite N.eqb_refl. reflexivity. Qed.
Lemma split_once_aux_acc d : forall s acc p r, split_once_aux [d] s acc = Some (p, r) -> exists p', p = rev acc ++ p'.
Proof. induction s as [|x s IH]; intros acc p r H; cbn [split_once_aux prefixb] in H.
  - discriminate.
  - destruct (N.eqb d x); cbn [andb] in H.
    + inversion H. exists []. rewrite app_nil_r. reflexivity.
    + apply IH in H as [p' ->]. exists (x :: p'). simpl. rewrite <- app_assoc. reflexivity. Qed.
Lemma split_once_head_neq c d s p r : c <> d -> split_once (c :: s) [d] = Some (p, r) -> exists p', p = c :: p'.
Proof. intros Hn H. unfold split_once in H. cbn [split_once_aux prefixb] in H.
  destruct (N.eqb_spec d c) as [E|E]; [congruence|]. cbn [andb] in H.
  apply split_once_aux_acc in H as [p' ->]. exists p'. reflexivity. Qed.

Definition path_shape (P : list N) : Prop := P = [] \/ exists t, P = SLASH :: t.
Lemma contains_head d s : contains (d :: s) [d] = true.
Proof. unfold contains. rewrite split_once_head_eq. reflexivity. Qed.

Lemma extract_path_shape c t p rem :
  (c = 47 \/ c = 63 \/ (c = 35 /\ contains (c :: t) QM = false)) ->
  extract_path (c :: t) = UOk (p, rem) -> path_shape p.
Proof.
  intros Hc H. unfold extract_path in H.
  destruct Hc as [->|[->|[-> Hq]]].
  - (* '/' first: the path keeps it *)
    destruct (negb (contains (47 :: t) QM) && negb (contains (47 :: t) HASH)).
    + inversion H. right. eexists. reflexivity.
    + match type of H with context [split_once _ ?d] => destruct (split_once (47 :: t) d) as [[p0 r0]|] eqn:Es end; [|discriminate].
      inversion H; subst p0. right.
      destruct (negb (contains (47 :: t) QM) && contains (47 :: t) HASH);
        (apply split_once_head_neq in Es; [destruct Es as [p' Ep]; rewrite Ep; eexists; reflexivity|discriminate]).
  - (* '?' first: empty path *)
    unfold QM in H at 1 2. rewrite contains_head in H. cbn [negb andb] in H.
    unfold QM in H. rewrite split_once_head_eq in H. inversion H. left. reflexivity.
  - (* '#' first and no '?': empty path *)
    rewrite Hq in H. unfold HASH in H at 1 2. rewrite contains_head in H. cbn [negb andb] in H.
    unfold HASH in H. rewrite split_once_head_eq in H. inversion H. left. reflexivity.
Qed.

(* single-byte patterns: split_once decomposes the string; contains = In *)
Lemma split_once_aux_1_spec d : forall s acc p r, split_once_aux [d] s acc = Some (p, r) -> rev acc ++ s = p ++ d :: r.
Proof. induction s as [|x s IH]; intros acc p r H; cbn [split_once_aux prefixb] in H; [discriminate|].
  destruct (N.eqb_spec d x) as [E|E]; cbn [andb] in H.
  - inversion H; subst. reflexivity.
  - apply IH in H. rewrite <- H. simpl. rewrite <- app_assoc. reflexivity. Qed.
Lemma split_once_1_spec d s p r : split_once s [d] = Some (p, r) -> s = p ++ d :: r.
Proof. intro H. apply split_once_aux_1_spec in H. exact H. Qed.
Lemma contains_1_In d s : contains s [d] = true -> In d s.
Proof. unfold contains. destruct (split_once s [d]) as [[p r]|] eqn:E; [|discriminate]. intros _.
  apply split_once_1_spec in E. subst. apply in_or_app. right. left. reflexivity. Qed.
Lemma split_once_aux_1_found d b' : forall a acc, exists p r, split_once_aux [d] (a ++ d :: b') acc = Some (p, r).
Proof. induction a as [|x a IH]; intro acc; cbn [app split_once_aux prefixb].
  - rewrite N.eqb_refl. cbn [andb]. eauto.
  - destruct (N.eqb d x); cbn [andb]; eauto. Qed.
Lemma In_contains_1 d s : In d s -> contains s [d] = true.
Proof. intro H. apply in_split in H as [a [b' ->]]. unfold contains, split_once.
  destruct (split_once_aux_1_found d b' a []) as [p [r ->]]. reflexivity. Qed.
Lemma not_contains_suffix d a x r : contains (a ++ x :: r) [d] = false -> contains (x :: r) [d] = false.
Proof. intro H. destruct (contains (x :: r) [d]) eqn:E; [|reflexivity].
  apply contains_1_In in E. rewrite In_contains_1 in H; [discriminate|]. apply in_or_app. right. exact E. Qed.

Lemma split_once_prefix pat r : pat <> [] -> split_once (pat ++ r) pat = Some ([], r).
Proof. intro Hp. unfold split_once. destruct pat as [|a p]; [congruence|].
  change ((a :: p) ++ r) with (a :: (p ++ r)). cbn [split_once_aux].
  change (a :: p ++ r) with ((a :: p) ++ r). rewrite prefixb_app. cbn [rev].
  f_equal. f_equal. clear. induction (a :: p); simpl; auto. Qed.

Lemma extract_authority_shape u oa rem :
  extract_authority (DSL ++ u) = UOk (oa, Some rem) ->
  exists c t, rem = c :: t /\ (c = 47 \/ c = 63 \/ (c = 35 /\ contains (c :: t) QM = false)).
Proof.
  unfold extract_authority. destruct (DSL ++ u) eqn:Eu; [discriminate|]. rewrite <- Eu. clear Eu.
  rewrite split_once_prefix by (unfold DSL; congruence).
  destruct (negb (contains u SL) && negb (contains u QM) && negb (contains u HASH)); [discriminate|].
  destruct (contains u SL).
  { destruct (split_once u SL) as [[a r]|]; [|discriminate]. intro H. inversion H. unfold SL. cbn [app]. eauto. }
  destruct (contains u QM) eqn:Eq.
  { destruct (split_once u QM) as [[a r]|]; [|discriminate]. intro H. inversion H. unfold QM. cbn [app]. eauto 6. }
  destruct (split_once u HASH) as [[a r]|] eqn:Es; [|discriminate]. intro H. inversion H. unfold HASH. cbn [app].
  exists 35, r. split; [reflexivity|]. right. right. split; [reflexivity|].
  unfold HASH in Es. apply split_once_1_spec in Es. subst u. unfold QM in *. eapply not_contains_suffix. exact Eq.
Qed.

Definition LOCALHOST : list N := [108;111;99;97;108;104;111;115;116].
Theorem target_path_shape uri P : path_or_panic uri = SOk P -> path_shape P.
Proof.
  unfold path_or_panic, target_url, parse_url.
  change (HTTP_LOCALHOST ++ uri) with ([104;116;116;112] ++ 58 :: (DSL ++ LOCALHOST ++ uri)).
  unfold COLON. rewrite split_once_1 by (simpl; intuition discriminate).
  destruct (extract_authority (DSL ++ LOCALHOST ++ uri)) as [[oa orem]| |] eqn:Ea; try discriminate.
  destruct (match oa with Some a => _ | None => UOk None end) as [auth| |]; try discriminate.
  destruct orem as [rem|].
  - destruct (extract_authority_shape _ _ _ Ea) as (c & t & -> & Hc).
    destruct (extract_path (c :: t)) as [[p orem2]| |] eqn:Ep; try discriminate.
    pose proof (extract_path_shape _ _ _ _ Hc Ep) as Sh.
    destruct orem2 as [rem2|].
    + destruct (extract_query rem2) as [oq orem3].
      destruct oq, orem3; try (destruct (split_once _ HASH) as [[? ?]|]; try discriminate); intro H; inversion H; subst; exact Sh.
    + intro H; inversion H; subst; exact Sh.
  - intro H. inversion H. left. reflexivity.
Qed.
Print Assumptions target_path_shape.

(* ---------- the guard of fix b366efe (no ".." segment) implies that the path does not climb ---------- *)
Lemma no_dotdot_climbs_aux cs : existsb is_dotdot cs = false -> forall d, climbs_aux d cs = false.
Proof.
  induction cs as [|c cs IH]; intros H d; cbn [climbs_aux]; [reflexivity|].
  cbn [existsb] in H. apply orb_false_iff in H as [Hc Hr]. rewrite Hc.
  destruct (is_skip c); apply IH, Hr.
Qed.
Lemma has_dotdot_comps P : has_dotdot P = false -> existsb is_dotdot (comps P) = false.
Proof.
  unfold has_dotdot. generalize (comps P) as cs. induction cs as [|c cs IH]; intro H; [reflexivity|].
  cbn [flat_map existsb] in *. rewrite existsb_app in H. apply orb_false_iff in H as [Hc Hr].
  rewrite (IH Hr), orb_false_r.
  destruct (is_dotdot c) eqn:Ed; [|reflexivity].
  unfold is_dotdot in Ed. apply beqs_eq in Ed. subst c. vm_compute in Hc. discriminate.
Qed.
Lemma no_dotdot_no_climb P : has_dotdot P = false -> climbs P = false.
Proof. intro H. unfold climbs. apply no_dotdot_climbs_aux, has_dotdot_comps, H. Qed.

(* ---------- every body produced comes from below the served directory ---------- *)
Definition prov_ok (fs : fsys) (c : crange) : Prop :=
  match c_prov c with FromFile q via => via = true \/ prefixb_names (cwd fs) q = true | _ => True end.

Lemma read_specs_prov fs lnk path L : forall specs l,
  read_specs fs lnk path L specs = SOk l ->
  (lnk = true \/ forall d q, node_at fs path true = Some (File d, q, false) -> prefixb_names (cwd fs) q = true) ->
  Forall (prov_ok fs) l.
Proof.
  induction specs as [|sp rest IH]; intros l H Hq; cbn [read_specs] in H.
  - inversion H. constructor.
  - destruct (parse_range L sp) as [[st en]| |]; try discriminate.
    unfold read_range in H. destruct (negb (filter_ok path)); [discriminate|].
    destruct (N.ltb en st); [discriminate|]. destruct (N.eqb (en - st) (2 ^ 64 - 1)); [discriminate|].
    destruct (node_at fs path true) as [[[nd q] via]|] eqn:En; [|discriminate]. destruct nd as [d|e|t]; try discriminate.
    destruct (read_specs fs lnk path L rest) as [l'| |] eqn:Er; try discriminate. inversion H; subst.
    constructor; [|apply IH; auto].
    unfold prov_ok. cbn [c_prov]. destruct Hq as [->|Hq]; [left; apply orb_true_r|].
    destruct via; [left; reflexivity|right; eapply Hq; reflexivity].
Qed.

Theorem guarded_get_content_range_list fs u rv l :
  cwd_ok fs -> get_content_range_list fs u rv = SOk l -> Forall (prov_ok fs) l.
Proof.
  intros Hcw H. unfold get_content_range_list in H.
  destruct (path_or_panic u) as [P| |] eqn:EP; try discriminate.
  pose proof (target_path_shape _ _ EP) as Sh.
  destruct (has_dotdot P) eqn:Eh; [discriminate|]. pose proof (no_dotdot_no_climb _ Eh) as Ec.
  destruct (metadata fs (cwd_str fs ++ P)) as [[| |]|]; try discriminate; try (inversion H; constructor).
  destruct (is_symlink fs (cwd_str fs ++ P)) as [[|]|]; destruct (file_len fs (cwd_str fs ++ P)) as [L|]; try discriminate.
  - (* through the owner's symlink *)
    destruct (read_link fs (cwd_str fs ++ P)); [|discriminate].
    match type of H with context [resolve_symlink_lex ?f ?d ?t] => destruct (resolve_symlink_lex f d t) end; [|discriminate].
    unfold parse_content_range in H. destruct (negb (starts_with rv BYTES_EQ)); [discriminate|].
    destruct (split rv [61]) as [|x [|raw r]]; try discriminate. eapply read_specs_prov; [exact H|left; reflexivity].
  - unfold parse_content_range in H. destruct (negb (starts_with rv BYTES_EQ)); [discriminate|].
    destruct (split rv [61]) as [|x [|raw r]]; try discriminate. eapply read_specs_prov; [exact H|right].
    intros d q Hn. unfold node_at in Hn.
    destruct (resolve_path fs (cwd_str fs ++ P) true) as [[q' v']|] eqn:Er; [|discriminate].
    destruct (get (root fs) q'); [|discriminate]. inversion Hn; subst.
    eapply resolve_path_contained; eauto.
Qed.

Theorem C01_guarded_static fs r l :
  cwd_ok fs -> process_static fs r = SOk l -> Forall (prov_ok fs) l.
Proof.
  intros Hcw H. unfold process_static in H.
  destruct (path_or_panic (uri r)) as [P| |]; try discriminate.
  match type of H with match ?md with _ => _ end = _ => destruct md as [[| |]|] end;
  try (inversion H; constructor);
  repeat match type of H with
  | (if ?c then _ else _) = _ => destruct c
  | match dir_index ?p with _ => _ end = _ => destruct (dir_index p)
  | match metadata ?f ?p with _ => _ end = _ => destruct (metadata f p) as [[| |]|]
  end; try discriminate; try (inversion H; constructor);
  eapply guarded_get_content_range_list; eauto.
Qed.
Print Assumptions C01_guarded_static.
