(* Rust str / [u8] helpers on byte lists.  byte = N below 256. *)
From Coq Require Export List NArith Bool Lia.
Export ListNotations.
Open Scope N_scope.

Notation byte := N (only parsing).
Notation bytes := (list N) (only parsing).
Definition bytes_ok (s : bytes) : Prop := Forall (fun b => b < 256) s.

Fixpoint beqs (a b : bytes) : bool :=
  match a, b with
  | [], [] => true
  | x :: a', y :: b' => N.eqb x y && beqs a' b'
  | _, _ => false
  end.
Lemma beqs_eq a b : beqs a b = true <-> a = b.
Proof. revert b; induction a as [|x a IH]; destruct b as [|y b]; simpl; split; try congruence; try discriminate.
  - intro H. apply andb_prop in H as [H1 H2]. apply N.eqb_eq in H1. apply IH in H2. congruence.
  - intro H. inversion H; subst. rewrite N.eqb_refl. simpl. apply IH. reflexivity. Qed.
Lemma beqs_refl a : beqs a a = true. Proof. apply beqs_eq. reflexivity. Qed.

Fixpoint prefixb (p s : bytes) : bool :=
  match p, s with
  | [], _ => true
  | a :: p', b :: s' => N.eqb a b && prefixb p' s'
  | _ :: _, [] => false
  end.
Definition starts_with (s p : bytes) := prefixb p s.
Definition ends_with (s p : bytes) := prefixb (rev p) (rev s).

Lemma prefixb_app p r : prefixb p (p ++ r) = true.
Proof. induction p; simpl; auto. rewrite N.eqb_refl; auto. Qed.
Lemma prefixb_spec p s : prefixb p s = true <-> exists r, s = p ++ r.
Proof. revert s; induction p as [|a p IH]; intro s; simpl.
  - split; eauto.
  - destruct s as [|b s]; [split; [discriminate|intros [r H]; discriminate]|].
    split.
    + intro H. apply andb_prop in H as [H1 H2]. apply N.eqb_eq in H1. apply IH in H2 as [r ->]. exists r. congruence.
    + intros [r H]. inversion H; subst. rewrite N.eqb_refl. simpl. apply IH. eauto. Qed.

(* first occurrence: str::split_once / find *)
Fixpoint split_once_aux (pat s acc : bytes) : option (bytes * bytes) :=
  if prefixb pat s then Some (rev acc, skipn (length pat) s) else
  match s with
  | [] => None
  | c :: r => split_once_aux pat r (c :: acc)
  end.
Definition split_once (s pat : bytes) : option (bytes * bytes) := split_once_aux pat s [].
Definition contains (s pat : bytes) : bool := match split_once s pat with Some _ => true | None => false end.

(* str::split(pat) for a non-empty pattern: all pieces, left to right *)
Fixpoint split_aux (pat : bytes) (skip : nat) (cur : bytes) (s : bytes) : list bytes :=
  match s with
  | [] => [rev cur]
  | c :: r =>
    match skip with
    | S k => split_aux pat k cur r
    | O => if prefixb pat s then rev cur :: split_aux pat (Nat.pred (length pat)) [] r
           else split_aux pat O (c :: cur) r
    end
  end.
Definition split (s pat : bytes) : list bytes := split_aux pat O [] s.

(* [T]::join with a one-character separator *)
Fixpoint join_with (c : N) (l : list (list N)) : list N :=
  match l with [] => [] | [x] => x | x :: r => x ++ c :: join_with c r end.

(* str::replace for a non-empty pattern *)
Fixpoint repl_aux (pat rep : bytes) (skip : nat) (s : bytes) : bytes :=
  match s with
  | [] => []
  | c :: s' =>
    match skip with
    | S k => repl_aux pat rep k s'
    | O => if prefixb pat s then rep ++ repl_aux pat rep (Nat.pred (length pat)) s'
           else c :: repl_aux pat rep O s'
    end
  end.
Definition replace (s pat rep : bytes) : bytes := repl_aux pat rep O s.
Definition remove_byte (c : byte) (s : bytes) : bytes := filter (fun x => negb (N.eqb x c)) s.

(* char::is_whitespace on UTF-8 bytes: length of a whitespace char at the front, 0 if none *)
Definition ascii_ws (c : byte) : bool := (N.leb 9 c && N.leb c 13) || N.eqb c 32.
Definition in_rng (lo hi b : N) : bool := N.leb lo b && N.leb b hi.
(* is (c,d,e) the UTF-8 encoding of a 3-byte White_Space char? *)
Definition ws3 (c d e : byte) : bool :=
  (N.eqb c 225 && N.eqb d 154 && N.eqb e 128)                                   (* U+1680 *)
  || (N.eqb c 226 && N.eqb d 128 && (in_rng 128 138 e || N.eqb e 168 || N.eqb e 169 || N.eqb e 175))
                                                                                (* U+2000-200A, 2028, 2029, 202F *)
  || (N.eqb c 226 && N.eqb d 129 && N.eqb e 159)                                (* U+205F *)
  || (N.eqb c 227 && N.eqb d 128 && N.eqb e 128).                               (* U+3000 *)
Definition ws2 (c d : byte) : bool := N.eqb c 194 && (N.eqb d 133 || N.eqb d 160).   (* U+0085, U+00A0 *)
Definition ws_prefix_len (s : bytes) : nat :=
  match s with
  | [] => 0%nat
  | c :: r =>
    if ascii_ws c then 1%nat else
    match r with
    | [] => 0%nat
    | d :: r2 =>
      if ws2 c d then 2%nat else
      match r2 with
      | [] => 0%nat
      | e :: _ => if ws3 c d e then 3%nat else 0%nat
      end
    end
  end.
Fixpoint trim_start_f (fuel : nat) (s : bytes) : bytes :=
  match fuel with O => s | S f =>
    match ws_prefix_len s with O => s | n => trim_start_f f (skipn n s) end end.
Definition trim_start (s : bytes) := trim_start_f (length s) s.
(* the same, seen from the end; r = rev s, so the last byte comes first *)
Definition ws_suffix_len (r : bytes) : nat :=
  match r with
  | [] => 0%nat
  | e :: r1 =>
    if ascii_ws e then 1%nat else
    match r1 with
    | [] => 0%nat
    | d :: r2 =>
      if ws2 d e then 2%nat else
      match r2 with
      | [] => 0%nat
      | c :: _ => if ws3 c d e then 3%nat else 0%nat
      end
    end
  end.
Fixpoint trim_end_f (fuel : nat) (r : bytes) : bytes :=
  match fuel with O => r | S f =>
    match ws_suffix_len r with O => r | n => trim_end_f f (skipn n r) end end.
Definition trim_end (s : bytes) := rev (trim_end_f (length s) (rev s)).
Definition trim (s : bytes) := trim_end (trim_start s).

Definition is_ascii_control (c : byte) : bool := N.ltb c 32 || N.eqb c 127.
Definition filter_ascii_control (s : bytes) : bytes := trim (filter (fun c => negb (is_ascii_control c)) s).
Definition truncate_nl_cr (s : bytes) : bytes := remove_byte 10 (remove_byte 13 s).

Definition to_ascii_upper (c : byte) : byte := if N.leb 97 c && N.leb c 122 then c - 32 else c.
Definition to_ascii_lower (c : byte) : byte := if N.leb 65 c && N.leb c 90 then c + 32 else c.
Definition upper (s : bytes) := map to_ascii_upper s.
Definition lower (s : bytes) := map to_ascii_lower s.

(* BufRead::read_until(b'\n'): the line including its terminator, and the rest *)
Fixpoint split_line (s : bytes) : bytes * bytes :=
  match s with
  | [] => ([], [])
  | c :: r => if N.eqb c 10 then ([c], r) else let (l, rest) := split_line r in (c :: l, rest)
  end.
Lemma split_line_app s : let (l, r) := split_line s in s = l ++ r.
Proof. induction s as [|c s IH]; simpl; auto. destruct (N.eqb c 10); simpl; auto.
  destruct (split_line s). simpl. congruence. Qed.
Lemma split_line_len s : (length (fst (split_line s)) + length (snd (split_line s)) = length s)%nat.
Proof. pose proof (split_line_app s) as H. destruct (split_line s) as [l r]. simpl.
  subst s. rewrite app_length. reflexivity. Qed.
Lemma split_line_fst_nonempty s : s <> [] -> fst (split_line s) <> [].
Proof. destruct s as [|c s]; [congruence|]. intros _. simpl. destruct (N.eqb c 10); simpl; [congruence|].
  destruct (split_line s); simpl; congruence. Qed.
Lemma split_line_length s : s <> [] -> (length (snd (split_line s)) < length s)%nat.
Proof. intro H. pose proof (split_line_len s). pose proof (split_line_fst_nonempty s H) as Hn.
  destruct (fst (split_line s)); [congruence|]. simpl in *. lia. Qed.

(* ASCII literals *)
Definition SP : byte := 32. Definition CR : byte := 13. Definition LF : byte := 10.
Definition CRLF : bytes := [13; 10].
Definition COLON_SP : bytes := [58; 32].
