(* Model of JSON::parse_as_properties (src/json/object/mod.rs) and JSONProperty::parse (src/json/property/mod.rs) *)
From Rws Require Import Str Utf8 Num RespParse.
Open Scope N_scope.

Inductive jty := TString | TBool | TObject | TArray | TInt | TFloat.
Inductive jval := VNull | VStr (s : list N) | VInt (neg : bool) (m : N) | VFloat (raw : list N) | VArr (raw : list N) | VObj (raw : list N) | VBool (b : bool).
Inductive jres (A : Type) := JOk (a : A) | JErr.
Arguments JOk {A}. Arguments JErr {A}.

Definition QUOTE : N := 34.
(* read_until(delim): bytes up to and including delim (or everything) *)
Fixpoint read_until (d : N) (s : list N) : list N * list N :=
  match s with [] => ([], []) | c :: r => if N.eqb c d then ([c], r) else let (a, b') := read_until d r in (c :: a, b') end.

Definition is_ascii_digit (c : N) := N.leb 48 c && N.leb c 57.
(* Rust f64::from_str restricted to what the scanner lets through: digits '.' 'e' '-' *)
Fixpoint take_digits (s : list N) : list N * list N :=
  match s with c :: r => if is_ascii_digit c then let (a, b') := take_digits r in (c :: a, b') else ([], s) | [] => ([], []) end.
Definition f64_ok (s : list N) : bool :=
  let s0 := match s with 45 :: r => r | 43 :: r => r | _ => s end in
  let (ip, r1) := take_digits s0 in
  let '(fp, r2, dot) := match r1 with 46 :: r => let (f, r') := take_digits r in (f, r', true) | _ => ([], r1, false) end in
  match ip, fp with [], [] => false | _, _ =>
  match r2 with
  | [] => true
  | e :: r3 => if N.eqb e 101 || N.eqb e 69 then
                 let r4 := match r3 with 45 :: r => r | 43 :: r => r | _ => r3 end in
                 let (ex, r5) := take_digits r4 in
                 match ex, r5 with _ :: _, [] => true | _, _ => false end
               else false
  end end.
Definition parse_i128 := parse_signed (2 ^ 127).

(* JSONProperty::parse *)
Definition starts1 (s : list N) (c : N) := match s with x :: _ => N.eqb x c | [] => false end.
Definition ends1 (s : list N) (c : N) := starts1 (rev s) c.
Definition NULL_S : list N := [110;117;108;108].
Definition TRUE_S : list N := [116;114;117;101].
Definition FALSE_S : list N := [102;97;108;115;101].
(* what a trimmed value text is taken for, once key and value are separated *)
Definition property_value (name v : list N) : jres (list N * jty * jval) :=
    let is_null := beqs v NULL_S in
    let is_string := starts1 v QUOTE && ends1 v QUOTE in
    let is_array := starts1 v 91 && ends1 v 93 in
    let is_object := starts1 v 123 && ends1 v 125 in
    let is_bool := beqs v TRUE_S || beqs v FALSE_S in
    let is_number := negb is_string && negb is_null && negb is_array && negb is_object && negb is_bool in
    (* the flags are tested in this order; later assignments overwrite earlier ones *)
    let r0 : option (jty * jval) := None in
    let r1 := if is_null then Some (TString, VNull) else r0 in
    let r2 := if is_string then Some (TString, VStr (remove_byte QUOTE v)) else r1 in
    match (if is_number then
             match parse_i128 v with
             | Some (ng, m) => JOk (Some (TInt, VInt ng m))
             | None => if f64_ok v then JOk (Some (TFloat, VFloat v)) else JErr
             end
           else JOk r2) with
    | JErr => JErr
    | JOk r3 =>
      let r4 := if is_array then Some (TArray, VArr v) else r3 in
      let r5 := if is_object then Some (TObject, VObj v) else r4 in
      let r6 := if is_bool then Some (TBool, VBool (beqs v TRUE_S)) else r5 in
      match r6 with Some (t, x) => JOk (name, t, x) | None => JOk ([], TString, VNull) end
    end.
Definition property_parse (raw : list N) : jres (list N * jty * jval) :=
  match split_once (trim raw) [58] with
  | None => JErr
  | Some (k0, v0) => property_value (remove_byte QUOTE (trim k0)) (trim v0)
  end.

(* "read till comma" tail shared by string / null / true / false / array / object values:
   returns (rest, finished) or an error *)
Definition tail_till_comma (rest : list N) : jres (list N * bool) :=
  let (buf, rest') := read_until 44 rest in
  if negb (utf8_valid buf) then JErr else
  let f := filter_ascii_control buf in
  if negb (beqs f []) && negb (beqs f [125]) && negb (beqs f [44]) then JErr
  else JOk (rest', match rest' with [] => true | _ => false end).

Definition is_ws_ctl (c : N) : bool := N.eqb c 32 || N.eqb c 10 || N.eqb c 13 || is_ascii_control c.
(* read single bytes until a significant one; a byte >= 128 is a from_utf8 error on a 1-byte buffer *)
Fixpoint skip_ws (s : list N) : jres (N * list N) :=
  match s with
  | [] => JErr                                       (* read_exact fails *)
  | c :: r => if N.leb 128 c then JErr else if is_ws_ctl c then skip_ws r else JOk (c, r)
  end.
(* string value: bytes until a quote, or until the byte after a backslash *)
Fixpoint read_string (s : list N) (last : N) (acc : list N) : jres (list N * list N) :=
  match s with
  | [] => JErr
  | c :: r => if N.leb 128 c then JErr else
              if N.eqb c QUOTE || N.eqb last 92 then JOk (acc ++ [c], r) else read_string r c (acc ++ [c])
  end.
Fixpoint read_exact_n (n : nat) (s : list N) : option (list N * list N) :=
  match n with O => Some ([], s) | S k => match s with [] => None | c :: r => match read_exact_n k r with Some (a, b') => Some (c :: a, b') | None => None end end end.
(* balanced reader for '[' ... ']' / '{' ... '}'; a quotation mark toggles "inside a string", where brackets are text (fix) *)
Fixpoint read_balanced_s (op cl : N) (s : list N) (opened closed : nat) (ins : bool) (acc : list N) : jres (list N * list N) :=
  match s with
  | [] => JErr
  | c :: r => if N.leb 128 c then JErr else
    let ins' := if N.eqb c QUOTE then negb ins else ins in
    let o := if N.eqb c op && negb ins' then S opened else opened in
    let k := if N.eqb c cl && negb ins' then S closed else closed in
    if Nat.eqb o k then JOk (acc ++ [c], r) else read_balanced_s op cl r o k ins' (acc ++ [c])
  end.
Definition read_balanced (op cl : N) (s : list N) (opened closed : nat) (acc : list N) := read_balanced_s op cl s opened closed false acc.
(* number: digits . e - appended; CR LF space skipped; '}' ends without comma; ',' ends with comma; else error *)
Fixpoint read_number (s : list N) (acc : list N) : jres (list N * list N * bool) :=
  match s with
  | [] => JErr
  | c :: r => if N.leb 128 c then JErr else
    if N.eqb c 13 || N.eqb c 10 || N.eqb c 32 then read_number r acc else
    if is_ascii_digit c || N.eqb c 46 || N.eqb c 101 || N.eqb c 45 then read_number r (acc ++ [c]) else
    if N.eqb c 125 then JOk (acc, r, false) else
    if N.eqb c 44 then JOk (acc, r, true) else JErr
  end.

(* one key: the text up to and including ':', the first significant byte of the value, and what follows it *)
Inductive keyres := KOk (kv1 : list N) (v : N) (r4 : list N) | KEmpty | KErr.
Definition read_key (first : bool) (rest : list N) : keyres :=
  (* opening quote of the key, preceded only by whitespace / control characters *)
  let (b1, r1) := read_until QUOTE rest in
  if negb (utf8_valid b1) then KErr else
  if first && beqs (filter_ascii_control b1) [125] then KEmpty else      (* an object without properties (fix) *)
  if negb (beqs (filter_ascii_control b1) [QUOTE]) then KErr else
  let (b2, r2) := read_until QUOTE r1 in
  if negb (utf8_valid b2) then KErr else
  (* the ':' delimiter *)
  match skip_ws r2 with JErr => KErr | JOk (c, r3) =>
  if negb (N.eqb c 58) then KErr else
  match skip_ws r3 with JErr => KErr | JOk (v, r4) => KOk ((b1 ++ b2) ++ [58]) v r4 end end.
(* one value, dispatched on its first significant byte: the key-value text for JSONProperty::parse, the rest, and whether the input is used up *)
Definition read_value (kv1 : list N) (v : N) (r4 : list N) : jres (list N * list N * bool) :=
  let with_tail (kv : list N) (rest' : list N) :=
    match tail_till_comma rest' with JErr => JErr | JOk (r', done) => JOk (kv, r', done) end in
  if N.eqb v QUOTE then
    match read_string r4 QUOTE [] with JErr => JErr | JOk (s, r5) => with_tail (kv1 ++ [QUOTE] ++ s) r5 end
  else if N.eqb v 110 then
    match read_exact_n 3 r4 with Some (w, r5) => if utf8_valid w && beqs w [117;108;108] then with_tail (kv1 ++ NULL_S) r5 else JErr | None => JErr end
  else if N.eqb v 116 then
    match read_exact_n 3 r4 with Some (w, r5) => if utf8_valid w && beqs w [114;117;101] then with_tail (kv1 ++ TRUE_S) r5 else JErr | None => JErr end
  else if N.eqb v 102 then
    match read_exact_n 4 r4 with Some (w, r5) => if utf8_valid w && beqs w [97;108;115;101] then with_tail (kv1 ++ FALSE_S) r5 else JErr | None => JErr end
  else if N.eqb v 91 then
    match read_balanced 91 93 r4 1 0 [] with JErr => JErr | JOk (s, r5) => with_tail (kv1 ++ [91] ++ s) r5 end
  else if N.eqb v 123 then
    match read_balanced 123 125 r4 1 0 [] with JErr => JErr | JOk (s, r5) => with_tail (kv1 ++ [123] ++ s) r5 end
  else if is_ascii_digit v || N.eqb v 45 then      (* '-' since the sign fix *)
    match read_number r4 [v] with
    | JErr => JErr
    | JOk (num, r5, comma) =>
      if comma then JOk (kv1 ++ num, r5, false)
      else let (_, r6) := read_until 44 r5 in JOk (kv1 ++ num, r6, match r6 with [] => true | _ => false end)
    end
  else JErr.

Fixpoint props_loop (fuel : nat) (rest : list N) (acc : list (list N * jty * jval)) : jres (list (list N * jty * jval)) :=
  match fuel with O => JErr | S f =>
  match read_key (match acc with [] => true | _ => false end) rest with
  | KErr => JErr
  | KEmpty => JOk []
  | KOk kv1 v r4 =>
    match read_value kv1 v r4 with
    | JErr => JErr
    | JOk (kv, rest', finished) =>
      match property_parse kv with
      | JErr => JErr
      | JOk p => if finished then JOk (acc ++ [p]) else props_loop f rest' (acc ++ [p])
      end
    end
  end end.

Definition parse_as_properties (json : list N) : jres (list (list N * jty * jval)) :=
  let (b0, r0) := read_until 123 json in
  if negb (utf8_valid b0) then JErr else props_loop (S (length json)) r0 [].
