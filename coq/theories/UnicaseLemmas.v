(* facts about the Unicode-aware case mapping that proofs need: on ASCII strings it is the ASCII mapping *)
From Rws Require Import Str Utf8 Unicase.
Open Scope N_scope.
Lemma ulower_ascii s : is_ascii s = true -> ulower s = lower s.
Proof. intro H. unfold ulower. rewrite H. reflexivity. Qed.
Lemma uupper_ascii s : is_ascii s = true -> uupper s = upper s.
Proof. intro H. unfold uupper. rewrite H. reflexivity. Qed.
(* the final-sigma rule on concrete words (std's documentation examples among them): 'ΟΔΟΣ' -> 'οδος'; a single 'Σ' -> 'σ'; 'ΑΣΑ' -> 'ασα';
   an apostrophe or a combining mark after the sigma is skipped ('ΑΣ'' -> 'ας''), one before it too ('Α'Σ' -> 'α'ς'); a digit before it is
   not cased ('1Σ' -> '1σ'); 'ΣΣ' -> 'σς' *)
Example final_sigma_examples :
  ulower [206;159;206;148;206;159;206;163] = [206;191;206;180;206;191;207;130] /\
  ulower [206;163] = [207;131] /\
  ulower [206;145;206;163;206;145] = [206;177;207;131;206;177] /\
  ulower [206;145;206;163;39] = [206;177;207;130;39] /\
  ulower [206;145;39;206;163] = [206;177;39;207;130] /\
  ulower [49;206;163] = [49;207;131] /\
  ulower [206;163;206;163] = [207;131;207;130] /\
  ulower [206;145;206;163;204;129;32;206;145] = [206;177;207;130;204;129;32;206;177] /\
  uupper [207;130] = [206;163].
Proof. vm_compute. repeat split. Qed.
