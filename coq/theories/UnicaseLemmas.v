(* facts about the Unicode-aware case mapping that proofs need: on ASCII strings it is the ASCII mapping *)
From Rws Require Import Str Utf8 Unicase.
Open Scope N_scope.
Lemma ulower_ascii s : is_ascii s = true -> ulower s = lower s.
Proof. intro H. unfold ulower. rewrite H. reflexivity. Qed.
Lemma uupper_ascii s : is_ascii s = true -> uupper s = upper s.
Proof. intro H. unfold uupper. rewrite H. reflexivity. Qed.
