(* C09 — HEAD and OPTIONS behave consistently with GET *)
From Rws Require Import Str Utf8 Num Fs UrlParse RangeSpec Request GenMime Mime StaticRes GenConsts Forms Server C10Proof C01Proof C01Process.
Open Scope N_scope.

Definition with_method (m : list N) (r : request) : request := mkR m (uri r) (version r) (headers r) (body r).

(* what a controller can observe of the method, for GET and for HEAD, is the same except for the exact-GET test *)
Lemma m_get : beqs GET OPTIONS = false /\ beqs HEAD OPTIONS = false /\ beqs GET POST = false /\ beqs HEAD POST = false /\
              is_ghO GET = true /\ is_ghO HEAD = true /\ is_ghO OPTIONS = true /\ beqs OPTIONS POST = false /\ beqs OPTIONS GET = false.
Proof. vm_compute. repeat split. Qed.

Lemma get_header_with m r n : get_header (with_method m r) n = get_header r n.
Proof. reflexivity. Qed.

Lemma cors_head cfg r : method r = GET -> cors_headers cfg (with_method HEAD r) = cors_headers cfg r.
Proof.
  intro Hm. destruct cfg; cbn [cors_headers]; unfold cors_allow_all, cors_off; rewrite !get_header_with; cbn [method with_method]; rewrite Hm.
  - destruct (get_header r Hd_ORIGIN); reflexivity.
  - destruct (get_header r Hd_ORIGIN); reflexivity.
Qed.
Lemma default_head cfg r : method r = GET -> default_headers cfg (with_method HEAD r) = default_headers cfg r.
Proof. intro Hm. unfold default_headers. rewrite cors_head by exact Hm. reflexivity. Qed.

Lemma process_static_method m r fs : process_static fs (with_method m r) = process_static fs r.
Proof. reflexivity. Qed.

Lemma is_matching_head fs r : method r = GET -> is_matching fs (with_method HEAD r) = is_matching fs r.
Proof. intro Hm. unfold is_matching. cbn [method uri with_method]. rewrite Hm. reflexivity. Qed.
Lemma is_matching_legacy_head fs r : method r = GET -> is_matching_legacy fs (with_method HEAD r) = is_matching_legacy fs r.
Proof. intro Hm. unfold is_matching_legacy. cbn [method uri with_method]. rewrite Hm. reflexivity. Qed.

(* GET /form-get-method is a GET-only demo endpoint: outside C09's domain (the property speaks of files and built-in pages) *)
Definition form_get_target (r : request) : bool :=
  match uri_path (uri r) with UOk p => beqs p PATH_FORM_GET | _ => false end.

Theorem head_as_get lg cfg fs r :
  method r = GET -> form_get_target r = false ->
  app_execute_gen lg cfg fs (with_method HEAD r) = app_execute_gen lg cfg fs r.
Proof.
  intros Hm Hf. unfold app_execute_gen.
  rewrite (default_head cfg r Hm).
  unfold upload_controller, urlenc_controller, formget_controller, multipart_controller, static_process, static_process_legacy.
  rewrite !get_header_with, !process_static_method, (is_matching_head fs r Hm), (is_matching_legacy_head fs r Hm).
  cbn [method uri body with_method]. rewrite Hm.
  destruct m_get as (E1 & E2 & E3 & E4 & E5 & E6 & _). rewrite E1, E2, E3, E4, E5, E6.
  unfold form_get_target in Hf.
  destruct (uri_path (uri r)) as [p| |]; [rewrite Hf|..]; reflexivity.
Qed.

(* on the wire: the HEAD response is the GET response without its body *)
Lemma wire_head rs : generate_response rs GET = generate_response rs HEAD ++ gen_body (rs_ranges rs).
Proof. unfold generate_response. change (beqs GET HEAD || beqs GET OPTIONS) with false. change (beqs HEAD HEAD || beqs HEAD OPTIONS) with true.
  cbv iota. rewrite app_nil_r. repeat rewrite <- app_assoc. reflexivity. Qed.
Lemma wire_options rs : exists head, generate_response rs OPTIONS = head ++ CRLF ++ CRLF \/ generate_response rs OPTIONS = head ++ CRLF.
Proof. eexists. right. unfold generate_response. change (beqs OPTIONS HEAD || beqs OPTIONS OPTIONS) with true. cbv iota. rewrite app_nil_r.
  repeat rewrite app_assoc. reflexivity. Qed.

Lemma is_matching_options fs r : method r = GET -> is_matching fs (with_method OPTIONS r) = is_matching fs r.
Proof. intro Hm. unfold is_matching. cbn [method uri with_method]. rewrite Hm. reflexivity. Qed.
Lemma is_matching_legacy_options fs r : method r = GET -> beqs (uri r) [47] = false ->
  is_matching_legacy fs (with_method OPTIONS r) = is_matching_legacy fs r.
Proof. intros Hm Hu. unfold is_matching_legacy. cbn [method uri with_method]. rewrite Hm, Hu.
  change (beqs OPTIONS GET) with false. change (beqs OPTIONS HEAD) with false. change (beqs OPTIONS OPTIONS) with true.
  change (beqs GET GET) with true. cbn [orb andb negb]. reflexivity. Qed.

Definition served (s : N) : bool := N.eqb s 200 || N.eqb s 206.
Definition success_no_content (s : N) : bool := N.eqb s 200 || N.eqb s 204.

Lemma asset_status_indep fs f b ct st rs0 rs0' :
  rs_status (asset_controller fs f b ct st rs0') = rs_status (asset_controller fs f b ct st rs0).
Proof. unfold asset_controller. destruct (is_file fs (rel fs f)); [|reflexivity].
  destruct (node_at fs (rel fs f) true) as [[[nd q] via]|]; [destruct nd|]; reflexivity. Qed.

Lemma asset_options fs f b ct rs0 rs0' rs :
  SOk (asset_controller fs f b ct 200 rs0) = SOk rs -> served (rs_status rs) = true ->
  exists rs', @SOk response (asset_controller fs f b ct 200 rs0') = SOk rs' /\ success_no_content (rs_status rs') = true.
Proof.
  intros H Hs. inversion H; subst. eexists. split; [reflexivity|]. unfold served in Hs. unfold success_no_content.
  rewrite (asset_status_indep fs f b ct 200 rs0 rs0'). destruct (asset_status fs f b ct 200 rs0) as [-> | E]; [reflexivity|].
  rewrite E in Hs. discriminate.
Qed.
Lemma asset404_not_served fs f b ct rs0 rs : @SOk response (asset_controller fs f b ct 404 rs0) = SOk rs -> served (rs_status rs) = true -> False.
Proof. intros H Hs. inversion H; subst. destruct (asset_status fs f b ct 404 rs0) as [E | E]; rewrite E in Hs; discriminate. Qed.

(* the reader's error statuses *)
Definition err3 (st : N) : Prop := st = 404 \/ st = 416 \/ st = 500.
Lemma path_or_panic_noerr u st : path_or_panic u <> SErr st.
Proof. unfold path_or_panic. destruct (target_url u); discriminate. Qed.
Lemma read_specs_err fs lnk path L : forall specs st, read_specs fs lnk path L specs = SErr st -> err3 st.
Proof.
  induction specs as [|sp rest IH]; intros st H; cbn [read_specs] in H; [discriminate|].
  destruct (parse_range L sp) as [[a b']| |]; try discriminate; [|inversion H; right; left; reflexivity].
  destruct (read_range fs path a b'); try discriminate; [|inversion H; right; left; reflexivity].
  destruct (read_specs fs lnk path L rest) eqn:E; try discriminate. inversion H; subst. eapply IH. reflexivity.
Qed.
Lemma pcr_err fs lnk path L v st : parse_content_range fs lnk path L v = SErr st -> err3 st.
Proof. unfold parse_content_range. destruct (negb (starts_with v BYTES_EQ)); [intro H; inversion H; right; left; reflexivity|].
  destruct (split v [61]) as [|x [|raw r]]; try (intro H; inversion H; right; left; reflexivity). apply read_specs_err. Qed.
Lemma gcrl_err fs u rv st : get_content_range_list fs u rv = SErr st -> err3 st.
Proof.
  unfold get_content_range_list. destruct (path_or_panic u) as [P|s|s] eqn:EP;
    [|intros _; exfalso; eapply path_or_panic_noerr; eauto|discriminate].
  destruct (has_dotdot P); [intro H; inversion H; left; reflexivity|].
  destruct (metadata fs (cwd_str fs ++ P)) as [[| |]|]; try discriminate; try (intro H; inversion H; right; right; reflexivity).
  destruct (is_symlink fs (cwd_str fs ++ P)) as [[|]|]; destruct (file_len fs (cwd_str fs ++ P)) as [L|];
    try (intro H; inversion H; right; right; reflexivity); try apply pcr_err.
  destruct (read_link fs (cwd_str fs ++ P)); [|intro H; inversion H; right; right; reflexivity].
  match goal with |- context [resolve_symlink_lex ?f ?d ?t] => destruct (resolve_symlink_lex f d t) end; [apply pcr_err|intro H; inversion H; right; right; reflexivity].
Qed.
Lemma process_static_err fs r st : process_static fs r = SErr st -> err3 st.
Proof.
  unfold process_static. destruct (path_or_panic (uri r)) as [P|s|s] eqn:EP;
    [|intros _; exfalso; eapply path_or_panic_noerr; eauto|discriminate].
  match goal with |- match ?md with _ => _ end = _ -> _ => destruct md as [[| |]|] end; try discriminate;
  repeat match goal with
  | |- (if ?c then _ else _) = _ -> _ => destruct c
  | |- match dir_index ?p with _ => _ end = _ -> _ =>
      let E := fresh "Ed" in destruct (dir_index p) eqn:E; [| exfalso; unfold dir_index in E; destruct (rev p); discriminate |]
  | |- match metadata ?f ?p with _ => _ end = _ -> _ => destruct (metadata f p) as [[| |]|]
  end; try discriminate; try apply gcrl_err.
Qed.

Lemma static_options fs r rs0 rs0' rs : method r = GET ->
  static_process fs r rs0 = SOk rs -> rs_status rs0 = 501 -> served (rs_status rs) = true ->
  exists rs', static_process fs (with_method OPTIONS r) rs0' = SOk rs' /\ success_no_content (rs_status rs') = true.
Proof.
  intros Hm H H0 Hs. unfold static_process in *. rewrite process_static_method. cbn [method uri with_method]. rewrite Hm in H.
  change (beqs OPTIONS OPTIONS) with true. change (beqs GET OPTIONS) with false in H. cbv iota in *.
  destruct (process_static fs r) as [l|st|s] eqn:Ep; try discriminate.
  - destruct l as [|c l'].
    + inversion H; subst. rewrite H0 in Hs. discriminate.
    + destruct (path_or_panic (uri r)); try discriminate. eexists. split; reflexivity.
  - inversion H; subst. cbn [rs_status] in Hs. apply process_static_err in Ep. exfalso.
    destruct Ep as [-> | [-> | ->]]; discriminate.
Qed.
Lemma static_legacy_options fs r rs0 rs0' rs : method r = GET ->
  static_process_legacy fs r rs0 = SOk rs -> rs_status rs0 = 501 -> served (rs_status rs) = true ->
  exists rs', static_process_legacy fs (with_method OPTIONS r) rs0' = SOk rs' /\ success_no_content (rs_status rs') = true.
Proof.
  intros Hm H H0 Hs. unfold static_process_legacy in *. rewrite process_static_method. cbn [method uri with_method]. rewrite Hm in H.
  change (beqs OPTIONS OPTIONS) with true. change (beqs GET OPTIONS) with false in H. cbv iota in *.
  destruct (process_static fs r) as [l|st|s] eqn:Ep; try discriminate.
  - destruct l as [|c l'].
    + inversion H; subst. rewrite H0 in Hs. discriminate.
    + eexists. split; reflexivity.
  - inversion H; subst. cbn [rs_status] in Hs. apply process_static_err in Ep. exfalso.
    destruct Ep as [-> | [-> | ->]]; discriminate.
Qed.

(* controllers that need POST (or exactly GET) do not match otherwise, whatever response they are handed *)
Definition path_gate (u : list N) : fres := match uri_path u with UPanicPort => FPanicPort | _ => FNoMatch end.
Lemma upload_nopost cfg r rs0 : beqs (method r) POST = false -> upload_controller cfg r rs0 = path_gate (uri r).
Proof. intro H. unfold upload_controller, path_gate. destruct (uri_path (uri r)); try reflexivity. rewrite H, andb_false_r. reflexivity. Qed.
Lemma urlenc_nopost r rs0 : beqs (method r) POST = false -> urlenc_controller r rs0 = FNoMatch.
Proof. intro H. unfold urlenc_controller. destruct (get_header r Hd_CONTENT_TYPE); [|reflexivity].
  destruct (negb _); [reflexivity|]. rewrite H, andb_false_r. reflexivity. Qed.
Lemma formget_noget r rs0 : beqs (method r) GET = false -> formget_controller r rs0 = path_gate (uri r).
Proof. intro H. unfold formget_controller, path_gate. destruct (uri_path (uri r)); try reflexivity. rewrite H, andb_false_r. reflexivity. Qed.
Lemma formget_nonform r rs0 : form_get_target r = false -> formget_controller r rs0 = path_gate (uri r).
Proof. intro H. unfold formget_controller, path_gate, form_get_target in *. destruct (uri_path (uri r)); try reflexivity. rewrite H. reflexivity. Qed.
Lemma multi_nopost r rs0 : beqs (method r) POST = false ->
  multipart_controller r rs0 = match get_header r Hd_CONTENT_TYPE with Some _ => path_gate (uri r) | None => FNoMatch end.
Proof. intro H. unfold multipart_controller, path_gate. destruct (get_header r Hd_CONTENT_TYPE); [|reflexivity].
  destruct (uri_path (uri r)); try reflexivity. destruct (negb (starts_with _ _)); [reflexivity|]. rewrite H, andb_false_r. reflexivity. Qed.

Theorem options_success lg cfg fs r rs :
  method r = GET -> form_get_target r = false ->
  app_execute_gen lg cfg fs r = SOk rs -> served (rs_status rs) = true ->
  exists rs', app_execute_gen lg cfg fs (with_method OPTIONS r) = SOk rs' /\ success_no_content (rs_status rs') = true.
Proof.
  intros Hm Hf. unfold app_execute_gen.
  set (rs0 := mkResp 501 (reason 501) (default_headers cfg r) []).
  set (rs0' := mkResp 501 (reason 501) (default_headers cfg (with_method OPTIONS r)) []).
  assert (Hp : beqs (method r) POST = false) by (rewrite Hm; reflexivity).
  assert (Hp' : beqs (method (with_method OPTIONS r)) POST = false) by reflexivity.
  assert (Hg' : beqs (method (with_method OPTIONS r)) GET = false) by reflexivity.
  rewrite (upload_nopost cfg r rs0 Hp), (urlenc_nopost r rs0 Hp), (formget_nonform r rs0 Hf), (multi_nopost r rs0 Hp).
  rewrite (upload_nopost cfg _ rs0' Hp'), (urlenc_nopost _ rs0' Hp'), (formget_noget _ rs0' Hg'), (multi_nopost _ rs0' Hp').
  rewrite !get_header_with, (is_matching_options fs r Hm).
  cbn [method uri with_method]. rewrite Hm.
  change (is_ghO GET) with true. change (is_ghO OPTIONS) with true. rewrite !orb_true_r. cbn [andb].
  destruct (negb (starts_with (uri r) [47])); [intros H Hs; inversion H; subst; discriminate|].
  destruct (beqs (uri r) [47]) eqn:Eroot; [apply asset_options|].
  rewrite (is_matching_legacy_options fs r Hm Eroot).
  destruct (beqs (uri r) (47 :: NAME_STYLE)); [apply asset_options|].
  destruct (beqs (uri r) (47 :: NAME_SCRIPT)); [apply asset_options|].
  destruct (path_gate (uri r)) eqn:Eg; try (intros H; discriminate);
    try (exfalso; unfold path_gate in Eg; destruct (uri_path (uri r)); discriminate).
  destruct (get_header r Hd_CONTENT_TYPE) as [ct|];
  (destruct (beqs (uri r) (47 :: NAME_FAVICON)); [apply asset_options|]);
  (destruct lg;
   [ destruct (is_matching_legacy fs r); [intros H Hs; eapply static_legacy_options; eauto; reflexivity|intros H Hs; exfalso; eapply asset404_not_served; eauto]
   | destruct (is_matching fs r) as [[|]| |]; try (intros H; discriminate);
     [intros H Hs; eapply static_options; eauto; reflexivity|intros H Hs; exfalso; eapply asset404_not_served; eauto] ]).
Qed.

(* the response record for HEAD is the one for GET; for OPTIONS a success status with the request's CORS grants in front *)
Theorem options_grants lg cfg fs r rs' :
  app_execute_gen lg cfg fs (with_method OPTIONS r) = SOk rs' ->
  exists rest, rs_headers rs' = cors_headers (cf_cors cfg) (with_method OPTIONS r) ++ rest.
Proof. apply cors_prefix. Qed.
Lemma wire_options_bodiless rs : generate_response rs OPTIONS = generate_response rs HEAD.
Proof. reflexivity. Qed.

(* non-vacuity on the probe tree: GET /a.txt is 200, HEAD is the same record, OPTIONS is 204 *)
Definition rq (m u : list N) : request := mkR m u HTTP11 [] [].
Example triple_a_txt :
  (exists rs, app_execute_gen false cfg0 fs0 (rq GET [47;97;46;116;120;116]) = SOk rs /\ rs_status rs = 200 /\
              app_execute_gen false cfg0 fs0 (rq HEAD [47;97;46;116;120;116]) = SOk rs) /\
  (exists rs', app_execute_gen false cfg0 fs0 (rq OPTIONS [47;97;46;116;120;116]) = SOk rs' /\ rs_status rs' = 204).
Proof. split; eexists; (split; [vm_compute; reflexivity|]); [split|]; vm_compute; reflexivity. Qed.
