(* url-search-params, FormUrlEncoded, Header::parse_header, ContentDisposition::parse, FormMultipartData::parse *)
From Rws Require Import Str Utf8 Num Request GenCodec.
Open Scope N_scope.

(* ---- url-search-params ---- *)
Definition run_chain (ch : list (list N * list N)) (s : list N) : list N :=
  fold_left (fun acc pr => replace acc (fst pr) (snd pr)) ch s.
Definition encode_uri := run_chain enc_chain.
Definition decode_uri := run_chain dec_chain.
(* the codes the decoder handles AFTER percent-2-5 (its 8th step): a literal percent sign followed by such a code does not survive (C17-F1) *)
Definition late_codes : list (list N) := map fst (skipn 8 dec_chain).
Definition early_codes : list (list N) := map fst (firstn 8 dec_chain).
(* the original string holds a percent sign followed by a, b *)
Fixpoint has_pat (a b : N) (s : list N) : bool :=
  match s with
  | [] => false
  | c :: r => (N.eqb c 37 && match r with x :: y :: _ => N.eqb x a && N.eqb y b | _ => false end) || has_pat a b r
  end.

(* the listed class C17-F1, on the original string: a percent sign followed by a late code *)
Definition in_F1 (s : list N) : bool :=
  existsb (fun code => match code with [_; a; b] => has_pat a b s | _ => false end) late_codes.

(* HashMap as an association list; insert overwrites *)
Fixpoint insert (k v : list N) (m : list (list N * list N)) : list (list N * list N) :=
  match m with
  | [] => [(k, v)]
  | (k', v') :: r => if beqs k k' then (k, v) :: r else (k', v') :: insert k v r
  end.
Definition parse_query (params : list N) : list (list N * list N) :=
  if beqs (trim params) [] then [] else
  fold_left (fun m param =>
    match split param [61] with
    | k :: rest => let v := match rest with v :: _ => v | [] => [] end in
                   if beqs k [] then m else insert (decode_uri k) (decode_uri v) m
    | [] => m
    end) (split params [38]) [].
Definition form_urlencoded_parse (data : list N) : option (list (list N * list N)) :=
  if utf8_valid data then Some (parse_query (filter_ascii_control data)) else None.

(* ---- the domain of the map-level round-trip theorems of C17 (decidable, evaluated by the model runner) ---- *)
Definition enc_pair (kv : list N * list N) : list N := encode_uri (fst kv) ++ [61] ++ encode_uri (snd kv).
(* the query text of a list of fields: name=value pairs joined by ampersands *)
Definition build_query (m : list (list N * list N)) : list N := join_with 38 (map enc_pair m).

Definition field_ok_b (kv : list N * list N) : bool :=
  forallb (fun c => N.ltb c 256) (fst kv) && forallb (fun c => N.ltb c 256) (snd kv) && negb (beqs (fst kv) []) && negb (in_F1 (fst kv)) && negb (in_F1 (snd kv)).
Fixpoint distinct_keys (m : list (list N * list N)) : bool :=
  match m with [] => true | kv :: r => negb (existsb (fun kv' => beqs (fst kv') (fst kv)) r) && distinct_keys r end.

Definition form_text_ok (q : list N) : bool := utf8_valid q && beqs (filter_ascii_control q) q.
Definition map_ok (m : list (list N * list N)) : bool :=
  match m with [] => false | _ => forallb field_ok_b m && distinct_keys m end.

(* ---- Header::parse_header ---- *)
Definition parse_header (raw : list N) : option header :=
  let e := truncate_nl_cr (filter_ascii_control raw) in
  match split_once e [58] with
  | None => None
  | Some (n, v) => Some (mkH (trim n) (trim v))
  end.

(* ---- ContentDisposition::parse ---- *)
Record cdisp := mkCd { cd_type : list N; cd_name : option (list N); cd_file : option (list N) }.
Definition INLINE : list N := [105;110;108;105;110;101].
Definition ATTACHMENT : list N := [97;116;116;97;99;104;109;101;110;116].
Definition FORM_DATA : list N := [102;111;114;109;45;100;97;116;97].
Definition NAME_K : list N := [110;97;109;101].
Definition FILENAME_K : list N := [102;105;108;101;110;97;109;101].
Definition cd_field (elt : list N) (strict : bool) (acc : option (list N) * option (list N)) : option (option (list N) * option (list N)) :=
  match split_once elt [61] with
  | None => None
  | Some (k, v) =>
    let k' := trim k in let v' := remove_byte 34 v in
    let acc1 := if beqs k' FILENAME_K then (fst acc, Some v') else acc in
    let acc2 := if beqs k' NAME_K then (Some v', snd acc1) else acc1 in
    if strict && negb (beqs k' FILENAME_K) && negb (beqs k' NAME_K) then None else Some acc2
  end.
Definition cd_parse (raw : list N) : option cdisp :=
  match split raw [59] with
  | [] => None
  | ty :: rest =>
    if negb (beqs ty INLINE || beqs ty ATTACHMENT || beqs ty FORM_DATA) then None else
    let r1 := match rest with e1 :: _ => cd_field e1 false (None, None) | [] => Some (None, None) end in
    match r1 with None => None | Some acc1 =>
    let r2 := match rest with _ :: e2 :: _ => cd_field e2 true acc1 | _ => Some acc1 end in
    match r2 with None => None | Some (nm, fl) =>
    if beqs ty FORM_DATA && match nm with None => true | Some _ => false end then None
    else Some (mkCd ty nm fl)
    end end
  end.

(* ---- FormMultipartData::parse ---- *)
Record part := mkPart { p_headers : list header; p_body : list N }.
Inductive mres := MOk (ps : list part) | MErr | MPanicWindows0.
Definition strip_hyphens (s : list N) := remove_byte 45 s.
Definition find_sub (hay needle : list N) : bool := contains hay needle.       (* windows(n).position(..).is_some(), n > 0 *)
Definition is_boundary_line (line boundary : list N) : bool :=
  ends_with (strip_hyphens line) (strip_hyphens boundary).

Definition trim_body_end (b : list N) : list N :=
  let n := length b in
  if Nat.ltb n 2 then b else          (* body_length >= 2 (was > 2: an empty body came back as CRLF) *)
  match rev b with
  | 10 :: 13 :: r => rev r
  | 10 :: r => rev r
  | _ => b
  end.

(* header phase of one part: returns (headers, rest) / early Ok / Err *)
Inductive hres := HCont (hs : list header) (rest : list N) | HDone | HErr.
Fixpoint header_phase (fuel : nat) (boundary : list N) (rest : list N) (hs : list header) : hres :=
  match fuel with O => HErr | S f =>
  let (line, rest') := split_line rest in
  if negb (utf8_valid line) then HErr else
  let sline := filter_ascii_control line in
  let empty := beqs (trim sline) [] in
  if is_boundary_line sline boundary then HErr else
  let eof := match rest' with [] => true | _ => false end in                 (* bytes_read == total_bytes *)
  if eof && empty && match hs with [] => true | _ => false end then HDone else     (* line break after the last delimiter *)
  if empty && match hs with [] => true | _ => false end then HErr else
  if empty then (if eof then HErr else HCont hs rest') else
  match parse_header sline with
  | None => HErr
  | Some h => if eof then HErr else header_phase f boundary rest' (hs ++ [h])  (* the input ends inside the headers: no end boundary *)
  end end.

(* body phase: collects lines until one contains the dash-stripped boundary *)
Inductive bres := BFound (body rest : list N) | BEof (body : list N) | BPanic.
(* the delimiter test of the body phase: hyphens, CR and LF removed from the line, which has to END with the hyphen-less boundary *)
Definition is_delim (line esc : list N) : bool :=
  match esc with [] => false | _ => ends_with (filter (fun c => negb (N.eqb c 45 || N.eqb c 13 || N.eqb c 10)) line) esc end.
Fixpoint body_phase (fuel : nat) (esc : list N) (rest : list N) (acc : list N) : bres :=
  match fuel with O => BEof acc | S f =>
  match rest with
  | [] => BEof acc
  | _ =>
    let (line, rest') := split_line rest in
    if is_delim line esc then BFound acc rest' else body_phase f esc rest' (acc ++ line)
  end end.

Fixpoint parts_loop (fuel : nat) (boundary : list N) (rest : list N) (acc : list part) : mres :=
  match fuel with O => MErr | S f =>
  match header_phase (S (length rest)) boundary rest [] with
  | HErr => MErr
  | HDone => MOk acc
  | HCont hs rest1 =>
    match body_phase (S (length rest1)) (strip_hyphens boundary) rest1 [] with
    | BPanic => MPanicWindows0
    | BEof _ => MErr                                         (* no end boundary (bytes_read == total) *)
    | BFound b rest2 =>
      let acc' := acc ++ [mkPart hs (trim_body_end b)] in
      match rest2 with [] => MOk acc' | _ => parts_loop f boundary rest2 acc' end
    end
  end end.

Definition multipart_parse (data boundary : list N) : mres :=
  let (line, rest) := split_line data in
  if negb (utf8_valid line) then MErr else
  let sline := truncate_nl_cr (filter_ascii_control line) in
  if negb (is_boundary_line sline boundary) then MErr else
  parts_loop (S (length rest)) boundary rest [].

Definition extract_boundary (ct : list N) : option (list N) :=
  match split_once ct [98;111;117;110;100;97;114;121;61] with Some (_, bd) => Some bd | None => None end.

(* serialiser, for round-trip statements and for the generator's oracle *)
Definition gen_part (p : part) : list N :=
  flat_map (fun h => hname h ++ COLON_SP ++ hvalue h ++ CRLF) (p_headers p) ++ CRLF ++ p_body p.
Definition multipart_generate (ps : list part) (boundary : list N) : list N :=
  boundary ++ flat_map (fun p => CRLF ++ gen_part p ++ CRLF ++ boundary) ps.

(* observed behaviours *)
Definition B1 : list N := [45;45;66;110;68;49].   (* --BnD1 *)
Definition CDH : header := mkH [67;111;110;116;101;110;116;45;68;105;115;112;111;115;105;116;105;111;110] (FORM_DATA ++ [59;32] ++ NAME_K ++ [61;34;102;34]).
Example mp_abc : multipart_parse (multipart_generate [mkPart [CDH] [97;98;99]] B1) B1 = MOk [mkPart [CDH] [97;98;99]]. Proof. vm_compute. reflexivity. Qed.
Example mp_empty_body : multipart_parse (multipart_generate [mkPart [CDH] []] B1) B1 = MOk [mkPart [CDH] []]. Proof. vm_compute. reflexivity. Qed.   (* was [13;10] *)
Example mp_inner_hyphen : multipart_parse (multipart_generate [mkPart [CDH] [97]] [45;45;66;45;49]) [45;45;66;45;49] = MOk [mkPart [CDH] [97]]. Proof. vm_compute. reflexivity. Qed. (* was MErr *)
Example mp_truncated : multipart_parse ([66;49;13;10;72;58;32;118;13;10]) [66;49] = MErr. Proof. vm_compute. reflexivity. Qed.                (* was MOk [] *)
Example q_late : decode_uri (encode_uri [37;50;54]) = [38]. Proof. vm_compute. reflexivity. Qed.                                               (* "%26" -> "&" *)
