(* C16 — multipart/form-data bodies round-trip part for part *)
From Coq Require Import Arith.
From Rws Require Import Str Utf8 Num Request GenCodec Forms StrLemmas C04Proof.
Open Scope N_scope.

(* reject: a body whose first line is not the boundary (hyphens ignored) is an error, for every input *)
Theorem reject_no_opening_boundary data boundary :
  is_boundary_line (truncate_nl_cr (filter_ascii_control (fst (split_line data)))) boundary = false -> multipart_parse data boundary = MErr.
Proof. intro H. unfold multipart_parse. destruct (split_line data) as [line rest]. cbn [fst] in H.
  destruct (negb (utf8_valid line)); [reflexivity|]. rewrite H. reflexivity. Qed.
(* the trimming of the line break before the delimiter (fix 3670d3a: also for empty and one-byte bodies) *)
Theorem trim_body_end_crlf b : trim_body_end (b ++ [13; 10]) = b.
Proof.
  unfold trim_body_end. rewrite app_length. cbn [length]. destruct (Nat.ltb_spec (length b + 2) 2) as [H|H]; [lia|].
  rewrite rev_app_distr. cbn [rev app]. apply rev_involutive.
Qed.

(* no panic for every input and boundary *)
Theorem multipart_no_panic data boundary : multipart_parse data boundary <> MPanicWindows0.
Proof. exact (windows0_unreachable data boundary). Qed.

(* round trips by computation on representative values (the general statement is not proved yet): empty body, one- and two-byte bodies,
   bodies ending in CR / LF / CRLF, a binary body, several headers, boundaries with leading dashes and an interior hyphen *)
Definition H1 : header := mkH [67;111;110;116;101;110;116;45;68;105;115;112;111;115;105;116;105;111;110] (FORM_DATA ++ [59;32] ++ NAME_K ++ [61;34;102;34]).
Definition H2 : header := mkH [88;45;65] [97;61;98;59;32;99].
Definition parts_rep : list part :=
  [mkPart [H1] []; mkPart [H1; H2] [97]; mkPart [H1] [97;98]; mkPart [H1] [13]; mkPart [H1] [10]; mkPart [H1] [13;10]; mkPart [H2; H1] [120;13;10];
   mkPart [H1] [0;255;45;45;13;10;10;1]].
Definition BD_INNER : list N := [45;45;66;110;68;45;49].      (* --BnD-1 *)
Example roundtrip_rep_b1 : multipart_parse (multipart_generate parts_rep B1) B1 = MOk parts_rep. Proof. vm_compute. reflexivity. Qed.
Example roundtrip_rep_inner_hyphen : multipart_parse (multipart_generate parts_rep BD_INNER) BD_INNER = MOk parts_rep. Proof. vm_compute. reflexivity. Qed.
(* the three regression witnesses of the repaired findings, and the reject clauses on a generated body *)
Example reject_rep :
  multipart_parse (skipn (length B1) (multipart_generate parts_rep B1)) B1 = MErr /\                                          (* opening boundary removed *)
  multipart_parse (firstn (length (multipart_generate parts_rep B1) - length B1) (multipart_generate parts_rep B1)) B1 = MErr /\ (* closing boundary removed *)
  multipart_parse (B1 ++ CRLF ++ CRLF ++ [97] ++ CRLF ++ B1) B1 = MErr /\                                                     (* a part without headers *)
  multipart_parse ([66;49;13;10;72;58;32;118;13;10]) [66;49] = MErr.                                                           (* truncated after a header *)
Proof. repeat split; vm_compute; reflexivity. Qed.
