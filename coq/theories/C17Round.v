(* C17 — the codec round trip in general, for every string without a percent sign: decode_uri (encode_uri s) = s *)
From Coq Require Import Arith.
From Rws Require Import Str Utf8 Num Request GenCodec Forms StrLemmas Sweep.
Open Scope N_scope.

(* ---------- the encoder works character by character ---------- *)
Lemma repl_single c rep : forall s, replace s [c] rep = flat_map (fun x => if N.eqb c x then rep else [x]) s.
Proof.
  unfold replace. induction s as [|x s IH]; [reflexivity|].
  cbn [repl_aux prefixb length Nat.pred flat_map]. rewrite andb_true_r. destruct (N.eqb c x); rewrite IH; reflexivity.
Qed.
Lemma repl_single_app c rep a b : replace (a ++ b) [c] rep = replace a [c] rep ++ replace b [c] rep.
Proof. rewrite !repl_single. apply flat_map_app. Qed.
Definition single_chain (ch : list (list N * list N)) : Prop := Forall (fun pr => exists c, fst pr = [c]) ch.
Lemma chain_app ch : single_chain ch -> forall a b, run_chain ch (a ++ b) = run_chain ch a ++ run_chain ch b.
Proof.
  unfold run_chain. induction ch as [|[p r] ch IH]; intros H a b; [reflexivity|].
  inversion H as [|? ? [c Hc] H']; subst. cbn [fst] in Hc. subst p. cbn [fold_left fst snd]. rewrite repl_single_app. apply IH, H'.
Qed.
Lemma chain_nil ch : run_chain ch [] = [].
Proof. unfold run_chain. induction ch as [|[p r] ch IH]; [reflexivity|]. cbn [fold_left fst snd]. exact IH. Qed.
Lemma chain_charwise ch : single_chain ch -> forall s, run_chain ch s = flat_map (fun c => run_chain ch [c]) s.
Proof.
  intros H. induction s as [|c s IH]; [apply chain_nil|]. change (c :: s) with ([c] ++ s). rewrite chain_app by exact H. rewrite IH. reflexivity.
Qed.
Lemma enc_single : single_chain enc_chain.
Proof. unfold single_chain. apply Forall_forall. intros pr Hi.
  assert (G : forallb (fun pr => Nat.eqb (length (fst pr)) 1) enc_chain = true) by (vm_compute; reflexivity).
  pose proof (proj1 (forallb_forall _ _) G pr Hi) as H. cbv beta in H. destruct (fst pr) as [|c [|d t]]; try discriminate. exists c. reflexivity.
Qed.
Theorem encode_charwise s : encode_uri s = flat_map (fun c => encode_uri [c]) s.
Proof. apply chain_charwise, enc_single. Qed.

(* ---------- the decoder on a sequence of tokens ---------- *)
(* a token: one character that is not the percent sign, or a percent sign and two characters that are not percent signs, but not percent-2-5 *)
Definition tok_ok (t : list N) : bool :=
  match t with
  | [x] => negb (N.eqb x 37)
  | [p0; a; b] => N.eqb p0 37 && negb (N.eqb a 37) && negb (N.eqb b 37) && negb (N.eqb a 50 && N.eqb b 53)
  | _ => false
  end.
(* a decoder step: pattern percent a b (a, b not percent), replacement one character that is a percent sign only for percent-2-5 *)
Definition step_ok (pr : list N * list N) : bool :=
  match fst pr, snd pr with
  | [p0; a; b], [r] => N.eqb p0 37 && negb (N.eqb a 37) && negb (N.eqb b 37) && (negb (N.eqb r 37) || (N.eqb a 50 && N.eqb b 53))
  | _, _ => false
  end.
Definition step_tok (pr : list N * list N) (t : list N) : list N := if beqs t (fst pr) then snd pr else t.

Lemma step_ok_shape pr : step_ok pr = true -> exists a b r, pr = ([37; a; b], [r]) /\ N.eqb a 37 = false /\ N.eqb b 37 = false /\ (N.eqb r 37 = false \/ (a = 50 /\ b = 53)).
Proof.
  destruct pr as [p r]. unfold step_ok. cbn [fst snd]. destruct p as [|p0 [|a [|b [|? ?]]]]; try discriminate. destruct r as [|r0 [|? ?]]; try discriminate.
  intro H. apply andb_prop in H as [H Hr]. apply andb_prop in H as [H Hb]. apply andb_prop in H as [H0 Ha]. apply N.eqb_eq in H0. subst p0.
  apply negb_true_iff in Ha, Hb. exists a, b, r0. repeat split; auto.
  apply orb_prop in Hr as [Hr|Hr]; [left; apply negb_true_iff; exact Hr|right; apply andb_prop in Hr as [H1 H2]; apply N.eqb_eq in H1, H2; auto].
Qed.
Lemma tok_ok_shape t : tok_ok t = true -> (exists x, t = [x] /\ N.eqb x 37 = false) \/ (exists a b, t = [37; a; b] /\ N.eqb a 37 = false /\ N.eqb b 37 = false /\ ~ (a = 50 /\ b = 53)).
Proof.
  destruct t as [|x [|a [|b [|? ?]]]]; try discriminate; cbn [tok_ok]; intro H.
  - left. exists x. split; [reflexivity|apply negb_true_iff; exact H].
  - right. apply andb_prop in H as [H Hn]. apply andb_prop in H as [H Hb]. apply andb_prop in H as [H0 Ha]. apply N.eqb_eq in H0. subst x.
    apply negb_true_iff in Ha, Hb, Hn. exists a, b. repeat split; auto. intros [-> ->]. discriminate.
Qed.

Lemma step_on_tokens pr : step_ok pr = true -> forall toks, forallb tok_ok toks = true ->
  replace (concat toks) (fst pr) (snd pr) = concat (map (step_tok pr) toks).
Proof.
  intros Hs. destruct (step_ok_shape pr Hs) as (a & b & r & -> & Ha & Hb & _). cbn [fst snd].
  unfold replace. induction toks as [|t toks IH]; intro Ht; [reflexivity|].
  cbn [forallb] in Ht. apply andb_prop in Ht as [Ht Hts]. specialize (IH Hts). cbn [concat map]. unfold step_tok at 1. cbn [fst snd].
  destruct (tok_ok_shape t Ht) as [(x & -> & Hx) | (h1 & h2 & -> & H1 & H2 & _)].
  - cbn [app repl_aux prefixb beqs]. rewrite (N.eqb_sym 37 x), Hx. cbn [andb]. rewrite IH. reflexivity.
  - cbn [app repl_aux prefixb length Nat.pred beqs]. change (N.eqb 37 37) with true. cbn [andb]. rewrite !andb_true_r.
    rewrite (N.eqb_sym a h1), (N.eqb_sym b h2).
    destruct (N.eqb h1 a && N.eqb h2 b) eqn:E.
    + cbn [app repl_aux]. rewrite IH. reflexivity.
    + cbn [repl_aux prefixb]. rewrite (N.eqb_sym 37 h1), H1. cbn [andb]. rewrite (N.eqb_sym 37 h2), H2. cbn [andb]. rewrite IH. reflexivity.
Qed.

(* a step keeps tokens tokens: the replacement is one character other than the percent sign, because no token is percent-2-5 *)
Lemma step_keeps_tok pr t : step_ok pr = true -> tok_ok t = true -> tok_ok (step_tok pr t) = true.
Proof.
  intros Hs Ht. destruct (step_ok_shape pr Hs) as (a & b & r & -> & Ha & Hb & Hr). unfold step_tok. cbn [fst snd].
  destruct (beqs t [37; a; b]) eqn:E; [|exact Ht]. apply beqs_eq in E. subst t.
  destruct Hr as [Hr | [-> ->]]; [cbn [tok_ok]; rewrite Hr; reflexivity|].
  (* the token would be percent-2-5, which tok_ok excludes *) cbn [tok_ok] in Ht. change (N.eqb 50 50 && N.eqb 53 53) with true in Ht. cbn [negb] in Ht. rewrite andb_false_r in Ht. discriminate.
Qed.
Lemma chain_on_tokens : forall ch toks, forallb step_ok ch = true -> forallb tok_ok toks = true ->
  run_chain ch (concat toks) = concat (map (run_chain ch) toks).
Proof.
  unfold run_chain. induction ch as [|pr ch IH]; intros toks Hc Ht.
  - cbn [fold_left]. rewrite map_id. reflexivity.
  - cbn [forallb] in Hc. apply andb_prop in Hc as [Hs Hc]. cbn [fold_left]. rewrite step_on_tokens by assumption.
    rewrite IH; [|exact Hc|].
    + rewrite map_map. f_equal. apply map_ext_in. intros t Hi.
      (* on one token the string replace is the token step *)
      pose proof (step_on_tokens pr Hs [t]) as G. cbn [concat map forallb] in G. rewrite !app_nil_r in G. rewrite G by (rewrite (proj1 (forallb_forall _ _) Ht t Hi); reflexivity). reflexivity.
    + apply forallb_forall. intros t' Hi. apply in_map_iff in Hi as (t & <- & Hi). apply step_keeps_tok; [exact Hs|exact (proj1 (forallb_forall _ _) Ht t Hi)].
Qed.

(* ---------- the two regenerated tables ---------- *)
Lemma dec_steps_ok : forallb step_ok dec_chain = true.
Proof. vm_compute. reflexivity. Qed.
(* every character other than the percent sign: its encoding is one token, and decodes to the character *)
Lemma enc_char_facts c : c < 256 -> c <> 37 -> tok_ok (encode_uri [c]) = true /\ decode_uri (encode_uri [c]) = [c].
Proof.
  intros Hc H37.
  assert (G : (N.eqb c 37 || (tok_ok (encode_uri [c]) && beqs (decode_uri (encode_uri [c])) [c])) = true).
  { revert c Hc H37. intros c Hc _. revert c Hc. apply sweep1. vm_compute. reflexivity. }
  apply orb_prop in G as [G|G]; [apply N.eqb_eq in G; contradiction|]. apply andb_prop in G as [G1 G2]. apply beqs_eq in G2. auto.
Qed.

(* ---------- the round trip ---------- *)
Theorem percent_free_round_trip s : bytes_ok s -> ~ In 37 s -> decode_uri (encode_uri s) = s.
Proof.
  intros Hb Hp. rewrite encode_charwise. rewrite flat_map_concat_map.
  unfold decode_uri. rewrite chain_on_tokens.
  - rewrite map_map. rewrite <- flat_map_concat_map.
    induction s as [|c s IH]; [reflexivity|]. inversion Hb as [|? ? Hc Hb']; subst. cbn [flat_map].
    destruct (enc_char_facts c Hc) as [_ E]; [intro E; apply Hp; left; auto|]. unfold decode_uri in E. rewrite E.
    rewrite IH; [reflexivity|exact Hb'|intro Hi; apply Hp; right; exact Hi].
  - exact dec_steps_ok.
  - apply forallb_forall. intros t Hi. apply in_map_iff in Hi as (c & <- & Hi).
    apply enc_char_facts; [exact (proj1 (Forall_forall _ _) Hb c Hi)|intro E; subst; contradiction].
Qed.
