(* C05 — responses are well-formed, self-consistent HTTP and delivered in full *)
From Coq Require Import Arith.
From Rws Require Import Str Utf8 Num Unicase GenUnicase Fs UrlParse RangeSpec Request GenMime Mime StaticRes GenConsts Forms Server StrLemmas
                        C10Proof C14Proof C01Proof C01Process C09Proof.
Open Scope N_scope.

(* a byte string that cannot start or end a line: no CR, no LF *)
Definition cleanb (s : list N) : bool := forallb (fun c => negb (N.eqb c 13) && negb (N.eqb c 10)) s.
Definition hclean (h : header) : bool := cleanb (hname h) && cleanb (hvalue h).
Lemma cleanb_app a b : cleanb (a ++ b) = cleanb a && cleanb b.
Proof. unfold cleanb. apply forallb_app. Qed.

(* ---------- request header values are clean: both bytes are stripped by the request parser ---------- *)
Lemma truncate_cleanb s : cleanb (truncate_nl_cr s) = true.
Proof.
  unfold truncate_nl_cr, remove_byte, cleanb. rewrite forallb_forall. intros x Hx.
  apply filter_In in Hx as [Hx H10]. apply filter_In in Hx as [_ H13]. rewrite H13, H10. reflexivity.
Qed.
Lemma parse_header_line_clean line : hclean (parse_header_line line) = true.
Proof. unfold parse_header_line, hclean. destruct (split_once line COLON_SP) as [[n v]|]; cbn [hname hvalue]; rewrite ?truncate_cleanb; reflexivity. Qed.
Lemma headers_loop_clean : forall fuel rest hs bd, headers_loop fuel rest = Ok (hs, bd) -> forallb hclean hs = true.
Proof.
  induction fuel as [|f IH]; intros rest hs bd H; cbn [headers_loop] in H; [discriminate|].
  destruct (split_line rest) as [line rest']. destruct (negb (utf8_valid line)); [inversion H; reflexivity|].
  destruct (beqs (trim line) []); [inversion H; reflexivity|].
  match type of H with (if ?c then _ else _) = _ => destruct c end; [inversion H; reflexivity|].
  destruct (headers_loop f rest') as [[hs' bd']| |] eqn:E; try discriminate. inversion H; subst.
  cbn [forallb]. rewrite parse_header_line_clean. cbn [andb]. eapply IH; eauto.
Qed.
Theorem parsed_headers_clean input r : parse_request input = Ok r -> forallb hclean (headers r) = true.
Proof.
  unfold parse_request. destruct (split_line input) as [line rest]. destruct (negb (utf8_valid line)); [discriminate|].
  destruct (parse_request_line line) as [[[m u] v]|]; [|discriminate].
  destruct (headers_loop (S (length rest)) rest) as [[hs bd]| |] eqn:E; try discriminate.
  intro H. inversion H; subst. cbn [headers]. eapply headers_loop_clean; eauto.
Qed.
Lemma get_header_clean r n h : forallb hclean (headers r) = true -> get_header r n = Some h -> cleanb (hvalue h) = true.
Proof. intros Hc Hg. unfold get_header in Hg. apply find_some in Hg as [Hin _]. rewrite forallb_forall in Hc.
  specialize (Hc h Hin). unfold hclean in Hc. apply andb_prop in Hc. tauto. Qed.
Lemma lower_char_clean c : negb (N.eqb (to_ascii_lower c) 13) && negb (N.eqb (to_ascii_lower c) 10) = negb (N.eqb c 13) && negb (N.eqb c 10).
Proof.
  unfold to_ascii_lower. destruct (N.leb 65 c && N.leb c 90) eqn:E; [|reflexivity].
  apply andb_prop in E as [E1 E2]. apply N.leb_le in E1. apply N.leb_le in E2.
  assert (N.eqb (c + 32) 13 = false) as -> by (apply N.eqb_neq; lia).
  assert (N.eqb (c + 32) 10 = false) as -> by (apply N.eqb_neq; lia).
  assert (N.eqb c 13 = false) as -> by (apply N.eqb_neq; lia).
  assert (N.eqb c 10 = false) as -> by (apply N.eqb_neq; lia). reflexivity.
Qed.
Lemma lower_cleanb s : cleanb (lower s) = cleanb s.
Proof. unfold cleanb, lower. induction s as [|c s IH]; [reflexivity|]. cbn [map forallb]. rewrite IH, lower_char_clean. reflexivity. Qed.
(* the Unicode-aware mapping: the table entries hold no line break on either side (checked on the regenerated table), so a looked-up
   character neither removes nor adds one; characters that are not in the table are copied *)
Lemma lower_tab_clean : forallb (fun e => cleanb (fst e) && cleanb (snd e)) lower_tab = true.
Proof. vm_compute. reflexivity. Qed.
Lemma tab_find_clean k : cleanb (tab_find lower_tab k) = cleanb k.
Proof.
  unfold tab_find. destruct (find (fun e => beqs (fst e) k) lower_tab) as [e|] eqn:E; [|reflexivity].
  apply find_some in E as [Hin Hk]. apply beqs_eq in Hk. subst k.
  pose proof (proj1 (forallb_forall _ _) lower_tab_clean e Hin) as H. apply andb_prop in H as [H1 H2]. rewrite H1, H2. reflexivity.
Qed.
Lemma map_case_cleanb : forall f before s, cleanb (map_case f true lower_tab to_ascii_lower before s) = cleanb s.
Proof.
  induction f as [|f IH]; intros before s; [reflexivity|]. destruct s as [|c r]; [reflexivity|]. cbn [map_case].
  destruct (N.ltb c 128).
  - unfold cleanb in *. cbn [forallb]. rewrite IH, lower_char_clean. reflexivity.
  - cbv zeta. rewrite cleanb_app, IH.
    transitivity (cleanb (firstn (seq_len c) (c :: r)) && cleanb (skipn (seq_len c) (c :: r))); [|rewrite <- cleanb_app, firstn_skipn; reflexivity].
    f_equal. cbn [andb]. destruct (beqs (firstn (seq_len c) (c :: r)) SIGMA) eqn:E; [|apply tab_find_clean].
    apply beqs_eq in E. rewrite E. destruct (ci_then_cased before && negb (ci_then_cased _)); reflexivity.
Qed.
Lemma ulower_cleanb s : cleanb (ulower s) = cleanb s.
Proof. unfold ulower. destruct (is_ascii s); [apply lower_cleanb|apply map_case_cleanb]. Qed.

(* ---------- numbers print as digits ---------- *)
Lemma show_pos_f_clean : forall fuel n acc, cleanb acc = true -> cleanb (show_pos_f fuel n acc) = true.
Proof.
  induction fuel as [|f IH]; intros n acc Ha; cbn [show_pos_f]; [exact Ha|].
  destruct (N.eqb n 0); [exact Ha|]. apply IH. unfold cleanb in *. cbn [forallb]. rewrite Ha, andb_true_r.
  pose proof (N.mod_lt n 10 ltac:(lia)) as Hm. remember (n mod 10) as d eqn:Ed. clear Ed.
  assert (N.eqb (48 + d) 13 = false) as -> by (apply N.eqb_neq; lia).
  assert (N.eqb (48 + d) 10 = false) as -> by (apply N.eqb_neq; lia). reflexivity.
Qed.
Lemma show_N_clean n : cleanb (show_N n) = true.
Proof. unfold show_N. destruct (N.eqb n 0); [reflexivity|]. apply show_pos_f_clean. reflexivity. Qed.

(* ---------- configuration strings are assumed clean (they come from the environment / command line) ---------- *)
Definition cors_clean (c : cors_cfg) : bool :=
  match c with CAllowAll => true | COff o cr m h e a => cleanb m && cleanb h && cleanb e && cleanb a end.
Definition cfg_clean (cfg : config) : bool := cors_clean (cf_cors cfg) && cleanb (cf_time cfg).

Lemma cors_headers_clean c r : cors_clean c = true -> forallb hclean (headers r) = true -> forallb hclean (cors_headers c r) = true.
Proof.
  intros Hc Hr. destruct c as [|o cr m h e a]; cbn [cors_headers]; unfold cors_allow_all, cors_off.
  - destruct (get_header r Hd_ORIGIN) as [og|] eqn:Eo; [|reflexivity].
    pose proof (get_header_clean r _ _ Hr Eo) as Co.
    destruct (beqs (method r) OPTIONS).
    + destruct (get_header r Hd_ACCESS_CONTROL_REQUEST_METHOD) as [mh|] eqn:Em;
      destruct (get_header r Hd_ACCESS_CONTROL_REQUEST_HEADERS) as [hh|] eqn:Eh;
      cbn [app forallb]; unfold hclean, Server.H; cbn [hname hvalue];
      rewrite ?Co, ?ulower_cleanb, ?(get_header_clean r _ _ Hr Em), ?(get_header_clean r _ _ Hr Eh); reflexivity.
    + cbn [app forallb]. unfold hclean, Server.H. cbn [hname hvalue]. rewrite Co. reflexivity.
  - cbn [cors_clean] in Hc. apply andb_prop in Hc as [Hc Ca]. apply andb_prop in Hc as [Hc Ce]. apply andb_prop in Hc as [Cm Ch].
    destruct (get_header r Hd_ORIGIN) as [og|] eqn:Eo; [|reflexivity].
    pose proof (get_header_clean r _ _ Hr Eo) as Co.
    match goal with |- context [if ?c then [] else _] => destruct c end; [reflexivity|].
    destruct (beqs cr TRUE); destruct (beqs (method r) OPTIONS); cbn [app forallb]; unfold hclean, Server.H; cbn [hname hvalue];
    rewrite ?Co, ?ulower_cleanb, ?Cm, ?Ch, ?Ce, ?Ca; reflexivity.
Qed.
Lemma default_headers_clean cfg r : cfg_clean cfg = true -> forallb hclean (headers r) = true -> forallb hclean (default_headers cfg r) = true.
Proof.
  intros Hc Hr. unfold cfg_clean in Hc. apply andb_prop in Hc as [Hc Ht]. rewrite default_split, forallb_app.
  rewrite cors_headers_clean by assumption. cbn [andb]. unfold fixed_part. cbn [forallb]. unfold hclean, Server.H. cbn [hname hvalue]. rewrite Ht.
  vm_compute. reflexivity.
Qed.

(* ---------- media types come from the generated chain ---------- *)
Definition chain_types_clean : bool :=
  forallb (fun ru => match ru with RSuffix _ ty => cleanb ty | RExt _ ty => cleanb ty end) mime_chain && cleanb mime_default.
Lemma chain_types_clean_ok : chain_types_clean = true. Proof. vm_compute. reflexivity. Qed.
Lemma run_chain_clean p ext : forall rules,
  forallb (fun ru => match ru with RSuffix _ ty => cleanb ty | RExt _ ty => cleanb ty end) rules = true ->
  cleanb (Mime.run_chain p ext rules) = true.
Proof.
  induction rules as [|ru rs IH]; intro H; cbn [Mime.run_chain].
  - pose proof chain_types_clean_ok as Hc. unfold chain_types_clean in Hc. apply andb_prop in Hc. tauto.
  - cbn [forallb] in H. apply andb_prop in H as [H1 H2]. destruct ru as [suf ty|sufs ty].
    + destruct (ends_with p suf); auto.
    + destruct ext as [e|]; auto. destruct (existsb _ sufs); auto.
Qed.
Lemma detect_mime_clean p : cleanb (detect_mime p) = true.
Proof. unfold detect_mime. apply run_chain_clean. pose proof chain_types_clean_ok as Hc. unfold chain_types_clean in Hc. apply andb_prop in Hc. tauto. Qed.

(* ---------- the header list of every response: the default list, optionally followed by Last-Modified ---------- *)
Definition hform (cfg : config) (r : request) (rs : response) : Prop :=
  rs_headers rs = default_headers cfg r \/ rs_headers rs = default_headers cfg r ++ [H Hd_LAST_MODIFIED_UNIX_EPOCH_NANOS []].
Lemma hform_asset cfg r fs f b ct st rs0 : hform cfg r rs0 -> hform cfg r (asset_controller fs f b ct st rs0).
Proof. intros Hf. unfold asset_controller. destruct (is_file fs (rel fs f)); [|exact Hf].
  destruct (node_at fs (rel fs f) true) as [[[nd q] via]|]; [destruct nd|]; exact Hf. Qed.
Lemma hform_same cfg r rs0 x : hform cfg r rs0 -> rs_headers x = rs_headers rs0 -> hform cfg r x.
Proof. unfold hform. intros Hf E. rewrite E. exact Hf. Qed.

Lemma hform_execute lg cfg fs r rs : app_execute_gen lg cfg fs r = SOk rs -> hform cfg r rs.
Proof.
  unfold app_execute_gen. set (rs0 := mkResp 501 (reason 501) (default_headers cfg r) []).
  assert (S0 : hform cfg r rs0) by (left; reflexivity).
  pose proof (kh_upload cfg r rs0) as K1. pose proof (kh_urlenc r rs0) as K2.
  pose proof (kh_formget r rs0) as K3. pose proof (kh_multi r rs0) as K4.
  intro Hx.
  repeat match type of Hx with (if ?c then _ else _) = _ => destruct c end; try discriminate;
  try (inversion Hx; subst; apply hform_asset; exact S0);
  try (inversion Hx; subst; eapply hform_same; [exact S0|reflexivity]).
  all: destruct (upload_controller cfg r rs0); try discriminate; try (inversion Hx; subst; eapply hform_same; eauto; fail).
  all: destruct (urlenc_controller r rs0); try discriminate; try (inversion Hx; subst; eapply hform_same; eauto; fail).
  all: destruct (formget_controller r rs0); try discriminate; try (inversion Hx; subst; eapply hform_same; eauto; fail).
  all: destruct (multipart_controller r rs0); try discriminate; try (inversion Hx; subst; eapply hform_same; eauto; fail).
  all: repeat match type of Hx with (if ?c then _ else _) = _ => destruct c end; try discriminate;
       try (inversion Hx; subst; apply hform_asset; exact S0).
  all: try (destruct (is_matching fs r) as [[|]| |]; try discriminate;
       try (inversion Hx; subst; apply hform_asset; exact S0)).
  all: unfold static_process, static_process_legacy in Hx; destruct (process_static fs r) as [[|c l]|st|]; try discriminate;
       try (inversion Hx; subst; first [exact S0 | left; reflexivity]).
  all: try (destruct (path_or_panic (uri r)) as [P| |]; try discriminate; inversion Hx; subst; cbn [rs_headers];
       destruct (can_open fs (cwd_str fs ++ P)); [right; reflexivity|left; cbn [rs_headers rs0]; apply app_nil_r]; fail).
  all: inversion Hx; subst; cbn [rs_headers];
       destruct (can_open fs (cwd_str fs ++ uri r)); [right; reflexivity|left; cbn [rs_headers rs0]; apply app_nil_r].
Qed.

(* the content types of the parts *)
Definition part_types_clean (rs : response) : bool := forallb (fun c => cleanb (c_type c)) (rs_ranges rs).
Lemma content_range_value_clean c : cleanb (content_range_value c) = true.
Proof. unfold content_range_value. rewrite !cleanb_app, !show_N_clean. reflexivity. Qed.
Lemma derived_clean l : forallb (fun c => cleanb (c_type c)) l = true -> forallb hclean (derived_headers l) = true.
Proof.
  intro H. destruct l as [|c [|c2 r]]; cbn [derived_headers forallb]; [reflexivity| |reflexivity].
  cbn [forallb] in H. apply andb_prop in H as [H _]. unfold hclean, Server.H. cbn [hname hvalue].
  rewrite H, content_range_value_clean, show_N_clean. reflexivity.
Qed.

Notation tclean := (forallb (fun c => cleanb (c_type c))).
Lemma read_specs_types fs lnk path L : forall specs l, read_specs fs lnk path L specs = SOk l -> tclean l = true.
Proof.
  induction specs as [|sp rest IH]; intros l H; cbn [read_specs] in H; [inversion H; reflexivity|].
  destruct (parse_range L sp) as [[st en]| |]; try discriminate.
  destruct (read_range fs path st en); try discriminate.
  destruct (read_specs fs lnk path L rest) as [l'| |] eqn:E; try discriminate. inversion H; subst.
  cbn [forallb c_type]. rewrite detect_mime_clean. cbn [andb]. eapply IH; reflexivity.
Qed.
Lemma pcr_types fs lnk path L v l : parse_content_range fs lnk path L v = SOk l -> tclean l = true.
Proof. unfold parse_content_range. destruct (negb _); [discriminate|]. destruct (split v [61]) as [|x [|raw r]]; try discriminate. apply read_specs_types. Qed.
Lemma gcrl_types fs u rv l : get_content_range_list fs u rv = SOk l -> tclean l = true.
Proof.
  unfold get_content_range_list. destruct (path_or_panic u) as [P| |]; try discriminate.
  destruct (has_dotdot P); [discriminate|].
  destruct (metadata fs (cwd_str fs ++ P)) as [[| |]|]; try discriminate; try (intro H; inversion H; reflexivity).
  destruct (is_symlink fs (cwd_str fs ++ P)) as [[|]|]; destruct (file_len fs (cwd_str fs ++ P)) as [L|]; try discriminate; try apply pcr_types.
  destruct (read_link fs (cwd_str fs ++ P)); [|discriminate].
  match goal with |- context [resolve_symlink_lex ?f ?d ?t] => destruct (resolve_symlink_lex f d t) end; [apply pcr_types|discriminate].
Qed.
Lemma process_static_types fs r l : process_static fs r = SOk l -> tclean l = true.
Proof.
  unfold process_static. destruct (path_or_panic (uri r)) as [P| |]; try discriminate.
  match goal with |- match ?md with _ => _ end = _ -> _ => destruct md as [[| |]|] end; try (intro H; inversion H; reflexivity);
  repeat match goal with
  | |- (if ?c then _ else _) = _ -> _ => destruct c
  | |- match dir_index ?p with _ => _ end = _ -> _ => destruct (dir_index p)
  | |- match metadata ?f ?p with _ => _ end = _ -> _ => destruct (metadata f p) as [[| |]|]
  end; try discriminate; try (intro H; inversion H; reflexivity); try apply gcrl_types.
Qed.

Definition types_ok (rs : response) : Prop := tclean (rs_ranges rs) = true.
Lemma types_asset fs f b ct st rs0 : cleanb ct = true -> types_ok (asset_controller fs f b ct st rs0).
Proof. intro Hc. unfold asset_controller, types_ok. destruct (is_file fs (rel fs f)).
  - destruct (node_at fs (rel fs f) true) as [[[nd q] via]|]; [destruct nd|]; cbn [rs_ranges forallb whole c_type]; rewrite ?detect_mime_clean; reflexivity.
  - cbn [rs_ranges forallb whole c_type]. rewrite Hc. reflexivity. Qed.
Definition keeps_types (f : fres) : Prop := match f with FResp x => types_ok x | _ => True end.
Ltac kt := repeat match goal with
  | |- keeps_types (match ?x with _ => _ end) => destruct x
  | |- keeps_types (if ?c then _ else _) => destruct c
  end; cbn [keeps_types]; unfold types_ok; cbn [rs_ranges forallb]; auto.
Lemma kt_upload cfg r rs0 : keeps_types (upload_controller cfg r rs0). Proof. unfold upload_controller. kt. Qed.
Lemma kt_urlenc r rs0 : keeps_types (urlenc_controller r rs0). Proof. unfold urlenc_controller. kt. Qed.
Lemma kt_formget r rs0 : keeps_types (formget_controller r rs0). Proof. unfold formget_controller. kt. Qed.
Lemma kt_multi r rs0 : keeps_types (multipart_controller r rs0). Proof. unfold multipart_controller. kt. Qed.

Lemma types_execute lg cfg fs r rs : app_execute_gen lg cfg fs r = SOk rs -> types_ok rs.
Proof.
  unfold app_execute_gen. set (rs0 := mkResp 501 (reason 501) (default_headers cfg r) []).
  pose proof (kt_upload cfg r rs0) as K1. pose proof (kt_urlenc r rs0) as K2.
  pose proof (kt_formget r rs0) as K3. pose proof (kt_multi r rs0) as K4.
  intro Hx.
  repeat match type of Hx with (if ?c then _ else _) = _ => destruct c end; try discriminate;
  try (inversion Hx; subst; first [apply types_asset; vm_compute; reflexivity | reflexivity]).
  all: destruct (upload_controller cfg r rs0); try discriminate; try (inversion Hx; subst; exact K1).
  all: destruct (urlenc_controller r rs0); try discriminate; try (inversion Hx; subst; exact K2).
  all: destruct (formget_controller r rs0); try discriminate; try (inversion Hx; subst; exact K3).
  all: destruct (multipart_controller r rs0); try discriminate; try (inversion Hx; subst; exact K4).
  all: repeat match type of Hx with (if ?c then _ else _) = _ => destruct c end; try discriminate;
       try (inversion Hx; subst; apply types_asset; vm_compute; reflexivity).
  all: try (destruct (is_matching fs r) as [[|]| |]; try discriminate;
       try (inversion Hx; subst; apply types_asset; vm_compute; reflexivity)).
  all: unfold static_process, static_process_legacy in Hx; destruct (process_static fs r) as [[|c l]|st|] eqn:Ep; try discriminate;
       try (inversion Hx; subst; reflexivity).
  all: try (destruct (path_or_panic (uri r)) as [P| |]; try discriminate); inversion Hx; subst; unfold types_ok; cbn [rs_ranges];
       eapply process_static_types; eauto.
Qed.

(* ---------- (a)+(b): every header line of every response is name ": " value with no CR or LF in either ---------- *)
Theorem response_headers_clean lg cfg fs input rs raw ok :
  cfg_clean cfg = true -> process_gen lg cfg fs input = Wrote rs raw ok -> forallb hclean (all_headers rs) = true.
Proof.
  intros Hc. unfold process_gen, process_with. intro Hp.
  assert (Hbad : forallb hclean (all_headers (bad_request_response cfg)) = true).
  { unfold all_headers. rewrite forallb_app. cbn [bad_request_response rs_headers rs_ranges].
    rewrite default_headers_clean by (auto; reflexivity). cbn [andb]. apply derived_clean. reflexivity. }
  destruct (parse_request _) as [r| |] eqn:Epr; try discriminate.
  - pose proof (parsed_headers_clean _ _ Epr) as Hr.
    destruct (app_execute_gen lg cfg fs r) as [rs'| |] eqn:Ex; try discriminate.
    + inversion Hp; subst rs' raw ok. unfold all_headers. rewrite forallb_app.
      rewrite (derived_clean _ (types_execute _ _ _ _ _ Ex)), andb_true_r.
      destruct (hform_execute _ _ _ _ _ Ex) as [E|E]; rewrite E; [apply default_headers_clean; assumption|].
      rewrite forallb_app, default_headers_clean by assumption. reflexivity.
    + inversion Hp; subst. exact Hbad.
  - inversion Hp; subst. exact Hbad.
Qed.

(* ---------- decimal printing is right: the digits parse back to the number ---------- *)
Lemma show_pos_f_val : forall fuel n acc, n < 10 ^ N.of_nat fuel -> digits_val 0 (show_pos_f fuel n acc) = digits_val n acc.
Proof.
  induction fuel as [|f IH]; intros n acc Hn.
  - cbn [show_pos_f]. change (10 ^ N.of_nat 0) with 1 in Hn. assert (n = 0) as -> by lia. reflexivity.
  - cbn [show_pos_f]. destruct (N.eqb_spec n 0) as [->|Hz]; [reflexivity|].
    rewrite IH.
    + cbn [digits_val]. pose proof (N.mod_lt n 10 ltac:(lia)) as Hm.
      assert (is_digit (48 + n mod 10) = true) as ->.
      { unfold is_digit. remember (n mod 10) as d. apply andb_true_intro. split; apply N.leb_le; lia. }
      f_equal. rewrite (N.div_mod n 10) at 3 by lia. remember (n mod 10) as d. remember (n / 10) as q. lia.
    + rewrite Nat2N.inj_succ, N.pow_succ_r' in Hn. apply N.div_lt_upper_bound; lia.
Qed.
Theorem show_N_parses n : n < 10 ^ 80 -> digits_val 0 (show_N n) = Some n.
Proof. intro H. unfold show_N. destruct (N.eqb_spec n 0) as [->|Hz]; [reflexivity|].
  rewrite show_pos_f_val by exact H. reflexivity. Qed.

(* ---------- Content-Length, when present, is the number of body bytes; framing headers are not duplicated ---------- *)
Lemma count_default_framing cfg r n : mem n [Hd_CONTENT_LENGTH; Hd_CONTENT_TYPE; Hd_CONTENT_RANGE] = true ->
  count_name n (default_headers cfg r) = 0%nat.
Proof.
  intro Hn. rewrite default_split, count_app.
  rewrite (count_not_in aca_names _ _ (cors_names (cf_cors cfg) r)).
  - unfold fixed_part, count_name. cbn [filter hname H].
    cbn [mem existsb] in Hn. repeat (apply orb_prop in Hn as [Hn|Hn]); try discriminate; apply beqs_eq in Hn; subst n; vm_compute; reflexivity.
  - cbn [mem existsb] in Hn. repeat (apply orb_prop in Hn as [Hn|Hn]); try discriminate; apply beqs_eq in Hn; subst n; vm_compute; reflexivity.
Qed.
(* evaluate name comparisons between closed constants only (never vm_compute a goal that mentions show_N of a variable) *)
Ltac eval_beqs := repeat match goal with |- context [beqs ?a ?b] => let v := eval vm_compute in (beqs a b) in change (beqs a b) with v end.
Theorem framing_headers lg cfg fs r rs : app_execute_gen lg cfg fs r = SOk rs ->
  forall n, mem n [Hd_CONTENT_LENGTH; Hd_CONTENT_TYPE; Hd_CONTENT_RANGE] = true ->
  count_name n (all_headers rs) = count_name n (derived_headers (rs_ranges rs)) /\ (count_name n (derived_headers (rs_ranges rs)) <= 1)%nat.
Proof.
  intros Ex n Hn. unfold all_headers. rewrite count_app. split.
  - destruct (hform_execute _ _ _ _ _ Ex) as [E|E]; rewrite E; rewrite ?count_app, count_default_framing by exact Hn; [reflexivity|].
    cbn [mem existsb] in Hn. repeat (apply orb_prop in Hn as [Hn|Hn]); try discriminate; apply beqs_eq in Hn; subst n;
    unfold count_name; cbn [filter hname H]; eval_beqs; reflexivity.
  - cbn [mem existsb] in Hn. repeat (apply orb_prop in Hn as [Hn|Hn]); try discriminate; apply beqs_eq in Hn; subst n;
    destruct (rs_ranges rs) as [|c [|c2 l]]; cbn [derived_headers]; unfold count_name; cbn [filter hname H]; eval_beqs; cbn [length]; lia.
Qed.
Theorem content_length_is_body_length rs v : In (H Hd_CONTENT_LENGTH v) (derived_headers (rs_ranges rs)) ->
  v = show_N (N.of_nat (length (gen_body (rs_ranges rs)))).
Proof.
  destruct (rs_ranges rs) as [|c [|c2 l]]; cbn [derived_headers gen_body In]; intro Hin.
  - contradiction.
  - destruct Hin as [E|[E|[E|[]]]]; try (apply (f_equal hname) in E; vm_compute in E; discriminate). inversion E. reflexivity.
  - destruct Hin as [E|[]]. apply (f_equal hname) in E. vm_compute in E. discriminate.
Qed.

(* ---------- the status line: a registered code with its own reason phrase ---------- *)
Definition used_statuses : list N := [200; 204; 206; 400; 404; 416; 500; 501].
Definition status_ok (rs : response) : Prop := In (rs_status rs) used_statuses /\ rs_reason rs = reason (rs_status rs).
Lemma status_asset fs f b ct st rs0 : In st used_statuses -> status_ok (asset_controller fs f b ct st rs0).
Proof. intro Hs. unfold asset_controller, status_ok. destruct (is_file fs (rel fs f)); [|cbn [rs_status rs_reason]; auto].
  destruct (node_at fs (rel fs f) true) as [[[nd q] via]|]; [destruct nd|]; cbn [rs_status rs_reason]; auto;
  split; auto; unfold used_statuses; simpl; tauto. Qed.
Definition keeps_status (f : fres) : Prop := match f with FResp x => status_ok x | _ => True end.
Ltac ks := repeat match goal with
  | |- keeps_status (match ?x with _ => _ end) => destruct x
  | |- keeps_status (if ?c then _ else _) => destruct c
  end; cbn [keeps_status]; unfold status_ok, used_statuses; cbn [rs_status rs_reason In]; auto; try (split; [tauto|reflexivity]).
Lemma ks_upload cfg r rs0 : keeps_status (upload_controller cfg r rs0). Proof. unfold upload_controller. ks. Qed.
Lemma ks_urlenc r rs0 : keeps_status (urlenc_controller r rs0). Proof. unfold urlenc_controller. ks. Qed.
Lemma ks_formget r rs0 : keeps_status (formget_controller r rs0). Proof. unfold formget_controller. ks. Qed.
Lemma ks_multi r rs0 : keeps_status (multipart_controller r rs0). Proof. unfold multipart_controller. ks. Qed.

Lemma status_execute lg cfg fs r rs : app_execute_gen lg cfg fs r = SOk rs -> status_ok rs.
Proof.
  unfold app_execute_gen. set (rs0 := mkResp 501 (reason 501) (default_headers cfg r) []).
  assert (S0 : status_ok rs0) by (split; [unfold used_statuses; simpl; tauto|reflexivity]).
  pose proof (ks_upload cfg r rs0) as K1. pose proof (ks_urlenc r rs0) as K2.
  pose proof (ks_formget r rs0) as K3. pose proof (ks_multi r rs0) as K4.
  assert (A : forall f b ct st, In st used_statuses -> status_ok (asset_controller fs f b ct st rs0)) by (intros; apply status_asset; auto).
  intro Hx.
  repeat match type of Hx with (if ?c then _ else _) = _ => destruct c end; try discriminate;
  try (inversion Hx; subst; first [apply A; unfold used_statuses; simpl; tauto | split; [unfold used_statuses; simpl; tauto|reflexivity]]).
  all: destruct (upload_controller cfg r rs0); try discriminate; try (inversion Hx; subst; exact K1).
  all: destruct (urlenc_controller r rs0); try discriminate; try (inversion Hx; subst; exact K2).
  all: destruct (formget_controller r rs0); try discriminate; try (inversion Hx; subst; exact K3).
  all: destruct (multipart_controller r rs0); try discriminate; try (inversion Hx; subst; exact K4).
  all: repeat match type of Hx with (if ?c then _ else _) = _ => destruct c end; try discriminate;
       try (inversion Hx; subst; apply A; unfold used_statuses; simpl; tauto).
  all: try (destruct (is_matching fs r) as [[|]| |]; try discriminate;
       try (inversion Hx; subst; apply A; unfold used_statuses; simpl; tauto)).
  all: unfold static_process, static_process_legacy in Hx; destruct (process_static fs r) as [[|c l]|st|] eqn:Ep; try discriminate;
       try (inversion Hx; subst; exact S0).
  all: try (apply process_static_err in Ep; inversion Hx; subst; split; try reflexivity; cbn [rs_status]; unfold used_statuses;
            destruct Ep as [-> | [-> | ->]]; simpl; tauto).
  all: try (destruct (path_or_panic (uri r)) as [P| |]; try discriminate); inversion Hx; subst; split; try reflexivity; cbn [rs_status];
       unfold used_statuses; destruct (beqs (method r) OPTIONS); try (simpl; tauto); destruct (get_header r RANGE_NAME); simpl; tauto.
Qed.
Theorem status_line_ok lg cfg fs input rs raw ok : process_gen lg cfg fs input = Wrote rs raw ok -> status_ok rs.
Proof.
  unfold process_gen, process_with. intro Hp.
  assert (Hb : status_ok (bad_request_response cfg)) by (split; [unfold used_statuses; simpl; tauto|reflexivity]).
  destruct (parse_request _) as [r| |]; try discriminate; [|inversion Hp; subst; exact Hb].
  destruct (app_execute_gen lg cfg fs r) as [rs'| |] eqn:Ex; try discriminate; inversion Hp; subst; [eapply status_execute; eauto|exact Hb].
Qed.
(* spec side (frozen): the IANA reason phrases of the codes the server uses; the generated table must agree *)
Definition iana_used : list (N * list N) :=
  [ (200, [79;75]); (204, [78;111;32;67;111;110;116;101;110;116]); (206, [80;97;114;116;105;97;108;32;67;111;110;116;101;110;116]);
    (400, [66;97;100;32;82;101;113;117;101;115;116]); (404, [78;111;116;32;70;111;117;110;100]);
    (416, [82;97;110;103;101;32;78;111;116;32;83;97;116;105;115;102;105;97;98;108;101]);
    (500, [73;110;116;101;114;110;97;108;32;83;101;114;118;101;114;32;69;114;114;111;114]);
    (501, [78;111;116;32;73;109;112;108;101;109;101;110;116;101;100]) ].
Lemma reasons_are_iana : forallb (fun cp => beqs (reason (fst cp)) (snd cp)) iana_used = true /\ map fst iana_used = used_statuses.
Proof. split; vm_compute; reflexivity. Qed.

(* ---------- (c) delivery: write_all hands every byte to a transport that accepts the response in pieces ---------- *)
(* accept k = how many bytes the k-th write call takes when offered n > 0 bytes: min n (accept k), at least 1 *)
Fixpoint write_all (fuel : nat) (accept : nat -> nat) (k : nat) (buf : list N) : list N * bool :=
  match fuel with O => ([], false) | S f =>
  match buf with
  | [] => ([], true)
  | _ => let n := Nat.min (length buf) (accept k) in
         match n with
         | O => ([], false)                                  (* Ok(0): WriteZero error *)
         | _ => let (d, ok) := write_all f accept (S k) (skipn n buf) in (firstn n buf ++ d, ok)
         end
  end end.
(* the single write of the original code *)
Definition write_once (accept : nat -> nat) (buf : list N) : list N := firstn (Nat.min (length buf) (accept 0%nat)) buf.

Theorem write_all_delivers accept : (forall k, 0 < accept k)%nat ->
  forall fuel k buf, (length buf < fuel)%nat -> write_all fuel accept k buf = (buf, true).
Proof.
  intros Ha. induction fuel as [|f IH]; intros k buf Hf; [lia|].
  cbn [write_all]. destruct buf as [|c r]; [reflexivity|].
  remember (Nat.min (length (c :: r)) (accept k)) as n eqn:En.
  pose proof (Ha k) as Hk. destruct n as [|n']; [cbn [length] in En; lia|].
  rewrite IH.
  - rewrite firstn_skipn. reflexivity.
  - rewrite skipn_length. cbn [length] in *. lia.
Qed.
Theorem write_once_loses : exists accept buf, (forall k, 0 < accept k)%nat /\ write_once accept buf <> buf.
Proof. exists (fun _ => 1%nat), [1; 2]. split; [intro; lia|]. vm_compute. discriminate. Qed.
