(* C15 — the general round trip of a multipart/byteranges response: two or more parts, bodies of arbitrary bytes *)
From Coq Require Import Arith.
From Rws Require Import Str Utf8 Num Fs UrlParse RangeSpec Request GenMime Mime StaticRes GenConsts Forms Server RespParse RespDomain
     StrLemmas TrimLemmas Utf8Lemmas RequestProofs C05Proof Json JsonArray JsonRt C19Lemmas C15Round C16Round.
Open Scope N_scope.


(* ---------- the body of one part ---------- *)
Lemma part_body_step f bd s acc : s <> [] ->
  part_body (S f) bd s acc = let (line, rest') := split_line s in
    if negb (utf8_valid line) then part_body f bd rest' (acc ++ line) else if contains line bd then Some (acc, rest') else part_body f bd rest' (acc ++ line).
Proof. destruct s; [contradiction|reflexivity]. Qed.
Lemma blines_more : forall f1 f2 X, (length X < f1)%nat -> (length X < f2)%nat -> blines_ok f1 X = blines_ok f2 X.
Proof.
  induction f1 as [|f1 IH]; intros f2 X H1 H2; [lia|]. destruct f2 as [|f2]; [lia|]. cbn [blines_ok]. destruct X as [|c X]; [reflexivity|].
  pose proof (split_line_length (c :: X) ltac:(discriminate)) as Hl. destruct (split_line (c :: X)) as [l r]. cbn [snd] in Hl.
  rewrite (IH f2 r) by (cbn [length] in *; lia). reflexivity.
Qed.
Lemma part_body_lines dl rest : split_line (dl ++ rest) = (dl, rest) -> stops dl = true -> dl <> [] ->
  forall f X acc, (length X < f)%nat -> blines_ok f X = true -> ends_lf X ->
  part_body f BD (X ++ dl ++ rest) acc = Some (acc ++ X, rest).
Proof.
  intros Hdl Hd Hne. induction f as [|f IH]; intros X acc Hf Hok Hlf; [lia|].
  destruct X as [|c X].
  - cbn [app]. rewrite part_body_step by (destruct dl; [contradiction|discriminate]). rewrite Hdl. unfold stops in Hd. apply andb_prop in Hd as [Hu Hc]. rewrite Hu, Hc. cbn [negb]. rewrite app_nil_r. reflexivity.
  - destruct (ends_lf_tail (c :: X) Hlf ltac:(discriminate)) as [Hin Htail].
    cbn [blines_ok] in Hok. rewrite part_body_step by discriminate. rewrite (split_line_app_lf (c :: X) (dl ++ rest) Hin).
    destruct (split_line (c :: X)) as [l r] eqn:Es. cbn [fst snd] in *. apply andb_prop in Hok as [Hl Hr]. apply negb_true_iff in Hl.
    pose proof (split_line_app (c :: X)) as Happ. rewrite Es in Happ.
    pose proof (split_line_length (c :: X) ltac:(discriminate)) as Hlen. rewrite Es in Hlen. cbn [snd] in Hlen.
    assert (Hgo : (if negb (utf8_valid l) then part_body f BD (r ++ dl ++ rest) (acc ++ l) else if contains l BD then Some (acc, r ++ dl ++ rest) else part_body f BD (r ++ dl ++ rest) (acc ++ l))
                  = part_body f BD (r ++ dl ++ rest) (acc ++ l)).
    { unfold stops in Hl. destruct (utf8_valid l); cbn [negb andb] in *; [rewrite Hl; reflexivity|reflexivity]. }
    rewrite Hgo. rewrite IH by (auto; cbn [length] in *; lia). rewrite <- app_assoc, <- Happ. reflexivity.
Qed.
Lemma pop2_crlf b : pop2 (b ++ CRLF) = b.
Proof. unfold pop2. rewrite rev_app_distr. cbn [rev app skipn]. apply rev_involutive. Qed.

(* ---------- the header lines of one part ---------- *)
Lemma line_split X rest : ~ In 10 X -> split_line ((X ++ CRLF) ++ rest) = (X ++ CRLF, rest).
Proof.
  intro H. unfold CRLF. replace ((X ++ [13; 10]) ++ rest) with ((X ++ [13]) ++ 10 :: rest) by (rewrite <- !app_assoc; reflexivity).
  rewrite split_line_nolf; [rewrite <- app_assoc; reflexivity|]. intro Hi. apply in_app_or in Hi as [Hi|Hi]; [contradiction|]. cbn in Hi. destruct Hi as [Hi|[]]. discriminate.
Qed.
Lemma split_first_nocolon rest : ~ In 58 rest -> exists tl0, split rest COLON_SP = rest :: tl0.
Proof.
  intro H. unfold split. assert (G : forall s cur, ~ In 58 s -> exists tl0, split_aux COLON_SP O cur s = (rev cur ++ s) :: tl0).
  { induction s as [|c s IHs]; intros cur Hs.
    - cbn [split_aux]. exists []. rewrite app_nil_r. reflexivity.
    - cbn [split_aux COLON_SP prefixb]. replace (N.eqb 58 c) with false by (symmetry; apply N.eqb_neq; intro E; apply Hs; left; auto). cbn [andb].
      destruct (IHs (c :: cur)) as [tl0 E]; [intro Hi; apply Hs; right; exact Hi|]. exists tl0. rewrite E. cbn [rev]. rewrite <- app_assoc. reflexivity. }
  destruct (G rest [] H) as [tl0 E]. exists tl0. exact E.
Qed.

Record mpart_facts (st en z : N) (body ty : list N) : Prop := {
  mp_ty : mtype_ok ty = true;
  mp_rng : st <= en /\ en <= z /\ z < 2 ^ 63;
  mp_body : blines_ok (S (length (body ++ CRLF))) (body ++ CRLF) = true }.

Lemma ct_line_facts ty rest : mtype_ok ty = true ->
  split_line (ct_line ty ++ rest) = (ct_line ty, rest) /\ utf8_valid (ct_line ty) = true /\ contains (ct_line ty) BD = false /\
  beqs (trim (ct_line ty)) [] = false /\ starts_with (ct_line ty) CT_NAME = true /\
  parse_resp_header (ct_line ty) = Some (mkH Hd_CONTENT_TYPE ([32] ++ ty)) /\ trim ([32] ++ ty) = ty /\ ty <> [].
Proof.
  unfold mtype_ok. intro H. apply andb_prop in H as [H Hc]. apply andb_prop in H as [H Hl]. apply andb_prop in H as [H Hh]. apply andb_prop in H as [Hcl Hu].
  apply negb_true_iff in Hc. apply clean_b_spec in Hcl as [T10 T13].
  assert (Hne : ty <> []) by (intro E; subst; discriminate).
  assert (L10 : ~ In 10 (Hd_CONTENT_TYPE ++ COLON_SP ++ [32] ++ ty)).
  { intro Hi. repeat (apply in_app_or in Hi as [Hi|Hi]); try contradiction; cbn in Hi; repeat destruct Hi as [Hi|Hi]; try discriminate; contradiction. }
  assert (L13 : ~ In 13 (Hd_CONTENT_TYPE ++ COLON_SP ++ [32] ++ ty)).
  { intro Hi. repeat (apply in_app_or in Hi as [Hi|Hi]); try contradiction; cbn in Hi; repeat destruct Hi as [Hi|Hi]; try discriminate; contradiction. }
  assert (Eline : ct_line ty = (Hd_CONTENT_TYPE ++ COLON_SP ++ [32] ++ ty) ++ CRLF) by (unfold ct_line; rewrite <- !app_assoc; reflexivity).
  assert (F1 : split_line (ct_line ty ++ rest) = (ct_line ty, rest)) by (rewrite Eline; apply line_split, L10).
  assert (F2 : utf8_valid (ct_line ty) = true).
  { unfold ct_line. rewrite (utf8_app_ascii Hd_CONTENT_TYPE) by reflexivity. rewrite (utf8_app_ascii COLON_SP) by reflexivity. rewrite (utf8_app_ascii [32]) by reflexivity.
    rewrite utf8_valid_app by exact Hu. reflexivity. }
  assert (F4 : beqs (trim (ct_line ty)) [] = false).
  { destruct (beqs (trim (ct_line ty)) []) eqn:E; [|reflexivity]. apply beqs_eq in E. exfalso.
    assert (Hs : csolid (trim (ct_line ty)) = 0%nat) by (rewrite E; reflexivity). rewrite csolid_trim in Hs. unfold ct_line in Hs. rewrite csolid_app in Hs.
    change (csolid Hd_CONTENT_TYPE) with 12%nat in Hs. lia. }
  assert (F5 : starts_with (ct_line ty) CT_NAME = true) by (unfold ct_line, starts_with, CT_NAME; apply prefixb_app).
  assert (F6 : parse_resp_header (ct_line ty) = Some (mkH Hd_CONTENT_TYPE ([32] ++ ty))).
  { unfold parse_resp_header, ct_line. rewrite split_once_colon by (intro Hi; cbn in Hi; repeat destruct Hi as [Hi|Hi]; try discriminate; contradiction).
    replace ([32] ++ ty ++ CRLF) with (([32] ++ ty) ++ CRLF) by (rewrite <- app_assoc; reflexivity). rewrite truncate_clean_crlf; [reflexivity| |];
      intro Hi; apply in_app_or in Hi as [Hi|Hi]; try contradiction; cbn in Hi; destruct Hi as [Hi|[]]; discriminate. }
  assert (F7 : trim ([32] ++ ty) = ty).
  { destruct (last_solid_split ty Hl) as (t' & y & -> & Hy). destruct t' as [|x t''].
    - cbn [app]. apply (trim_ws_single [32] y); auto.
    - cbn [app head_solid] in Hh. cbn [app]. apply (trim_ws_solid [32] x t'' y); auto. }
  tauto.
Qed.

Lemma cr_line_facts st en z rest : st <= en -> en <= z -> z < 2 ^ 63 ->
  split_line (cr_line st en z ++ rest) = (cr_line st en z, rest) /\ utf8_valid (cr_line st en z) = true /\ starts_with (cr_line st en z) CR_NAME = true /\
  (exists v tl0, split (cr_line st en z) COLON_SP = Hd_CONTENT_RANGE :: v :: tl0 /\ parse_cr_value (truncate_nl_cr v) = Some ((false, st), (false, en), (false, z))).
Proof.
  intros H1 H2 H3. set (val := Rg_BYTES ++ [32] ++ show_N st ++ [45] ++ show_N en ++ [47] ++ show_N z).
  destruct (digits_clean _ (show_N_digits st)) as ((A1 & A2) & U1 & A3). destruct (digits_clean _ (show_N_digits en)) as ((B1 & B2) & U2 & B3). destruct (digits_clean _ (show_N_digits z)) as ((C1 & C2) & U3 & C3).
  assert (Hv : forall x, (x = 10 \/ x = 13 \/ x = 58) -> ~ In x val).
  { intros x Hx Hi. unfold val in Hi. repeat (apply in_app_or in Hi as [Hi|Hi]);
      try (destruct Hx as [-> | [-> | ->]]; contradiction); cbn in Hi; repeat destruct Hi as [Hi|Hi]; try contradiction; subst x; destruct Hx as [Hx|[Hx|Hx]]; discriminate. }
  assert (Eline : cr_line st en z = (Hd_CONTENT_RANGE ++ COLON_SP ++ [32] ++ val) ++ CRLF) by (unfold cr_line, val; rewrite <- !app_assoc; reflexivity).
  assert (L10 : ~ In 10 (Hd_CONTENT_RANGE ++ COLON_SP ++ [32] ++ val)).
  { intro Hi. repeat (apply in_app_or in Hi as [Hi|Hi]); try (apply (Hv 10) in Hi; auto); cbn in Hi; repeat destruct Hi as [Hi|Hi]; try discriminate; contradiction. }
  assert (F1 : split_line (cr_line st en z ++ rest) = (cr_line st en z, rest)) by (rewrite Eline; apply line_split, L10).
  assert (F2 : utf8_valid (cr_line st en z) = true).
  { apply ascii_utf8. unfold cr_line, is_ascii. rewrite !forallb_app.
    assert (D : forall n, forallb (fun b => N.ltb b 128) (show_N n) = true).
    { intro n. apply forallb_forall. intros x Hx. pose proof (proj1 (forallb_forall _ _) (show_N_digits n) x Hx) as G. unfold is_digit in G. apply andb_prop in G as [_ G]. apply N.leb_le in G. apply N.ltb_lt. lia. }
    rewrite !D. reflexivity. }
  assert (F3 : starts_with (cr_line st en z) CR_NAME = true) by (unfold cr_line, starts_with, CR_NAME; apply prefixb_app).
  assert (F4 : exists v tl0, split (cr_line st en z) COLON_SP = Hd_CONTENT_RANGE :: v :: tl0 /\ parse_cr_value (truncate_nl_cr v) = Some ((false, st), (false, en), (false, z))).
  { assert (Hnc : ~ In 58 ([32] ++ val ++ CRLF)).
    { intro Hi. apply in_app_or in Hi as [Hi|Hi]; [cbn in Hi; destruct Hi as [Hi|[]]; discriminate|]. apply in_app_or in Hi as [Hi|Hi]; [apply (Hv 58) in Hi; auto|]. cbn in Hi. repeat destruct Hi as [Hi|Hi]; try discriminate; contradiction. }
    destruct (split_first_nocolon _ Hnc) as [tl0 Es]. exists ([32] ++ val ++ CRLF), tl0. split.
    - unfold cr_line. fold val. rewrite split_colon by (intro Hi; cbn in Hi; repeat destruct Hi as [Hi|Hi]; try discriminate; contradiction). rewrite Es. reflexivity.
    - replace ([32] ++ val ++ CRLF) with (([32] ++ val) ++ CRLF) by (rewrite <- app_assoc; reflexivity).
      rewrite truncate_clean_crlf.
      + unfold parse_cr_value.
        assert (Et : trim ([32] ++ val) = trim val).
        { unfold val at 1. change ([32] ++ Rg_BYTES ++ [32] ++ show_N st ++ [45] ++ show_N en ++ [47] ++ show_N z) with ([32] ++ 98 :: ([121;116;101;115] ++ [32] ++ show_N st ++ [45] ++ show_N en ++ [47] ++ show_N z)).
          destruct (exists_last (l := show_N z) (show_N_nonempty z)) as (zb & y & Ez).
          assert (Hy : solid y = true).
          { pose proof (show_N_digits z) as D3. rewrite Ez in D3. rewrite forallb_app in D3. apply andb_prop in D3 as [_ D3]. cbn [forallb] in D3. rewrite andb_true_r in D3.
            unfold is_digit in D3. apply andb_prop in D3 as [G1 G2]. apply N.leb_le in G1, G2. unfold solid, ascii_ws. apply andb_true_intro; split; [apply N.ltb_lt; lia|].
            apply negb_true_iff. apply orb_false_intro; [|apply N.eqb_neq; lia]. apply andb_false_iff. right. apply N.leb_gt. lia. }
          unfold val. rewrite Ez.
          replace ([121;116;101;115] ++ [32] ++ show_N st ++ [45] ++ show_N en ++ [47] ++ zb ++ [y]) with (([121;116;101;115] ++ [32] ++ show_N st ++ [45] ++ show_N en ++ [47] ++ zb) ++ [y]) by (rewrite <- !app_assoc; reflexivity).
          rewrite (trim_ws_solid [32] 98) by (auto; reflexivity).
          change (Rg_BYTES ++ [32] ++ show_N st ++ [45] ++ show_N en ++ [47] ++ zb ++ [y]) with (98 :: ([121;116;101;115] ++ [32] ++ show_N st ++ [45] ++ show_N en ++ [47] ++ zb ++ [y])).
          replace ([121;116;101;115] ++ [32] ++ show_N st ++ [45] ++ show_N en ++ [47] ++ zb ++ [y]) with (([121;116;101;115] ++ [32] ++ show_N st ++ [45] ++ show_N en ++ [47] ++ zb) ++ [y]) by (rewrite <- !app_assoc; reflexivity).
          rewrite trim_solid_both by (auto; reflexivity). reflexivity. }
        rewrite Et. exact (cr_value_parse st en z H1 H2 H3).
      + intro Hi. apply in_app_or in Hi as [Hi|Hi]; [cbn in Hi; destruct Hi as [Hi|[]]; discriminate|apply (Hv 13) in Hi; auto].
      + intro Hi. apply in_app_or in Hi as [Hi|Hi]; [cbn in Hi; destruct Hi as [Hi|[]]; discriminate|apply (Hv 10) in Hi; auto]. }
  tauto.
Qed.

(* ---------- one part inside the loop ---------- *)
Lemma mp_loop_step f bd c s opened acc :
  mp_loop (S f) bd (c :: s) opened acc = ltac:(let t := eval cbn [mp_loop] in (mp_loop (S f) bd (c :: s) opened acc) in exact t).
Proof. reflexivity. Qed.

Lemma mp_part f st en z body ty dl r acc : mpart_facts st en z body ty ->
  split_line (dl ++ r) = (dl, r) -> stops dl = true -> dl <> [] ->
  mp_loop (S f) BD (ct_line ty ++ cr_line st en z ++ CRLF ++ (body ++ CRLF) ++ dl ++ r) true acc =
  mp_loop f BD r true (acc ++ [(st, en, show_N z, body, ty)]).
Proof.
  intros [Hty (H1 & H2 & H3) Hb] Hdl Hst Hne.
  set (R1 := cr_line st en z ++ CRLF ++ (body ++ CRLF) ++ dl ++ r).
  destruct (ct_line_facts ty R1 Hty) as (C1 & C2 & C3 & C4 & C5 & C6 & C7 & C8).
  set (R2 := CRLF ++ (body ++ CRLF) ++ dl ++ r).
  destruct (cr_line_facts st en z R2 H1 H2 H3) as (D1 & D2 & D3 & (v & tl0 & D4 & D5)).
  remember (ct_line ty ++ R1) as rest eqn:Er. destruct rest as [|c0 s0]; [unfold ct_line in Er; discriminate|].
  rewrite mp_loop_step. rewrite C1. rewrite C2. cbn [negb]. rewrite C3. cbn [andb orb negb]. rewrite andb_false_r. cbn [orb].
  rewrite C5, C6. change (split_line R1) with (split_line (cr_line st en z ++ R2)). rewrite D1, D2. cbn [hvalue]. rewrite C7. rewrite D3, D4, D5.
  change (split_line R2) with (CRLF, (body ++ CRLF) ++ dl ++ r). cbv iota.
  change (utf8_valid CRLF) with true. change (beqs (trim CRLF) []) with true. cbn [negb].
  destruct ty as [|t0 ty']; [contradiction|].
  rewrite (part_body_lines dl r Hdl Hst Hne).
  - cbn [app]. rewrite pop2_crlf. unfold to_u64. cbn [fst snd]. rewrite show_signed_pos. reflexivity.
  - rewrite !app_length. lia.
  - rewrite (blines_more _ (S (length (body ++ CRLF)))); [exact Hb|rewrite !app_length; lia|lia].
  - right. exists (body ++ [13]). rewrite <- app_assoc. reflexivity.
Qed.

(* the separator line that opens the body is skipped: the loop is then where it is after any other part *)
Definition SEPL : list N := SEP_LINE ++ CRLF.
Lemma sep_facts rest : split_line (SEPL ++ rest) = (SEPL, rest) /\ utf8_valid SEPL = true /\ contains SEPL BD = true /\ stops SEPL = true /\ stops SEP_LINE = true.
Proof.
  repeat split; vm_compute; reflexivity.
Qed.
Lemma mp_open f ty R1 opened acc : mtype_ok ty = true ->
  mp_loop (S f) BD (SEPL ++ ct_line ty ++ R1) opened acc = mp_loop (S f) BD (ct_line ty ++ R1) true acc.
Proof.
  intro Hty. destruct (ct_line_facts ty R1 Hty) as (C1 & C2 & C3 & C4 & _).
  destruct (sep_facts (ct_line ty ++ R1)) as (S1 & S2 & S3 & _).
  remember (SEPL ++ ct_line ty ++ R1) as a eqn:Ea. destruct a as [|a0 a']; [unfold SEPL, SEP_LINE in Ea; discriminate|].
  remember (ct_line ty ++ R1) as b eqn:Eb. destruct b as [|b0 b']; [unfold ct_line in Eb; discriminate|].
  rewrite !mp_loop_step. rewrite S1, S2, S3, C1, C2, C3. cbn [negb andb orb]. rewrite ?andb_false_r, ?orb_true_r. cbn [orb]. reflexivity.
Qed.

(* ---------- all the parts ---------- *)
Definition mpart_text (p : N * N * list N * list N * list N) (z : N) : list N :=
  ct_line (pr_type p) ++ cr_line (pr_start p) (pr_end p) z ++ CRLF ++ (pr_body p ++ CRLF).

Fixpoint parts_text (l : list (N * N * list N * list N * list N * N)) : list N :=
  match l with
  | [] => []
  | (p, z) :: r => mpart_text p z ++ match r with [] => SEP_LINE | _ => SEPL ++ parts_text r end
  end.
Definition part_of (pz : N * N * list N * list N * list N * N) := (pr_start (fst pz), pr_end (fst pz), show_N (snd pz), pr_body (fst pz), pr_type (fst pz)).
Definition pz_ok (pz : N * N * list N * list N * list N * N) : Prop :=
  mpart_facts (pr_start (fst pz)) (pr_end (fst pz)) (snd pz) (pr_body (fst pz)) (pr_type (fst pz)).

Lemma parts_loop_all : forall l acc f, l <> [] -> Forall pz_ok l -> (length l < f)%nat ->
  mp_loop f BD (parts_text l) true acc = POk (acc ++ map part_of l).
Proof.
  induction l as [|[p z] l IH]; intros acc f Hne HF Hf; [contradiction|].
  inversion HF as [|? ? Fp HF']; subst. unfold pz_ok in Fp. cbn [fst snd] in Fp.
  destruct f as [|[|f]]; [cbn in Hf; lia|cbn [length] in Hf; lia|].
  cbn [parts_text]. unfold mpart_text. destruct l as [|pz2 l].
  - destruct (sep_facts []) as (_ & _ & _ & _ & Hst).
    replace ((ct_line (pr_type p) ++ cr_line (pr_start p) (pr_end p) z ++ CRLF ++ pr_body p ++ CRLF) ++ SEP_LINE)
      with (ct_line (pr_type p) ++ cr_line (pr_start p) (pr_end p) z ++ CRLF ++ (pr_body p ++ CRLF) ++ SEP_LINE ++ []) by (rewrite app_nil_r, <- !app_assoc; reflexivity).
    rewrite (mp_part (S f) _ _ _ _ _ SEP_LINE [] acc Fp); [reflexivity|vm_compute; reflexivity|exact Hst|discriminate].
  - destruct (sep_facts (parts_text (pz2 :: l))) as (S1 & _ & _ & Hst & _).
    replace ((ct_line (pr_type p) ++ cr_line (pr_start p) (pr_end p) z ++ CRLF ++ pr_body p ++ CRLF) ++ SEPL ++ parts_text (pz2 :: l))
      with (ct_line (pr_type p) ++ cr_line (pr_start p) (pr_end p) z ++ CRLF ++ (pr_body p ++ CRLF) ++ SEPL ++ parts_text (pz2 :: l)) by (rewrite <- !app_assoc; reflexivity).
    rewrite (mp_part (S f) _ _ _ _ _ SEPL (parts_text (pz2 :: l)) acc Fp S1 Hst ltac:(discriminate)).
    rewrite IH by (auto; try discriminate; cbn [length] in *; lia). cbn [map]. rewrite <- app_assoc. reflexivity.
Qed.

(* ---------- the serialiser's body is the separator line followed by the parts text ---------- *)
Definition gtail (l : list (N * N * list N * list N * list N * N)) : list N := flat_map (lib_part false) (map part_of l) ++ CRLF ++ SEP_LINE.
Lemma lib_part_text first pz X : lib_part first (part_of pz) ++ X =
  (if first then [] else CRLF) ++ SEPL ++ ct_line (pr_type (fst pz)) ++ cr_line (pr_start (fst pz)) (pr_end (fst pz)) (snd pz) ++ CRLF ++ pr_body (fst pz) ++ X.
Proof.
  unfold lib_part, part_of, SEPL, ct_line, cr_line, cr_text, pr_type, pr_start, pr_end, pr_size, pr_body. cbn [fst snd]. destruct first; rewrite <- !app_assoc; reflexivity.
Qed.
Lemma gtail_text : forall l, l <> [] -> gtail l = CRLF ++ SEPL ++ parts_text l.
Proof.
  induction l as [|[p z] l IH]; intro H; [contradiction|]. unfold gtail. cbn [map flat_map]. rewrite <- app_assoc. rewrite lib_part_text. cbn [fst snd parts_text].
  unfold mpart_text. destruct l as [|pz2 l].
  - cbn [map flat_map app]. rewrite <- !app_assoc. reflexivity.
  - fold (gtail (pz2 :: l)). rewrite IH by discriminate. rewrite <- !app_assoc. reflexivity.
Qed.
Lemma lib_body_text a b r : lib_body (map part_of (a :: b :: r)) = SEPL ++ parts_text (a :: b :: r).
Proof.
  cbn [map lib_body]. change (flat_map (lib_part false) (part_of b :: map part_of r) ++ CRLF ++ SEP_LINE) with (gtail (b :: r)).
  rewrite lib_part_text. rewrite gtail_text by discriminate. destruct a as [p z]. cbn [fst snd parts_text app]. unfold mpart_text. rewrite <- !app_assoc. reflexivity.
Qed.

Definition CT_MULTI : header := mkH Hd_CONTENT_TYPE Rg_MULTIPART_BYTERANGES_CONTENT_TYPE.
Lemma ct_multi_wf : wf_header CT_MULTI.
Proof.
  destruct (const_name_wf Hd_CONTENT_TYPE ltac:(auto)) as (A1 & A2 & A3). apply mk_wf; auto; try (vm_compute; reflexivity).
  - split; intro Hi; vm_compute in Hi; repeat destruct Hi as [Hi|Hi]; try discriminate; contradiction.
  - intro E. discriminate.
Qed.

(* every response with two or more parts: any bodies no line of which is valid UTF-8 and contains the separator text *)
Theorem multi_part_round_trip inst v c rsn hs a b r :
  resp_status_ok v c rsn = true -> forallb user_header_ok hs = true -> Forall pz_ok (a :: b :: r) ->
  response_parse (lib_generate inst (mkPresp v c rsn hs (map part_of (a :: b :: r)))) =
  POk (mkPresp v c rsn (hs ++ [CT_MULTI]) (map part_of (a :: b :: r))).
Proof.
  intros Hs Hh HF.
  assert (Hu : Forall (fun h => wf_header h /\ hname h <> Hd_CONTENT_TYPE /\ hname h <> Hd_CONTENT_RANGE /\ hname h <> Hd_CONTENT_LENGTH) hs).
  { apply Forall_forall. intros h Hi. apply user_header_wf. exact (proj1 (forallb_forall _ _) Hh h Hi). }
  assert (Hd : lib_derived inst (map part_of (a :: b :: r)) = [CT_MULTI]) by reflexivity.
  assert (Hw : Forall wf_header (hs ++ [CT_MULTI])).
  { apply Forall_app. split; [eapply Forall_impl; [|exact Hu]; intros h G; apply G|constructor; [exact ct_multi_wf|constructor]]. }
  unfold lib_generate. cbn [pr_version pr_status pr_reason pr_headers pr_ranges]. rewrite Hd, lib_body_text.
  set (body := SEPL ++ parts_text (a :: b :: r)).
  destruct (status_line_facts v c rsn (flat_map gen_header (hs ++ [CT_MULTI]) ++ CRLF ++ body) Hs) as (S1 & S2 & S3 & S4). cbv zeta in *.
  unfold response_parse.
  replace (v ++ [32] ++ show_N c ++ [32] ++ rsn ++ CRLF ++ flat_map gen_header (hs ++ [CT_MULTI]) ++ CRLF ++ body)
    with ((status_text v c rsn ++ CRLF) ++ flat_map gen_header (hs ++ [CT_MULTI]) ++ CRLF ++ body) by (unfold status_text; rewrite <- !app_assoc; reflexivity).
  rewrite S1, S2, S3, S4. cbn [negb].
  rewrite resp_headers_roundtrip by (auto; pose proof (gen_headers_length (hs ++ [CT_MULTI])); rewrite !app_length in *; lia). cbn [app].
  assert (Nct : Forall (fun h => hname h <> CT_NAME) hs) by (eapply Forall_impl; [|exact Hu]; intros h G; apply G).
  rewrite (find_skip CT_NAME hs _ Nct). unfold CT_MULTI. cbn [find hname hvalue]. change (beqs Hd_CONTENT_TYPE CT_NAME) with true. cbv iota. cbn [hvalue].
  change (starts_with Rg_MULTIPART_BYTERANGES_CONTENT_TYPE MULTIPART_BYTERANGES) with true. cbv iota.
  change (extract_boundary Rg_MULTIPART_BYTERANGES_CONTENT_TYPE) with (Some BD). cbv iota beta. fold CT_MULTI.
  unfold body. inversion HF as [|? ? Fa HF']; subst.
  assert (Ha : mtype_ok (pr_type (fst a)) = true) by (apply (mp_ty _ _ _ _ _ Fa)).
  destruct a as [pa za]. cbn [fst] in Ha.
  assert (Et : exists R, parts_text ((pa, za) :: b :: r) = ct_line (pr_type pa) ++ R).
  { exists (cr_line (pr_start pa) (pr_end pa) za ++ CRLF ++ (pr_body pa ++ CRLF) ++ SEPL ++ parts_text (b :: r)).
    change (parts_text ((pa, za) :: b :: r)) with (mpart_text pa za ++ SEPL ++ parts_text (b :: r)). unfold mpart_text. rewrite <- !app_assoc. reflexivity. }
  destruct Et as [R Et]. rewrite Et. rewrite (mp_open _ (pr_type pa) R false [] Ha). rewrite <- Et.
  rewrite parts_loop_all; [reflexivity|discriminate|exact HF|].
  assert (G : forall l, (length l <= length (parts_text l))%nat).
  { induction l as [|[p z] l IHl]; [cbn; lia|]. cbn [parts_text length]. unfold mpart_text, ct_line. rewrite !app_length. destruct l; cbn [length] in *; [lia|]. rewrite app_length. lia. }
  specialize (G ((pa, za) :: b :: r)). rewrite app_length. lia.
Qed.

(* the same statement over the decidable domain the model runner evaluates on every generated case *)
Definition to_pz (p : N * N * list N * list N * list N) : N * N * list N * list N * list N * N :=
  (p, match digits_val 0 (pr_size p) with Some z => z | None => 0 end).
Lemma mpart_ok_pz p : mpart_ok p = true -> pz_ok (to_pz p) /\ part_of (to_pz p) = p.
Proof.
  unfold mpart_ok, pz_ok, to_pz, part_of. cbn [fst snd]. intro H.
  apply andb_prop in H as [H Hb]. apply andb_prop in H as [Ht Hz].
  destruct (digits_val 0 (pr_size p)) as [z|]; [|discriminate].
  apply andb_prop in Hz as [Hz H4]. apply andb_prop in Hz as [Hz H3]. apply andb_prop in Hz as [H1 H2].
  apply beqs_eq in H1. apply N.leb_le in H2. apply N.leb_le in H3. apply N.ltb_lt in H4.
  split; [constructor; [exact Ht|tauto|exact Hb]|].
  rewrite <- H1. destruct p as [[[[st en] sz] bo] ty]. reflexivity.
Qed.
Theorem multi_ok_round_trip inst r : multi_ok r = true ->
  response_parse (lib_generate inst r) =
  POk (mkPresp (pr_version r) (pr_status r) (pr_reason r) (pr_headers r ++ [CT_MULTI]) (pr_ranges r)).
Proof.
  destruct r as [v c rsn hs rs]. unfold multi_ok. cbn [pr_version pr_status pr_reason pr_headers pr_ranges]. intro H.
  apply andb_prop in H as [H Hr]. apply andb_prop in H as [Hs Hh].
  destruct rs as [|a [|b r]]; try discriminate.
  assert (G : forall l, forallb mpart_ok l = true -> Forall pz_ok (map to_pz l) /\ map part_of (map to_pz l) = l).
  { induction l as [|p l IHl]; intro Hl; [split; [constructor|reflexivity]|]. cbn [forallb] in Hl. apply andb_prop in Hl as [Hp Hl].
    destruct (mpart_ok_pz p Hp) as [P1 P2]. destruct (IHl Hl) as [L1 L2]. cbn [map]. split; [constructor; assumption|rewrite P2, L2; reflexivity]. }
  destruct (G _ Hr) as [G1 G2]. rewrite <- G2. cbn [map] in *. apply multi_part_round_trip; assumption.
Qed.
