(* C08 — concurrent requests do not influence one another.
   Jobs are closures over their own connection; what a job writes is a function of (configuration, file system, input) only.
   That shape is what GenSharedState (tools/scan_shared.py, regenerated on every run) justifies: no shared mutable state on the
   request path other than the pool's own receiver mutex, environment writes confined to start-up. *)
From Coq Require Import List Arith Lia Bool.
From Rws Require Import Str Utf8 Num Fs UrlParse RangeSpec Request GenMime Mime StaticRes GenConsts Forms Server Pool GenSharedState.
Import ListNotations.
Local Open Scope nat_scope.

(* ---- the scan ---- *)
Definition row_ok (r : shared_kind * where_) : bool :=
  match r with
  | (KArcLock, InPool) => true                 (* the job queue: Arc<Mutex<Receiver<Job>>> *)
  | (KEnvWrite, InStartup) => true             (* RWS_CONFIG_* are written before the first accept only *)
  | _ => false
  end.
Definition shared_state_ok (scan : list (shared_kind * where_)) : bool := forallb row_ok scan.
Lemma scan_ok : shared_state_ok shared_state_scan = true.
Proof. vm_compute. reflexivity. Qed.
Lemma scan_rejects : row_ok (KStaticMut, OnRequestPath) = false /\ row_ok (KEnvWrite, OnRequestPath) = false /\ row_ok (KArcLock, OnRequestPath) = false /\
                     row_ok (KThreadLocal, OnRequestPath) = false /\ row_ok (KLazyStatic, OnRequestPath) = false /\ row_ok (KStaticInterior, InPool) = false /\
                     row_ok (KChdir, OnRequestPath) = false /\ row_ok (KUnsafe, OnRequestPath) = false.
Proof. repeat split; reflexivity. Qed.

(* ---- the system: the pool of Pool.v whose job j handles connection j ---- *)
Section Isolation.
  Variable cfg : config.
  Variable fs : fsys.
  Variable legacy : bool.
  Variable inputs : nat -> list N.            (* what connection j sends *)
  (* the bytes written on connection j: job j closes over its own stream and input only *)
  Definition job_output (j : nat) : outcome := process_gen legacy cfg fs (inputs j).

  (* the outputs produced in a run: one per finished job, whichever worker ran it and in whatever order *)
  Definition outputs (s : st) : list (nat * outcome) := map (fun j => (j, job_output j)) (done s).

  Theorem isolation : forall rs n ls s, run rs (init n) ls = Some s ->
    (* every connection that was answered received exactly what it would receive alone ... *)
    (forall j o, In (j, o) (outputs s) -> o = process_gen legacy cfg fs (inputs j)) /\
    (* ... once, and only connections that were submitted are answered *)
    (forall j, cnt j (map fst (outputs s)) <= 1) /\ (forall j, In j (map fst (outputs s)) -> In j (submitted s)).
  Proof.
    intros rs n ls s H. pose proof (exactly_once rs n ls s H) as Hx. repeat split.
    - intros j o Hin. unfold outputs in Hin. apply in_map_iff in Hin as [j' [E _]]. inversion E; subst. reflexivity.
    - intro j. unfold outputs. rewrite map_map. cbn [fst]. rewrite map_id. destruct (Hx j) as [E L]. lia.
    - intro j. unfold outputs. rewrite map_map. cbn [fst]. rewrite map_id. intro Hin.
      destruct (Hx j) as [E L]. assert (cnt j (done s) > 0) by (apply count_occ_In; exact Hin).
      apply (count_occ_In Nat.eq_dec). unfold cnt in *. lia.
  Qed.
  (* two runs with different interleavings, pool sizes and arrival orders give every common connection the same bytes *)
  Corollary schedule_independent : forall rs1 rs2 n1 n2 ls1 ls2 s1 s2 j o1 o2,
    run rs1 (init n1) ls1 = Some s1 -> run rs2 (init n2) ls2 = Some s2 ->
    In (j, o1) (outputs s1) -> In (j, o2) (outputs s2) -> o1 = o2.
  Proof. intros. destruct (isolation _ _ _ _ H) as [A _]. destruct (isolation _ _ _ _ H0) as [B _]. rewrite (A _ _ H1), (B _ _ H2). reflexivity. Qed.
End Isolation.
