(* C20 — the vetted inventory of panic sites and self-recursive functions of the parser modules *)
From Coq Require Import List Bool Arith. Import ListNotations. Open Scope bool_scope.
(* ---------- the inventory of panic sites in the parser modules (regenerated from /repo on every run) ---------- *)
From Rws Require Import GenPanicSites.
From Coq Require Import String.
(* why a counted site cannot fire:
   Model      - it is a panic value of the Coq model, proved unreachable (theorem named beside it)
   Guarded    - an is_some / is_err / length test the scanner does not follow protects it
   Infallible - the call cannot fail (read on an in-memory cursor, parse::<String>, a one-byte string has a last char)
   NotParser  - writer, formatter or accessor, not a parsing entry point
   Legacy     - underscore-prefixed unwrapping twin kept for compatibility; not reached from a Result-returning entry point *)
Inductive reason := Model | Guarded | Infallible | NotParser | Legacy.
Definition vetted : list (string * nat * reason) := [
  ("json/array::split_into_vector_of_strings", 21%nat, Model);          (* APanicUtf8: split_array_total *)
  ("json/array/string::parse_as_list_string", 3%nat, Model);            (* RtPanic in read_str: typed_read_total *)
  ("json/object::parse_as_properties", 3%nat, Infallible);              (* last char of a text that was just extended *)
  ("json/object::to_json_string", 6%nat, NotParser);
  ("json/property::float_number_with_precision", 1%nat, NotParser);
  ("json/property::fmt", 6%nat, NotParser);
  ("core/base64::convert_base64_char_to_number", 1%nat, Guarded);
  ("body/multipart_form_data::parse_form_part_recursively", 4%nat, Guarded);   (* body_length >= 2 *)
  ("response::generate_body", 1%nat, NotParser);
  ("response::generate_response", 1%nat, NotParser);
  ("response::_parse_http_response_header_string", 2%nat, Model);       (* PPanicIdx: response_parse_no_panic *)
  ("response::_parse_raw_response_via_cursor", 4%nat, Legacy);
  ("response::generate", 1%nat, NotParser);
  ("response::parse_raw_response_via_cursor", 1%nat, Guarded);
  ("request::parse_http_request_header_string", 2%nat, Guarded);        (* splitn(2) test before the indexing *)
  ("request::cursor_read", 2%nat, Infallible);
  ("range::get_content_range_list", 1%nat, Model);                      (* URL::parse of a generated URL: C04 *)
  ("range::_parse_multipart_body", 1%nat, Legacy);
  ("range::_parse_line_as_bytes", 1%nat, Legacy);
  ("range::_convert_bytes_array_to_string", 1%nat, Legacy);
  ("range::parse_multipart_body", 1%nat, Infallible);
  ("header/content_disposition::as_string", 4%nat, NotParser);
  ("header/content_disposition::parse", 1%nat, Model);                  (* cd_first_piece *)
  ("url/path::extract_parts_from_pattern", 3%nat, Model);               (* pattern_parts_total *)
  ("url/path::is_matching", 4%nat, Model);                              (* is_matching_total *)
  ("url/path::extract", 5%nat, Model);                                  (* extract_total *)
  ("url/path::build", 2%nat, Model)                                     (* build_total *)
]%string.
Definition legacy_recursive : list string := ["response::_parse_raw_response_via_cursor"; "range::_parse_multipart_body"]%string.
(* every function with panic sites is in the vetted table with at least as many sites (a site or a function that disappears needs no vetting) *)
Definition site_ok (fn : string * nat) : bool :=
  existsb (fun v => String.eqb (fst (fst v)) (fst fn) && Nat.leb (snd fn) (snd (fst v))) vetted.
Lemma panic_sites_vetted : forallb site_ok panic_sites = true.
Proof. vm_compute. reflexivity. Qed.
(* at the pinned commit the inventory is exactly the table (the table holds nothing stale) *)
Example panic_sites_exact : panic_sites = map fst vetted.
Proof. vm_compute. reflexivity. Qed.
(* no checked function calls an unwrapping twin that the table marks as legacy: what "Legacy" claims *)
Definition is_legacy (k : string) : bool :=
  existsb (fun v => String.eqb (fst (fst v)) k && match snd v with Legacy => true | _ => false end) vetted.
Lemma no_legacy_twin_called : forallb (fun c => negb (is_legacy (snd c))) twin_calls = true.
Proof. vm_compute. reflexivity. Qed.
(* a new self-recursive function has to be looked at; one that disappears does not *)
Lemma recursion_vetted : forallb (fun f => existsb (String.eqb f) legacy_recursive) self_recursive = true.
Proof. vm_compute. reflexivity. Qed.
