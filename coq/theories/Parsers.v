(* Library-level wrappers of the parsing entry points that take raw bytes or text (C20); each returns a value, an error or a panic *)
From Rws Require Import Str Utf8 Num Request RangeSpec Forms Config RespParse Base64 Json JsonArray Server JsonRt UrlPath.
Open Scope N_scope.

(* read_config_file on arbitrary bytes: BufRead::lines fails on the first line that is not UTF-8, before anything is applied *)
Definition read_config_bytes (content : list N) : bool := utf8_valid content.

(* the typed array readers on arbitrary text *)
Inductive tkind := TkInt (w : iw) | TkFloat | TkStr | TkBool | TkNull.
Inductive titems := TiInts (xs : list (bool * N)) | TiCount (n : nat) | TiStrs (xs : list (list N)) | TiBools (xs : list bool).
Definition map_rt {A B} (f : A -> B) (r : rtres A) : rtres B := match r with RtOk a => RtOk (f a) | RtErr => RtErr | RtPanic => RtPanic end.
Definition typed_read (k : tkind) (raw : list N) : rtres titems :=
  match k with
  | TkInt w => map_rt TiInts (typed_list (read_int w) raw)
  | TkFloat => map_rt (fun l => TiCount (length l)) (typed_list read_float raw)
  | TkStr => map_rt TiStrs (typed_list read_str raw)
  | TkBool => map_rt TiBools (typed_list read_bool raw)
  | TkNull => map_rt (fun l => TiCount (length l)) (typed_list read_null raw)
  end.

(* UrlPath on UTF-8 text *)
Definition upath_parts (pattern : list N) := pattern_parts (chars pattern).
Definition upath_match (path pattern : list N) := is_matching (chars path) (chars pattern).
Definition upath_extract (path pattern : list N) := extract (chars path) (chars pattern).
Definition upath_build (params : list (list N * list N)) (pattern : list N) :=
  build (map (fun kv => (chars (fst kv), chars (snd kv))) params) (chars pattern).
