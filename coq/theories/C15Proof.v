(* C15 — responses written by the library can be read back by it *)
From Coq Require Import Arith.
From Rws Require Import Str Utf8 Num Unicase Fs UrlParse RangeSpec Request GenMime Mime StaticRes GenConsts Forms Server RespParse StrLemmas.
Open Scope N_scope.

(* ---------- reject: the status line must carry a registered code with that code's phrase (ASCII case-insensitively) ---------- *)
Theorem status_line_shape line v c rsn : parse_status_line line = Some (v, c, rsn) ->
  exists rest code, split_once (truncate_nl_cr line) [32] = Some (v, rest) /\ split_once rest [32] = Some (code, rsn) /\
    mem (uupper v) version_list = true /\ parse_i16 code = Some (false, c) /\
    exists p, find (fun p => N.eqb (fst p) c) status_table = Some p /\ uupper (snd p) = uupper rsn.
Proof.
  unfold parse_status_line. destruct (split_once (truncate_nl_cr line) [32]) as [[v' rest]|]; [|discriminate].
  destruct (mem (uupper v') version_list) eqn:Ev; cbn [negb]; [|discriminate].
  destruct (split_once rest [32]) as [[code rsn']|] eqn:Es; [|discriminate].
  destruct (parse_i16 code) as [[[|] c']|] eqn:Ec; try discriminate.
  destruct (find (fun p => N.eqb (fst p) c') status_table) as [p|] eqn:Ef; [|discriminate].
  destruct (beqs (uupper (snd p)) (uupper rsn')) eqn:Eb; [|discriminate].
  intro H. inversion H; subst. exists rest, code. repeat split; auto. exists p. split; auto. apply beqs_eq, Eb.
Qed.
Theorem reject_unknown_status line v rest code rsn c :
  split_once (truncate_nl_cr line) [32] = Some (v, rest) -> split_once rest [32] = Some (code, rsn) -> parse_i16 code = Some (false, c) ->
  find (fun p => N.eqb (fst p) c) status_table = None -> parse_status_line line = None.
Proof. intros H1 H2 H3 H4. unfold parse_status_line. rewrite H1. destruct (negb _); [reflexivity|]. rewrite H2, H3, H4. reflexivity. Qed.
Theorem reject_mismatched_phrase line v rest code rsn c p :
  split_once (truncate_nl_cr line) [32] = Some (v, rest) -> split_once rest [32] = Some (code, rsn) -> parse_i16 code = Some (false, c) ->
  find (fun p => N.eqb (fst p) c) status_table = Some p -> uupper (snd p) <> uupper rsn -> parse_status_line line = None.
Proof. intros H1 H2 H3 H4 H5. unfold parse_status_line. rewrite H1. destruct (negb _); [reflexivity|]. rewrite H2, H3, H4.
  destruct (beqs (uupper (snd p)) (uupper rsn)) eqn:E; [apply beqs_eq in E; contradiction|reflexivity]. Qed.
Theorem parse_needs_status_line input : parse_status_line (fst (split_line input)) = None -> response_parse input = PErr.
Proof. intro H. unfold response_parse. destruct (split_line input) as [line rest]. cbn [fst] in H. destruct (negb (utf8_valid line)); [reflexivity|]. rewrite H. reflexivity. Qed.

(* ---------- no panic: every input gives a value or an error ---------- *)
Lemma resp_headers_nopanic : forall fuel rest hs, resp_headers fuel rest hs <> PPanicCL /\ resp_headers fuel rest hs <> PPanicIdx.
Proof.
  induction fuel as [|f IH]; intros rest hs; cbn [resp_headers]; [split; discriminate|].
  destruct (split_line rest) as [line rest']. destruct (negb (utf8_valid line)); [split; discriminate|].
  destruct (beqs (trim line) []); [split; discriminate|].
  destruct (parse_resp_header line) as [h|]; [|split; discriminate].
  match goal with |- context [if ?c then _ else _] => destruct c end; [split; discriminate|apply IH].
Qed.
Lemma mp_loop_nopanic : forall fuel bd rest opened acc, mp_loop fuel bd rest opened acc <> PPanicCL /\ mp_loop fuel bd rest opened acc <> PPanicIdx.
Proof.
  induction fuel as [|f IH]; intros bd rest opened acc; cbn [mp_loop]; [split; discriminate|].
  destruct rest as [|c0 r0']; [split; discriminate|].
  destruct (split_line (c0 :: r0')) as [l0 r0]. destruct (negb (utf8_valid l0)); [split; discriminate|].
  match goal with |- context [if ?c then PErr else _] => destruct c end; [split; discriminate|].
  match goal with |- context [match ?x with None => PErr | Some _ => _ end] => destruct x as [[l1 r1]|] end; [|split; discriminate].
  match goal with |- context [match ?x with None => PErr | Some _ => _ end] => destruct x as [[[ctype l2] r2]|] end; [|split; discriminate].
  destruct (starts_with l2 CR_NAME); [|apply IH].
  destruct (split l2 COLON_SP) as [|x [|v r]]; try (split; discriminate).
  destruct (parse_cr_value (truncate_nl_cr v)) as [[[st en] sz]|]; [|split; discriminate].
  destruct (split_line r2) as [l3 r3]. destruct (negb (utf8_valid l3)); [split; discriminate|].
  destruct (negb (beqs (trim l3) [])); [split; discriminate|].
  destruct ctype; [apply IH|].
  destruct (part_body (S (length r3)) bd r3 []) as [[b r4]|]; [apply IH|split; discriminate].
Qed.
(* the older reader with the fixed separator: an error or a list, never a panic value *)
Lemma rmp_loop_nopanic : forall fuel rest acc, rmp_loop fuel rest acc <> PPanicCL /\ rmp_loop fuel rest acc <> PPanicIdx.
Proof.
  induction fuel as [|f IH]; intros rest acc; cbn [rmp_loop]; [split; discriminate|].
  destruct (split_line rest) as [l0 r0]. destruct (negb (utf8_valid l0)); [split; discriminate|].
  destruct l0 as [|c0 l0']; [split; discriminate|].
  match goal with |- context [match ?x with None => PErr | Some _ => _ end] => destruct x as [[l1 r1]|] end; [|split; discriminate].
  match goal with |- context [match ?x with None => PErr | Some _ => _ end] => destruct x as [[[ctype l2] r2]|] end; [|split; discriminate].
  match goal with |- context [match ?x with None => PErr | Some _ => _ end] => destruct x as [[[cr l5] r5]|] end; [|split; discriminate].
  destruct cr as [[[st en] sz]|]; [|apply IH]. destruct ctype as [|t0 ts]; [apply IH|].
  match goal with |- context [match ?x with None => PErr | Some _ => _ end] => destruct x as [[b' r6]|] end; [apply IH|split; discriminate].
Qed.
Theorem rmp_parse_no_panic input : rmp_parse input <> PPanicCL /\ rmp_parse input <> PPanicIdx.
Proof. apply rmp_loop_nopanic. Qed.
Theorem response_parse_no_panic input : response_parse input <> PPanicCL /\ response_parse input <> PPanicIdx.
Proof.
  unfold response_parse. destruct (split_line input) as [line rest]. destruct (negb (utf8_valid line)); [split; discriminate|].
  destruct (parse_status_line line) as [[[v c] rsn]|]; [|split; discriminate].
  destruct (beqs (trim line) []); [split; discriminate|].
  destruct (resp_headers (S (length rest)) rest []) as [[hs body]| | |] eqn:Eh; try (split; discriminate);
    try (exfalso; destruct (resp_headers_nopanic (S (length rest)) rest []) as [A B]; congruence).
  assert (Hs : forall t, single_part v c rsn hs body t <> PPanicCL /\ single_part v c rsn hs body t <> PPanicIdx).
  { intro t. unfold single_part. destruct (find _ hs); [destruct (parse_cr_value _) as [[[a b'] d]|]|]; split; discriminate. }
  destruct (find (fun h => beqs (hname h) CT_NAME) hs) as [h|]; [|apply Hs].
  destruct (starts_with (hvalue h) MULTIPART_BYTERANGES); [|apply Hs].
  destruct (extract_boundary (hvalue h)) as [bd|]; [|split; discriminate].
  destruct (mp_loop (S (length body)) bd body false []) eqn:Em; try (split; discriminate);
    exfalso; destruct (mp_loop_nopanic (S (length body)) bd body false []) as [A B]; congruence.
Qed.

(* ---------- round trips, by computation on representative values (the general statements are not proved yet) ---------- *)
Definition part_bin : N * N * list N * list N * list N := (0, 6, [54], [0; 255; 13; 10; 45; 45], [97;47;98]).        (* 0-6/6, bytes 00 ff CR LF - -, type a/b *)
Definition part_empty : N * N * list N * list N * list N := (3, 3, [57], [], [116;101;120;116;47;112;108;97;105;110]).     (* empty body *)
Definition part_crlf : N * N * list N * list N * list N := (4, 5, [57], [13;10], [97;47;98]).                             (* body is CRLF *)
Definition resp_multi : presp := mkPresp HTTP11 206 (reason 206) [mkH [88;45;65] [98;58;32;99]] [part_bin; part_empty; part_crlf].
Definition resp_single : presp := mkPresp HTTP11 206 (reason 206) [mkH [88;45;65] [98]] [(2, 5, [49;48], [0;255;13;10], [97;47;98])].
Example roundtrip_multi_static : response_parse (lib_generate false resp_multi) =
  POk (mkPresp HTTP11 206 (reason 206) (pr_headers resp_multi ++ lib_derived false (pr_ranges resp_multi)) (pr_ranges resp_multi)).
Proof. vm_compute. reflexivity. Qed.
Example roundtrip_multi_inst : response_parse (lib_generate true resp_multi) =
  POk (mkPresp HTTP11 206 (reason 206) (pr_headers resp_multi ++ lib_derived true (pr_ranges resp_multi)) (pr_ranges resp_multi)).
Proof. vm_compute. reflexivity. Qed.
Example roundtrip_single_static : response_parse (lib_generate false resp_single) =
  POk (mkPresp HTTP11 206 (reason 206) (pr_headers resp_single ++ lib_derived false (pr_ranges resp_single)) (pr_ranges resp_single)).
Proof. vm_compute. reflexivity. Qed.
(* C15-F2: the instance serialiser drops the Content-Type of a single part; it comes back as application/octet-stream *)
Example inst_loses_type : exists t, response_parse (lib_generate true resp_single) =
  POk (mkPresp HTTP11 206 (reason 206) (pr_headers resp_single ++ lib_derived true (pr_ranges resp_single)) [(2, 5, [49;48], [0;255;13;10], t)])
  /\ t = OCTET /\ t <> [97;47;98].
Proof. eexists. split; [vm_compute; reflexivity|]. split; [reflexivity|vm_compute; discriminate]. Qed.
