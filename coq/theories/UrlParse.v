(* Model of url_build_parse::parse_url (v11.0.0), as used by rws on "http://localhost" ++ request_uri *)
From Rws Require Import Str Num.
Open Scope N_scope.

Record authority := mkAuth { a_user : option (list N); a_pass : option (list N); a_host : list N; a_port : option N }.
Record url := mkUrl { u_scheme : list N; u_auth : option authority; u_path : list N;
                      u_query : option (list N);      (* raw text after '?', before parse_url_search_params *)
                      u_fragment : option (list N) }.
Inductive uerr := UNoScheme | UEmpty | UOther | UNoFragment.
Inductive ures (A : Type) := UOk (a : A) | UErr (e : uerr) | UPanicPort.
Arguments UOk {A}. Arguments UErr {A}. Arguments UPanicPort {A}.

Definition SL : list N := [47]. Definition QM : list N := [63]. Definition HASH : list N := [35].
Definition COLON : list N := [58]. Definition AT : list N := [64]. Definition RBR : list N := [93].
Definition DSL : list N := [47;47].

(* extract_authority: (authority text, remaining) *)
Definition extract_authority (u : list N) : ures (option (list N) * option (list N)) :=
  match u with [] => UErr UEmpty | _ =>
  match split_once u DSL with
  | None => UOk (None, Some u)
  | Some (_, r) =>
    let sl := contains r SL in let qm := contains r QM in let hs := contains r HASH in
    if negb sl && negb qm && negb hs then UOk (Some r, None) else
    if sl then match split_once r SL with Some (a, rem) => UOk (Some a, Some (SL ++ rem)) | None => UErr UOther end else
    if qm then match split_once r QM with Some (a, rem) => UOk (Some a, Some (QM ++ rem)) | None => UErr UOther end else
    match split_once r HASH with Some (a, rem) => UOk (Some a, Some (HASH ++ rem)) | None => UErr UOther end
  end end.

Definition parse_authority (a : list N) : ures authority :=
  (* extract_userinfo *)
  let '(user, pass, rest) :=
    match split_once a AT with
    | Some (ui, r) => match split_once ui COLON with
                      | Some (un, pw) => (Some un, Some pw, r)
                      | None => (Some ui, None, r) end
    | None => (None, None, a)
    end in
  (* extract_host *)
  let '(host, rem) :=
    match split_once rest RBR with
    | Some (h, r) => (h ++ RBR, if contains r COLON then Some r else None)
    | None => match split_once rest COLON with
              | Some (h, r) => (h, Some (COLON ++ r))
              | None => (rest, None) end
    end in
  (* extract_port, unwrapped by parse_authority *)
  match rem with
  | None => UOk (mkAuth user pass host None)
  | Some r => match split_once r COLON with
              | Some (_, ps) => match parse_usize ps with
                                | Some p => UOk (mkAuth user pass host (Some p))
                                | None => UPanicPort end
              | None => UOk (mkAuth user pass host None)
              end
  end.

Definition extract_path (u : list N) : ures (list N * option (list N)) :=
  match u with [] => UErr UEmpty | _ =>
  let qm := contains u QM in let hs := contains u HASH in
  if negb qm && negb hs then UOk (u, None) else
  let d := if negb qm && hs then HASH else QM in
  match split_once u d with Some (p, r) => UOk (p, Some (d ++ r)) | None => UErr UOther end
  end.

(* (query incl. leading '?', remaining) *)
Definition extract_query (u : list N) : option (list N) * option (list N) :=
  match u with [] => (None, None) | _ =>
  match split_once u HASH with
  | Some (q, r) => ((match q with [] => None | _ => Some q end), Some (HASH ++ r))
  | None => (Some u, None)
  end end.

Definition parse_url (s : list N) : ures url :=
  match split_once s COLON with
  | None => UErr UNoScheme
  | Some (scheme, rest) =>
    match extract_authority rest with
    | UErr e => UErr e | UPanicPort => UPanicPort
    | UOk (oa, orem) =>
      match (match oa with Some a => match parse_authority a with UOk x => UOk (Some x) | UErr e => UErr e | UPanicPort => UPanicPort end
                         | None => UOk None end) with
      | UErr e => UErr e | UPanicPort => UPanicPort
      | UOk auth =>
        match orem with
        | None => UOk (mkUrl scheme auth [] None None)
        | Some rem =>
          match extract_path rem with
          | UErr e => UErr e | UPanicPort => UPanicPort
          | UOk (p, None) => UOk (mkUrl scheme auth p None None)
          | UOk (p, Some rem2) =>
            let '(oq, orem3) := extract_query rem2 in
            let q := match oq with Some qq => match split_once qq QM with Some (_, t) => Some t | None => None end | None => None end in
            match oq, orem3 with
            | Some _, None => UOk (mkUrl scheme auth p q None)
            | _, _ =>
              let rem4 := match oq, orem3 with Some _, Some r3 => r3 | _, _ => rem2 end in
              match split_once rem4 HASH with
              | Some (_, fr) => UOk (mkUrl scheme auth p q (Some fr))
              | None => UErr UNoFragment
              end
            end
          end
        end
      end
    end
  end.

Definition HTTP_LOCALHOST : list N := [104;116;116;112;58;47;47;108;111;99;97;108;104;111;115;116].
Definition target_url (uri : list N) := parse_url (HTTP_LOCALHOST ++ uri).
Definition path_of r := match r with UOk u => Some (u_path u) | _ => None end.

(* observed on the implementation *)
Example t1 : path_of (target_url [47;97;46;116;120;116;63;120;35;121]) = Some [47;97;46;116;120;116]. Proof. vm_compute. reflexivity. Qed. (* /a.txt?x#y *)
Example t2 : path_of (target_url [120]) = Some []. Proof. vm_compute. reflexivity. Qed.                       (* "x": lands in the authority, path "" *)
Example t3 : target_url [58;120;47] = UPanicPort. Proof. vm_compute. reflexivity. Qed.                        (* ":x/" *)
Example t4 : path_of (target_url [47;47;97]) = Some [47;47;97]. Proof. vm_compute. reflexivity. Qed.          (* "//a" *)
Example t5 : path_of (target_url [64;47;97]) = Some [47;97]. Proof. vm_compute. reflexivity. Qed.            (* "@/a" *)
Example t6 : target_url [104;116;116;112;58;47;47;101;47;120] = UPanicPort. Proof. vm_compute. reflexivity. Qed. (* "http://e/x" *)
Example t7 : path_of (target_url [47;97;35;102;63;120]) = Some [47;97;35;102]. Proof. vm_compute. reflexivity. Qed. (* "/a#f?x": '#' stays in the path *)
