From Rws Require Import Str Num Fs UrlParse RangeSpec Request GenMime Mime StaticRes StrLemmas C01Proof.
Open Scope N_scope.

(* ---------- re-parsing a clean path gives it back ---------- *)
Definition clean_path (P : list N) : Prop := (exists t, P = SLASH :: t) /\ ~ In 63 P /\ ~ In 35 P.

Lemma not_In_contains_1 d s : ~ In d s -> contains s [d] = false.
Proof. intro H. destruct (contains s [d]) eqn:E; [|reflexivity]. apply contains_1_In in E. contradiction. Qed.

Lemma parse_authority_localhost : parse_authority LOCALHOST = UOk (mkAuth None None LOCALHOST None).
Proof. vm_compute. reflexivity. Qed.

Theorem reparse_clean P : clean_path P -> path_or_panic P = SOk P.
Proof.
  intros [[t ->] [Hq Hh]]. unfold path_or_panic, target_url, parse_url.
  change (HTTP_LOCALHOST ++ SLASH :: t) with ([104;116;116;112] ++ 58 :: (DSL ++ LOCALHOST ++ SLASH :: t)).
  unfold COLON. rewrite split_once_1 by (simpl; intuition discriminate).
  unfold extract_authority. destruct (DSL ++ LOCALHOST ++ SLASH :: t) eqn:Eu; [discriminate|]. rewrite <- Eu. clear Eu.
  rewrite split_once_prefix by (unfold DSL; congruence).
  assert (contains (LOCALHOST ++ SLASH :: t) SL = true) as Hsl by (apply In_contains_1, in_or_app; right; left; reflexivity).
  rewrite Hsl. cbn [negb andb]. unfold SL. rewrite split_once_1 by (unfold LOCALHOST; simpl; intuition discriminate).
  rewrite parse_authority_localhost.
  cbn [app]. unfold extract_path.
  rewrite (not_In_contains_1 63) by exact Hq. rewrite (not_In_contains_1 35) by exact Hh. cbn [negb andb].
  reflexivity.
Qed.

(* ---------- the documented lookup, as a three-line specification ---------- *)
Definition is_file_at (fs : fsys) (p : list N) : bool := match metadata fs p with Some KFile => true | _ => false end.
Definition lookup (fs : fsys) (P : list N) : option (list N) :=
  match metadata fs (cwd_str fs ++ P) with
  | Some KFile => Some P
  | Some KDir => match dir_index P with
                 | SOk di => if is_file_at fs (cwd_str fs ++ P ++ di) then Some (P ++ di) else None
                 | _ => None end
  | _ => if is_file_at fs (cwd_str fs ++ P ++ DOT_HTML) then Some (P ++ DOT_HTML) else None
  end.

(* the one remaining tree-side class (observed): a request that already ends in ".html" is never retried with a second ".html" *)
Definition KF_C02_tree (fs : fsys) (P : list N) : bool :=
  match metadata fs (cwd_str fs ++ P) with
  | Some _ => false
  | None => ends_with (cwd_str fs ++ P) DOT_HTML
  end.

Lemma can_open_metadata fs p : can_open fs p = match metadata fs p with Some _ => true | None => false end.
Proof. reflexivity. Qed.
Lemma metadata_not_link fs p : metadata fs p <> Some KLink.
Proof. unfold metadata. destruct (node_at fs p true) as [[[[d|e|t] q] v]|]; discriminate. Qed.

Lemma gcrl_path_only fs a b' rv : path_or_panic a = path_or_panic b' ->
  get_content_range_list fs a rv = get_content_range_list fs b' rv.
Proof. intro E. unfold get_content_range_list. rewrite E. reflexivity. Qed.

Definition GETh (u : list N) (hs : list header) := mkR GET u [72;84;84;80;47;49;46;49] hs [].
Definition GETr (u : list N) := GETh u [].
(* the Range value the reader is given: the request's Range header, else the whole file *)
Definition range_value (r : request) : list N := match get_header r RANGE_NAME with Some h => hvalue h | None => DEFAULT_RANGE end.

Theorem C02_lookup_refines_gen fs u hs P :
  path_or_panic u = SOk P -> clean_path P -> has_dotdot P = false -> u <> [47] -> KF_C02_tree fs P = false ->
  match lookup fs P with
  | Some Q => is_matching fs (GETh u hs) = SOk true /\
              process_static fs (GETh u hs) = get_content_range_list fs Q (range_value (GETh u hs))
  | None => is_matching fs (GETh u hs) = SOk false
  end.
Proof.
  intros EP Hcl Hdd Hu Hk.
  assert (Hmm : is_ghO GET && negb (beqs u [47]) = true).
  { destruct (beqs u [47]) eqn:E; [apply beqs_eq in E; contradiction|reflexivity]. }
  destruct Hcl as [[t Et] [Hq Hh]].
  assert (Hdi : exists di, dir_index P = SOk di /\ (di = INDEX_HTML \/ di = 47 :: INDEX_HTML)).
  { unfold dir_index. subst P. destruct (rev (SLASH :: t)) as [|c r] eqn:Er.
    - apply (f_equal (@rev N)) in Er. rewrite rev_involutive in Er. discriminate.
    - destruct (N.eqb c 47); eauto. }
  destruct Hdi as [di [Edi Hdi]].
  unfold lookup, KF_C02_tree in *. unfold is_matching, process_static, range_value. cbn [method uri GETh].
  rewrite EP. rewrite Hdd. rewrite Edi in *. generalize (match get_header (GETh u hs) RANGE_NAME with Some h => hvalue h | None => DEFAULT_RANGE end) as rv. intro rv.
  unfold can_open, is_file_at, is_reg in *. rewrite <- ?app_assoc in *.
  destruct (metadata fs (cwd_str fs ++ P)) as [[| |]|] eqn:M0.
  - (* regular file *) rewrite Hmm. split; [reflexivity|]. apply gcrl_path_only. rewrite EP. symmetry. apply reparse_clean. split; [eauto|auto].
  - (* directory *)
    destruct (metadata fs (cwd_str fs ++ P ++ di)) as [[| |]|] eqn:M1; cbn [andb negb orb] in *; try reflexivity.
    rewrite Hmm. split; reflexivity.
  - exfalso. eapply metadata_not_link; eauto.
  - (* nothing at P: the .html fallback *)
    rewrite Hk.
    destruct (metadata fs (cwd_str fs ++ P ++ DOT_HTML)) as [[| |]|] eqn:M2; cbn [andb negb orb] in *; try reflexivity.
    rewrite Hmm. split; reflexivity.
Qed.
Corollary C02_lookup_refines fs u P :
  path_or_panic u = SOk P -> clean_path P -> has_dotdot P = false -> u <> [47] -> KF_C02_tree fs P = false ->
  match lookup fs P with
  | Some Q => is_matching fs (GETr u) = SOk true /\
              process_static fs (GETr u) = get_content_range_list fs Q DEFAULT_RANGE
  | None => is_matching fs (GETr u) = SOk false
  end.
Proof. exact (C02_lookup_refines_gen fs u [] P). Qed.

(* the reader on a clean path naming a regular file that is not itself a symlink *)
Lemma gcrl_regular fs Q rv L : clean_path Q -> has_dotdot Q = false ->
  metadata fs (cwd_str fs ++ Q) = Some KFile -> is_symlink fs (cwd_str fs ++ Q) = Some false -> file_len fs (cwd_str fs ++ Q) = Some L ->
  get_content_range_list fs Q rv = parse_content_range fs false (cwd_str fs ++ Q) L rv.
Proof. intros Hc Hd Hm Hs Hl. unfold get_content_range_list. rewrite (reparse_clean Q Hc), Hd, Hm, Hs, Hl. reflexivity. Qed.

