(* C19 — nested objects and arrays as fields: the round trip for every value tree of the domain [tree_ok], by induction over the tree *)
From Coq Require Import Arith.
From Rws Require Import Str Utf8 Num RespParse Json JsonArray Server JsonRt StrLemmas TrimLemmas Utf8Lemmas C05Proof C19Lemmas C19Proof.
Open Scope N_scope.

(* ================= the balanced reader on well-nested text ================= *)
(* a piece of text is neutral for the reader of op ... cl when, met outside a string with the block still open, it is consumed without
   closing the block and leaves the reader outside a string with the same surplus of opening over closing characters *)
Definition Neutral (op cl : N) (p : list N) : Prop :=
  exists a : nat, forall s o k acc, (k < o)%nat ->
    read_balanced_s op cl (p ++ s) o k false acc = read_balanced_s op cl s (o + a) (k + a) false (acc ++ p).

Lemma neutral_nil op cl : Neutral op cl [].
Proof. exists 0%nat. intros s o k acc _. rewrite !Nat.add_0_r, app_nil_r. reflexivity. Qed.
Lemma neutral_app op cl p q : Neutral op cl p -> Neutral op cl q -> Neutral op cl (p ++ q).
Proof.
  intros [a Ha] [b' Hb]. exists (a + b')%nat. intros s o k acc Hk.
  rewrite <- app_assoc. rewrite Ha by exact Hk. rewrite Hb by lia. rewrite !Nat.add_assoc, app_assoc. reflexivity.
Qed.
Definition plain (op cl c : N) : bool := N.ltb c 128 && negb (N.eqb c op) && negb (N.eqb c cl) && negb (N.eqb c 34).
Lemma neutral_plain1 op cl c : plain op cl c = true -> Neutral op cl [c].
Proof.
  unfold plain. intro H. apply andb_prop in H as [H H4]. apply andb_prop in H as [H H3]. apply andb_prop in H as [H1 H2].
  apply negb_true_iff in H2, H3, H4. apply N.ltb_lt in H1.
  exists 0%nat. intros s o k acc Hk. cbn [app read_balanced_s]. unfold QUOTE.
  replace (N.leb 128 c) with false by (symmetry; apply N.leb_gt; exact H1). rewrite H2, H3, H4. cbn [andb].
  replace (Nat.eqb o k) with false by (symmetry; apply Nat.eqb_neq; lia). rewrite !Nat.add_0_r. reflexivity.
Qed.
Lemma neutral_plains op cl p : forallb (plain op cl) p = true -> Neutral op cl p.
Proof.
  induction p as [|c p IH]; intro H; [apply neutral_nil|]. cbn [forallb] in H. apply andb_prop in H as [Hc Hp].
  change (c :: p) with ([c] ++ p). apply neutral_app; [apply neutral_plain1, Hc|apply IH, Hp].
Qed.
(* inside a string nothing is counted *)
Lemma in_string op cl : op <> 34 -> cl <> 34 -> forall t rest o k acc, ~ In 34 t -> forallb (fun c => N.ltb c 128) t = true -> (k < o)%nat ->
  read_balanced_s op cl (t ++ 34 :: rest) o k true acc = read_balanced_s op cl rest o k false (acc ++ t ++ [34]).
Proof.
  intros Hop Hcl. induction t as [|c t IH]; intros rest o k acc Hn Hl Hk.
  - cbn [app read_balanced_s]. unfold QUOTE. change (N.leb 128 34) with false. change (N.eqb 34 34) with true. cbv iota. cbn [negb].
    replace (N.eqb 34 op) with false by (symmetry; apply N.eqb_neq; intro E; apply Hop; symmetry; exact E).
    replace (N.eqb 34 cl) with false by (symmetry; apply N.eqb_neq; intro E; apply Hcl; symmetry; exact E). cbn [andb].
    replace (Nat.eqb o k) with false by (symmetry; apply Nat.eqb_neq; lia). reflexivity.
  - cbn [forallb] in Hl. apply andb_prop in Hl as [Hc Hl]. apply N.ltb_lt in Hc.
    cbn [app read_balanced_s]. unfold QUOTE.
    replace (N.leb 128 c) with false by (symmetry; apply N.leb_gt; exact Hc).
    replace (N.eqb c 34) with false by (symmetry; apply N.eqb_neq; intro E; apply Hn; left; exact E).
    cbn [negb]. rewrite !andb_false_r.
    replace (Nat.eqb o k) with false by (symmetry; apply Nat.eqb_neq; lia).
    rewrite IH by (auto; intro Hi; apply Hn; right; exact Hi). rewrite <- !app_assoc. reflexivity.
Qed.
Lemma neutral_string op cl t : op <> 34 -> cl <> 34 -> ~ In 34 t -> forallb (fun c => N.ltb c 128) t = true -> Neutral op cl (34 :: t ++ [34]).
Proof.
  intros Hop Hcl Hn Hl. exists 0%nat. intros s o k acc Hk.
  cbn [app read_balanced_s]. unfold QUOTE. change (N.leb 128 34) with false. change (N.eqb 34 34) with true. cbv iota. cbn [negb].
  rewrite !andb_false_r. replace (Nat.eqb o k) with false by (symmetry; apply Nat.eqb_neq; lia).
  rewrite <- app_assoc. cbn [app]. rewrite (in_string op cl Hop Hcl t s o k (acc ++ [34]) Hn Hl Hk).
  rewrite !Nat.add_0_r, <- !app_assoc. reflexivity.
Qed.
(* a complete inner block *)
Lemma neutral_block op cl inner : op <> cl -> op <> 34 -> cl <> 34 -> op < 128 -> cl < 128 -> Neutral op cl inner -> Neutral op cl (op :: inner ++ [cl]).
Proof.
  intros Hne Hop Hcl Lo Lc [a Ha]. exists (S a). intros s o k acc Hk.
  cbn [app read_balanced_s]. unfold QUOTE.
  replace (N.leb 128 op) with false by (symmetry; apply N.leb_gt; exact Lo).
  replace (N.eqb op 34) with false by (symmetry; apply N.eqb_neq; exact Hop). rewrite N.eqb_refl. cbn [negb andb].
  replace (N.eqb op cl) with false by (symmetry; apply N.eqb_neq; exact Hne). cbn [andb]. cbv iota.
  replace (Nat.eqb (S o) k) with false by (symmetry; apply Nat.eqb_neq; lia).
  rewrite <- app_assoc. rewrite Ha by lia.
  cbn [app read_balanced_s]. unfold QUOTE.
  replace (N.leb 128 cl) with false by (symmetry; apply N.leb_gt; exact Lc).
  replace (N.eqb cl 34) with false by (symmetry; apply N.eqb_neq; exact Hcl). rewrite N.eqb_refl. cbn [negb andb].
  replace (N.eqb cl op) with false by (symmetry; apply N.eqb_neq; intro E; apply Hne; symmetry; exact E). cbn [andb]. cbv iota.
  replace (Nat.eqb (S o + a) (S (k + a))) with false by (symmetry; apply Nat.eqb_neq; lia).
  replace (S o + a)%nat with (o + S a)%nat by lia. replace (S (k + a)) with (k + S a)%nat by lia.
  rewrite <- !app_assoc. cbn [app]. reflexivity.
Qed.
(* the reader, started after the opening character, returns exactly the block *)
Lemma read_block op cl inner rest : op <> cl -> cl <> 34 -> cl < 128 -> Neutral op cl inner ->
  read_balanced op cl (inner ++ cl :: rest) 1 0 [] = JOk (inner ++ [cl], rest).
Proof.
  intros Hne Hcl Lc [a Ha]. unfold read_balanced. rewrite Ha by lia.
  cbn [app read_balanced_s]. unfold QUOTE.
  replace (N.leb 128 cl) with false by (symmetry; apply N.leb_gt; exact Lc).
  replace (N.eqb cl 34) with false by (symmetry; apply N.eqb_neq; exact Hcl). rewrite N.eqb_refl. cbn [negb andb].
  replace (N.eqb cl op) with false by (symmetry; apply N.eqb_neq; intro E; apply Hne; symmetry; exact E). cbn [andb]. cbv iota.
  replace (Nat.eqb (1 + a) (S (0 + a))) with true by (symmetry; apply Nat.eqb_eq; lia). reflexivity.
Qed.

(* ================= one written field of any kind ================= *)
(* the property the scanner returns for a written field: objects and arrays keep their text *)
Definition tprop (n : list N) (v : jv) : list N * jty * jval :=
  match v with
  | JO _ => (n, TObject, VObj (vtext v))
  | JAI _ _ | JAF _ | JAS _ | JAB _ | JAN _ | JAO _ => (n, TArray, VArr (vtext v))
  | _ => prop_of n v
  end.
Definition tprop' (nv : list N * jv) := tprop (fst nv) (snd nv).
Definition ffacts (v : jv) (c : N) (body : list N) : Prop :=
  vtext v = c :: body /\ N.leb 128 c = false /\ is_ws_ctl c = false /\
  (forall kv1 X, X <> [] -> read_value kv1 c (body ++ 44 :: X) = JOk (kv1 ++ vtext v, X, false)) /\
  (forall kv1, read_value kv1 c (body ++ [13; 10; 125]) = JOk (kv1 ++ vtext v, [], true)) /\
  (forall name, name_ok name = true -> property_parse (KEY_LEAD ++ name ++ [34] ++ [58] ++ vtext v) = JOk (tprop name v)).

Lemma scalar_ffacts v : scalar_ok v = true -> written v = true -> exists c body, ffacts v c body.
Proof.
  intros Hs Hw. destruct (written_field v Hs Hw) as (c & body & F). exists c, body.
  unfold ffacts. unfold field_facts in F. replace (tprop) with (fun n v' => tprop n v') by reflexivity.
  destruct F as (F1 & F2 & F3 & F4 & F5 & F6). repeat split; auto.
  intros name Hn. rewrite F6 by exact Hn. destruct v; try discriminate; reflexivity.
Qed.

(* property_value on a block text *)
Lemma pv_block name op cl inner : (op = 123 /\ cl = 125) \/ (op = 91 /\ cl = 93) ->
  property_value name (op :: inner ++ [cl]) =
  JOk (name, (if N.eqb op 123 then TObject else TArray), (if N.eqb op 123 then VObj (op :: inner ++ [cl]) else VArr (op :: inner ++ [cl]))).
Proof.
  intros [[-> ->] | [-> ->]]; unfold property_value, QUOTE;
    change (123 :: inner ++ [125]) with ((123 :: inner) ++ [125]); change (91 :: inner ++ [93]) with ((91 :: inner) ++ [93]).
  - rewrite (ends1_last (123 :: inner) 125).
    assert (E1 : ends1 ((123 :: inner) ++ [125]) 34 = false) by (unfold ends1; rewrite rev_app_distr; reflexivity).
    assert (E2 : ends1 ((123 :: inner) ++ [125]) 93 = false) by (unfold ends1; rewrite rev_app_distr; reflexivity).
    cbn [app starts1 beqs NULL_S TRUE_S FALSE_S]. rewrite ?E1, ?E2. reflexivity.
  - rewrite (ends1_last (91 :: inner) 93).
    assert (E1 : ends1 ((91 :: inner) ++ [93]) 34 = false) by (unfold ends1; rewrite rev_app_distr; reflexivity).
    assert (E2 : ends1 ((91 :: inner) ++ [93]) 125 = false) by (unfold ends1; rewrite rev_app_distr; reflexivity).
    cbn [app starts1 beqs NULL_S TRUE_S FALSE_S]. rewrite ?E1, ?E2. reflexivity.
Qed.

(* a field whose text is a well-nested block *)
Lemma block_ffacts v op cl inner : (op = 123 /\ cl = 125) \/ (op = 91 /\ cl = 93) ->
  vtext v = op :: inner ++ [cl] -> Neutral op cl inner ->
  (forall name, tprop name v = (name, (if N.eqb op 123 then TObject else TArray), (if N.eqb op 123 then VObj (vtext v) else VArr (vtext v)))) ->
  ffacts v op (inner ++ [cl]).
Proof.
  intros Hoc E Hn Ht.
  assert (Hfacts : op <> cl /\ cl <> 34 /\ cl < 128 /\ N.leb 128 op = false /\ is_ws_ctl op = false /\ solid op = true /\ solid cl = true).
  { destruct Hoc as [[-> ->] | [-> ->]]; repeat split; try discriminate; reflexivity. }
  destruct Hfacts as (Hne & Hcl & Lc & L1 & L2 & So & Sc).
  unfold ffacts. rewrite E. repeat split; auto.
  - intros kv1 X HX. rewrite <- app_assoc. cbn [app].
    destruct Hoc as [[-> ->] | [-> ->]]; unfold read_value, QUOTE; cbn [N.eqb Pos.eqb]; cbv iota;
      rewrite (read_block _ _ inner (44 :: X) Hne Hcl Lc Hn); rewrite tail_comma; destruct X; [contradiction| |contradiction|]; rewrite <- ?app_assoc; reflexivity.
  - intro kv1. rewrite <- app_assoc. cbn [app].
    destruct Hoc as [[-> ->] | [-> ->]]; unfold read_value, QUOTE; cbn [N.eqb Pos.eqb]; cbv iota;
      rewrite (read_block _ _ inner [13; 10; 125] Hne Hcl Lc Hn); rewrite tail_close; rewrite <- ?app_assoc; reflexivity.
  - intros name Hname. rewrite Ht, E.
    change (op :: inner ++ [cl]) with ((op :: inner) ++ [cl]).
    rewrite (property_parse_written name ((op :: inner) ++ [cl]) (op :: inner) cl) by (auto; apply (trim_solid_both op inner cl); assumption).
    cbn [app]. apply pv_block, Hoc.
Qed.

(* ================= the scanner loop on any written fields ================= *)
Theorem scanner_gen (P : jv -> Prop) : (forall v, P v -> written v = true -> exists c body, ffacts v c body) ->
  forall fs, fs <> [] -> Forall (fun nv => name_ok (fst nv) = true /\ P (snd nv)) fs -> forallb (fun nv => written (snd nv)) fs = true ->
  forall f acc, (length fs <= f)%nat -> props_loop f (tail_text (map line fs)) acc = JOk (acc ++ map tprop' fs).
Proof.
  intro HP. induction fs as [|[name v] fs IH]; intros Hne Hok Hw f acc Hf; [contradiction|].
  inversion Hok as [|? ? [Hn Hv] Hok']; subst. cbn [fst snd] in Hn, Hv.
  cbn [forallb] in Hw. apply andb_prop in Hw as [Hwv Hw]. cbn [snd] in Hwv.
  destruct (HP v Hv Hwv) as (c & body & E & S1 & S2 & Rmid & Rlast & PP).
  destruct f as [|f]; [cbn [length] in Hf; lia|].
  destruct fs as [|nv2 fs].
  - cbn [map tail_text]. unfold line at 1. cbn [fst snd]. rewrite (line_shape name v c body E).
    cbn [props_loop]. rewrite read_key_written by assumption. rewrite Rlast.
    replace ((KEY_LEAD ++ name ++ [34] ++ [58]) ++ vtext v) with (KEY_LEAD ++ name ++ [34] ++ [58] ++ vtext v) by (rewrite <- !app_assoc; reflexivity).
    rewrite PP by assumption. reflexivity.
  - cbn [map]. rewrite tail_text_cons. unfold line at 1. cbn [fst snd].
    change (CRLF ++ prop_line name (vtext v) ++ [44] ++ tail_text (line nv2 :: map line fs))
      with (CRLF ++ prop_line name (vtext v) ++ 44 :: tail_text (map line (nv2 :: fs))).
    rewrite (line_shape name v c body E).
    cbn [props_loop]. rewrite read_key_written by assumption. rewrite Rmid by (apply tail_text_nonempty; discriminate).
    replace ((KEY_LEAD ++ name ++ [34] ++ [58]) ++ vtext v) with (KEY_LEAD ++ name ++ [34] ++ [58] ++ vtext v) by (rewrite <- !app_assoc; reflexivity).
    rewrite PP by assumption.
    rewrite IH by (auto; try discriminate; cbn [length] in *; lia).
    rewrite <- app_assoc. reflexivity.
Qed.

(* ================= the texts of values are nice: neutral for both readers, and ASCII ================= *)
Definition pairs (op cl : N) : Prop := (op = 123 /\ cl = 125) \/ (op = 91 /\ cl = 93).
Lemma pairs_facts op cl : pairs op cl -> op <> cl /\ op <> 34 /\ cl <> 34 /\ op < 128 /\ cl < 128.
Proof. intros [[-> ->] | [-> ->]]; repeat split; try discriminate; reflexivity. Qed.
Definition low (p : list N) : bool := forallb (fun c => N.ltb c 128) p.
Definition Nice (p : list N) : Prop := (forall op cl, pairs op cl -> Neutral op cl p) /\ low p = true.
(* characters that are plain for both readers *)
Definition pl (c : N) : bool := N.ltb c 128 && negb (N.eqb c 34) && negb (N.eqb c 123) && negb (N.eqb c 125) && negb (N.eqb c 91) && negb (N.eqb c 93).
Lemma pl_plain op cl c : pairs op cl -> pl c = true -> plain op cl c = true.
Proof.
  unfold pl, plain. intros Hp H. repeat (apply andb_prop in H as [H ?]).
  destruct Hp as [[-> ->] | [-> ->]]; rewrite H; cbn [andb]; repeat match goal with X : negb _ = true |- _ => rewrite X; clear X end; reflexivity.
Qed.
Lemma pl_low c : pl c = true -> N.ltb c 128 = true.
Proof. unfold pl. intro H. repeat (apply andb_prop in H as [H ?]). exact H. Qed.
Lemma nice_nil : Nice [].
Proof. split; [intros; apply neutral_nil|reflexivity]. Qed.
Lemma nice_app p q : Nice p -> Nice q -> Nice (p ++ q).
Proof. intros [Np Lp] [Nq Lq]. split; [intros op cl H; apply neutral_app; auto|unfold low in *; rewrite forallb_app, Lp, Lq; reflexivity]. Qed.
Lemma nice_pl p : forallb pl p = true -> Nice p.
Proof.
  intro H. split.
  - intros op cl Hp. apply neutral_plains. apply forallb_forall. intros c Hi. apply pl_plain; [exact Hp|]. exact (proj1 (forallb_forall _ _) H c Hi).
  - apply forallb_forall. intros c Hi. apply pl_low. exact (proj1 (forallb_forall _ _) H c Hi).
Qed.
Lemma nice_join sep toks : Nice sep -> Forall Nice toks -> Nice (join sep toks).
Proof.
  intros Hs Hf. induction toks as [|x r IH]; [apply nice_nil|].
  inversion Hf as [|? ? Hx Hr]; subst. destruct r as [|y r']; [exact Hx|].
  change (join sep (x :: y :: r')) with (x ++ sep ++ join sep (y :: r')).
  apply nice_app; [exact Hx|apply nice_app; [exact Hs|apply IH, Hr]].
Qed.
Lemma nice_str s : str_ok s = true -> Nice (34 :: s ++ [34]).
Proof.
  intro Hs. split.
  - intros op cl Hp. destruct (pairs_facts op cl Hp) as (_ & Ho & Hc & _ & _). apply neutral_string; auto.
    + intro Hi. pose proof (proj1 (forallb_forall _ _) Hs 34 Hi) as H. discriminate.
    + apply str_low, Hs.
  - unfold low. cbn [forallb]. rewrite forallb_app. rewrite (str_low s Hs). reflexivity.
Qed.
(* a block of one reader is plain text for the other *)
Lemma nice_block op cl inner : pairs op cl -> Nice inner -> Nice (op :: inner ++ [cl]).
Proof.
  intros Hp [Ni Li]. destruct (pairs_facts op cl Hp) as (Hne & Ho & Hc & Lo & Lc). split.
  - intros op' cl' Hp'.
    assert (Same : (op' = op /\ cl' = cl) \/ (plain op' cl' op = true /\ plain op' cl' cl = true)).
    { destruct Hp as [[-> ->] | [-> ->]]; destruct Hp' as [[-> ->] | [-> ->]]; auto. }
    destruct Same as [[-> ->] | [P1 P2]].
    + apply neutral_block; auto.
    + change (op :: inner ++ [cl]) with ([op] ++ inner ++ [cl]).
      apply neutral_app; [apply neutral_plain1, P1|apply neutral_app; [apply Ni, Hp'|apply neutral_plain1, P2]].
  - unfold low in *. cbn [forallb]. rewrite forallb_app, Li. cbn [forallb].
    replace (N.ltb op 128) with true by (symmetry; apply N.ltb_lt; exact Lo). replace (N.ltb cl 128) with true by (symmetry; apply N.ltb_lt; exact Lc). reflexivity.
Qed.
Lemma num_char_pl c : num_char c = true -> pl c = true.
Proof.
  unfold num_char, is_ascii_digit, pl. intro H.
  assert (Hc : (48 <= c <= 57) \/ c = 46 \/ c = 101 \/ c = 45).
  { repeat (apply orb_prop in H as [H|H]); try (apply N.eqb_eq in H; auto). apply andb_prop in H as [H1 H2]. apply N.leb_le in H1, H2. auto. }
  replace (N.ltb c 128) with true by (symmetry; apply N.ltb_lt; lia).
  repeat (replace (N.eqb c _) with false by (symmetry; apply N.eqb_neq; lia)). reflexivity.
Qed.
Lemma num_chars_pl t : forallb num_char t = true -> forallb pl t = true.
Proof. intro H. apply forallb_forall. intros c Hi. apply num_char_pl. exact (proj1 (forallb_forall _ _) H c Hi). Qed.
Lemma show_int_pl ng m : forallb pl (show_int ng m) = true.
Proof.
  destruct (show_int_shape ng m) as (c & body & E & Hc & Hb). rewrite E. cbn [forallb].
  rewrite (num_char_pl c (numstart_num_char c Hc)), (num_chars_pl body Hb). reflexivity.
Qed.
Lemma disp_pl d : disp_ok d = true -> forallb pl (arr_float d) = true.
Proof.
  intro H. destruct (disp_float_token _ (arr_float_ok d H)) as [(c & ds1 & ds2 & dot & E & Hc & H1 & H2) _]. rewrite E.
  cbn [forallb]. rewrite (num_char_pl c (numstart_num_char c Hc)). cbn [andb]. rewrite forallb_app.
  rewrite (num_chars_pl ds1 (digits_num_chars ds1 H1)). destruct dot; [|reflexivity].
  cbn [forallb andb]. change (pl 46) with true. cbn [andb]. apply num_chars_pl, digits_num_chars, H2.
Qed.

(* ---------- typed arrays ---------- *)
Definition arr_inner (v : jv) : list N :=
  match v with
  | JAI _ xs => join [44] (map (fun x => show_int (fst x) (snd x)) xs)
  | JAF xs => join [44] (map (fun x => arr_float (snd x)) xs)
  | JAS xs => join [44] (map (fun s => QUOTE :: s ++ [QUOTE]) xs)
  | JAB xs => join [44] (map (fun b : bool => if b then TRUE_S else FALSE_S) xs)
  | JAN n => join [44] (repeat NULL_S n)
  | _ => []
  end.
Definition is_arr (v : jv) : bool := match v with JAI _ _ | JAF _ | JAS _ | JAB _ | JAN _ => true | _ => false end.
Lemma arr_vtext v : is_arr v = true -> vtext v = 91 :: arr_inner v ++ [93].
Proof. destruct v; try discriminate; reflexivity. Qed.
Lemma arr_inner_nice v : arr_ok v = true -> Nice (arr_inner v).
Proof.
  intro Hok. destruct v as [ | | | | | |w xs|xs|xs|xs|n| ]; try discriminate; cbn [arr_inner arr_ok] in *;
    apply nice_join; try (apply nice_pl; reflexivity); apply Forall_forall; intros t Ht.
  - apply in_map_iff in Ht as (x & <- & _). apply nice_pl, show_int_pl.
  - apply in_map_iff in Ht as (x & <- & Hx). apply nice_pl, disp_pl. exact (proj1 (forallb_forall _ _) Hok x Hx).
  - apply in_map_iff in Ht as (s & <- & Hs). apply nice_str. exact (proj1 (forallb_forall _ _) Hok s Hs).
  - apply in_map_iff in Ht as (b' & <- & _). apply nice_pl. destruct b'; reflexivity.
  - apply repeat_spec in Ht. subst t. apply nice_pl. reflexivity.
Qed.
Lemma arr_text_nice v : is_arr v = true -> arr_ok v = true -> Nice (vtext v).
Proof. intros Ha Hok. rewrite (arr_vtext v Ha). apply nice_block; [right; auto|apply arr_inner_nice, Hok]. Qed.
Lemma scalar_text_nice v : scalar_ok v = true -> written v = true -> Nice (vtext v).
Proof.
  intros Hs Hw. destruct v as [s|b'|ng m|d p| | | | | | | | ]; try discriminate; cbn [scalar_ok] in Hs.
  - change (vtext (JS s)) with (34 :: s ++ [34]). apply nice_str, Hs.
  - apply nice_pl. destruct b'; reflexivity.
  - change (vtext (JI ng m)) with (show_int ng m). apply nice_pl, show_int_pl.
  - change (vtext (JF d p)) with d. apply nice_pl. destruct (dbg_shape d Hs) as (c & body & -> & Hc & Hb & _ & _).
    cbn [forallb]. rewrite (num_char_pl c (numstart_num_char c Hc)), (num_chars_pl body Hb). reflexivity.
Qed.

(* ================= values read with a declared type ================= *)
Fixpoint norm (v : jv) : jv :=
  match v with
  | JF d _ => JF d d
  | JAF xs => JAF (map (fun x => (arr_float (snd x), arr_float (snd x))) xs)
  | JO fs => JO (map (fun nv => (fst nv, norm (snd nv))) fs)
  | JAO xs => JAO (map norm xs)
  | x => x
  end.
Lemma iw_eqb_eq a b : iw_eqb a b = true -> a = b.
Proof. destruct a, b; try discriminate; reflexivity. Qed.
Lemma scalar_read_back sch v : scalar_ok v = true -> written v = true -> conforms sch v = true -> read_back sch (snd (tprop [] v)) = RtOk (norm v).
Proof. destruct v; try discriminate; destruct sch; try discriminate; reflexivity. Qed.
Lemma arr_ffacts v : is_arr v = true -> arr_ok v = true -> ffacts v 91 (arr_inner v ++ [93]).
Proof.
  intros Ha Hok. apply block_ffacts.
  - right; auto.
  - apply arr_vtext, Ha.
  - apply (proj1 (arr_inner_nice v Hok)). right; auto.
  - intro name. destruct v; try discriminate; reflexivity.
Qed.
Lemma arr_read_back_self v : is_arr v = true -> arr_ok v = true -> read_back v (VArr (vtext v)) = RtOk (norm v).
Proof.
  intros Ha Hok. destruct v as [ | | | | | |w xs|xs|xs|xs|n| ]; try discriminate; cbn [arr_ok] in Hok; cbn [read_back norm].
  - destruct (int_array_round_trip w xs Hok) as [t Ht]. unfold round_trip in Ht. change (to_json (JAI w xs)) with (Some (vtext (JAI w xs))) in Ht.
    injection Ht as _ Ht. destruct (typed_list (read_int w) (vtext (JAI w xs))); try discriminate. exact Ht.
  - destruct (float_array_round_trip xs Hok) as [t Ht]. unfold round_trip in Ht. change (to_json (JAF xs)) with (Some (vtext (JAF xs))) in Ht.
    injection Ht as _ Ht. destruct (typed_list read_float (vtext (JAF xs))); try discriminate. exact Ht.
  - destruct (string_array_round_trip xs Hok) as [t Ht]. unfold round_trip in Ht. change (to_json (JAS xs)) with (Some (vtext (JAS xs))) in Ht.
    injection Ht as _ Ht. destruct (typed_list read_str (vtext (JAS xs))); try discriminate. exact Ht.
  - destruct (bool_array_round_trip xs) as [t Ht]. unfold round_trip in Ht. change (to_json (JAB xs)) with (Some (vtext (JAB xs))) in Ht.
    injection Ht as _ Ht. destruct (typed_list read_bool (vtext (JAB xs))); try discriminate. exact Ht.
  - destruct (null_array_round_trip n) as [t Ht]. unfold round_trip in Ht. change (to_json (JAN n)) with (Some (vtext (JAN n))) in Ht.
    injection Ht as _ Ht. destruct (typed_list read_null (vtext (JAN n))); try discriminate. exact Ht.
Qed.
(* the readers of typed arrays look at the declared type only for the integer width *)
Lemma arr_read_back sch v : is_arr v = true -> arr_ok v = true -> conforms sch v = true -> read_back sch (snd (tprop [] v)) = RtOk (norm v).
Proof.
  intros Ha Hok Hc. pose proof (arr_read_back_self v Ha Hok) as R.
  destruct v as [ | | | | | |w xs|xs|xs|xs|n| ]; try discriminate; destruct sch as [ | | | | | |w' ys|ys|ys|ys|n'| ]; try discriminate.
  - cbn [conforms] in Hc. apply iw_eqb_eq in Hc. subst w'. exact R.
  - exact R.
  - exact R.
  - exact R.
  - exact R.
Qed.

(* ================= the domain: trees ================= *)
Lemma tree_ok_JO fs : tree_ok (JO fs) = forallb (fun nv => name_ok (fst nv) && tree_ok (snd nv)) fs && distinct (map fst fs).
Proof. reflexivity. Qed.
Lemma tree_ok_JAO xs : tree_ok (JAO xs) = forallb (fun y => match y with JO _ => tree_ok y | _ => false end) xs && match xs with [] => true | s0 :: _ => forallb (conforms s0) xs end.
Proof. reflexivity. Qed.
Fixpoint conf_fields (gl fl : list (list N * jv)) : bool :=
  match gl, fl with
  | [], [] => true
  | g :: gr, f :: fr => beqs (fst g) (fst f) && conforms (snd f) (snd g) && conf_fields gr fr
  | _, _ => false
  end.
Lemma conforms_JO gs fs : conforms (JO fs) (JO gs) = conf_fields gs fs.
Proof. reflexivity. Qed.
Lemma conforms_JAO ys ss : conforms (JAO ss) (JAO ys) = match ss with [] => (match ys with [] => true | _ => false end) | s0 :: _ => forallb (conforms s0) ys end.
Proof. destruct ss; reflexivity. Qed.
Fixpoint depth (v : jv) : nat :=
  match v with
  | JO fs => S (fold_right (fun nv m => Nat.max (depth (snd nv)) m) 0%nat fs)
  | JAO xs => S (fold_right (fun y m => Nat.max (depth y) m) 0%nat xs)
  | _ => 0%nat
  end.
Lemma depth_in fs nv : In nv fs -> (depth (snd nv) < depth (JO fs))%nat.
Proof.
  cbn [depth]. induction fs as [|a r IH]; intro Hi; [contradiction|]. cbn [fold_right]. destruct Hi as [-> | Hi]; [lia|]. specialize (IH Hi). lia.
Qed.
Lemma depth_in_arr xs y : In y xs -> (depth y < depth (JAO xs))%nat.
Proof.
  cbn [depth]. induction xs as [|a r IH]; intro Hi; [contradiction|]. cbn [fold_right]. destruct Hi as [-> | Hi]; [lia|]. specialize (IH Hi). lia.
Qed.

(* ---------- the text of an object and of an array of objects ---------- *)
Lemma to_json_any v : to_json v = if written v then Some (vtext v) else None.
Proof. destruct v; reflexivity. Qed.
Lemma obj_vtext fs : vtext (JO fs) = obj_text (map line (wfs fs)).
Proof.
  unfold vtext at 1. cbn [to_json]. f_equal.
  induction fs as [|[n v] fs IH]; [reflexivity|].
  cbn [flat_map wfs filter fst snd]. rewrite (to_json_any v). destruct (written v) eqn:Ew.
  - cbn [app map]. unfold line at 1. cbn [fst snd]. f_equal. exact IH.
  - cbn [app]. exact IH.
Qed.
Definition obj_inner (ls : list (list N)) : list N := CRLF ++ join ([44] ++ CRLF) ls ++ CRLF.
Lemma obj_text_inner ls : obj_text ls = 123 :: obj_inner ls ++ [125].
Proof. unfold obj_text, obj_inner. rewrite <- !app_assoc. reflexivity. Qed.
Definition SEP : list N := [44] ++ CRLF.
Lemma arrobj_vtext xs : forallb written xs = true -> vtext (JAO xs) = 91 :: join SEP (map vtext xs) ++ [93].
Proof.
  intro H. unfold vtext at 1. cbn [to_json]. cbn [app]. f_equal. f_equal. f_equal.
  induction xs as [|x xs IH]; [reflexivity|]. cbn [forallb] in H. apply andb_prop in H as [Hx H].
  cbn [flat_map map]. rewrite (to_json_any x), Hx. cbn [app]. f_equal. apply IH, H.
Qed.
Lemma name_str_ok n : name_ok n = true -> str_ok n = true.
Proof.
  unfold name_ok, str_ok. intro H. apply andb_prop in H as [_ H]. apply forallb_forall. intros c Hi.
  pose proof (proj1 (forallb_forall _ _) H c Hi) as Hc. unfold name_char_ok in Hc. unfold str_char_ok.
  assert (R : (48 <= c <= 57) \/ (65 <= c <= 90) \/ (97 <= c <= 122) \/ c = 95).
  { repeat (apply orb_prop in Hc as [Hc|Hc]); try (apply andb_prop in Hc as [H1 H2]; apply N.leb_le in H1, H2; auto). apply N.eqb_eq in Hc. auto. }
  replace (N.leb 32 c) with true by (symmetry; apply N.leb_le; lia). replace (N.ltb c 127) with true by (symmetry; apply N.ltb_lt; lia).
  replace (N.eqb c 34) with false by (symmetry; apply N.eqb_neq; lia). replace (N.eqb c 92) with false by (symmetry; apply N.eqb_neq; lia). reflexivity.
Qed.
Lemma line_nice name t : name_ok name = true -> Nice t -> Nice (prop_line name t).
Proof.
  intros Hn Ht. unfold prop_line, QUOTE. change ([32; 32; 34] ++ name ++ [34; 58; 32] ++ t) with ([32; 32] ++ (34 :: name ++ [34; 58; 32] ++ t)).
  replace (34 :: name ++ [34; 58; 32] ++ t) with ((34 :: name ++ [34]) ++ [58; 32] ++ t) by (cbn [app]; rewrite <- app_assoc; reflexivity).
  apply nice_app; [apply nice_pl; reflexivity|]. apply nice_app; [apply nice_str, name_str_ok, Hn|]. apply nice_app; [apply nice_pl; reflexivity|exact Ht].
Qed.
Lemma obj_inner_nice ls : Forall Nice ls -> Nice (obj_inner ls).
Proof.
  intro H. unfold obj_inner. apply nice_app; [apply nice_pl; reflexivity|]. apply nice_app; [|apply nice_pl; reflexivity].
  apply nice_join; [apply nice_pl; reflexivity|exact H].
Qed.

(* ---------- looking a field up among the scanned properties ---------- *)
Lemma tprop_key nv : fst (fst (tprop' nv)) = fst nv.
Proof. destruct nv as [n v]. unfold tprop'. cbn [fst snd]. destruct v; reflexivity. Qed.
Lemma tprop_snd n v : snd (tprop n v) = snd (tprop [] v).
Proof. destruct v; reflexivity. Qed.
Lemma find_last_absent_t k fs : existsb (beqs k) (map fst fs) = false -> find_last k (map tprop' (wfs fs)) = None.
Proof.
  induction fs as [|a fs IH]; intro H; [reflexivity|].
  cbn [map existsb] in H. apply orb_false_elim in H as [Ha H].
  cbn [wfs filter]. destruct (written (snd a)); [|apply IH, H].
  cbn [map]. rewrite find_last_cons. fold (wfs fs). rewrite IH by exact H. rewrite tprop_key.
  replace (beqs (fst a) k) with false; [reflexivity|]. symmetry. destruct (beqs (fst a) k) eqn:E; [|reflexivity].
  apply beqs_eq in E. subst k. rewrite (proj2 (beqs_eq _ _) eq_refl) in Ha. discriminate.
Qed.
Lemma find_last_field_t fs : distinct (map fst fs) = true -> forall nv, In nv fs ->
  find_last (fst nv) (map tprop' (wfs fs)) = if written (snd nv) then Some (snd (tprop' nv)) else None.
Proof.
  induction fs as [|a fs IH]; intros Hd nv Hi; [contradiction|].
  cbn [map distinct] in Hd. apply andb_prop in Hd as [Ha Hd]. apply negb_true_iff in Ha.
  destruct Hi as [->|Hi].
  - cbn [wfs filter]. fold (wfs fs). destruct (written (snd nv)).
    + cbn [map]. rewrite find_last_cons, find_last_absent_t by exact Ha. rewrite tprop_key, (proj2 (beqs_eq _ _) eq_refl). reflexivity.
    + apply find_last_absent_t, Ha.
  - cbn [wfs filter]. fold (wfs fs). destruct (written (snd a)); [|apply IH; assumption].
    cbn [map]. rewrite find_last_cons, IH by assumption. destruct (written (snd nv)); [reflexivity|].
    rewrite tprop_key. replace (beqs (fst a) (fst nv)) with false; [reflexivity|]. symmetry.
    destruct (beqs (fst a) (fst nv)) eqn:E; [|reflexivity]. apply beqs_eq in E.
    exfalso. apply (existsb_false_in _ _ Ha (fst nv)); [apply in_map, Hi|exact E].
Qed.

(* ---------- the splitter on an array of object texts ---------- *)
Definition objtext (t : list N) : Prop := exists inner, t = 123 :: inner ++ [125] /\ Neutral 123 125 inner.
Lemma items_one_obj f inner rest acc : Neutral 123 125 inner ->
  items_loop (S f) ((123 :: inner ++ [125]) ++ rest) acc = items_loop f rest (acc ++ [123 :: inner ++ [125]]).
Proof.
  intro Hn. cbn [app items_loop]. unfold QUOTE. cbn [N.leb N.eqb Pos.eqb N.compare Pos.compare Pos.compare_cont]. cbv iota.
  rewrite <- app_assoc. cbn [app]. rewrite (read_block 123 125 inner rest); [reflexivity|discriminate|discriminate|reflexivity|exact Hn].
Qed.
Lemma items_sep f rest acc : items_loop (S (S (S f))) (SEP ++ rest) acc = items_loop f rest acc.
Proof. reflexivity. Qed.
Lemma items_objs : forall ts acc f rest, Forall objtext ts -> (length (join SEP ts) < f)%nat ->
  items_loop f (join SEP ts ++ 93 :: rest) acc = (AOk (acc ++ ts), rest).
Proof.
  induction ts as [|t ts IH]; intros acc f rest Hf Hl.
  - cbn [join app]. destruct f as [|f]; [lia|]. cbn [items_loop]. rewrite app_nil_r. reflexivity.
  - inversion Hf as [|? ? (inner & -> & Hn) Hf']; subst.
    destruct ts as [|u ts'].
    + cbn [join] in *. destruct f as [|f]; [lia|]. rewrite items_one_obj by exact Hn.
      destruct f as [|f]; [cbn [length] in Hl; rewrite app_length in Hl; cbn [length] in Hl; lia|]. cbn [items_loop]. reflexivity.
    + change (join SEP ((123 :: inner ++ [125]) :: u :: ts')) with ((123 :: inner ++ [125]) ++ SEP ++ join SEP (u :: ts')) in *.
      rewrite !app_length in Hl. cbn [length SEP CRLF app] in Hl. rewrite app_length in Hl. cbn [length] in Hl. change (44 :: CRLF) with SEP in Hl.
      destruct f as [|f]; [lia|]. rewrite <- !app_assoc. rewrite items_one_obj by exact Hn.
      destruct f as [|[|[|f]]]; try lia. rewrite items_sep.
      rewrite IH by (auto; lia). rewrite <- app_assoc. reflexivity.
Qed.
Lemma low_no_high s : low s = true -> existsb (fun x => N.leb 128 x) s = false.
Proof.
  unfold low. induction s as [|c s IH]; intro H; [reflexivity|]. cbn [forallb existsb] in *. apply andb_prop in H as [Hc H]. apply N.ltb_lt in Hc.
  replace (N.leb 128 c) with false by (symmetry; apply N.leb_gt; exact Hc). apply IH, H.
Qed.
Lemma split_obj_array ts : Forall objtext ts -> low (join SEP ts) = true -> split_array (91 :: join SEP ts ++ [93]) = AOk ts.
Proof.
  intros Hf Hl. unfold split_array.
  assert (Hlow : existsb (fun x => N.leb 128 x) (91 :: join SEP ts ++ [93]) = false).
  { apply low_no_high. unfold low in *. cbn [forallb]. rewrite forallb_app, Hl. reflexivity. }
  rewrite Hlow. cbn [open_bracket].
  destruct (join SEP ts ++ [93]) as [|c0 r0] eqn:E; [destruct (join SEP ts); discriminate|]. rewrite <- E.
  change (N.leb 128 91) with false. change (ws1 91) with false. change (N.eqb 91 91) with true. cbn [negb andb]. cbv iota.
  rewrite (items_objs ts [] _ [] Hf) by (rewrite app_length; cbn [length]; lia). cbn [app trailing_ws]. reflexivity.
Qed.

(* ================= the induction over the tree ================= *)
Definition good (v : jv) : Prop :=
  Nice (vtext v) /\ (exists c body, ffacts v c body) /\
  (forall sch, conforms sch v = true -> read_back sch (snd (tprop [] v)) = RtOk (norm v)) /\
  (forall fs, v = JO fs -> objtext (vtext v)).

Lemma parse_nested fs (P : jv -> Prop) : (forall v, P v -> written v = true -> exists c body, ffacts v c body) ->
  Forall (fun nv => name_ok (fst nv) = true /\ P (snd nv)) fs ->
  parse_as_properties (vtext (JO fs)) = JOk (map tprop' (wfs fs)).
Proof.
  intros HP Hf. rewrite obj_vtext. destruct (wfs fs) as [|nv ws] eqn:E; [vm_compute; reflexivity|].
  rewrite parse_obj_text by (cbn [map]; discriminate). rewrite <- E.
  rewrite (scanner_gen P HP); [reflexivity| | | |].
  - rewrite E. discriminate.
  - unfold wfs. apply Forall_forall. intros x Hx. apply filter_In in Hx as [Hx _]. exact (proj1 (Forall_forall _ _) Hf x Hx).
  - unfold wfs. apply forallb_forall. intros x Hx. apply filter_In in Hx as [_ Hx]. exact Hx.
  - rewrite obj_text_tail by (rewrite E; cbn [map]; discriminate). cbn [length]. pose proof (tail_text_length (map line (wfs fs))) as Hl. rewrite map_length in Hl. lia.
Qed.
Lemma all_ok_map2 {A B C} (f : B -> rtres C) (g : A -> B) (h : A -> C) l : (forall x, In x l -> f (g x) = RtOk (h x)) -> all_ok f (map g l) = RtOk (map h l).
Proof.
  induction l as [|x l IH]; intro H; [reflexivity|].
  cbn [all_ok map]. rewrite (H x (or_introl eq_refl)), IH by (intros y Hy; apply H; right; exact Hy). reflexivity.
Qed.

Theorem all_good : forall n v, (depth v <= n)%nat -> tree_ok v = true -> written v = true -> good v.
Proof.
  induction n as [|n IH]; intros v Hd Hok Hw.
  - (* leaves: scalars and typed arrays *)
    destruct v as [s|b'|ng m|d p| |fs|w xs|xs|xs|xs|k|xs]; try discriminate; try (cbn [depth] in Hd; lia).
    all: try (unfold good; split; [apply scalar_text_nice; assumption|split; [apply scalar_ffacts; assumption|split; [intros sch Hc; apply scalar_read_back; assumption|intros ? ?; discriminate]]]).
    all: unfold good; split; [apply arr_text_nice; [reflexivity|exact Hok]|split; [eexists; eexists; apply arr_ffacts; [reflexivity|exact Hok]|split; [intros sch Hc; apply arr_read_back; [reflexivity|exact Hok|exact Hc]|intros ? ?; discriminate]]].
  - destruct v as [s|b'|ng m|d p| |fs|w xs|xs|xs|xs|k|xs]; try (apply IH; [cbn [depth]; lia|assumption|assumption]).
    + (* an object: its fields are good by induction *)
      rewrite tree_ok_JO in Hok. apply andb_prop in Hok as [Hfs Hdist].
      assert (Hch : forall nv, In nv fs -> name_ok (fst nv) = true /\ tree_ok (snd nv) = true /\ (depth (snd nv) <= n)%nat).
      { intros nv Hi. pose proof (proj1 (forallb_forall _ _) Hfs nv Hi) as H. apply andb_prop in H as [H1 H2].
        pose proof (depth_in fs nv Hi). repeat split; auto. lia. }
      set (P := fun v' => tree_ok v' = true /\ (depth v' <= n)%nat).
      assert (HP : forall v', P v' -> written v' = true -> exists c body, ffacts v' c body).
      { intros v' [H1 H2] H3. destruct (IH v' H2 H1 H3) as (_ & F & _). exact F. }
      assert (HfP : Forall (fun nv => name_ok (fst nv) = true /\ P (snd nv)) fs).
      { apply Forall_forall. intros nv Hi. destruct (Hch nv Hi) as (A & B & C). split; [exact A|split; assumption]. }
      assert (Hinner : Nice (obj_inner (map line (wfs fs)))).
      { apply obj_inner_nice. apply Forall_forall. intros l Hl. apply in_map_iff in Hl as (nv & <- & Hnv).
        unfold wfs in Hnv. apply filter_In in Hnv as [Hi Hwr]. destruct (Hch nv Hi) as (A & B & C).
        unfold line. apply line_nice; [exact A|]. destruct (IH (snd nv) C B Hwr) as (Nn & _). exact Nn. }
      assert (Etext : vtext (JO fs) = 123 :: obj_inner (map line (wfs fs)) ++ [125]) by (rewrite obj_vtext; apply obj_text_inner).
      assert (Hbr : pairs 123 125) by (left; auto).
      unfold good. split; [|split; [|split]].
      * rewrite Etext. apply nice_block; assumption.
      * exists 123, (obj_inner (map line (wfs fs)) ++ [125]). apply (block_ffacts (JO fs) 123 125); [left; auto|exact Etext|exact (proj1 Hinner 123 125 Hbr)|reflexivity].
      * intros sch Hc. destruct sch as [ | | | | |ss| | | | | | ]; try (cbn in Hc; discriminate). rewrite conforms_JO in Hc.
        change (snd (tprop [] (JO fs))) with (VObj (vtext (JO fs))). cbn [read_back norm].
        rewrite (parse_nested fs P HP HfP).
        set (F := fun nv : list N * jv => match find_last (fst nv) (map tprop' (wfs fs)) with
                                          | Some v0 => match read_back (snd nv) v0 with RtOk x => RtOk (fst nv, x) | RtErr => RtErr | RtPanic => RtPanic end
                                          | None => RtOk (fst nv, JNull) end).
        assert (G : forall gl fl, conf_fields gl fl = true -> (forall nv, In nv gl -> In nv fs) -> all_ok F fl = RtOk (map (fun nv => (fst nv, norm (snd nv))) gl)).
        { induction gl as [|g gr IHg]; intros fl Hcf Hin; destruct fl as [|f0 fr]; try discriminate; [reflexivity|].
          cbn [conf_fields] in Hcf. apply andb_prop in Hcf as [Hcf Hrest]. apply andb_prop in Hcf as [Hname Hconf]. apply beqs_eq in Hname.
          assert (Hg : In g fs) by (apply Hin; left; reflexivity). destruct (Hch g Hg) as (A & B & C).
          cbn [all_ok map]. unfold F at 1. rewrite <- Hname. rewrite (find_last_field_t fs Hdist g Hg).
          rewrite (IHg fr Hrest (fun nv Hi => Hin nv (or_intror Hi))).
          destruct (written (snd g)) eqn:Ew.
          - unfold tprop'. rewrite tprop_snd. destruct (IH (snd g) C B Ew) as (_ & _ & R & _). rewrite (R (snd f0) Hconf). reflexivity.
          - destruct (snd g); try discriminate. reflexivity. }
        fold F. rewrite (G fs ss Hc (fun nv Hi => Hi)). reflexivity.
      * intros fs0 _. rewrite Etext. exists (obj_inner (map line (wfs fs))). split; [reflexivity|exact (proj1 Hinner 123 125 Hbr)].
    + (* an array of objects *)
      rewrite tree_ok_JAO in Hok. apply andb_prop in Hok as [Hel Hconf].
      assert (Hch : forall y, In y xs -> (exists fs, y = JO fs) /\ tree_ok y = true /\ written y = true /\ (depth y <= n)%nat).
      { intros y Hi. pose proof (proj1 (forallb_forall _ _) Hel y Hi) as H. pose proof (depth_in_arr xs y Hi).
        destruct y; try discriminate. repeat split; [eexists; reflexivity|exact H|lia]. }
      assert (Hwr : forallb written xs = true) by (apply forallb_forall; intros y Hi; apply (Hch y Hi)).
      assert (Etext : vtext (JAO xs) = 91 :: join SEP (map vtext xs) ++ [93]) by (apply arrobj_vtext, Hwr).
      assert (Hinner : Nice (join SEP (map vtext xs))).
      { apply nice_join; [apply nice_pl; reflexivity|]. apply Forall_forall. intros t Ht. apply in_map_iff in Ht as (y & <- & Hy).
        destruct (Hch y Hy) as (_ & B & W & C). destruct (IH y C B W) as (Nn & _). exact Nn. }
      assert (Hobjs : Forall objtext (map vtext xs)).
      { apply Forall_forall. intros t Ht. apply in_map_iff in Ht as (y & <- & Hy).
        destruct (Hch y Hy) as ((fs0 & E) & B & W & C). destruct (IH y C B W) as (_ & _ & _ & O). exact (O fs0 E). }
      assert (Hsq : pairs 91 93) by (right; auto).
      unfold good. split; [|split; [|split]].
      * rewrite Etext. apply nice_block; assumption.
      * exists 91, (join SEP (map vtext xs) ++ [93]). apply (block_ffacts (JAO xs) 91 93); [right; auto|exact Etext|exact (proj1 Hinner 91 93 Hsq)|reflexivity].
      * intros sch Hc. destruct sch as [ | | | | | | | | | | |ss]; try (cbn in Hc; discriminate). rewrite conforms_JAO in Hc.
        change (snd (tprop [] (JAO xs))) with (VArr (vtext (JAO xs))). cbn [read_back norm]. rewrite Etext.
        rewrite (split_obj_array (map vtext xs) Hobjs (proj2 Hinner)). cbn [of_ares].
        destruct ss as [|s0 ss'].
        -- destruct xs; [reflexivity|discriminate].
        -- rewrite (all_ok_map2 (fun it => read_back s0 (VObj it)) vtext norm); [reflexivity|].
           intros y Hy. destruct (Hch y Hy) as ((fs0 & E) & B & W & C). destruct (IH y C B W) as (_ & _ & R & _).
           pose proof (R s0 (proj1 (forallb_forall _ _) Hc y Hy)) as Ry. rewrite E in *. exact Ry.
      * intros fs0 E. discriminate.
Qed.

(* a value of the domain can be read with itself as the declared type *)
Lemma conforms_refl : forall n v, (depth v <= n)%nat -> tree_ok v = true -> conforms v v = true.
Proof.
  induction n as [|n IH]; intros v Hd Hok.
  - destruct v as [s|b'|ng m|d p| |fs|w xs|xs|xs|xs|k|xs]; try reflexivity; try (cbn [depth] in Hd; lia). destruct w; reflexivity.
  - destruct v as [s|b'|ng m|d p| |fs|w xs|xs|xs|xs|k|xs]; try reflexivity; try (destruct w; reflexivity).
    + rewrite conforms_JO. rewrite tree_ok_JO in Hok. apply andb_prop in Hok as [Hfs _].
      assert (G : forall gl, (forall nv, In nv gl -> In nv fs) -> conf_fields gl gl = true).
      { induction gl as [|g gr IHg]; intro Hin; [reflexivity|]. cbn [conf_fields]. rewrite beqs_refl.
        assert (Hg : In g fs) by (apply Hin; left; reflexivity).
        pose proof (proj1 (forallb_forall _ _) Hfs g Hg) as H. apply andb_prop in H as [_ H2]. pose proof (depth_in fs g Hg).
        rewrite (IH (snd g)) by (auto; lia). rewrite IHg by (intros nv Hi; apply Hin; right; exact Hi). reflexivity. }
      apply G. auto.
    + rewrite conforms_JAO. rewrite tree_ok_JAO in Hok. apply andb_prop in Hok as [_ Hc]. destruct xs; [reflexivity|exact Hc].
Qed.

(* ================= the theorems ================= *)
Theorem nested_round_trip fs : tree_ok (JO fs) = true -> exists t, round_trip (JO fs) = Some (t, RtOk (norm (JO fs))).
Proof.
  intro Hok. destruct (all_good (depth (JO fs)) (JO fs) (le_n _) Hok eq_refl) as (_ & _ & R & _).
  unfold round_trip. rewrite to_json_any. cbn [written]. eexists. f_equal. f_equal.
  exact (R (JO fs) (conforms_refl _ _ (le_n _) Hok)).
Qed.
Theorem object_array_round_trip xs : tree_ok (JAO xs) = true -> exists t, round_trip (JAO xs) = Some (t, RtOk (norm (JAO xs))).
Proof.
  intro Hok. destruct (all_good (depth (JAO xs)) (JAO xs) (le_n _) Hok eq_refl) as (_ & _ & R & _).
  pose proof (R (JAO xs) (conforms_refl _ _ (le_n _) Hok)) as Rb. change (snd (tprop [] (JAO xs))) with (VArr (vtext (JAO xs))) in Rb.
  unfold round_trip. rewrite to_json_any. cbn [written]. eexists. f_equal. f_equal.
  cbn [read_back norm] in Rb. cbn [norm].
  destruct (of_ares (split_array (vtext (JAO xs)))) as [items| |]; try discriminate.
  destruct xs as [|s0 xs']; [destruct items; [reflexivity|discriminate]|].
  destruct (all_ok (fun it => read_back s0 (VObj it)) items); try discriminate. exact Rb.
Qed.

(* the domain is inhabited: three levels; braces, brackets, commas and colons inside strings at depth; arrays of every element kind as fields;
   an array of objects whose elements differ in values and in which fields are null; an object all of whose fields are null; floats *)
Definition tree_example : jv :=
  JO [([97], JO [([98], JS [125; 93; 123; 91; 44; 58]); ([99], JAS [[93; 91]; [125]; []]); ([100], JO [([101], JI true 5); ([102], JO [([103], JNull)])])]);
      ([104], JAO [JO [([103], JS [125; 125]); ([105], JF [48; 46; 53] [48; 46; 53]); ([106], JAI I8 [(true, 128)])];
                   JO [([103], JS [123]); ([105], JNull); ([106], JAI I8 [])]]);
      ([105], JAI I8 [(true, 128); (false, 127)]); ([106], JAF [([48; 46; 48], [48]); ([49; 46; 48], [49])]); ([107], JAB [true; false]); ([108], JAN 2);
      ([109], JI true (2 ^ 127)); ([110], JF [49; 46; 53] [49; 46; 53]); ([111], JNull); ([112], JAI U128 []); ([113], JO []); ([114], JAO [])].
Lemma tree_example_ok : tree_ok tree_example = true /\ flat_ok tree_example = false /\ (3 <= depth tree_example)%nat.
Proof. vm_compute. repeat split; lia. Qed.
