From Coq Require Import Arith.
From Rws Require Import Str.
Open Scope N_scope.

Definition solid (c : byte) : bool := N.ltb c 128 && negb (ascii_ws c).

Lemma solid_not_ws2_l c d : solid c = true -> ws2 c d = false.
Proof. unfold solid, ws2. intro H. apply andb_prop in H as [H _]. apply N.ltb_lt in H.
  destruct (N.eqb_spec c 194); [lia|reflexivity]. Qed.
Lemma solid_not_ws2_r c d : solid d = true -> ws2 c d = false.
Proof. unfold solid, ws2. intro H. apply andb_prop in H as [H _]. apply N.ltb_lt in H.
  destruct (N.eqb_spec d 133); [lia|]. destruct (N.eqb_spec d 160); [lia|]. apply andb_false_r. Qed.
Lemma solid_not_ws3_1 c d e : solid c = true -> ws3 c d e = false.
Proof. unfold solid, ws3. intro H. apply andb_prop in H as [H _]. apply N.ltb_lt in H.
  destruct (N.eqb_spec c 225); [lia|]. destruct (N.eqb_spec c 226); [lia|]. destruct (N.eqb_spec c 227); [lia|]. reflexivity. Qed.
Lemma solid_not_ws3_3 c d e : solid e = true -> ws3 c d e = false.
Proof. unfold solid, ws3, in_rng. intro H. apply andb_prop in H as [H _]. apply N.ltb_lt in H.
  destruct (N.eqb_spec e 128); [lia|]. destruct (N.eqb_spec e 168); [lia|]. destruct (N.eqb_spec e 169); [lia|].
  destruct (N.eqb_spec e 175); [lia|]. destruct (N.eqb_spec e 159); [lia|].
  destruct (N.leb_spec 128 e); [lia|]. simpl. rewrite !andb_false_r. reflexivity. Qed.

Lemma ws_prefix_solid c s : solid c = true -> ws_prefix_len (c :: s) = 0%nat.
Proof. intro H. unfold ws_prefix_len. pose proof H as H'. unfold solid in H'. apply andb_prop in H' as [_ Hw].
  apply negb_true_iff in Hw. rewrite Hw. destruct s as [|d r2]; auto.
  rewrite solid_not_ws2_l by assumption. destruct r2 as [|e r3]; auto. rewrite solid_not_ws3_1 by assumption. reflexivity. Qed.
Lemma ws_suffix_solid c s : solid c = true -> ws_suffix_len (c :: s) = 0%nat.
Proof. intro H. unfold ws_suffix_len. pose proof H as H'. unfold solid in H'. apply andb_prop in H' as [_ Hw].
  apply negb_true_iff in Hw. rewrite Hw. destruct s as [|d r2]; auto.
  rewrite solid_not_ws2_r by assumption. destruct r2 as [|e r3]; auto. rewrite solid_not_ws3_3 by assumption. reflexivity. Qed.

Lemma trim_start_f_solid f c s : solid c = true -> trim_start_f f (c :: s) = c :: s.
Proof. intro H. destruct f; cbn [trim_start_f]; auto. rewrite (ws_prefix_solid c s H). reflexivity. Qed.
Lemma trim_end_f_solid f c s : solid c = true -> trim_end_f f (c :: s) = c :: s.
Proof. intro H. destruct f; cbn [trim_end_f]; auto. rewrite (ws_suffix_solid c s H). reflexivity. Qed.

Lemma trim_start_solid c s : solid c = true -> trim_start (c :: s) = c :: s.
Proof. intro H. unfold trim_start. apply trim_start_f_solid, H. Qed.

(* stripping a tail of ASCII whitespace *)
Lemma trim_end_f_ascii_ws t : forall f r, forallb ascii_ws t = true -> (length t <= f)%nat ->
  trim_end_f f (rev t ++ r) = trim_end_f (f - length t) r.
Proof.
  induction t as [|x t IH] using rev_ind; intros f r Hw Hl.
  - simpl. rewrite Nat.sub_0_r. reflexivity.
  - rewrite forallb_app in Hw. apply andb_prop in Hw as [Ht Hx]. simpl in Hx. rewrite andb_true_r in Hx.
    rewrite rev_app_distr. simpl rev. cbn [app]. rewrite app_length in *. simpl in Hl.
    destruct f as [|f]; [exfalso; lia|]. cbn [trim_end_f]. unfold ws_suffix_len. rewrite Hx. cbn [skipn].
    rewrite IH by (auto; lia). f_equal. cbn [length]. lia.
Qed.

Lemma trim_end_solid_ws s c t : solid c = true -> forallb ascii_ws t = true ->
  trim_end (s ++ [c] ++ t) = s ++ [c].
Proof.
  intros Hc Ht. unfold trim_end. rewrite !rev_app_distr. rewrite <- app_assoc.
  rewrite trim_end_f_ascii_ws by (auto; rewrite !app_length; simpl; lia).
  change (rev [c] ++ rev s) with (c :: rev s). rewrite trim_end_f_solid by assumption.
  change (c :: rev s) with (rev [c] ++ rev s). rewrite <- rev_app_distr. apply rev_involutive.
Qed.

Theorem trim_solid_ends x mid y t : solid x = true -> solid y = true -> forallb ascii_ws t = true ->
  trim (x :: mid ++ [y] ++ t) = x :: mid ++ [y].
Proof. intros Hx Hy Ht. unfold trim. rewrite trim_start_solid by assumption.
  change (x :: mid ++ [y] ++ t) with ((x :: mid) ++ [y] ++ t). rewrite trim_end_solid_ws by assumption. reflexivity. Qed.
Theorem trim_solid_single x t : solid x = true -> forallb ascii_ws t = true -> trim (x :: t) = [x].
Proof. intros Hx Ht. unfold trim. rewrite trim_start_solid by assumption.
  change (x :: t) with ([] ++ [x] ++ t). rewrite trim_end_solid_ws by assumption. reflexivity. Qed.

(* trimming never removes a solid (ASCII non-whitespace) byte *)
Definition csolid (s : bytes) : nat := length (filter solid s).
Lemma ge128_not_solid c : 128 <= c -> solid c = false.
Proof. intro H. unfold solid. destruct (N.ltb_spec c 128); [lia|reflexivity]. Qed.
Lemma ws_not_solid c : ascii_ws c = true -> solid c = false.
Proof. intro H. unfold solid. rewrite H. apply andb_false_r. Qed.
Lemma ws2_not_solid c d : ws2 c d = true -> solid c = false /\ solid d = false.
Proof. unfold ws2. intro H. apply andb_prop in H as [H1 H2]. apply N.eqb_eq in H1. subst.
  split; [apply ge128_not_solid; lia|]. apply orb_prop in H2 as [H2|H2]; apply N.eqb_eq in H2; subst; apply ge128_not_solid; lia. Qed.
Lemma ws3_not_solid c d e : ws3 c d e = true -> solid c = false /\ solid d = false /\ solid e = false.
Proof.
  unfold ws3, in_rng. intro H.
  repeat match type of H with
  | _ || _ = true => apply orb_prop in H as [H|H]
  | _ && _ = true => let H1 := fresh in apply andb_prop in H as [H H1]
  end;
  repeat match goal with
  | X : N.eqb _ _ = true |- _ => apply N.eqb_eq in X
  | X : N.leb _ _ = true |- _ => apply N.leb_le in X
  | X : _ && _ = true |- _ => let X1 := fresh in apply andb_prop in X as [X X1]
  | X : _ || _ = true |- _ => apply orb_prop in X as [X|X]
  end; subst; repeat split; apply ge128_not_solid; lia.
Qed.
Lemma csolid_cons c s : csolid (c :: s) = ((if solid c then 1 else 0) + csolid s)%nat.
Proof. unfold csolid. simpl. destruct (solid c); reflexivity. Qed.

Lemma csolid_skip_prefix s : csolid (skipn (ws_prefix_len s) s) = csolid s.
Proof.
  unfold ws_prefix_len. destruct s as [|c r]; [reflexivity|].
  destruct (ascii_ws c) eqn:Ec. { cbn [skipn]. rewrite csolid_cons, (ws_not_solid c Ec). reflexivity. }
  destruct r as [|d r2]; [reflexivity|].
  destruct (ws2 c d) eqn:E2. { cbn [skipn]. destruct (ws2_not_solid _ _ E2) as [A B]. rewrite !csolid_cons, A, B. reflexivity. }
  destruct r2 as [|e r3]; [reflexivity|].
  destruct (ws3 c d e) eqn:E3; [|reflexivity].
  cbn [skipn]. destruct (ws3_not_solid _ _ _ E3) as (A & B & C). rewrite !csolid_cons, A, B, C. reflexivity.
Qed.
Lemma csolid_trim_start_f f s : csolid (trim_start_f f s) = csolid s.
Proof. revert s; induction f as [|f IH]; intro s; cbn [trim_start_f]; auto.
  destruct (ws_prefix_len s) eqn:E; auto. rewrite IH. rewrite <- E. apply csolid_skip_prefix. Qed.

Lemma csolid_skip_suffix r : csolid (skipn (ws_suffix_len r) r) = csolid r.
Proof.
  unfold ws_suffix_len. destruct r as [|e r1]; [reflexivity|].
  destruct (ascii_ws e) eqn:Ec. { cbn [skipn]. rewrite csolid_cons, (ws_not_solid e Ec). reflexivity. }
  destruct r1 as [|d r2]; [reflexivity|].
  destruct (ws2 d e) eqn:E2. { cbn [skipn]. destruct (ws2_not_solid _ _ E2) as [A B]. rewrite !csolid_cons, A, B. reflexivity. }
  destruct r2 as [|c r3]; [reflexivity|].
  destruct (ws3 c d e) eqn:E3; [|reflexivity].
  cbn [skipn]. destruct (ws3_not_solid _ _ _ E3) as (A & B & C). rewrite !csolid_cons, A, B, C. reflexivity.
Qed.
Lemma csolid_trim_end_f f r : csolid (trim_end_f f r) = csolid r.
Proof. revert r; induction f as [|f IH]; intro r; cbn [trim_end_f]; auto.
  destruct (ws_suffix_len r) eqn:E; auto. rewrite IH. rewrite <- E. apply csolid_skip_suffix. Qed.
Lemma csolid_app a b : csolid (a ++ b) = (csolid a + csolid b)%nat.
Proof. unfold csolid. rewrite filter_app, app_length. reflexivity. Qed.
Lemma csolid_rev s : csolid (rev s) = csolid s.
Proof. induction s as [|c s IH]; auto. simpl rev. rewrite csolid_app, IH, !csolid_cons.
  change (csolid []) with 0%nat. destruct (solid c); lia. Qed.
Theorem csolid_trim s : csolid (trim s) = csolid s.
Proof. unfold trim, trim_end, trim_start. rewrite csolid_rev, csolid_trim_end_f, csolid_rev, csolid_trim_start_f. reflexivity. Qed.
Corollary trim_nonempty s c : In c s -> solid c = true -> trim s <> [].
Proof. intros Hin Hs E. pose proof (csolid_trim s) as H. rewrite E in H. unfold csolid in H. simpl in H.
  assert (In c (filter solid s)) as Hf by (apply filter_In; auto).
  destruct (filter solid s); [contradiction|discriminate]. Qed.
