(* C19 — the JSON round trip: what is written is read back *)
From Coq Require Import Arith.
From Rws Require Import Str Utf8 Num RespParse Json JsonArray Server JsonRt StrLemmas TrimLemmas Utf8Lemmas C05Proof C19Lemmas.
Open Scope N_scope.

Definition written (v : jv) : bool := match v with JNull => false | _ => true end.
Definition vtext (v : jv) : list N := match to_json v with Some t => t | None => [] end.
(* the property the scanner must return for a written scalar field *)
Definition prop_of (n : list N) (v : jv) : list N * jty * jval :=
  match v with
  | JS s => (n, TString, VStr s) | JB b => (n, TBool, VBool b) | JI ng m => (n, TInt, VInt ng m) | JF d _ => (n, TFloat, VFloat d)
  | _ => (n, TString, VNull)
  end.

(* ---------- the key ---------- *)
Lemma read_key_written first name c rest : name_ok name = true -> N.leb 128 c = false -> is_ws_ctl c = false ->
  read_key first (KEY_LEAD ++ name ++ 34 :: 58 :: 32 :: c :: rest) = KOk (KEY_LEAD ++ name ++ [34] ++ [58]) c rest.
Proof.
  intros Hn H1 H2. destruct (name_facts name Hn) as (Hne & H34 & H58 & Ha & Hs).
  unfold read_key.
  change (read_until QUOTE (KEY_LEAD ++ name ++ 34 :: 58 :: 32 :: c :: rest)) with (KEY_LEAD, name ++ 34 :: 58 :: 32 :: c :: rest).
  cbv iota. change (utf8_valid KEY_LEAD) with true. change (filter_ascii_control KEY_LEAD) with [34]. change (beqs [34] [125]) with false.
  rewrite andb_false_r. change (beqs [34] [QUOTE]) with true. cbn [negb]. unfold QUOTE.
  rewrite read_until_found by assumption. cbv iota.
  rewrite ascii_utf8 by (unfold is_ascii in *; rewrite forallb_app, Ha; reflexivity). cbn [negb].
  change (skip_ws (58 :: 32 :: c :: rest)) with (@JOk (N * list N) (58, 32 :: c :: rest)). cbv iota. change (negb (58 =? 58)) with false. cbv iota.
  rewrite skip_ws_sp by assumption. rewrite <- !app_assoc. reflexivity.
Qed.

(* ---------- the value ---------- *)
Definition numstart (c : N) : bool := is_ascii_digit c || N.eqb c 45.
Lemma digits_num_chars r : forallb is_digit r = true -> forallb num_char r = true.
Proof. intro H. apply forallb_forall. intros c Hi. unfold num_char. replace (is_ascii_digit c) with true; [reflexivity|]. symmetry. exact (proj1 (forallb_forall _ _) H c Hi). Qed.
Lemma show_int_shape ng m : exists c body, show_int ng m = c :: body /\ numstart c = true /\ forallb num_char body = true.
Proof.
  destruct (show_N_head m) as (c & r & E & Hc & Hr). unfold show_int. destruct ng.
  - exists 45, (show_N m). repeat split. apply digits_num_chars, show_N_digits.
  - exists c, r. repeat split; [exact E| |apply digits_num_chars, Hr]. unfold numstart. change (is_ascii_digit c) with (is_digit c). rewrite Hc. reflexivity.
Qed.
Lemma dbg_shape d : dbg_ok d = true -> exists c body, d = c :: body /\ numstart c = true /\ forallb num_char body = true /\ f64_ok d = true /\ parse_i128 d = None.
Proof.
  unfold dbg_ok. intro H. apply andb_prop in H as [H H4]. apply andb_prop in H as [H H3]. apply andb_prop in H as [H1 H2].
  destruct d as [|c body]; [discriminate|]. exists c, body. cbn [forallb] in H2. apply andb_prop in H2 as [_ H2].
  repeat split; auto. destruct (parse_i128 (c :: body)); [discriminate|reflexivity].
Qed.

Lemma rv_number kv1 c body : numstart c = true -> forallb num_char body = true ->
  (forall X, read_value kv1 c (body ++ 44 :: X) = JOk (kv1 ++ c :: body, X, false)) /\
  read_value kv1 c (body ++ [13; 10; 125]) = JOk (kv1 ++ c :: body, [], true).
Proof.
  intros Hc Hb. destruct (numstart_facts c Hc) as (E1 & E2 & E3 & E4 & E5 & E6). unfold numstart in Hc.
  split; [intro X|]; unfold read_value, QUOTE; rewrite E1, E2, E3, E4, E5, E6, Hc.
  - rewrite read_number_comma by assumption. reflexivity.
  - rewrite read_number_close by assumption. reflexivity.
Qed.
Lemma rv_string kv1 s : str_ok s = true ->
  (forall X, read_value kv1 34 ((s ++ [34]) ++ 44 :: X) = JOk (kv1 ++ 34 :: s ++ [34], X, match X with [] => true | _ => false end)) /\
  read_value kv1 34 ((s ++ [34]) ++ [13; 10; 125]) = JOk (kv1 ++ 34 :: s ++ [34], [], true).
Proof.
  intro Hs. split; [intro X|]; unfold read_value; change (34 =? QUOTE) with true; cbv iota; rewrite <- app_assoc; cbn [app];
    rewrite read_string_ok by (auto; discriminate); cbn [app].
  - rewrite tail_comma. reflexivity.
  - rewrite tail_close. reflexivity.
Qed.
Lemma rv_bool kv1 (b : bool) : let t := if b then TRUE_S else FALSE_S in
  (forall X, read_value kv1 (hd 0 t) (tl t ++ 44 :: X) = JOk (kv1 ++ t, X, match X with [] => true | _ => false end)) /\
  read_value kv1 (hd 0 t) (tl t ++ [13; 10; 125]) = JOk (kv1 ++ t, [], true).
Proof. destruct b; cbv zeta; split; try intro X; reflexivity. Qed.

(* ---------- one written scalar field, end to end ---------- *)
Lemma num_chars_solid t : forallb num_char t = true -> forallb solid t = true.
Proof. intro H. apply forallb_forall. intros c Hi. apply num_char_facts. exact (proj1 (forallb_forall _ _) H c Hi). Qed.
Lemma numstart_num_char c : numstart c = true -> num_char c = true.
Proof. unfold numstart, num_char. intro H. apply orb_prop in H as [H|H]; rewrite H; rewrite ?orb_true_r; reflexivity. Qed.
Lemma numstart_sig c : numstart c = true -> N.leb 128 c = false /\ is_ws_ctl c = false.
Proof.
  intro H. assert (Hc : (48 <= c <= 57) \/ c = 45).
  { unfold numstart in H. apply orb_prop in H as [H|H]; [|apply N.eqb_eq in H; auto]. unfold is_ascii_digit in H. apply andb_prop in H as [H1 H2]. apply N.leb_le in H1, H2. auto. }
  split; [apply N.leb_gt; lia|]. unfold is_ws_ctl, is_ascii_control.
  repeat apply orb_false_intro; try (apply N.eqb_neq; lia). apply N.ltb_ge. lia.
Qed.

Lemma pp_number name c body : name_ok name = true -> numstart c = true -> forallb num_char body = true ->
  property_parse (KEY_LEAD ++ name ++ [34] ++ [58] ++ c :: body) = property_value name (c :: body).
Proof.
  intros Hn Hc Hb.
  assert (Hall : forallb solid (c :: body) = true) by (apply num_chars_solid; cbn [forallb]; rewrite numstart_num_char, Hb by assumption; reflexivity).
  destruct (exists_last (l := c :: body) ltac:(discriminate)) as (b' & y & E).
  apply (property_parse_written name (c :: body) b' y); auto.
  - rewrite E in Hall. rewrite forallb_app in Hall. apply andb_prop in Hall as [_ H]. cbn [forallb] in H. rewrite andb_true_r in H. exact H.
  - apply trim_all_solid, Hall.
Qed.

Definition field_facts (v : jv) (c : N) (body : list N) : Prop :=
  vtext v = c :: body /\ N.leb 128 c = false /\ is_ws_ctl c = false /\
  (forall kv1 X, X <> [] -> read_value kv1 c (body ++ 44 :: X) = JOk (kv1 ++ vtext v, X, false)) /\
  (forall kv1, read_value kv1 c (body ++ [13; 10; 125]) = JOk (kv1 ++ vtext v, [], true)) /\
  (forall name, name_ok name = true -> property_parse (KEY_LEAD ++ name ++ [34] ++ [58] ++ vtext v) = JOk (prop_of name v)).

Lemma i128_bound : 2 ^ 127 < 10 ^ 39.
Proof. vm_compute. reflexivity. Qed.

Theorem written_field v : scalar_ok v = true -> written v = true -> exists c body, field_facts v c body.
Proof.
  intros Hv Hw. destruct v as [s|b|ng m|d p| |fs|w xs|xs|xs|xs|n|xs]; try discriminate.
  - (* string *)
    exists 34, (s ++ [34]). cbn [scalar_ok] in Hv. destruct (rv_string [] s Hv) as [_ _].
    assert (H34 : ~ In 34 s). { intro Hi. pose proof (proj1 (forallb_forall _ _) Hv 34 Hi) as H. discriminate. }
    unfold field_facts. change (vtext (JS s)) with (34 :: s ++ [34]). repeat split; try reflexivity.
    + intros kv1 X HX. destruct (rv_string kv1 s Hv) as [H _]. rewrite H. destruct X; [contradiction|reflexivity].
    + intro kv1. destruct (rv_string kv1 s Hv) as [_ H]. exact H.
    + intros name Hn. change (34 :: s ++ [34]) with ((34 :: s) ++ [34]).
      rewrite (property_parse_written name ((34 :: s) ++ [34]) (34 :: s) 34) by (auto; apply (trim_solid_both 34 s 34); reflexivity).
      apply pv_string, H34.
  - (* boolean *)
    destruct b.
    + exists 116, [114; 117; 101]. unfold field_facts. change (vtext (JB true)) with TRUE_S. repeat split; try reflexivity.
      * intros kv1 X HX. destruct X; [contradiction|reflexivity].
      * intros name Hn. rewrite (property_parse_written name TRUE_S [116; 114; 117] 101) by (auto; reflexivity). reflexivity.
    + exists 102, [97; 108; 115; 101]. unfold field_facts. change (vtext (JB false)) with FALSE_S. repeat split; try reflexivity.
      * intros kv1 X HX. destruct X; [contradiction|reflexivity].
      * intros name Hn. rewrite (property_parse_written name FALSE_S [102; 97; 108; 115] 101) by (auto; reflexivity). reflexivity.
  - (* integer *)
    cbn [scalar_ok] in Hv. destruct (show_int_shape ng m) as (c & body & E & Hc & Hb). exists c, body.
    destruct (numstart_sig c Hc) as [S1 S2]. destruct (rv_number [] c body Hc Hb) as [_ _].
    unfold field_facts. change (vtext (JI ng m)) with (show_int ng m). rewrite E. repeat split; auto.
    + intros kv1 X _. destruct (rv_number kv1 c body Hc Hb) as [H _]. apply H.
    + intro kv1. destruct (rv_number kv1 c body Hc Hb) as [_ H]. exact H.
    + intros name Hn. rewrite pp_number by assumption. rewrite pv_number by exact Hc. rewrite <- E.
      unfold parse_i128. rewrite parse_signed_show by (auto; exact i128_bound). reflexivity.
  - (* float *)
    cbn [scalar_ok] in Hv. destruct (dbg_shape d Hv) as (c & body & E & Hc & Hb & Hf & Hi). exists c, body.
    destruct (numstart_sig c Hc) as [S1 S2].
    unfold field_facts. change (vtext (JF d p)) with d. rewrite E. repeat split; auto.
    + intros kv1 X _. destruct (rv_number kv1 c body Hc Hb) as [H _]. apply H.
    + intro kv1. destruct (rv_number kv1 c body Hc Hb) as [_ H]. exact H.
    + intros name Hn. rewrite pp_number by assumption. rewrite pv_number by exact Hc. rewrite <- E, Hi, Hf. reflexivity.
Qed.

(* ---------- the scanner loop on a written object ---------- *)
Definition line (nv : list N * jv) : list N := prop_line (fst nv) (vtext (snd nv)).
Definition prop_of' (nv : list N * jv) := prop_of (fst nv) (snd nv).
Definition field_ok (nv : list N * jv) : bool := name_ok (fst nv) && scalar_ok (snd nv).
(* what follows the opening brace, for a non-empty list of property lines *)
Fixpoint tail_text (ls : list (list N)) : list N :=
  match ls with
  | [] => []
  | p :: ps => match ps with [] => CRLF ++ p ++ CRLF ++ [125] | _ => CRLF ++ p ++ [44] ++ tail_text ps end
  end.
Lemma join_cons sep p q ps : join sep (p :: q :: ps) = p ++ sep ++ join sep (q :: ps).
Proof. reflexivity. Qed.
Lemma tail_text_cons p q ps : tail_text (p :: q :: ps) = CRLF ++ p ++ [44] ++ tail_text (q :: ps).
Proof. reflexivity. Qed.
Lemma obj_text_tail ls : ls <> [] -> obj_text ls = 123 :: tail_text ls.
Proof.
  intro H. unfold obj_text. cbn [app]. f_equal.
  induction ls as [|p ps IH]; [contradiction|]. destruct ps as [|q ps].
  - reflexivity.
  - rewrite join_cons, tail_text_cons. rewrite <- IH by discriminate. unfold CRLF. rewrite <- !app_assoc. reflexivity.
Qed.
Lemma tail_text_nonempty ls : ls <> [] -> tail_text ls <> [].
Proof. destruct ls as [|p [|q ps]]; [contradiction| |]; intros _; cbn [tail_text CRLF app]; discriminate. Qed.
Lemma tail_text_length ls : (length ls <= length (tail_text ls))%nat.
Proof.
  induction ls as [|p ps IH]; [cbn; lia|]. destruct ps as [|q ps].
  - cbn [tail_text CRLF app length]. lia.
  - rewrite tail_text_cons, !app_length. cbn [length] in *. lia.
Qed.

Lemma line_shape name v c body : vtext v = c :: body -> forall tl0, CRLF ++ prop_line name (vtext v) ++ tl0 = KEY_LEAD ++ name ++ 34 :: 58 :: 32 :: c :: (body ++ tl0).
Proof. intros E tl0. rewrite E. unfold prop_line, CRLF, KEY_LEAD, QUOTE. rewrite <- !app_assoc. reflexivity. Qed.

Theorem scanner_reads_written : forall fs, fs <> [] -> forallb field_ok fs = true -> forallb (fun nv => written (snd nv)) fs = true ->
  forall f acc, (length fs <= f)%nat -> props_loop f (tail_text (map line fs)) acc = JOk (acc ++ map prop_of' fs).
Proof.
  induction fs as [|[name v] fs IH]; intros Hne Hok Hw f acc Hf; [contradiction|].
  cbn [forallb] in Hok, Hw. apply andb_prop in Hok as [Hnv Hok]. apply andb_prop in Hw as [Hwv Hw].
  unfold field_ok in Hnv. cbn [fst snd] in Hnv, Hwv. apply andb_prop in Hnv as [Hn Hv].
  destruct (written_field v Hv Hwv) as (c & body & E & S1 & S2 & Rmid & Rlast & PP).
  destruct f as [|f]; [cbn [length] in Hf; lia|].
  destruct fs as [|nv2 fs].
  - (* the last property *)
    cbn [map tail_text]. unfold line at 1. cbn [fst snd]. rewrite (line_shape name v c body E).
    cbn [props_loop]. rewrite read_key_written by assumption. rewrite Rlast.
    replace ((KEY_LEAD ++ name ++ [34] ++ [58]) ++ vtext v) with (KEY_LEAD ++ name ++ [34] ++ [58] ++ vtext v) by (rewrite <- !app_assoc; reflexivity).
    rewrite PP by assumption. reflexivity.
  - cbn [map]. rewrite tail_text_cons. unfold line at 1. cbn [fst snd].
    change (CRLF ++ prop_line name (vtext v) ++ [44] ++ tail_text (line nv2 :: map line fs))
      with (CRLF ++ prop_line name (vtext v) ++ 44 :: tail_text (map line (nv2 :: fs))).
    rewrite (line_shape name v c body E).
    cbn [props_loop]. rewrite read_key_written by assumption. rewrite Rmid by (apply tail_text_nonempty; discriminate).
    replace ((KEY_LEAD ++ name ++ [34] ++ [58]) ++ vtext v) with (KEY_LEAD ++ name ++ [34] ++ [58] ++ vtext v) by (rewrite <- !app_assoc; reflexivity).
    rewrite PP by assumption.
    rewrite IH by (auto; try discriminate; cbn [length] in *; lia).
    rewrite <- app_assoc. reflexivity.
Qed.

(* ---------- writer, scanner and typed read-back composed ---------- *)
Definition wfs (fs : list (list N * jv)) := filter (fun nv => written (snd nv)) fs.
Lemma to_json_scalar v : scalar_ok v = true -> to_json v = if written v then Some (vtext v) else None.
Proof. destruct v; try discriminate; reflexivity. Qed.
Lemma to_json_flat fs : forallb field_ok fs = true -> to_json (JO fs) = Some (obj_text (map line (wfs fs))).
Proof.
  intro H. cbn [to_json]. f_equal. f_equal.
  induction fs as [|[n v] fs IH]; [reflexivity|].
  cbn [forallb] in H. apply andb_prop in H as [Hnv H]. unfold field_ok in Hnv. cbn [fst snd] in Hnv. apply andb_prop in Hnv as [_ Hv].
  cbn [flat_map wfs filter fst snd]. rewrite (to_json_scalar v Hv). destruct (written v) eqn:Ew.
  - cbn [app map]. unfold line at 1. cbn [fst snd]. f_equal. apply IH, H.
  - cbn [app]. apply IH, H.
Qed.

Lemma parse_obj_text ls : ls <> [] -> parse_as_properties (obj_text ls) = props_loop (S (length (obj_text ls))) (tail_text ls) [].
Proof. intro H. rewrite obj_text_tail by assumption. reflexivity. Qed.

Theorem parse_written fs : forallb field_ok fs = true -> parse_as_properties (obj_text (map line (wfs fs))) = JOk (map prop_of' (wfs fs)).
Proof.
  intro H. destruct (wfs fs) as [|nv ws] eqn:E; [vm_compute; reflexivity|].
  rewrite parse_obj_text by (cbn [map]; discriminate). rewrite <- E.
  rewrite scanner_reads_written; [reflexivity| | | |].
  - rewrite E. discriminate.
  - unfold wfs. apply forallb_forall. intros x Hx. apply filter_In in Hx as [Hx _]. exact (proj1 (forallb_forall _ _) H x Hx).
  - unfold wfs. apply forallb_forall. intros x Hx. apply filter_In in Hx as [_ Hx]. exact Hx.
  - rewrite obj_text_tail by (rewrite E; cbn [map]; discriminate). cbn [length]. pose proof (tail_text_length (map line (wfs fs))) as Hl. rewrite map_length in Hl. lia.
Qed.

Lemma find_last_acc k : forall ps acc, fold_left (fun acc p => if beqs (fst (fst p)) k then Some (snd p) else acc) ps acc =
  match find_last k ps with Some x => Some x | None => acc end.
Proof.
  unfold find_last. induction ps as [|p ps IH]; intro acc; [reflexivity|].
  cbn [fold_left]. rewrite IH. rewrite (IH (if beqs (fst (fst p)) k then Some (snd p) else None)).
  destruct (fold_left _ ps None); [reflexivity|]. destruct (beqs (fst (fst p)) k); reflexivity.
Qed.
Lemma find_last_cons k (p : list N * jty * jval) ps : find_last k (p :: ps) =
  match find_last k ps with Some x => Some x | None => if beqs (fst (fst p)) k then Some (snd p) else None end.
Proof. unfold find_last at 1. cbn [fold_left]. apply find_last_acc. Qed.
Lemma prop_key nv : fst (fst (prop_of' nv)) = fst nv.
Proof. destruct nv as [n v]. unfold prop_of'. cbn [fst snd]. destruct v; reflexivity. Qed.
Lemma find_last_absent k fs : existsb (beqs k) (map fst fs) = false -> find_last k (map prop_of' (wfs fs)) = None.
Proof.
  induction fs as [|a fs IH]; intro H; [reflexivity|].
  cbn [map existsb] in H. apply orb_false_elim in H as [Ha H].
  cbn [wfs filter]. destruct (written (snd a)); [|apply IH, H].
  cbn [map]. rewrite find_last_cons. fold (wfs fs). rewrite IH by exact H. rewrite prop_key.
  replace (beqs (fst a) k) with false; [reflexivity|]. symmetry. destruct (beqs (fst a) k) eqn:E; [|reflexivity].
  apply beqs_eq in E. subst k. rewrite (proj2 (beqs_eq _ _) eq_refl) in Ha. discriminate.
Qed.
Lemma existsb_false_in x r : existsb (beqs x) r = false -> forall y, In y r -> x <> y.
Proof. intros H y Hy E. subst y. assert (existsb (beqs x) r = true); [|congruence]. apply existsb_exists. exists x. split; [assumption|]. apply beqs_eq. reflexivity. Qed.
Lemma find_last_field fs : distinct (map fst fs) = true -> forall nv, In nv fs ->
  find_last (fst nv) (map prop_of' (wfs fs)) = if written (snd nv) then Some (snd (prop_of' nv)) else None.
Proof.
  induction fs as [|a fs IH]; intros Hd nv Hi; [contradiction|].
  cbn [map distinct] in Hd. apply andb_prop in Hd as [Ha Hd]. apply negb_true_iff in Ha.
  destruct Hi as [->|Hi].
  - cbn [wfs filter]. fold (wfs fs). destruct (written (snd nv)).
    + cbn [map]. rewrite find_last_cons, find_last_absent by exact Ha. rewrite prop_key, (proj2 (beqs_eq _ _) eq_refl). reflexivity.
    + apply find_last_absent, Ha.
  - cbn [wfs filter]. fold (wfs fs). destruct (written (snd a)); [|apply IH; assumption].
    cbn [map]. rewrite find_last_cons, IH by assumption. destruct (written (snd nv)); [reflexivity|].
    rewrite prop_key. replace (beqs (fst a) (fst nv)) with false; [reflexivity|]. symmetry.
    destruct (beqs (fst a) (fst nv)) eqn:E; [|reflexivity]. apply beqs_eq in E.
    exfalso. apply (existsb_false_in _ _ Ha (fst nv)); [apply in_map, Hi|exact E].
Qed.

Lemma all_ok_map {A B} (f : A -> rtres B) (g : A -> B) l : (forall x, In x l -> f x = RtOk (g x)) -> all_ok f l = RtOk (map g l).
Proof.
  induction l as [|x l IH]; intro H; [reflexivity|].
  cbn [all_ok map]. rewrite (H x (or_introl eq_refl)), IH by (intros y Hy; apply H; right; exact Hy). reflexivity.
Qed.
Lemma read_back_scalar v : scalar_ok v = true -> written v = true -> read_back v (snd (prop_of [] v)) = RtOk (norm_scalar v).
Proof. destruct v; try discriminate; reflexivity. Qed.

(* the flat object round trip: every field of a flat object in the domain [flat_ok] is read back as written *)
Theorem flat_round_trip fs : flat_ok (JO fs) = true ->
  exists t, round_trip (JO fs) = Some (t, RtOk (JO (map (fun nv => (fst nv, norm_scalar (snd nv))) fs))).
Proof.
  unfold flat_ok. intro H. apply andb_prop in H as [Hok Hd].
  assert (Hok' : forallb field_ok fs = true) by exact Hok.
  unfold round_trip. rewrite to_json_flat by exact Hok'. eexists. f_equal. f_equal.
  cbn [read_back]. rewrite parse_written by exact Hok'.
  rewrite (all_ok_map _ (fun nv => (fst nv, norm_scalar (snd nv)))); [reflexivity|].
  intros nv Hi. rewrite find_last_field by assumption.
  pose proof (proj1 (forallb_forall _ _) Hok' nv Hi) as Hf. unfold field_ok in Hf. apply andb_prop in Hf as [_ Hv].
  destruct (written (snd nv)) eqn:Ew.
  - unfold prop_of'. replace (snd (prop_of (fst nv) (snd nv))) with (snd (prop_of [] (snd nv))) by (destruct (snd nv); reflexivity).
    rewrite read_back_scalar by assumption. reflexivity.
  - destruct (snd nv); try discriminate. reflexivity.
Qed.

(* ---------- witnesses ---------- *)
(* C19-F1: a printable non-ASCII string (e-acute) is written but not read back: the scanner reads one byte at a time *)
Definition f1_value : jv := JO [([97], JS [195; 169])].
Lemma F1_witness : exists t, round_trip f1_value = Some (t, RtErr).
Proof. eexists. vm_compute. reflexivity. Qed.
Lemma F1_array_witness : exists t, round_trip (JAS [[195; 169]]) = Some (t, RtErr).
Proof. eexists. vm_compute. reflexivity. Qed.

(* the hypotheses of the flat theorem are met by an object with every scalar kind, both integer extremes and a null field *)
Definition flat_example : jv :=
  JO [([97], JS [104; 105; 32; 123; 91; 44; 58]); ([98], JB true); ([99], JI true (2 ^ 127)); ([100], JI false (2 ^ 127 - 1)); ([101], JF [49; 46; 48] [49]);
      ([102], JNull); ([103], JF [45; 50; 46; 53; 101; 45; 55] [48]); ([104], JB false); ([105], JI false 0); ([106], JS [])].
Lemma flat_example_ok : flat_ok flat_example = true.
Proof. vm_compute. reflexivity. Qed.

(* nested values, by evaluation: brackets, braces, commas and colons inside strings at depth (the string-aware balanced reader) *)
Definition nested_example : jv :=
  JO [([97], JO [([98], JS [125; 93; 123; 91; 44; 58]); ([99], JAS [[93; 91]; [125]; []]); ([100], JO [([101], JI true 5)])]);
      ([102], JAO [JO [([103], JS [125; 125]); ([104], JF [48; 46; 53] [48; 46; 53])]; JO [([103], JS [123]); ([104], JF [49; 101; 49; 54] [49; 48])]]);
      ([105], JAI I8 [(true, 128); (false, 127)]); ([106], JAF [([48; 46; 48], [48]); ([49; 46; 48], [49])]); ([107], JAB [true; false]); ([108], JAN 2)].
Definition nested_expected : jv :=
  JO [([97], JO [([98], JS [125; 93; 123; 91; 44; 58]); ([99], JAS [[93; 91]; [125]; []]); ([100], JO [([101], JI true 5)])]);
      ([102], JAO [JO [([103], JS [125; 125]); ([104], JF [48; 46; 53] [48; 46; 53])]; JO [([103], JS [123]); ([104], JF [49; 101; 49; 54] [49; 101; 49; 54])]]);
      ([105], JAI I8 [(true, 128); (false, 127)]); ([106], JAF [([48; 46; 48], [48; 46; 48]); ([49], [49])]); ([107], JAB [true; false]); ([108], JAN 2)].
Lemma nested_example_round_trips : exists t, round_trip nested_example = Some (t, RtOk nested_expected).
Proof. eexists. vm_compute. reflexivity. Qed.
