(* C19 — the JSON round trip: what is written is read back *)
From Coq Require Import Arith.
From Rws Require Import Str Utf8 Num RespParse Json JsonArray Server JsonRt StrLemmas TrimLemmas Utf8Lemmas C05Proof C19Lemmas.
Open Scope N_scope.

Definition written (v : jv) : bool := match v with JNull => false | _ => true end.
Definition vtext (v : jv) : list N := match to_json v with Some t => t | None => [] end.
(* the property the scanner must return for a written scalar field *)
Definition prop_of (n : list N) (v : jv) : list N * jty * jval :=
  match v with
  | JS s => (n, TString, VStr s) | JB b => (n, TBool, VBool b) | JI ng m => (n, TInt, VInt ng m) | JF d _ => (n, TFloat, VFloat d)
  | _ => (n, TString, VNull)
  end.

(* ---------- the key ---------- *)
Lemma read_key_written first name c rest : name_ok name = true -> N.leb 128 c = false -> is_ws_ctl c = false ->
  read_key first (KEY_LEAD ++ name ++ 34 :: 58 :: 32 :: c :: rest) = KOk (KEY_LEAD ++ name ++ [34] ++ [58]) c rest.
Proof.
  intros Hn H1 H2. destruct (name_facts name Hn) as (Hne & H34 & H58 & Ha & Hs).
  unfold read_key.
  change (read_until QUOTE (KEY_LEAD ++ name ++ 34 :: 58 :: 32 :: c :: rest)) with (KEY_LEAD, name ++ 34 :: 58 :: 32 :: c :: rest).
  cbv iota. change (utf8_valid KEY_LEAD) with true. change (filter_ascii_control KEY_LEAD) with [34]. change (beqs [34] [125]) with false.
  rewrite andb_false_r. change (beqs [34] [QUOTE]) with true. cbn [negb]. unfold QUOTE.
  rewrite read_until_found by assumption. cbv iota.
  rewrite ascii_utf8 by (unfold is_ascii in *; rewrite forallb_app, Ha; reflexivity). cbn [negb].
  change (skip_ws (58 :: 32 :: c :: rest)) with (@JOk (N * list N) (58, 32 :: c :: rest)). cbv iota. change (negb (58 =? 58)) with false. cbv iota.
  rewrite skip_ws_sp by assumption. rewrite <- !app_assoc. reflexivity.
Qed.

(* ---------- the value ---------- *)
Lemma digits_num_chars r : forallb is_digit r = true -> forallb num_char r = true.
Proof. intro H. apply forallb_forall. intros c Hi. unfold num_char. replace (is_ascii_digit c) with true; [reflexivity|]. symmetry. exact (proj1 (forallb_forall _ _) H c Hi). Qed.
Lemma show_int_shape ng m : exists c body, show_int ng m = c :: body /\ numstart c = true /\ forallb num_char body = true.
Proof.
  destruct (show_N_head m) as (c & r & E & Hc & Hr). unfold show_int. destruct ng.
  - exists 45, (show_N m). repeat split. apply digits_num_chars, show_N_digits.
  - exists c, r. repeat split; [exact E| |apply digits_num_chars, Hr]. unfold numstart. change (is_ascii_digit c) with (is_digit c). rewrite Hc. reflexivity.
Qed.
Lemma dbg_shape d : dbg_ok d = true -> exists c body, d = c :: body /\ numstart c = true /\ forallb num_char body = true /\ f64_ok d = true /\ parse_i128 d = None.
Proof.
  unfold dbg_ok. intro H. apply andb_prop in H as [H H4]. apply andb_prop in H as [H H3]. apply andb_prop in H as [H1 H2].
  destruct d as [|c body]; [discriminate|]. exists c, body. cbn [forallb] in H2. apply andb_prop in H2 as [_ H2].
  repeat split; auto. destruct (parse_i128 (c :: body)); [discriminate|reflexivity].
Qed.

Lemma rv_number kv1 c body : numstart c = true -> forallb num_char body = true ->
  (forall X, read_value kv1 c (body ++ 44 :: X) = JOk (kv1 ++ c :: body, X, false)) /\
  read_value kv1 c (body ++ [13; 10; 125]) = JOk (kv1 ++ c :: body, [], true).
Proof.
  intros Hc Hb. destruct (numstart_facts c Hc) as (E1 & E2 & E3 & E4 & E5 & E6). unfold numstart in Hc.
  split; [intro X|]; unfold read_value, QUOTE; rewrite E1, E2, E3, E4, E5, E6, Hc.
  - rewrite read_number_comma by assumption. reflexivity.
  - rewrite read_number_close by assumption. reflexivity.
Qed.
Lemma rv_string kv1 s : str_ok s = true ->
  (forall X, read_value kv1 34 ((s ++ [34]) ++ 44 :: X) = JOk (kv1 ++ 34 :: s ++ [34], X, match X with [] => true | _ => false end)) /\
  read_value kv1 34 ((s ++ [34]) ++ [13; 10; 125]) = JOk (kv1 ++ 34 :: s ++ [34], [], true).
Proof.
  intro Hs. split; [intro X|]; unfold read_value; change (34 =? QUOTE) with true; cbv iota; rewrite <- app_assoc; cbn [app];
    rewrite read_string_ok by (auto; discriminate); cbn [app].
  - rewrite tail_comma. reflexivity.
  - rewrite tail_close. reflexivity.
Qed.
Lemma rv_bool kv1 (b : bool) : let t := if b then TRUE_S else FALSE_S in
  (forall X, read_value kv1 (hd 0 t) (tl t ++ 44 :: X) = JOk (kv1 ++ t, X, match X with [] => true | _ => false end)) /\
  read_value kv1 (hd 0 t) (tl t ++ [13; 10; 125]) = JOk (kv1 ++ t, [], true).
Proof. destruct b; cbv zeta; split; try intro X; reflexivity. Qed.

(* ---------- one written scalar field, end to end ---------- *)
Lemma num_chars_solid t : forallb num_char t = true -> forallb solid t = true.
Proof. intro H. apply forallb_forall. intros c Hi. apply num_char_facts. exact (proj1 (forallb_forall _ _) H c Hi). Qed.
Lemma numstart_num_char c : numstart c = true -> num_char c = true.
Proof. unfold numstart, num_char. intro H. apply orb_prop in H as [H|H]; rewrite H; rewrite ?orb_true_r; reflexivity. Qed.
Lemma numstart_sig c : numstart c = true -> N.leb 128 c = false /\ is_ws_ctl c = false.
Proof.
  intro H. assert (Hc : (48 <= c <= 57) \/ c = 45).
  { unfold numstart in H. apply orb_prop in H as [H|H]; [|apply N.eqb_eq in H; auto]. unfold is_ascii_digit in H. apply andb_prop in H as [H1 H2]. apply N.leb_le in H1, H2. auto. }
  split; [apply N.leb_gt; lia|]. unfold is_ws_ctl, is_ascii_control.
  repeat apply orb_false_intro; try (apply N.eqb_neq; lia). apply N.ltb_ge. lia.
Qed.

Lemma pp_number name c body : name_ok name = true -> numstart c = true -> forallb num_char body = true ->
  property_parse (KEY_LEAD ++ name ++ [34] ++ [58] ++ c :: body) = property_value name (c :: body).
Proof.
  intros Hn Hc Hb.
  assert (Hall : forallb solid (c :: body) = true) by (apply num_chars_solid; cbn [forallb]; rewrite numstart_num_char, Hb by assumption; reflexivity).
  destruct (exists_last (l := c :: body) ltac:(discriminate)) as (b' & y & E).
  apply (property_parse_written name (c :: body) b' y); auto.
  - rewrite E in Hall. rewrite forallb_app in Hall. apply andb_prop in Hall as [_ H]. cbn [forallb] in H. rewrite andb_true_r in H. exact H.
  - apply trim_all_solid, Hall.
Qed.

Definition field_facts (v : jv) (c : N) (body : list N) : Prop :=
  vtext v = c :: body /\ N.leb 128 c = false /\ is_ws_ctl c = false /\
  (forall kv1 X, X <> [] -> read_value kv1 c (body ++ 44 :: X) = JOk (kv1 ++ vtext v, X, false)) /\
  (forall kv1, read_value kv1 c (body ++ [13; 10; 125]) = JOk (kv1 ++ vtext v, [], true)) /\
  (forall name, name_ok name = true -> property_parse (KEY_LEAD ++ name ++ [34] ++ [58] ++ vtext v) = JOk (prop_of name v)).

Lemma i128_bound : 2 ^ 127 < 10 ^ 39.
Proof. vm_compute. reflexivity. Qed.

Theorem written_field v : scalar_ok v = true -> written v = true -> exists c body, field_facts v c body.
Proof.
  intros Hv Hw. destruct v as [s|b|ng m|d p| |fs|w xs|xs|xs|xs|n|xs]; try discriminate.
  - (* string *)
    exists 34, (s ++ [34]). cbn [scalar_ok] in Hv. destruct (rv_string [] s Hv) as [_ _].
    assert (H34 : ~ In 34 s). { intro Hi. pose proof (proj1 (forallb_forall _ _) Hv 34 Hi) as H. discriminate. }
    unfold field_facts. change (vtext (JS s)) with (34 :: s ++ [34]). repeat split; try reflexivity.
    + intros kv1 X HX. destruct (rv_string kv1 s Hv) as [H _]. rewrite H. destruct X; [contradiction|reflexivity].
    + intro kv1. destruct (rv_string kv1 s Hv) as [_ H]. exact H.
    + intros name Hn. change (34 :: s ++ [34]) with ((34 :: s) ++ [34]).
      rewrite (property_parse_written name ((34 :: s) ++ [34]) (34 :: s) 34) by (auto; apply (trim_solid_both 34 s 34); reflexivity).
      apply pv_string, H34.
  - (* boolean *)
    destruct b.
    + exists 116, [114; 117; 101]. unfold field_facts. change (vtext (JB true)) with TRUE_S. repeat split; try reflexivity.
      * intros kv1 X HX. destruct X; [contradiction|reflexivity].
      * intros name Hn. rewrite (property_parse_written name TRUE_S [116; 114; 117] 101) by (auto; reflexivity). reflexivity.
    + exists 102, [97; 108; 115; 101]. unfold field_facts. change (vtext (JB false)) with FALSE_S. repeat split; try reflexivity.
      * intros kv1 X HX. destruct X; [contradiction|reflexivity].
      * intros name Hn. rewrite (property_parse_written name FALSE_S [102; 97; 108; 115] 101) by (auto; reflexivity). reflexivity.
  - (* integer *)
    cbn [scalar_ok] in Hv. destruct (show_int_shape ng m) as (c & body & E & Hc & Hb). exists c, body.
    destruct (numstart_sig c Hc) as [S1 S2]. destruct (rv_number [] c body Hc Hb) as [_ _].
    unfold field_facts. change (vtext (JI ng m)) with (show_int ng m). rewrite E. repeat split; auto.
    + intros kv1 X _. destruct (rv_number kv1 c body Hc Hb) as [H _]. apply H.
    + intro kv1. destruct (rv_number kv1 c body Hc Hb) as [_ H]. exact H.
    + intros name Hn. rewrite pp_number by assumption. rewrite pv_number by exact Hc. rewrite <- E.
      unfold parse_i128. rewrite parse_signed_show by (auto; exact i128_bound). reflexivity.
  - (* float *)
    cbn [scalar_ok] in Hv. destruct (dbg_shape d Hv) as (c & body & E & Hc & Hb & Hf & Hi). exists c, body.
    destruct (numstart_sig c Hc) as [S1 S2].
    unfold field_facts. change (vtext (JF d p)) with d. rewrite E. repeat split; auto.
    + intros kv1 X _. destruct (rv_number kv1 c body Hc Hb) as [H _]. apply H.
    + intro kv1. destruct (rv_number kv1 c body Hc Hb) as [_ H]. exact H.
    + intros name Hn. rewrite pp_number by assumption. rewrite pv_number by exact Hc. rewrite <- E, Hi, Hf. reflexivity.
Qed.

(* ---------- the scanner loop on a written object ---------- *)
Definition line (nv : list N * jv) : list N := prop_line (fst nv) (vtext (snd nv)).
Definition prop_of' (nv : list N * jv) := prop_of (fst nv) (snd nv).
Definition field_ok (nv : list N * jv) : bool := name_ok (fst nv) && scalar_ok (snd nv).
(* what follows the opening brace, for a non-empty list of property lines *)
Fixpoint tail_text (ls : list (list N)) : list N :=
  match ls with
  | [] => []
  | p :: ps => match ps with [] => CRLF ++ p ++ CRLF ++ [125] | _ => CRLF ++ p ++ [44] ++ tail_text ps end
  end.
Lemma join_cons sep p q ps : join sep (p :: q :: ps) = p ++ sep ++ join sep (q :: ps).
Proof. reflexivity. Qed.
Lemma tail_text_cons p q ps : tail_text (p :: q :: ps) = CRLF ++ p ++ [44] ++ tail_text (q :: ps).
Proof. reflexivity. Qed.
Lemma obj_text_tail ls : ls <> [] -> obj_text ls = 123 :: tail_text ls.
Proof.
  intro H. unfold obj_text. cbn [app]. f_equal.
  induction ls as [|p ps IH]; [contradiction|]. destruct ps as [|q ps].
  - reflexivity.
  - rewrite join_cons, tail_text_cons. rewrite <- IH by discriminate. unfold CRLF. rewrite <- !app_assoc. reflexivity.
Qed.
Lemma tail_text_nonempty ls : ls <> [] -> tail_text ls <> [].
Proof. destruct ls as [|p [|q ps]]; [contradiction| |]; intros _; cbn [tail_text CRLF app]; discriminate. Qed.
Lemma tail_text_length ls : (length ls <= length (tail_text ls))%nat.
Proof.
  induction ls as [|p ps IH]; [cbn; lia|]. destruct ps as [|q ps].
  - cbn [tail_text CRLF app length]. lia.
  - rewrite tail_text_cons, !app_length. cbn [length] in *. lia.
Qed.

Lemma line_shape name v c body : vtext v = c :: body -> forall tl0, CRLF ++ prop_line name (vtext v) ++ tl0 = KEY_LEAD ++ name ++ 34 :: 58 :: 32 :: c :: (body ++ tl0).
Proof. intros E tl0. rewrite E. unfold prop_line, CRLF, KEY_LEAD, QUOTE. rewrite <- !app_assoc. reflexivity. Qed.

Theorem scanner_reads_written : forall fs, fs <> [] -> forallb field_ok fs = true -> forallb (fun nv => written (snd nv)) fs = true ->
  forall f acc, (length fs <= f)%nat -> props_loop f (tail_text (map line fs)) acc = JOk (acc ++ map prop_of' fs).
Proof.
  induction fs as [|[name v] fs IH]; intros Hne Hok Hw f acc Hf; [contradiction|].
  cbn [forallb] in Hok, Hw. apply andb_prop in Hok as [Hnv Hok]. apply andb_prop in Hw as [Hwv Hw].
  unfold field_ok in Hnv. cbn [fst snd] in Hnv, Hwv. apply andb_prop in Hnv as [Hn Hv].
  destruct (written_field v Hv Hwv) as (c & body & E & S1 & S2 & Rmid & Rlast & PP).
  destruct f as [|f]; [cbn [length] in Hf; lia|].
  destruct fs as [|nv2 fs].
  - (* the last property *)
    cbn [map tail_text]. unfold line at 1. cbn [fst snd]. rewrite (line_shape name v c body E).
    cbn [props_loop]. rewrite read_key_written by assumption. rewrite Rlast.
    replace ((KEY_LEAD ++ name ++ [34] ++ [58]) ++ vtext v) with (KEY_LEAD ++ name ++ [34] ++ [58] ++ vtext v) by (rewrite <- !app_assoc; reflexivity).
    rewrite PP by assumption. reflexivity.
  - cbn [map]. rewrite tail_text_cons. unfold line at 1. cbn [fst snd].
    change (CRLF ++ prop_line name (vtext v) ++ [44] ++ tail_text (line nv2 :: map line fs))
      with (CRLF ++ prop_line name (vtext v) ++ 44 :: tail_text (map line (nv2 :: fs))).
    rewrite (line_shape name v c body E).
    cbn [props_loop]. rewrite read_key_written by assumption. rewrite Rmid by (apply tail_text_nonempty; discriminate).
    replace ((KEY_LEAD ++ name ++ [34] ++ [58]) ++ vtext v) with (KEY_LEAD ++ name ++ [34] ++ [58] ++ vtext v) by (rewrite <- !app_assoc; reflexivity).
    rewrite PP by assumption.
    rewrite IH by (auto; try discriminate; cbn [length] in *; lia).
    rewrite <- app_assoc. reflexivity.
Qed.

(* ---------- writer, scanner and typed read-back composed ---------- *)
Definition wfs (fs : list (list N * jv)) := filter (fun nv => written (snd nv)) fs.
Lemma to_json_scalar v : scalar_ok v = true -> to_json v = if written v then Some (vtext v) else None.
Proof. destruct v; try discriminate; reflexivity. Qed.
Lemma to_json_flat fs : forallb field_ok fs = true -> to_json (JO fs) = Some (obj_text (map line (wfs fs))).
Proof.
  intro H. cbn [to_json]. f_equal. f_equal.
  induction fs as [|[n v] fs IH]; [reflexivity|].
  cbn [forallb] in H. apply andb_prop in H as [Hnv H]. unfold field_ok in Hnv. cbn [fst snd] in Hnv. apply andb_prop in Hnv as [_ Hv].
  cbn [flat_map wfs filter fst snd]. rewrite (to_json_scalar v Hv). destruct (written v) eqn:Ew.
  - cbn [app map]. unfold line at 1. cbn [fst snd]. f_equal. apply IH, H.
  - cbn [app]. apply IH, H.
Qed.

Lemma parse_obj_text ls : ls <> [] -> parse_as_properties (obj_text ls) = props_loop (S (length (obj_text ls))) (tail_text ls) [].
Proof. intro H. rewrite obj_text_tail by assumption. reflexivity. Qed.

Theorem parse_written fs : forallb field_ok fs = true -> parse_as_properties (obj_text (map line (wfs fs))) = JOk (map prop_of' (wfs fs)).
Proof.
  intro H. destruct (wfs fs) as [|nv ws] eqn:E; [vm_compute; reflexivity|].
  rewrite parse_obj_text by (cbn [map]; discriminate). rewrite <- E.
  rewrite scanner_reads_written; [reflexivity| | | |].
  - rewrite E. discriminate.
  - unfold wfs. apply forallb_forall. intros x Hx. apply filter_In in Hx as [Hx _]. exact (proj1 (forallb_forall _ _) H x Hx).
  - unfold wfs. apply forallb_forall. intros x Hx. apply filter_In in Hx as [_ Hx]. exact Hx.
  - rewrite obj_text_tail by (rewrite E; cbn [map]; discriminate). cbn [length]. pose proof (tail_text_length (map line (wfs fs))) as Hl. rewrite map_length in Hl. lia.
Qed.

Lemma find_last_acc k : forall ps acc, fold_left (fun acc p => if beqs (fst (fst p)) k then Some (snd p) else acc) ps acc =
  match find_last k ps with Some x => Some x | None => acc end.
Proof.
  unfold find_last. induction ps as [|p ps IH]; intro acc; [reflexivity|].
  cbn [fold_left]. rewrite IH. rewrite (IH (if beqs (fst (fst p)) k then Some (snd p) else None)).
  destruct (fold_left _ ps None); [reflexivity|]. destruct (beqs (fst (fst p)) k); reflexivity.
Qed.
Lemma find_last_cons k (p : list N * jty * jval) ps : find_last k (p :: ps) =
  match find_last k ps with Some x => Some x | None => if beqs (fst (fst p)) k then Some (snd p) else None end.
Proof. unfold find_last at 1. cbn [fold_left]. apply find_last_acc. Qed.
Lemma prop_key nv : fst (fst (prop_of' nv)) = fst nv.
Proof. destruct nv as [n v]. unfold prop_of'. cbn [fst snd]. destruct v; reflexivity. Qed.
Lemma find_last_absent k fs : existsb (beqs k) (map fst fs) = false -> find_last k (map prop_of' (wfs fs)) = None.
Proof.
  induction fs as [|a fs IH]; intro H; [reflexivity|].
  cbn [map existsb] in H. apply orb_false_elim in H as [Ha H].
  cbn [wfs filter]. destruct (written (snd a)); [|apply IH, H].
  cbn [map]. rewrite find_last_cons. fold (wfs fs). rewrite IH by exact H. rewrite prop_key.
  replace (beqs (fst a) k) with false; [reflexivity|]. symmetry. destruct (beqs (fst a) k) eqn:E; [|reflexivity].
  apply beqs_eq in E. subst k. rewrite (proj2 (beqs_eq _ _) eq_refl) in Ha. discriminate.
Qed.
Lemma existsb_false_in x r : existsb (beqs x) r = false -> forall y, In y r -> x <> y.
Proof. intros H y Hy E. subst y. assert (existsb (beqs x) r = true); [|congruence]. apply existsb_exists. exists x. split; [assumption|]. apply beqs_eq. reflexivity. Qed.
Lemma find_last_field fs : distinct (map fst fs) = true -> forall nv, In nv fs ->
  find_last (fst nv) (map prop_of' (wfs fs)) = if written (snd nv) then Some (snd (prop_of' nv)) else None.
Proof.
  induction fs as [|a fs IH]; intros Hd nv Hi; [contradiction|].
  cbn [map distinct] in Hd. apply andb_prop in Hd as [Ha Hd]. apply negb_true_iff in Ha.
  destruct Hi as [->|Hi].
  - cbn [wfs filter]. fold (wfs fs). destruct (written (snd nv)).
    + cbn [map]. rewrite find_last_cons, find_last_absent by exact Ha. rewrite prop_key, (proj2 (beqs_eq _ _) eq_refl). reflexivity.
    + apply find_last_absent, Ha.
  - cbn [wfs filter]. fold (wfs fs). destruct (written (snd a)); [|apply IH; assumption].
    cbn [map]. rewrite find_last_cons, IH by assumption. destruct (written (snd nv)); [reflexivity|].
    rewrite prop_key. replace (beqs (fst a) (fst nv)) with false; [reflexivity|]. symmetry.
    destruct (beqs (fst a) (fst nv)) eqn:E; [|reflexivity]. apply beqs_eq in E.
    exfalso. apply (existsb_false_in _ _ Ha (fst nv)); [apply in_map, Hi|exact E].
Qed.

Lemma all_ok_map {A B} (f : A -> rtres B) (g : A -> B) l : (forall x, In x l -> f x = RtOk (g x)) -> all_ok f l = RtOk (map g l).
Proof.
  induction l as [|x l IH]; intro H; [reflexivity|].
  cbn [all_ok map]. rewrite (H x (or_introl eq_refl)), IH by (intros y Hy; apply H; right; exact Hy). reflexivity.
Qed.
Lemma read_back_scalar v : scalar_ok v = true -> written v = true -> read_back v (snd (prop_of [] v)) = RtOk (norm_scalar v).
Proof. destruct v; try discriminate; reflexivity. Qed.

(* the flat object round trip: every field of a flat object in the domain [flat_ok] is read back as written *)
Theorem flat_round_trip fs : flat_ok (JO fs) = true ->
  exists t, round_trip (JO fs) = Some (t, RtOk (JO (map (fun nv => (fst nv, norm_scalar (snd nv))) fs))).
Proof.
  unfold flat_ok. intro H. apply andb_prop in H as [Hok Hd].
  assert (Hok' : forallb field_ok fs = true) by exact Hok.
  unfold round_trip. rewrite to_json_flat by exact Hok'. eexists. f_equal. f_equal.
  cbn [read_back]. rewrite parse_written by exact Hok'.
  rewrite (all_ok_map _ (fun nv => (fst nv, norm_scalar (snd nv)))); [reflexivity|].
  intros nv Hi. rewrite find_last_field by assumption.
  pose proof (proj1 (forallb_forall _ _) Hok' nv Hi) as Hf. unfold field_ok in Hf. apply andb_prop in Hf as [_ Hv].
  destruct (written (snd nv)) eqn:Ew.
  - unfold prop_of'. replace (snd (prop_of (fst nv) (snd nv))) with (snd (prop_of [] (snd nv))) by (destruct (snd nv); reflexivity).
    rewrite read_back_scalar by assumption. reflexivity.
  - destruct (snd nv); try discriminate. reflexivity.
Qed.

(* ---------- witnesses ---------- *)
(* C19-F1: a printable non-ASCII string (e-acute) is written but not read back: the scanner reads one byte at a time *)
Definition f1_value : jv := JO [([97], JS [195; 169])].
Lemma F1_witness : exists t, round_trip f1_value = Some (t, RtErr).
Proof. eexists. vm_compute. reflexivity. Qed.
Lemma F1_array_witness : exists t, round_trip (JAS [[195; 169]]) = Some (t, RtErr).
Proof. eexists. vm_compute. reflexivity. Qed.

(* the hypotheses of the flat theorem are met by an object with every scalar kind, both integer extremes and a null field *)
Definition flat_example : jv :=
  JO [([97], JS [104; 105; 32; 123; 91; 44; 58]); ([98], JB true); ([99], JI true (2 ^ 127)); ([100], JI false (2 ^ 127 - 1)); ([101], JF [49; 46; 48] [49]);
      ([102], JNull); ([103], JF [45; 50; 46; 53; 101; 45; 55] [48]); ([104], JB false); ([105], JI false 0); ([106], JS [])].
Lemma flat_example_ok : flat_ok flat_example = true.
Proof. vm_compute. reflexivity. Qed.

(* nested values, by evaluation: brackets, braces, commas and colons inside strings at depth (the string-aware balanced reader) *)
Definition nested_example : jv :=
  JO [([97], JO [([98], JS [125; 93; 123; 91; 44; 58]); ([99], JAS [[93; 91]; [125]; []]); ([100], JO [([101], JI true 5)])]);
      ([102], JAO [JO [([103], JS [125; 125]); ([104], JF [48; 46; 53] [48; 46; 53])]; JO [([103], JS [123]); ([104], JF [49; 101; 49; 54] [49; 48])]]);
      ([105], JAI I8 [(true, 128); (false, 127)]); ([106], JAF [([48; 46; 48], [48]); ([49; 46; 48], [49])]); ([107], JAB [true; false]); ([108], JAN 2)].
Definition nested_expected : jv :=
  JO [([97], JO [([98], JS [125; 93; 123; 91; 44; 58]); ([99], JAS [[93; 91]; [125]; []]); ([100], JO [([101], JI true 5)])]);
      ([102], JAO [JO [([103], JS [125; 125]); ([104], JF [48; 46; 53] [48; 46; 53])]; JO [([103], JS [123]); ([104], JF [49; 101; 49; 54] [49; 101; 49; 54])]]);
      ([105], JAI I8 [(true, 128); (false, 127)]); ([106], JAF [([48; 46; 48], [48; 46; 48]); ([49], [49])]); ([107], JAB [true; false]); ([108], JAN 2)].
Lemma nested_example_round_trips : exists t, round_trip nested_example = Some (t, RtOk nested_expected).
Proof. eexists. vm_compute. reflexivity. Qed.

(* ---------- typed arrays: integers of every width ---------- *)
Lemma digits_no_flags : forall body f tok pt ex mi rest c', forallb is_digit body = true -> (length body < f)%nat ->
  (c' = 44 \/ c' = 93) ->
  num_loop f (body ++ c' :: rest) tok pt ex mi = NOk (tok ++ body) c' rest false.
Proof.
  induction body as [|d body IH]; intros f tok pt ex mi rest c' Hd Hf Hc.
  - destruct f as [|f]; [cbn in Hf; lia|]. cbn [app num_loop]. rewrite app_nil_r.
    destruct Hc as [-> | ->]; reflexivity.
  - cbn [forallb] in Hd. apply andb_prop in Hd as [Hd0 Hd]. destruct f as [|f]; [cbn in Hf; lia|].
    assert (Hr : 48 <= d <= 57). { unfold is_digit in Hd0. apply andb_prop in Hd0 as [H1 H2]. apply N.leb_le in H1, H2. lia. }
    cbn [app num_loop].
    replace (N.leb 128 d) with false by (symmetry; apply N.leb_gt; lia).
    replace (N.eqb d 46) with false by (symmetry; apply N.eqb_neq; lia).
    replace (N.eqb d 101) with false by (symmetry; apply N.eqb_neq; lia).
    replace (N.eqb d 45) with false by (symmetry; apply N.eqb_neq; lia).
    replace (N.eqb d 32) with false by (symmetry; apply N.eqb_neq; lia).
    cbn [andb orb]. change (is_ascii_digit d) with (is_digit d). rewrite Hd0. cbn [orb].
    rewrite IH by (auto; cbn [length] in Hf; lia). rewrite <- app_assoc. reflexivity.
Qed.

(* a number token: optional minus, digits *)
Definition int_token (t : list N) : Prop := exists c body, t = c :: body /\ numstart c = true /\ forallb is_digit body = true.
Lemma show_int_token ng m : int_token (show_int ng m).
Proof.
  destruct (show_N_head m) as (c & r & E & Hc & Hr). unfold show_int. destruct ng.
  - exists 45, (show_N m). repeat split. apply show_N_digits.
  - exists c, r. repeat split; [exact E| |exact Hr]. unfold numstart. change (is_ascii_digit c) with (is_digit c). rewrite Hc. reflexivity.
Qed.

Lemma items_loop_number f t c' rest acc : int_token t -> (length t + length rest < f)%nat -> (c' = 44 \/ c' = 93) ->
  items_loop (S f) (t ++ c' :: rest) acc =
  if N.eqb c' 93 then (AOk (acc ++ [t]), rest) else items_loop f rest (acc ++ [t]).
Proof.
  intros (c & body & -> & Hc & Hb) Hf Hsep. destruct (numstart_facts c Hc) as (E1 & E2 & E3 & E4 & E5 & E6). destruct (numstart_sig c Hc) as [S1 S2].
  assert (Hr : (48 <= c <= 57) \/ c = 45).
  { unfold numstart in Hc. apply orb_prop in Hc as [H|H]; [|apply N.eqb_eq in H; auto]. unfold is_ascii_digit in H. apply andb_prop in H as [H1 H2]. apply N.leb_le in H1, H2. auto. }
  cbn [app items_loop]. rewrite S1.
  replace (N.eqb c 93) with false by (symmetry; apply N.eqb_neq; lia).
  replace (N.eqb c 32) with false by (symmetry; apply N.eqb_neq; lia).
  unfold QUOTE. rewrite E2, E1, E5, E6, E3, E4.
  replace (N.eqb c 44) with false by (symmetry; apply N.eqb_neq; lia).
  unfold numstart in Hc. rewrite Hc.
  rewrite digits_no_flags by (auto; rewrite app_length; cbn [length]; lia).
  cbn [app]. destruct Hsep as [-> | ->].
  - change (N.eqb 44 44) with true. cbn [negb andb orb]. change (N.eqb 44 93) with false. reflexivity.
  - change (N.eqb 93 44) with false. change (N.eqb 93 13) with false. change (N.eqb 93 10) with false. change (is_ascii_control 93) with false.
    cbn [negb andb orb]. change (N.eqb 93 93) with true. cbv iota.
    destruct (is_ascii_digit c); [reflexivity|]. cbn [orb] in Hc. rewrite Hc. reflexivity.
Qed.

Lemma join_cons2 (sep p q : list N) ps : join sep (p :: q :: ps) = p ++ sep ++ join sep (q :: ps).
Proof. reflexivity. Qed.

Theorem items_loop_tokens : forall toks acc f, toks <> [] -> Forall int_token toks -> (length (join [44%N] toks) + 1 < f)%nat ->
  items_loop f (join [44] toks ++ [93]) acc = (AOk (acc ++ toks), []).
Proof.
  induction toks as [|t toks IH]; intros acc f Hne Hall Hf; [contradiction|].
  inversion Hall as [|? ? Ht Hrest]; subst. destruct f as [|f]; [lia|].
  destruct toks as [|t2 toks].
  - cbn [join] in *. change (t ++ [93]) with (t ++ 93 :: []). rewrite items_loop_number by (auto; cbn [length]; lia). reflexivity.
  - rewrite join_cons2 in *. rewrite <- !app_assoc. change ([44] ++ join [44] (t2 :: toks) ++ [93]) with (44 :: (join [44] (t2 :: toks) ++ [93])).
    rewrite !app_length in Hf. cbn [length] in Hf.
    rewrite items_loop_number by (auto; rewrite app_length; cbn [length]; lia).
    change (N.eqb 44 93) with false. cbv iota. rewrite IH by (auto; try discriminate; lia). rewrite <- app_assoc. reflexivity.
Qed.

Lemma token_low t : int_token t -> forallb (fun x => N.ltb x 128) t = true.
Proof.
  intros (c & body & -> & Hc & Hb). cbn [forallb]. destruct (numstart_sig c Hc) as [S1 _].
  apply N.leb_gt in S1. replace (N.ltb c 128) with true by (symmetry; apply N.ltb_lt; lia). cbn [andb].
  apply forallb_forall. intros x Hx. pose proof (proj1 (forallb_forall _ _) Hb x Hx) as H. unfold is_digit in H. apply andb_prop in H as [_ H2]. apply N.leb_le in H2. apply N.ltb_lt. lia.
Qed.
Lemma join_low toks : Forall int_token toks -> forallb (fun x => N.ltb x 128) (join [44] toks) = true.
Proof.
  induction toks as [|t toks IH]; intro H; [reflexivity|]. inversion H as [|? ? Ht Hr]; subst. destruct toks as [|t2 toks].
  - cbn [join]. apply token_low, Ht.
  - rewrite join_cons2, !forallb_app, (token_low t Ht), (IH Hr). reflexivity.
Qed.
Lemma low_no_high s : forallb (fun x => N.ltb x 128) s = true -> existsb (fun x => N.leb 128 x) s = false.
Proof.
  induction s as [|c s IH]; intro H; [reflexivity|]. cbn [forallb] in H. apply andb_prop in H as [Hc H]. cbn [existsb]. rewrite IH by exact H.
  apply N.ltb_lt in Hc. replace (N.leb 128 c) with false by (symmetry; apply N.leb_gt; lia). reflexivity.
Qed.

(* the splitter on the text a typed integer writer produces: exactly the decimal tokens, in order *)
Theorem split_int_array toks : Forall int_token toks -> split_array (arr_text toks) = AOk toks.
Proof.
  intro Hall. destruct toks as [|t toks]; [vm_compute; reflexivity|].
  unfold arr_text, split_array. set (body := join [44] (t :: toks) ++ [93]).
  assert (Hlow : existsb (fun x => N.leb 128 x) ([91] ++ body) = false).
  { apply low_no_high. unfold body. rewrite !forallb_app, join_low by exact Hall. reflexivity. }
  rewrite Hlow. cbn [app open_bracket].
  assert (Hb : body <> []) by (unfold body; destruct (join [44] (t :: toks)); discriminate).
  destruct body as [|b0 body'] eqn:Eb; [contradiction|].
  change (N.leb 128 91) with false. change (negb (ws1 91) && negb (N.eqb 91 91)) with false. change (N.eqb 91 91) with true. cbv iota.
  rewrite <- Eb. unfold body. rewrite items_loop_tokens; [reflexivity|discriminate|exact Hall|rewrite app_length; cbn [length]; lia].
Qed.

(* every integer width: what is written is read back *)
Lemma parse_unsigned_show bound m : bound <= 10 ^ 39 -> m < bound -> parse_unsigned bound (show_N m) = Some m.
Proof.
  intros Hb Hm. unfold parse_unsigned. destruct (show_N_head m) as (c & r & E & Hc & Hr). destruct (digit_not_sign c Hc) as [_ H43].
  assert (Hlt : m < 10 ^ 80). { assert (10 ^ 39 < 10 ^ 80) by (apply N.pow_lt_mono_r; lia). lia. }
  pose proof (show_N_parses m Hlt) as Hp. rewrite E in *.
  assert (Hbody : match c :: r with 43 :: r0 => r0 | _ => c :: r end = c :: r).
  { destruct c as [|p]; [reflexivity|]. do 6 (try destruct p as [p|p|]); try reflexivity. contradiction. }
  rewrite Hbody, Hp. apply N.ltb_lt in Hm. rewrite Hm. reflexivity.
Qed.
Lemma read_int_written w x : width_ok w x = true -> read_int w (show_int (fst x) (snd x)) = RtOk x.
Proof.
  destruct x as [ng m]. cbn [fst snd]. intro H. unfold read_int, parse_int.
  assert (P : forall k, (k <= 128)%N -> 2 ^ k < 10 ^ 39). { intros k Hk. apply N.le_lt_trans with (2 ^ 128); [apply N.pow_le_mono_r; lia|vm_compute; reflexivity]. }
  destruct w; cbn [width_ok] in H;
    try (rewrite parse_signed_show by (auto; apply P; lia); reflexivity);
    (apply andb_prop in H as [Hn Hm]; apply negb_true_iff in Hn; subst ng; apply N.ltb_lt in Hm; unfold show_int;
     rewrite parse_unsigned_show by (auto; apply N.lt_le_incl, P; lia); reflexivity).
Qed.

Lemma all_ok_inv {A B} (f : B -> rtres A) (g : A -> B) l : (forall x, In x l -> f (g x) = RtOk x) -> all_ok f (map g l) = RtOk l.
Proof.
  induction l as [|x l IH]; intro H; [reflexivity|]. cbn [map all_ok]. rewrite (H x (or_introl eq_refl)), IH by (intros y Hy; apply H; right; exact Hy). reflexivity.
Qed.
Theorem int_array_round_trip w xs : forallb (width_ok w) xs = true ->
  exists t, round_trip (JAI w xs) = Some (t, RtOk (JAI w xs)).
Proof.
  intro H. unfold round_trip. cbn [to_json]. eexists. f_equal. f_equal. unfold typed_list.
  rewrite split_int_array by (apply Forall_forall; intros t Ht; apply in_map_iff in Ht as (x & <- & _); apply show_int_token).
  cbn [of_ares]. rewrite (all_ok_inv (read_int w) (fun x => show_int (fst x) (snd x))); [reflexivity|].
  intros x Hx. apply read_int_written. exact (proj1 (forallb_forall _ _) H x Hx).
Qed.

(* ---------- typed arrays of booleans, nulls and strings ---------- *)
(* a token the splitter consumes in one iteration, leaving the separator to the next one *)
Definition simple_token (t : list N) : Prop := forall f rest acc, items_loop (S f) (t ++ rest) acc = items_loop f rest (acc ++ [t]).
Lemma simple_true : simple_token TRUE_S. Proof. intros f rest acc. reflexivity. Qed.
Lemma simple_false : simple_token FALSE_S. Proof. intros f rest acc. reflexivity. Qed.
Lemma simple_null : simple_token NULL_S. Proof. intros f rest acc. reflexivity. Qed.
Lemma simple_string s : str_ok s = true -> simple_token (34 :: s ++ [34]).
Proof.
  intros Hs f rest acc. cbn [app items_loop]. change (N.leb 128 34) with false. change (N.eqb 34 93) with false. change (N.eqb 34 32) with false.
  change (N.eqb 34 QUOTE) with true. cbv iota. rewrite <- app_assoc. cbn [app]. rewrite read_string_ok by (auto; discriminate). reflexivity.
Qed.

Theorem items_loop_simple : forall toks acc f, toks <> [] -> Forall simple_token toks -> (2 * length toks < f)%nat ->
  items_loop f (join [44] toks ++ [93]) acc = (AOk (acc ++ toks), []).
Proof.
  induction toks as [|t toks IH]; intros acc f Hne Hall Hf; [contradiction|].
  inversion Hall as [|? ? Ht Hrest]; subst. cbn [length] in Hf. destruct f as [|[|f]]; [lia|lia|].
  destruct toks as [|t2 toks].
  - cbn [join]. rewrite Ht. reflexivity.
  - rewrite join_cons2. rewrite <- !app_assoc. rewrite Ht.
    change ([44] ++ join [44] (t2 :: toks) ++ [93]) with (44 :: (join [44] (t2 :: toks) ++ [93])).
    assert (E : forall r a, items_loop (S f) (44 :: r) a = items_loop f r a) by reflexivity.
    rewrite E. rewrite IH by (auto; try discriminate; cbn [length] in *; lia). rewrite <- app_assoc. reflexivity.
Qed.

Lemma split_simple_array toks : Forall simple_token toks -> Forall (fun t => t <> []) toks -> forallb (fun x => N.ltb x 128) (join [44] toks) = true -> split_array (arr_text toks) = AOk toks.
Proof.
  intros Hall Hne Hlow. destruct toks as [|t toks]; [vm_compute; reflexivity|].
  unfold arr_text, split_array. set (body := join [44] (t :: toks) ++ [93]).
  assert (Hl : existsb (fun x => N.leb 128 x) ([91] ++ body) = false).
  { apply low_no_high. unfold body. rewrite !forallb_app, Hlow. reflexivity. }
  rewrite Hl. cbn [app open_bracket].
  assert (Hb : body <> []) by (unfold body; destruct (join [44] (t :: toks)); discriminate).
  destruct body as [|b0 body'] eqn:Eb; [contradiction|].
  change (N.leb 128 91) with false. change (negb (ws1 91) && negb (N.eqb 91 91)) with false. change (N.eqb 91 91) with true. cbv iota.
  rewrite <- Eb. unfold body. rewrite items_loop_simple; [reflexivity|discriminate|exact Hall|].
  rewrite app_length. cbn [length].
  assert (G : forall l : list (list N), Forall (fun t => t <> []) l -> (2 * length l <= length (join [44%N] l) + 1)%nat).
  { clear. induction l as [|x l IHl]; intro H; [cbn; lia|]. inversion H as [|? ? Hx Hl]; subst.
    assert (1 <= length x)%nat by (destruct x; [contradiction|cbn; lia]). destruct l as [|y l]; [cbn [join length]; lia|].
    rewrite join_cons2, !app_length. cbn [length] in *. specialize (IHl Hl). lia. }
  specialize (G _ Hne). cbn [length] in *. lia.
Qed.

Lemma bool_tok_simple (b : bool) : simple_token (if b then TRUE_S else FALSE_S).
Proof. destruct b; [apply simple_true|apply simple_false]. Qed.
Theorem bool_array_round_trip xs : exists t, round_trip (JAB xs) = Some (t, RtOk (JAB xs)).
Proof.
  unfold round_trip. cbn [to_json]. eexists. f_equal. f_equal. unfold typed_list.
  rewrite split_simple_array.
  - cbn [of_ares]. rewrite (all_ok_inv read_bool (fun b : bool => if b then TRUE_S else FALSE_S)); [reflexivity|]. intros [|] _; reflexivity.
  - apply Forall_forall. intros t Ht. apply in_map_iff in Ht as (b & <- & _). apply bool_tok_simple.
  - apply Forall_forall. intros t Ht. apply in_map_iff in Ht as (b & <- & _). destruct b; discriminate.
  - induction xs as [|b xs IH]; [reflexivity|]. destruct xs as [|b2 xs]; [destruct b; reflexivity|].
    change (map (fun b0 : bool => if b0 then TRUE_S else FALSE_S) (b :: b2 :: xs)) with ((if b then TRUE_S else FALSE_S) :: map (fun b0 : bool => if b0 then TRUE_S else FALSE_S) (b2 :: xs)).
    cbn [map] in *. rewrite join_cons2, !forallb_app, IH. destruct b; reflexivity.
Qed.
Theorem null_array_round_trip n : exists t, round_trip (JAN n) = Some (t, RtOk (JAN n)).
Proof.
  unfold round_trip. cbn [to_json]. eexists. f_equal. f_equal. unfold typed_list.
  rewrite split_simple_array.
  - cbn [of_ares]. assert (G : forall k, all_ok read_null (repeat NULL_S k) = RtOk (repeat tt k)).
    { induction k as [|k IH]; [reflexivity|]. cbn [repeat all_ok]. rewrite IH. reflexivity. }
    rewrite G, repeat_length. reflexivity.
  - apply Forall_forall. intros t Ht. apply repeat_spec in Ht. subst. apply simple_null.
  - apply Forall_forall. intros t Ht. apply repeat_spec in Ht. subst. discriminate.
  - induction n as [|n IH]; [reflexivity|]. destruct n as [|n]; [reflexivity|].
    change (repeat NULL_S (S (S n))) with (NULL_S :: repeat NULL_S (S n)). cbn [repeat] in *. rewrite join_cons2, !forallb_app, IH. reflexivity.
Qed.

Lemma read_str_written s : str_ok s = true -> read_str (34 :: s ++ [34]) = RtOk s.
Proof.
  intro Hs. unfold read_str.
  assert (E : trim (34 :: s ++ [34]) = 34 :: s ++ [34]) by (apply (trim_solid_both 34 s 34); reflexivity).
  rewrite E. unfold QUOTE. change (N.eqb 34 34) with true. cbn [andb].
  change (34 :: s ++ [34]) with ((34 :: s) ++ [34]). rewrite ends1_last. cbn [app tl]. rewrite removelast_last. reflexivity.
Qed.
Lemma str_low s : str_ok s = true -> forallb (fun x => N.ltb x 128) s = true.
Proof. intro H. apply forallb_forall. intros c Hc. destruct (str_char_facts c (proj1 (forallb_forall _ _) H c Hc)) as (_ & _ & _ & _ & Hr). apply N.ltb_lt. lia. Qed.
Theorem string_array_round_trip xs : forallb str_ok xs = true -> exists t, round_trip (JAS xs) = Some (t, RtOk (JAS xs)).
Proof.
  intro H. unfold round_trip. cbn [to_json]. eexists. f_equal. f_equal. unfold typed_list.
  rewrite split_simple_array.
  - cbn [of_ares]. rewrite (all_ok_inv read_str (fun s => QUOTE :: s ++ [QUOTE])); [reflexivity|].
    intros s Hs. apply read_str_written. exact (proj1 (forallb_forall _ _) H s Hs).
  - apply Forall_forall. intros t Ht. apply in_map_iff in Ht as (s & <- & Hs). apply simple_string. exact (proj1 (forallb_forall _ _) H s Hs).
  - apply Forall_forall. intros t Ht. apply in_map_iff in Ht as (s & <- & _). discriminate.
  - induction xs as [|s xs IH]; [reflexivity|]. cbn [forallb] in H. apply andb_prop in H as [Hs H].
    assert (Ht : forallb (fun x => N.ltb x 128) (QUOTE :: s ++ [QUOTE]) = true) by (cbn [forallb]; rewrite forallb_app, (str_low s Hs); reflexivity).
    destruct xs as [|s2 xs]; [exact Ht|].
    change (map (fun s0 => QUOTE :: s0 ++ [QUOTE]) (s :: s2 :: xs)) with ((QUOTE :: s ++ [QUOTE]) :: map (fun s0 => QUOTE :: s0 ++ [QUOTE]) (s2 :: xs)).
    specialize (IH H). cbn [map] in *. rewrite join_cons2. rewrite (forallb_app _ (QUOTE :: s ++ [QUOTE])), Ht. rewrite forallb_app, IH. reflexivity.
Qed.

(* ---------- typed arrays of floats (the Display text: sign, digits, at most one point, no exponent) ---------- *)
Lemma num_loop_digits : forall ds f tok pt ex mi rest, forallb is_digit ds = true -> (length ds <= f)%nat ->
  num_loop f (ds ++ rest) tok pt ex mi = num_loop (f - length ds) rest (tok ++ ds) pt ex mi.
Proof.
  induction ds as [|d ds IH]; intros f tok pt ex mi rest Hd Hf.
  - cbn [app length]. rewrite Nat.sub_0_r, app_nil_r. reflexivity.
  - cbn [forallb] in Hd. apply andb_prop in Hd as [Hd0 Hd]. cbn [length] in Hf. destruct f as [|f]; [lia|].
    assert (Hr : 48 <= d <= 57). { unfold is_digit in Hd0. apply andb_prop in Hd0 as [H1 H2]. apply N.leb_le in H1, H2. lia. }
    cbn [app num_loop].
    replace (N.leb 128 d) with false by (symmetry; apply N.leb_gt; lia).
    replace (N.eqb d 46) with false by (symmetry; apply N.eqb_neq; lia).
    replace (N.eqb d 101) with false by (symmetry; apply N.eqb_neq; lia).
    replace (N.eqb d 45) with false by (symmetry; apply N.eqb_neq; lia).
    replace (N.eqb d 32) with false by (symmetry; apply N.eqb_neq; lia).
    cbn [andb orb]. change (is_ascii_digit d) with (is_digit d). rewrite Hd0. cbn [orb].
    rewrite !orb_false_r. rewrite IH by (auto; lia). cbn [length]. rewrite <- app_assoc. reflexivity.
Qed.
Lemma num_loop_point f tok ex mi rest : num_loop (S f) (46 :: rest) tok false ex mi = num_loop f rest (tok ++ [46]) true ex mi.
Proof. cbn [num_loop]. change (N.leb 128 46) with false. cbn. destruct ex; reflexivity. Qed.
Lemma num_loop_stop f tok pt ex mi c' rest : (c' = 44 \/ c' = 93) -> num_loop (S f) (c' :: rest) tok pt ex mi = NOk tok c' rest false.
Proof. intros [-> | ->]; cbn [num_loop]; destruct pt, ex, mi; reflexivity. Qed.

Definition float_token (t : list N) : Prop :=
  exists c ds1 ds2 (dot : bool), t = c :: ds1 ++ (if dot then 46 :: ds2 else []) /\ numstart c = true /\ forallb is_digit ds1 = true /\ forallb is_digit ds2 = true.
Lemma float_token_scan t c' rest f : float_token t -> (length t <= f)%nat -> (c' = 44 \/ c' = 93) ->
  match t with c :: body => num_loop f (body ++ c' :: rest) [c] false false (N.eqb c 45) = NOk t c' rest false | [] => True end.
Proof.
  intros (c & ds1 & ds2 & dot & -> & Hc & H1 & H2) Hf Hsep.
  rewrite <- app_assoc. rewrite num_loop_digits by (auto; cbn [length] in Hf; rewrite app_length in Hf; lia).
  cbn [length] in Hf. rewrite app_length in Hf.
  destruct dot.
  - cbn [app length] in *.
    destruct (f - length ds1)%nat as [|g] eqn:Eg; [lia|]. rewrite num_loop_point.
    rewrite num_loop_digits by (auto; lia).
    destruct (g - length ds2)%nat as [|h] eqn:Eh; [lia|]. rewrite num_loop_stop by exact Hsep.
    rewrite <- !app_assoc. reflexivity.
  - cbn [app length] in *. destruct (f - length ds1)%nat as [|g] eqn:Eg; [lia|]. rewrite num_loop_stop by exact Hsep.
    rewrite app_nil_r. reflexivity.
Qed.

(* any token the number scanner reads whole: used for the float arrays *)
Definition num_token (t : list N) : Prop :=
  exists c body, t = c :: body /\ numstart c = true /\
  forall f c' rest, (length t <= f)%nat -> (c' = 44 \/ c' = 93) -> num_loop f (body ++ c' :: rest) [c] false false (N.eqb c 45) = NOk t c' rest false.
Lemma float_num_token t : float_token t -> num_token t.
Proof.
  intro H. pose proof H as (c & ds1 & ds2 & dot & E & Hc & _). subst t. exists c, (ds1 ++ (if dot then 46 :: ds2 else [])). split; [reflexivity|]. split; [exact Hc|].
  intros f c' rest Hf Hs. exact (float_token_scan _ c' rest f H Hf Hs).
Qed.
Lemma items_loop_num f t c' rest acc : num_token t -> (length t + length rest < f)%nat -> (c' = 44 \/ c' = 93) ->
  items_loop (S f) (t ++ c' :: rest) acc =
  if N.eqb c' 93 then (AOk (acc ++ [t]), rest) else items_loop f rest (acc ++ [t]).
Proof.
  intros (c & body & -> & Hc & Hscan) Hf Hsep. destruct (numstart_facts c Hc) as (E1 & E2 & E3 & E4 & E5 & E6). destruct (numstart_sig c Hc) as [S1 S2].
  assert (Hr : (48 <= c <= 57) \/ c = 45).
  { unfold numstart in Hc. apply orb_prop in Hc as [H|H]; [|apply N.eqb_eq in H; auto]. unfold is_ascii_digit in H. apply andb_prop in H as [H1 H2]. apply N.leb_le in H1, H2. auto. }
  cbn [app items_loop]. rewrite S1.
  replace (N.eqb c 93) with false by (symmetry; apply N.eqb_neq; lia).
  replace (N.eqb c 32) with false by (symmetry; apply N.eqb_neq; lia).
  unfold QUOTE. rewrite E2, E1, E5, E6, E3, E4.
  replace (N.eqb c 44) with false by (symmetry; apply N.eqb_neq; lia).
  unfold numstart in Hc. rewrite Hc.
  rewrite Hscan by (auto; rewrite app_length; cbn [length] in *; lia).
  destruct Hsep as [-> | ->].
  - change (N.eqb 44 44) with true. cbn [negb andb orb]. change (N.eqb 44 93) with false. reflexivity.
  - change (N.eqb 93 44) with false. change (N.eqb 93 13) with false. change (N.eqb 93 10) with false. change (is_ascii_control 93) with false.
    cbn [negb andb orb]. change (N.eqb 93 93) with true. cbv iota.
    destruct (is_ascii_digit c); [reflexivity|]. cbn [orb] in Hc. rewrite Hc. reflexivity.
Qed.
Theorem items_loop_nums : forall toks acc f, toks <> [] -> Forall num_token toks -> (length (join [44%N] toks) + 1 < f)%nat ->
  items_loop f (join [44] toks ++ [93]) acc = (AOk (acc ++ toks), []).
Proof.
  induction toks as [|t toks IH]; intros acc f Hne Hall Hf; [contradiction|].
  inversion Hall as [|? ? Ht Hrest]; subst. destruct f as [|f]; [lia|].
  destruct toks as [|t2 toks].
  - cbn [join] in *. change (t ++ [93]) with (t ++ 93 :: []). rewrite items_loop_num by (auto; cbn [length]; lia). reflexivity.
  - rewrite join_cons2 in *. rewrite <- !app_assoc. change ([44] ++ join [44] (t2 :: toks) ++ [93]) with (44 :: (join [44] (t2 :: toks) ++ [93])).
    rewrite !app_length in Hf. cbn [length] in Hf.
    rewrite items_loop_num by (auto; rewrite app_length; cbn [length]; lia).
    change (N.eqb 44 93) with false. cbv iota. rewrite IH by (auto; try discriminate; lia). rewrite <- app_assoc. reflexivity.
Qed.

Lemma take_digits_spec : forall s ds r, take_digits s = (ds, r) -> s = ds ++ r /\ forallb is_digit ds = true.
Proof.
  induction s as [|c s IH]; intros ds r H; [cbn in H; inversion H; subst; auto|].
  cbn [take_digits] in H. destruct (is_ascii_digit c) eqn:E.
  - destruct (take_digits s) as [a b'] eqn:Et. inversion H; subst. destruct (IH a r eq_refl) as [-> Ha]. split; [reflexivity|]. cbn [forallb]. change (is_digit c) with (is_ascii_digit c). rewrite E, Ha. reflexivity.
  - inversion H; subst. auto.
Qed.
Lemma disp_float_token d : disp_ok d = true -> float_token d /\ f64_ok d = true.
Proof.
  destruct d as [|c body]; [discriminate|]. cbn [disp_ok]. intro H. apply andb_prop in H as [H Hf]. apply andb_prop in H as [Hc H]. split; [|exact Hf].
  destruct (take_digits body) as [ds1 r] eqn:Et. destruct (take_digits_spec _ _ _ Et) as [-> Hd].
  destruct r as [|x ds2].
  - exists c, ds1, [], false. repeat split; auto.
  - destruct (N.eqb_spec x 46) as [->|Hx].
    + exists c, ds1, ds2, true. repeat split; auto.
    + exfalso. destruct x as [|p]; [discriminate|]. do 6 (try destruct p as [p|p|]); try discriminate. contradiction.
Qed.
Lemma arr_float_ok d : disp_ok d = true -> disp_ok (arr_float d) = true.
Proof. intro H. unfold arr_float. destruct (beqs d [48] || beqs d [45; 48]); [reflexivity|exact H]. Qed.
Lemma float_token_low t : float_token t -> forallb (fun x => N.ltb x 128) t = true.
Proof.
  intros (c & ds1 & ds2 & dot & -> & Hc & H1 & H2). cbn [forallb]. destruct (numstart_sig c Hc) as [S1 _]. apply N.leb_gt in S1.
  replace (N.ltb c 128) with true by (symmetry; apply N.ltb_lt; lia). cbn [andb].
  assert (D : forall l, forallb is_digit l = true -> forallb (fun x => N.ltb x 128) l = true).
  { intros l Hl. apply forallb_forall. intros x Hx. pose proof (proj1 (forallb_forall _ _) Hl x Hx) as H. unfold is_digit in H. apply andb_prop in H as [_ H]. apply N.leb_le in H. apply N.ltb_lt. lia. }
  rewrite forallb_app, (D ds1 H1). destruct dot; [cbn [forallb]; rewrite (D ds2 H2); reflexivity|reflexivity].
Qed.

Lemma split_num_array toks : Forall num_token toks -> forallb (fun x => N.ltb x 128) (join [44] toks) = true -> split_array (arr_text toks) = AOk toks.
Proof.
  intros Hall Hlow. destruct toks as [|t toks]; [vm_compute; reflexivity|].
  unfold arr_text, split_array. set (body := join [44] (t :: toks) ++ [93]).
  assert (Hl : existsb (fun x => N.leb 128 x) ([91] ++ body) = false).
  { apply low_no_high. unfold body. rewrite !forallb_app, Hlow. reflexivity. }
  rewrite Hl. cbn [app open_bracket].
  assert (Hb : body <> []) by (unfold body; destruct (join [44] (t :: toks)); discriminate).
  destruct body as [|b0 body'] eqn:Eb; [contradiction|].
  change (N.leb 128 91) with false. change (negb (ws1 91) && negb (N.eqb 91 91)) with false. change (N.eqb 91 91) with true. cbv iota.
  rewrite <- Eb. unfold body. rewrite items_loop_nums; [reflexivity|discriminate|exact Hall|rewrite app_length; cbn [length]; lia].
Qed.

Theorem float_array_round_trip xs : forallb (fun x => disp_ok (snd x)) xs = true ->
  exists t, round_trip (JAF xs) = Some (t, RtOk (JAF (map (fun x => (arr_float (snd x), arr_float (snd x))) xs))).
Proof.
  intro H. unfold round_trip. cbn [to_json]. eexists. f_equal. f_equal. unfold typed_list.
  assert (Htok : forall x, In x xs -> float_token (arr_float (snd x)) /\ f64_ok (arr_float (snd x)) = true).
  { intros x Hx. apply disp_float_token, arr_float_ok. exact (proj1 (forallb_forall _ _) H x Hx). }
  rewrite split_num_array.
  - cbn [of_ares]. assert (G : forall l, (forall x, In x l -> f64_ok (arr_float (snd x)) = true) ->
      all_ok read_float (map (fun x : list N * list N => arr_float (snd x)) l) = RtOk (map (fun x => (arr_float (snd x), arr_float (snd x))) l)).
    { induction l as [|x l IHl]; intro Hl; [reflexivity|]. cbn [map all_ok]. unfold read_float at 1. rewrite (Hl x (or_introl eq_refl)).
      rewrite IHl by (intros y Hy; apply Hl; right; exact Hy). reflexivity. }
    rewrite G by (intros x Hx; apply (Htok x Hx)). reflexivity.
  - apply Forall_forall. intros t Ht. apply in_map_iff in Ht as (x & <- & Hx). apply float_num_token, (Htok x Hx).
  - clear H. induction xs as [|x xs IH]; [reflexivity|].
    assert (Hx : forallb (fun y => N.ltb y 128) (arr_float (snd x)) = true) by (apply float_token_low, (Htok x (or_introl eq_refl))).
    destruct xs as [|x2 xs]; [exact Hx|].
    specialize (IH (fun y Hy => Htok y (or_intror Hy))). cbn [map] in *. rewrite join_cons2. rewrite (forallb_app _ (arr_float (snd x))), Hx. rewrite forallb_app, IH. reflexivity.
Qed.
