(* Sealed finite sweeps over the 256 byte values: a boolean predicate checked by vm_compute
   on the enumeration is lifted to every byte (N below 256).  The enumeration is opaque so
   that Qed never re-normalises it. *)
From Coq Require Import NArith List Bool Lia.
Import ListNotations.
Open Scope N_scope.
Definition bytes256 : list N := map N.of_nat (seq 0 256).
Lemma in_bytes256 b : b < 256 -> In b bytes256.
Proof. intro H. unfold bytes256. apply in_map_iff. exists (N.to_nat b). split; [lia|]. apply in_seq. lia. Qed.
Lemma sweep1 (P : N -> bool) : forallb P bytes256 = true -> forall a, a < 256 -> P a = true.
Proof. intros H a Ha. rewrite forallb_forall in H. apply H, in_bytes256, Ha. Qed.
Lemma sweep2 (P : N -> N -> bool) :
  forallb (fun a => forallb (P a) bytes256) bytes256 = true -> forall a b, a < 256 -> b < 256 -> P a b = true.
Proof. intros H a b Ha Hb. pose proof (sweep1 _ H a Ha) as H1. cbv beta in H1. exact (sweep1 _ H1 b Hb). Qed.
(* sweeps over the 64 sextets *)
Definition sext64 : list N := map N.of_nat (seq 0 64).
Lemma in_sext64 b : b < 64 -> In b sext64.
Proof. intro H. unfold sext64. apply in_map_iff. exists (N.to_nat b). split; [lia|]. apply in_seq. lia. Qed.
Lemma sweep64_1 (P : N -> bool) : forallb P sext64 = true -> forall a, a < 64 -> P a = true.
Proof. intros H a Ha. rewrite forallb_forall in H. apply H, in_sext64, Ha. Qed.
Lemma sweep64_2 (P : N -> N -> bool) :
  forallb (fun a => forallb (P a) sext64) sext64 = true -> forall a b, a < 64 -> b < 64 -> P a b = true.
Proof. intros H a b Ha Hb. pose proof (sweep64_1 _ H a Ha) as H1. cbv beta in H1. exact (sweep64_1 _ H1 b Hb). Qed.
Global Opaque bytes256 sext64.
