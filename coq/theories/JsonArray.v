(* Model of RawUnprocessedJSONArray::split_into_vector_of_strings (src/json/array/mod.rs) *)
From Rws Require Import Str Utf8 Num RespParse Json.
Open Scope N_scope.

Inductive ares := AOk (items : list (list N)) | AErr | APanicUtf8.

(* Rust char::is_whitespace on a single ASCII byte *)
Definition ws1 (c : N) : bool := ascii_ws c.

(* phase 1: up to and including '[' ; the end-of-input test happens right after each read *)
Fixpoint open_bracket (s : list N) : ares * list N :=
  match s with
  | [] => (AErr, [])                                       (* read_exact fails *)
  | c :: r =>
    match r with
    | [] => (AErr, [])                                     (* total_bytes == bytes_read after reading: "not proper start" *)
    | _ => if N.leb 128 c then (APanicUtf8, []) else
           if negb (ws1 c) && negb (N.eqb c 91) then (AErr, []) else
           if N.eqb c 91 then (AOk [], r) else open_bracket r
    end
  end.

(* after a value followed by a space: skip to ',' or ']' *)
Fixpoint ws_then_sep (s : list N) : option (N * list N) + bool :=   (* inl (Some (sep, rest)) | inl None = error | inr true = panic *)
  match s with
  | [] => inl None
  | c :: r => if N.leb 128 c then inr true else
              if N.eqb c 44 then inl (Some (44, r)) else if N.eqb c 93 then inl (Some (93, r)) else inl None
  end.

Inductive nres := NOk (tok : list N) (last : N) (rest : list N) (end_arr : bool) | NErr | NPanic.
(* the number loop; flags: point / exponent / minus already used *)
Fixpoint num_loop (fuel : nat) (s : list N) (tok : list N) (pt ex mi : bool) : nres :=
  match fuel with O => NErr | S f =>
  match s with
  | [] => NErr
  | c :: r => if N.leb 128 c then NPanic else
    let isp := N.eqb c 46 in let ise := N.eqb c 101 in let ism := N.eqb c 45 in
    if isp && pt then NErr else if ise && ex then NErr else if ism && mi then NErr else
    let pt' := pt || isp in let ex' := ex || ise in
    let part := is_ascii_digit c || isp || ise || ism in
    if N.eqb c 32 then
      (* whitespace: read until ',' or ']' (first non-matching byte is an error) *)
      match ws_then_sep r with
      | inr _ => NPanic
      | inl None => NErr
      | inl (Some (sep, r')) =>
        (* char is now sep; it is not part of a number, so the loop stops *)
        NOk tok sep r' (N.eqb sep 93)
      end
    else if part then num_loop f r (tok ++ [c]) pt' ex' mi
    else if negb (N.eqb c 44) && negb (N.eqb c 93) then NErr else NOk tok c r false
  end end.

Fixpoint items_loop (fuel : nat) (s : list N) (acc : list (list N)) : ares * list N :=
  match fuel with O => (AErr, []) | S f =>
  match s with
  | [] => (AErr, [])
  | c :: r =>
    if N.leb 128 c then (APanicUtf8, []) else
    if N.eqb c 93 then (AOk acc, r) else
    if N.eqb c 32 then items_loop f r acc else
    if N.eqb c QUOTE then
      match read_string r QUOTE [] with
      | JErr => (match r with [] => (AErr, []) | _ => (* a byte >= 128 inside a string: from_utf8(..).unwrap() *)
                   (if existsb (fun x => N.leb 128 x) r then APanicUtf8 else AErr, []) end)
      | JOk (sv, r') => items_loop f r' (acc ++ [QUOTE :: sv])
      end
    else if N.eqb c 110 then
      match read_exact_n 3 r with Some (w, r') => if negb (utf8_valid w) then (APanicUtf8, []) else if beqs w [117;108;108] then items_loop f r' (acc ++ [NULL_S]) else (AErr, []) | None => (AErr, []) end
    else if N.eqb c 116 then
      match read_exact_n 3 r with Some (w, r') => if negb (utf8_valid w) then (APanicUtf8, []) else if beqs w [114;117;101] then items_loop f r' (acc ++ [TRUE_S]) else (AErr, []) | None => (AErr, []) end
    else if N.eqb c 102 then
      match read_exact_n 4 r with Some (w, r') => if negb (utf8_valid w) then (APanicUtf8, []) else if beqs w [97;108;115;101] then items_loop f r' (acc ++ [FALSE_S]) else (AErr, []) | None => (AErr, []) end
    else if N.eqb c 91 then
      match read_balanced 91 93 r 1 0 [] with JOk (sv, r') => items_loop f r' (acc ++ [91 :: sv]) | JErr => (if existsb (fun x => N.leb 128 x) r then APanicUtf8 else AErr, []) end
    else if N.eqb c 123 then
      match read_balanced 123 125 r 1 0 [] with JOk (sv, r') => items_loop f r' (acc ++ [123 :: sv]) | JErr => (if existsb (fun x => N.leb 128 x) r then APanicUtf8 else AErr, []) end
    else if N.eqb c 44 then items_loop f r acc
    else if is_ascii_digit c || N.eqb c 45 then
      match num_loop (S (length r)) r [c] false false (N.eqb c 45) with
      | NPanic => (APanicUtf8, []) | NErr => (AErr, [])
      | NOk tok last r' end_arr =>
        (* after the number: the "unsupported type" test uses the LAST byte read and the FIRST byte's numeric-ness *)
        let unsupported := negb (N.eqb last 44) && negb (N.eqb last 13) && negb (N.eqb last 10) && negb (is_ascii_control last)
                           && negb (is_ascii_digit c) && negb (N.eqb c 45) in      (* !is_numeric && !is_minus since the sign fix *)
        if unsupported then (AErr, []) else
        if end_arr || N.eqb last 93 then (AOk (acc ++ [tok]), r') else items_loop f r' (acc ++ [tok])
      end
    else if N.eqb c 13 || N.eqb c 10 || is_ascii_control c then items_loop f r acc
    else (AErr, [])
  end end.

Fixpoint trailing_ws (s : list N) : ares :=
  match s with [] => AOk [] | c :: r => if N.leb 128 c then APanicUtf8 else if ws1 c then trailing_ws r else AErr end.

Definition split_array (json : list N) : ares :=
  if existsb (fun x => N.leb 128 x) json then AErr else       (* the is_ascii guard (fix): the byte-at-a-time from_utf8 below cannot fail *)
  match open_bracket json with
  | (AOk _, r) =>
    match items_loop (S (length r)) r [] with
    | (AOk items, r') => match trailing_ws r' with AOk _ => AOk items | e => e end
    | (e, _) => e
    end
  | (e, _) => e
  end.

Example a1 : split_array [91;45;53;93] = AOk [[45;53]]. Proof. vm_compute. reflexivity. Qed.     (* "[-5]": was an error *)
Example a2 : split_array [91;49;44;45;53;93] = AOk [[49];[45;53]]. Proof. vm_compute. reflexivity. Qed.   (* "[1,-5]": was an error *)
Example a3 : split_array [91;45;53;44;49;93] = AOk [[45;53];[49]]. Proof. vm_compute. reflexivity. Qed.   (* "[-5,1]" *)
Example a4 : split_array [91;195;169;93] = AErr. Proof. vm_compute. reflexivity. Qed.     (* "[é]" *)
Example a5 : split_array [] = AErr. Proof. vm_compute. reflexivity. Qed.
Example a6 : split_array [120] = AErr. Proof. vm_compute. reflexivity. Qed.
Example a7 : split_array [91;34;34;93] = AOk [[34;34]]. Proof. vm_compute. reflexivity. Qed.     (* [""] *)
