(* C01 at the level of the whole request path: every body of every response comes from below the served directory,
   from an owner's symlink, from a built-in asset or is a message; a target with a ".." segment gets an error status. *)
From Coq Require Import Arith.
From Rws Require Import Str Utf8 Num Unicase Fs UrlParse RangeSpec Request GenMime Mime StaticRes GenConsts Forms Server StrLemmas C01Proof.
Open Scope N_scope.

Lemma prov_whole_msg fs b ct : prov_ok fs (whole b ct Message). Proof. exact I. Qed.
Lemma prov_whole_builtin fs b ct : prov_ok fs (whole b ct BuiltIn). Proof. exact I. Qed.

(* the five cwd-relative override files: cwd ++ "/" ++ name with a fixed, dot-dot-free name *)
Lemma asset_prov fs fname builtin ct st rs0 :
  cwd_ok fs -> climbs (47 :: fname) = false -> rs_ranges rs0 = [] ->
  Forall (prov_ok fs) (rs_ranges (asset_controller fs fname builtin ct st rs0)).
Proof.
  intros Hcw Hc H0. unfold asset_controller.
  destruct (is_file fs (rel fs fname)); [|cbn [rs_ranges]; repeat constructor].
  destruct (node_at fs (rel fs fname) true) as [[[nd q] via]|] eqn:En; [destruct nd as [d|e|t]|]; cbn [rs_ranges];
    try (repeat constructor; fail).
  constructor; [|constructor].
  unfold prov_ok, whole. cbn [c_prov]. destruct via; [left; reflexivity|right].
  unfold node_at in En. unfold rel in En.
  destruct (resolve_path fs (cwd_str fs ++ [47] ++ fname) true) as [[q' v']|] eqn:Er; [|discriminate].
  destruct (get (root fs) q'); [|discriminate]. inversion En; subst.
  eapply (resolve_path_contained fs (47 :: fname)); eauto; right; eexists; reflexivity.
Qed.

Definition keeps_prov (fs : fsys) (f : fres) : Prop := match f with FResp x => Forall (prov_ok fs) (rs_ranges x) | _ => True end.
Ltac kp := repeat match goal with
  | |- keeps_prov _ (match ?x with _ => _ end) => destruct x
  | |- keeps_prov _ (if ?c then _ else _) => destruct c
  end; cbn [keeps_prov rs_ranges]; auto; repeat constructor.
Lemma kp_upload fs cfg r rs0 : keeps_prov fs (upload_controller cfg r rs0). Proof. unfold upload_controller. kp. Qed.
Lemma kp_urlenc fs r rs0 : keeps_prov fs (urlenc_controller r rs0). Proof. unfold urlenc_controller. kp. Qed.
Lemma kp_formget fs r rs0 : keeps_prov fs (formget_controller r rs0). Proof. unfold formget_controller. kp. Qed.
Lemma kp_multi fs r rs0 : keeps_prov fs (multipart_controller r rs0). Proof. unfold multipart_controller. kp. Qed.

Lemma static_process_prov fs r rs0 rs : cwd_ok fs -> rs_ranges rs0 = [] ->
  static_process fs r rs0 = SOk rs -> Forall (prov_ok fs) (rs_ranges rs).
Proof.
  intros Hcw H0 H. unfold static_process in H.
  destruct (process_static fs r) as [l|st|s] eqn:Ep; try discriminate.
  - pose proof (C01_guarded_static fs r l Hcw Ep) as Hl.
    destruct l as [|c l']; [inversion H; subst; rewrite H0; constructor|].
    destruct (path_or_panic (uri r)); try discriminate. inversion H; subst. exact Hl.
  - inversion H; subst. cbn [rs_ranges]. repeat constructor.
Qed.
Lemma static_process_legacy_prov fs r rs0 rs : cwd_ok fs -> rs_ranges rs0 = [] ->
  static_process_legacy fs r rs0 = SOk rs -> Forall (prov_ok fs) (rs_ranges rs).
Proof.
  intros Hcw H0 H. unfold static_process_legacy in H.
  destruct (process_static fs r) as [l|st|s] eqn:Ep; try discriminate.
  - pose proof (C01_guarded_static fs r l Hcw Ep) as Hl.
    destruct l as [|c l']; [inversion H; subst; rewrite H0; constructor|]. inversion H; subst. exact Hl.
  - inversion H; subst. cbn [rs_ranges]. repeat constructor.
Qed.

Lemma execute_prov lg cfg fs r rs : cwd_ok fs -> app_execute_gen lg cfg fs r = SOk rs -> Forall (prov_ok fs) (rs_ranges rs).
Proof.
  intros Hcw. unfold app_execute_gen. set (rs0 := mkResp 501 (reason 501) (default_headers cfg r) []).
  assert (H0 : rs_ranges rs0 = []) by reflexivity.
  pose proof (kp_upload fs cfg r rs0) as K1. pose proof (kp_urlenc fs r rs0) as K2.
  pose proof (kp_formget fs r rs0) as K3. pose proof (kp_multi fs r rs0) as K4.
  assert (A : forall fname b ct st, climbs (47 :: fname) = false -> Forall (prov_ok fs) (rs_ranges (asset_controller fs fname b ct st rs0)))
    by (intros; apply asset_prov; auto).
  intro Hx.
  repeat match type of Hx with (if ?c then _ else _) = _ => destruct c end; try discriminate;
  try (inversion Hx; subst; first [apply A; vm_compute; reflexivity | cbn [rs_ranges]; repeat constructor]).
  all: destruct (upload_controller cfg r rs0); try discriminate; try (inversion Hx; subst; exact K1).
  all: destruct (urlenc_controller r rs0); try discriminate; try (inversion Hx; subst; exact K2).
  all: destruct (formget_controller r rs0); try discriminate; try (inversion Hx; subst; exact K3).
  all: destruct (multipart_controller r rs0); try discriminate; try (inversion Hx; subst; exact K4).
  all: repeat match type of Hx with (if ?c then _ else _) = _ => destruct c end; try discriminate;
       try (inversion Hx; subst; apply A; vm_compute; reflexivity).
  all: try (eapply static_process_legacy_prov; eauto; fail).
  all: destruct (is_matching fs r) as [[|]| |]; try discriminate;
       try (inversion Hx; subst; apply A; vm_compute; reflexivity).
  all: eapply static_process_prov; eauto.
Qed.

Theorem process_contained lg cfg fs input rs raw ok :
  cwd_ok fs -> process_gen lg cfg fs input = Wrote rs raw ok -> Forall (prov_ok fs) (rs_ranges rs).
Proof.
  intros Hcw. unfold process_gen, process_with. intro Hp.
  destruct (parse_request _) as [r| |]; try discriminate.
  - destruct (app_execute_gen lg cfg fs r) as [rs'| |] eqn:Ex; try discriminate.
    + inversion Hp; subst. eapply execute_prov; eauto.
    + inversion Hp; subst. cbn [bad_request_response rs_ranges]. repeat constructor.
  - inversion Hp; subst. cbn [bad_request_response rs_ranges]. repeat constructor.
Qed.

(* ---- a target whose path has a ".." segment is answered with an error status (production chain) ---- *)
Definition error_status (s : N) : bool := N.leb 400 s.
Lemma asset_status fs f b ct st rs0 : rs_status (asset_controller fs f b ct st rs0) = st \/ rs_status (asset_controller fs f b ct st rs0) = 500.
Proof. unfold asset_controller. destruct (is_file fs (rel fs f)); [|left; reflexivity].
  destruct (node_at fs (rel fs f) true) as [[[nd q] via]|]; [destruct nd|]; cbn [rs_status]; auto. Qed.

Lemma target_ne u P c Pc : path_or_panic u = SOk P -> has_dotdot P = true ->
  path_or_panic c = SOk Pc -> has_dotdot Pc = false -> beqs u c = false.
Proof. intros H1 H2 H3 H4. destruct (beqs u c) eqn:E; [|reflexivity]. apply beqs_eq in E. subst c. rewrite H1 in H3. inversion H3; subst. congruence. Qed.
Lemma path_ne P c : has_dotdot P = true -> has_dotdot c = false -> beqs P c = false.
Proof. intros H1 H2. destruct (beqs P c) eqn:E; [|reflexivity]. apply beqs_eq in E. subst c. congruence. Qed.

(* lg = true is the legacy chain, whose static matcher uses the raw target as the file name *)
Theorem climb_is_error lg cfg fs r P rs :
  path_or_panic (uri r) = SOk P -> has_dotdot P = true -> (lg = true -> has_dotdot (uri r) = true) ->
  app_execute_gen lg cfg fs r = SOk rs -> error_status (rs_status rs) = true.
Proof.
  intros EP Hd Hlg. unfold app_execute_gen. set (rs0 := mkResp 501 (reason 501) (default_headers cfg r) []).
  intro Hx.
  destruct (negb (starts_with (uri r) [47])); [inversion Hx; reflexivity|].
  (* the exact-target controllers cannot match: their targets have no ".." *)
  rewrite (target_ne _ _ [47] [47] EP Hd) in Hx by (vm_compute; reflexivity).
  rewrite (target_ne _ _ (47 :: NAME_STYLE) (47 :: NAME_STYLE) EP Hd) in Hx by (vm_compute; reflexivity).
  rewrite (target_ne _ _ (47 :: NAME_SCRIPT) (47 :: NAME_SCRIPT) EP Hd) in Hx by (vm_compute; reflexivity).
  rewrite (target_ne _ _ (47 :: NAME_FAVICON) (47 :: NAME_FAVICON) EP Hd) in Hx by (vm_compute; reflexivity).
  rewrite !andb_false_r in Hx. cbn [andb] in Hx.
  assert (Hup : upload_controller cfg r rs0 = FNoMatch).
  { unfold upload_controller, uri_path. unfold path_or_panic in EP. destruct (target_url (uri r)) as [u| |]; try discriminate.
    inversion EP; subst P. rewrite (path_ne _ PATH_UPLOAD Hd) by (vm_compute; reflexivity). reflexivity. }
  assert (Hue : urlenc_controller r rs0 = FNoMatch).
  { unfold urlenc_controller. destruct (get_header r Hd_CONTENT_TYPE); [|reflexivity].
    destruct (negb (beqs (ulower (hvalue h)) CT_URLENC)); [reflexivity|].
    rewrite (target_ne _ _ PATH_FORM_URLENC PATH_FORM_URLENC EP Hd) by (vm_compute; reflexivity). reflexivity. }
  assert (Hfg : formget_controller r rs0 = FNoMatch).
  { unfold formget_controller, uri_path. unfold path_or_panic in EP. destruct (target_url (uri r)) as [u| |]; try discriminate.
    inversion EP; subst P. rewrite (path_ne _ PATH_FORM_GET Hd) by (vm_compute; reflexivity). reflexivity. }
  assert (Hmu : multipart_controller r rs0 = FNoMatch).
  { unfold multipart_controller, uri_path. destruct (get_header r Hd_CONTENT_TYPE); [|reflexivity].
    unfold path_or_panic in EP. destruct (target_url (uri r)) as [u| |]; try discriminate.
    inversion EP; subst P. destruct (negb (starts_with _ CT_MULTI_PREFIX)); [reflexivity|].
    rewrite (path_ne _ PATH_FORM_MULTI Hd) by (vm_compute; reflexivity). reflexivity. }
  rewrite Hup, Hue, Hfg, Hmu in Hx.
  destruct lg.
  - unfold is_matching_legacy in Hx. rewrite (Hlg eq_refl) in Hx.
    inversion Hx; subst. destruct (asset_status fs NAME_404 (as_404 (cf_assets cfg)) Mt_TEXT_HTML 404 rs0) as [-> | ->]; reflexivity.
  - unfold is_matching in Hx. rewrite EP, Hd in Hx.
  inversion Hx; subst. destruct (asset_status fs NAME_404 (as_404 (cf_assets cfg)) Mt_TEXT_HTML 404 rs0) as [-> | ->]; reflexivity.
Qed.


(* non-vacuity: the probe tree satisfies the hypotheses, a file below the root is served with in-root provenance,
   and the traversal target of the original finding gets 404 *)
Lemma fs0_cwd_ok : cwd_ok fs0.
Proof. split.
  - repeat constructor; vm_compute; intuition discriminate.
  - intros k Hk. change (length (cwd fs0)) with 2%nat in Hk. destruct k as [|[|[|k]]]; vm_compute; reflexivity. Qed.
Definition cfg0 : config := mkCfg 200 CAllowAll (mkAssets [] [] [] [] [60;52;48;52;62]) [] [].
Definition req_bytes (u : list N) : list N := GET ++ [32] ++ u ++ [32] ++ HTTP11 ++ CRLF ++ CRLF.
Example served_inside : exists rs raw, process cfg0 fs0 (req_bytes [47;97;46;116;120;116]) = Wrote rs raw true /\
  rs_status rs = 200 /\ map c_body (rs_ranges rs) = [[48;49;50;51;52;53;54;55;56;57]] /\
  map c_prov (rs_ranges rs) = [FromFile [[111;117;116;101;114]; [114;111;111;116]; [97;46;116;120;116]] false].
Proof. eexists. eexists. split; [vm_compute; reflexivity|]. repeat split. Qed.
Example escape_is_404 : exists rs raw, process cfg0 fs0 (req_bytes escape_uri) = Wrote rs raw true /\ rs_status rs = 404 /\
  map c_prov (rs_ranges rs) = [BuiltIn].
Proof. eexists. eexists. split; [vm_compute; reflexivity|]. repeat split. Qed.
Example escape_is_404_legacy : exists rs raw, process_legacy cfg0 fs0 (req_bytes escape_uri) = Wrote rs raw true /\ rs_status rs = 404.
Proof. eexists. eexists. split; [vm_compute; reflexivity|]. reflexivity. Qed.
