(* Model of src/thread_pool/mod.rs as a labelled transition system: mpsc queue behind a mutex, N worker loops.
   respawn = true is the worker loop with the unwind guard (fix 0717595, the current code); false is the original loop. *)
From Coq Require Import List Arith Lia Bool.
Import ListNotations.

Inductive wstate := WantLock | HoldsLock | Running (j : nat) | Dead.
Record st := mk { queue : list nat; ws : list wstate; lock : option nat;
                  done : list nat; submitted : list nat }.

Fixpoint upd {A} (l : list A) (i : nat) (x : A) : list A :=
  match l, i with
  | [], _ => []
  | _ :: r, O => x :: r
  | y :: r, S i' => y :: upd r i' x
  end.

Inductive label := Submit (j : nat) | Acquire (w : nat) | Receive (w : nat)
                 | Finish (w : nat) | Crash (w : nat).

(* [respawn]: true = worker survives a panicking job (catch_unwind), false = pinned code *)
Definition step (respawn : bool) (s : st) (l : label) : option st :=
  match l with
  | Submit j => if existsb (Nat.eqb j) (submitted s) then None else
      Some (mk (queue s ++ [j]) (ws s) (lock s) (done s) (j :: submitted s))
  | Acquire w => match nth_error (ws s) w, lock s with
      | Some WantLock, None => Some (mk (queue s) (upd (ws s) w HoldsLock) (Some w) (done s) (submitted s))
      | _, _ => None end
  | Receive w => match nth_error (ws s) w, lock s, queue s with
      | Some HoldsLock, Some w', j :: q => if Nat.eqb w w' then
            Some (mk q (upd (ws s) w (Running j)) None (done s) (submitted s)) else None
      | _, _, _ => None end
  | Finish w => match nth_error (ws s) w with
      | Some (Running j) => Some (mk (queue s) (upd (ws s) w WantLock) (lock s) (j :: done s) (submitted s))
      | _ => None end
  | Crash w => match nth_error (ws s) w with
      | Some (Running j) => Some (mk (queue s) (upd (ws s) w (if respawn then WantLock else Dead)) (lock s) (j :: done s) (submitted s))
      | _ => None end
  end.

Definition init (n : nat) : st := mk [] (repeat WantLock n) None [] [].

Fixpoint run (respawn : bool) (s : st) (ls : list label) : option st :=
  match ls with [] => Some s | l :: r => match step respawn s l with Some s' => run respawn s' r | None => None end end.

Definition running (l : list wstate) : list nat :=
  flat_map (fun w => match w with Running j => [j] | _ => [] end) l.

(* lemmas about upd *)
Lemma upd_length {A} (l : list A) i x : length (upd l i x) = length l.
Proof. revert i; induction l; destruct i; simpl; auto. Qed.
Lemma nth_upd_same {A} (l : list A) i x y : nth_error l i = Some y -> nth_error (upd l i x) i = Some x.
Proof. revert i; induction l; destruct i; simpl; intros; try discriminate; auto. Qed.
Lemma nth_upd_other {A} (l : list A) i k x : i <> k -> nth_error (upd l i x) k = nth_error l k.
Proof. revert i k; induction l; destruct i, k; simpl; intros; auto; try congruence. Qed.


Definition cnt (j : nat) (l : list nat) : nat := count_occ Nat.eq_dec l j.
Lemma cnt_app j a b : cnt j (a ++ b) = cnt j a + cnt j b.
Proof. apply count_occ_app. Qed.
Definition rj (w : wstate) : list nat := match w with Running j => [j] | _ => [] end.
Lemma running_cons a l : running (a :: l) = rj a ++ running l. Proof. reflexivity. Qed.

Lemma running_upd j l w x y : nth_error l w = Some y ->
  cnt j (running (upd l w x)) + cnt j (rj y) = cnt j (rj x) + cnt j (running l).
Proof.
  revert w; induction l as [|a l IH]; destruct w; simpl upd; simpl nth_error; intros H; try discriminate.
  - inversion H; subst. rewrite !running_cons, !cnt_app. lia.
  - specialize (IH _ H). rewrite !running_cons, !cnt_app. lia.
Qed.

Definition holds_pred (w : wstate) := match w with HoldsLock => true | _ => false end.
Definition holders (l : list wstate) : nat := length (filter holds_pred l).
Lemma holders_upd l w x y : nth_error l w = Some y ->
  holders (upd l w x) + (if holds_pred y then 1 else 0) = holders l + (if holds_pred x then 1 else 0).
Proof.
  unfold holders. revert w; induction l as [|a l IH]; destruct w; simpl; intros H; try discriminate.
  - inversion H; subst. destruct (holds_pred x), (holds_pred y); simpl; lia.
  - specialize (IH _ H). destruct (holds_pred a); simpl; lia.
Qed.
Definition dead_pred (w : wstate) := match w with Dead => true | _ => false end.
Definition dead (l : list wstate) : nat := length (filter dead_pred l).
Lemma dead_upd l w x y : nth_error l w = Some y ->
  dead (upd l w x) + (if dead_pred y then 1 else 0) = dead l + (if dead_pred x then 1 else 0).
Proof.
  unfold dead. revert w; induction l as [|a l IH]; destruct w; simpl; intros H; try discriminate.
  - inversion H; subst. destruct (dead_pred x), (dead_pred y); simpl; lia.
  - specialize (IH _ H). destruct (dead_pred a); simpl; lia.
Qed.

Record Inv (n : nat) (s : st) : Prop := {
  inv_n : length (ws s) = n;
  inv_lock : match lock s with
             | Some w => nth_error (ws s) w = Some HoldsLock /\ holders (ws s) = 1
             | None => holders (ws s) = 0 end;
  inv_cons : forall j, cnt j (submitted s) = cnt j (queue s) + cnt j (running (ws s)) + cnt j (done s);
  inv_once : forall j, cnt j (submitted s) <= 1 }.

Lemma init_inv n : Inv n (init n).
Proof. split; simpl.
  - apply repeat_length.
  - unfold holders. induction n; simpl; auto.
  - intro j. assert (running (repeat WantLock n) = []) as -> by (induction n; simpl; auto). reflexivity.
  - intro; simpl; lia. Qed.

Ltac inv_step H := unfold step in H;
  repeat match type of H with
  | (if ?c then _ else _) = _ => destruct c eqn:?; try discriminate
  | match ?x with _ => _ end = _ => destruct x eqn:?; try discriminate
  end; inversion H; subst; clear H.

Lemma cnt_notin j l : existsb (Nat.eqb j) l = false -> cnt j l = 0.
Proof. intro H. apply count_occ_not_In. intro Hin.
  assert (existsb (Nat.eqb j) l = true) by (apply existsb_exists; exists j; split; auto; apply Nat.eqb_refl). congruence. Qed.

Lemma step_inv rs n s l s' : Inv n s -> step rs s l = Some s' -> Inv n s'.
Proof.
  intros [Hn Hl Hc Hd] H. destruct l; inv_step H; split; simpl in *; try rewrite upd_length; auto.
  - intro k. specialize (Hc k). rewrite cnt_app. unfold cnt in *. simpl. destruct (Nat.eq_dec j k); lia.
  - intro k. specialize (Hd k). unfold cnt in *. simpl. destruct (Nat.eq_dec j k); auto. subst.
    pose proof (cnt_notin _ _ Heqb). unfold cnt in *. lia.
  - split. { eapply nth_upd_same; eauto. }
    pose proof (holders_upd _ _ HoldsLock _ Heqo) as E. simpl in E. lia.
  - intro k. specialize (Hc k). pose proof (running_upd k _ _ HoldsLock _ Heqo) as E. simpl in E. unfold cnt in *; simpl in *. lia.
  - destruct Hl as [_ Hh].
    pose proof (holders_upd _ _ (Running n1) _ Heqo) as E. simpl in E. lia.
  - intro k. specialize (Hc k). pose proof (running_upd k _ _ (Running n1) _ Heqo) as E.
    unfold cnt in *; simpl in *. destruct (Nat.eq_dec n1 k); lia.
  - destruct (lock s) as [lw|]; [destruct Hl as [Hl1 Hl2]; split|].
    + destruct (Nat.eq_dec w lw) as [->|Hne]; [congruence|]. rewrite nth_upd_other; auto.
    + pose proof (holders_upd _ _ WantLock _ Heqo) as E. simpl in E. lia.
    + pose proof (holders_upd _ _ WantLock _ Heqo) as E. simpl in E. lia.
  - intro k. specialize (Hc k). pose proof (running_upd k _ _ WantLock _ Heqo) as E.
    unfold cnt in *; simpl in *. destruct (Nat.eq_dec j k); lia.
  - destruct (lock s) as [lw|]; [destruct Hl as [Hl1 Hl2]; split|].
    + destruct (Nat.eq_dec w lw) as [->|Hne]; [congruence|]. rewrite nth_upd_other; auto.
    + pose proof (holders_upd _ _ (if rs then WantLock else Dead) _ Heqo) as E. destruct rs; simpl in E; lia.
    + pose proof (holders_upd _ _ (if rs then WantLock else Dead) _ Heqo) as E. destruct rs; simpl in E; lia.
  - intro k. specialize (Hc k). pose proof (running_upd k _ _ (if rs then WantLock else Dead) _ Heqo) as E.
    unfold cnt in *; destruct rs; simpl in *; destruct (Nat.eq_dec j k); lia.
Qed.

Theorem reachable_inv rs n ls : forall s, Inv n s -> forall s', run rs s ls = Some s' -> Inv n s'.
Proof. induction ls as [|l ls IH]; simpl; intros s Hi s' H; [inversion H; subst; auto|].
  destruct (step rs s l) eqn:E; [|discriminate]. eapply IH; [|exact H]. eapply step_inv; eauto. Qed.

(* C06 with the unwind guard: nobody ever dies *)
Lemma step_alive n s l s' : Inv n s -> dead (ws s) = 0 -> step true s l = Some s' -> dead (ws s') = 0.
Proof. intros _ Hd H. destruct l; inv_step H; simpl; auto.
  - pose proof (dead_upd _ _ HoldsLock _ Heqo) as E; simpl in E; lia.
  - pose proof (dead_upd _ _ (Running n1) _ Heqo) as E; simpl in E; lia.
  - pose proof (dead_upd _ _ WantLock _ Heqo) as E; simpl in E; lia.
  - pose proof (dead_upd _ _ WantLock _ Heqo) as E; simpl in E; lia.
Qed.

(* pinned code: refuted *)
Example all_dead : exists ls s, run false (init 2) ls = Some s /\ dead (ws s) = 2.
Proof. exists [Submit 0; Submit 1; Acquire 0; Receive 0; Acquire 1; Receive 1; Crash 0; Crash 1]. eexists. split; [vm_compute; reflexivity|reflexivity]. Qed.

(* liveness measure for internal steps *)
Definition mu (s : st) : nat := 2 * length (queue s) + match lock s with None => 1 | Some _ => 0 end.
Definition internal (l : label) := match l with Acquire _ | Receive _ => true | _ => false end.
Lemma internal_decreases rs s l s' : internal l = true -> step rs s l = Some s' -> mu s' < mu s.
Proof. intros Hi H. destruct l; try discriminate; inv_step H; unfold mu; simpl; try rewrite Heql; simpl; try rewrite Heqo0; lia. Qed.

Definition idle_pred (w : wstate) := match w with WantLock | HoldsLock => true | _ => false end.
(* if no internal step is enabled then the queue is empty or no live worker is idle *)
Lemma stuck_means_saturated rs n s : Inv n s ->
  (forall l, internal l = true -> step rs s l = None) ->
  queue s = [] \/ forallb (fun w => negb (idle_pred w)) (ws s) = true.
Proof.
  intros [Hn Hl Hc Hd] Hstuck. destruct (queue s) as [|j q] eqn:Eq; [left; auto|right].
  destruct (lock s) as [w|] eqn:El.
  - destruct Hl as [Hw _]. specialize (Hstuck (Receive w) eq_refl). unfold step in Hstuck.
    rewrite Hw, El, Eq, Nat.eqb_refl in Hstuck. discriminate.
  - apply forallb_forall. intros x Hx. apply In_nth_error in Hx as [i Hi].
    destruct x; simpl; auto.
    + specialize (Hstuck (Acquire i) eq_refl). unfold step in Hstuck. rewrite Hi, El in Hstuck. discriminate.
    + exfalso. unfold holders in Hl. apply nth_error_In in Hi.
      assert (In HoldsLock (filter holds_pred (ws s))) by (apply filter_In; split; auto).
      destruct (filter holds_pred (ws s)); simpl in *; [contradiction|discriminate].
Qed.

(* ---------- C06: with the unwind guard every reachable state has all its workers alive ---------- *)
Theorem reachable_alive n ls : forall s, Inv n s -> dead (ws s) = 0 -> forall s', run true s ls = Some s' -> dead (ws s') = 0.
Proof. induction ls as [|l ls IH]; simpl; intros s Hi Hd s' H; [inversion H; subst; auto|].
  destruct (step true s l) eqn:E; [|discriminate]. eapply IH; [eapply step_inv; eauto| |exact H]. eapply step_alive; eauto. Qed.
Lemma init_alive n : dead (ws (init n)) = 0.
Proof. unfold dead, init. cbn [ws]. induction n; simpl; auto. Qed.
Corollary pool_never_loses_a_worker n ls s : run true (init n) ls = Some s -> length (ws s) = n /\ dead (ws s) = 0.
Proof. intro H. split.
  - exact (inv_n _ _ (reachable_inv true n ls _ (init_inv n) _ H)).
  - eapply reachable_alive; [apply init_inv|apply init_alive|exact H]. Qed.

(* exactly once: a job is never in two places and never done twice *)
Corollary exactly_once rs n ls s : run rs (init n) ls = Some s ->
  forall j, cnt j (queue s) + cnt j (running (ws s)) + cnt j (done s) = cnt j (submitted s) /\ cnt j (submitted s) <= 1.
Proof. intros H j. pose proof (reachable_inv rs n ls _ (init_inv n) _ H) as [_ _ Hc Hd]. split; [symmetry; apply Hc|apply Hd]. Qed.
(* no worker runs a job while it holds the queue lock: the lock owner is in the receive statement *)
Corollary no_lock_while_running rs n ls s w : run rs (init n) ls = Some s -> lock s = Some w -> nth_error (ws s) w = Some HoldsLock.
Proof. intros H Hl. pose proof (reachable_inv rs n ls _ (init_inv n) _ H) as [_ Hk _ _]. rewrite Hl in Hk. tauto. Qed.

(* ---------- the accept loop of Server::run ---------- *)
Inductive listener := Listening | Exited.
Inductive conn_event := AcceptOk (c : nat) | AcceptErr | LocalAddrErr | PeerAddrErr.
(* current code (fix 8e432a0): a failed accept / address lookup skips the connection *)
Definition accept_step (st : listener * list nat) (e : conn_event) : listener * list nat :=
  match fst st, e with
  | Exited, _ => st
  | Listening, AcceptOk c => (Listening, snd st ++ [c])       (* handed to pool.execute *)
  | Listening, _ => (Listening, snd st)
  end.
(* the original loop returned on the three errors *)
Definition accept_step_pinned (st : listener * list nat) (e : conn_event) : listener * list nat :=
  match fst st, e with
  | Exited, _ => st
  | Listening, AcceptOk c => (Listening, snd st ++ [c])
  | Listening, _ => (Exited, snd st)
  end.
Definition accepted (es : list conn_event) : list nat := flat_map (fun e => match e with AcceptOk c => [c] | _ => [] end) es.
Theorem accept_loop_survives es : fold_left accept_step es (Listening, []) = (Listening, accepted es).
Proof.
  assert (G : forall evs acc, fold_left accept_step evs (Listening, acc) = (Listening, acc ++ accepted evs)).
  { induction evs as [|e es' IH]; intro acc.
    - unfold accepted. cbn [fold_left flat_map]. rewrite app_nil_r. reflexivity.
    - cbn [fold_left]. change (accepted (e :: es')) with ((match e with AcceptOk c => [c] | _ => [] end) ++ accepted es').
      destruct e; cbn [accept_step fst snd]; rewrite IH; rewrite <- ?app_assoc; reflexivity. }
  apply (G es []).
Qed.
Example accept_loop_pinned_exits : fst (fold_left accept_step_pinned [AcceptOk 0; PeerAddrErr; AcceptOk 1] (Listening, [])) = Exited.
Proof. reflexivity. Qed.

(* ---------- executable trace acceptor (the tie to the hooked implementation) ----------
   Events as the hooks record them.  A hook fires slightly after the action: the guard is dropped at the end of the recv
   statement, so "Received w" can be recorded after another worker's "LockAcquired".  When an event is not enabled and the
   lock holder's next own event is its Receive, that Receive is commuted forward; nothing else is reordered. *)
Definition label_worker (l : label) : option nat := match l with Submit _ => None | Acquire w | Receive w | Finish w | Crash w => Some w end.
Fixpoint take_next_of (w : nat) (ls : list label) : option (label * list label) :=
  match ls with
  | [] => None
  | l :: r => if match label_worker l with Some w' => Nat.eqb w w' | None => false end then Some (l, r)
              else match take_next_of w r with Some (x, r') => Some (x, l :: r') | None => None end
  end.
Fixpoint accept_trace (fuel : nat) (s : st) (ls : list label) : option st :=
  match fuel with O => None | S f =>
  match ls with
  | [] => Some s
  | l :: r =>
    match step true s l with
    | Some s' => accept_trace f s' r
    | None =>
      match lock s with
      | Some h => match take_next_of h ls with
                  | Some (Receive h', rest) => match step true s (Receive h') with Some s' => accept_trace f s' rest | None => None end
                  | _ => None end
      | None => None end
    end
  end end.
(* every accepted trace is a run of the model for some reordering that only moves Receive events forward: the reached state
   satisfies the invariant *)
Lemma accept_trace_inv n : forall fuel s ls s', Inv n s -> accept_trace fuel s ls = Some s' -> Inv n s'.
Proof.
  induction fuel as [|f IH]; intros s ls s' Hi H; cbn [accept_trace] in H; [discriminate|].
  destruct ls as [|l r]; [inversion H; subst; exact Hi|].
  destruct (step true s l) as [s1|] eqn:E1; [eapply IH; [eapply step_inv; eauto|exact H]|].
  destruct (lock s) as [h|]; [|discriminate].
  destruct (take_next_of h (l :: r)) as [[x rest]|]; [|discriminate]. destruct x; try discriminate.
  destruct (step true s (Receive w)) as [s2|] eqn:E2; [|discriminate]. eapply IH; [eapply step_inv; eauto|exact H].
Qed.
