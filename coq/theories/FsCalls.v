(* C13: the request path as a program over file-system primitives.  The primitive table (GenFsCalls) is regenerated from the
   non-test source of /repo and of the file-ext crate on every run. *)
From Coq Require Import List Bool.
From Rws Require Import Fs GenFsCalls.
Import ListNotations.

Section Exec.
  (* whatever a mutating primitive does to the file system *)
  Variable eff : fs_prim -> fsys -> fsys.
  (* the effect of one call: primitives that are not mutating (metadata, open for reading, read, read_link, current_dir,
     reading the environment, writing to the connection) leave the file system as it is *)
  Definition exec (fs : fsys) (p : fs_prim) : fsys := if mutating p then eff p fs else fs.

  Theorem read_only_closed : forall ops fs, forallb (fun p => negb (mutating p)) ops = true -> fold_left exec ops fs = fs.
  Proof.
    induction ops as [|p ops IH]; intros fs H; cbn [fold_left]; [reflexivity|].
    cbn [forallb] in H. apply andb_prop in H as [Hp Hr]. unfold exec at 2. apply negb_true_iff in Hp. rewrite Hp. apply IH, Hr.
  Qed.
  (* any history of calls drawn from a read-only set of call sites *)
  Theorem history_read_only : forall sites, forallb (fun p => negb (mutating p)) sites = true ->
    forall ops, (forall p, In p ops -> In p sites) -> forall fs, fold_left exec ops fs = fs.
  Proof.
    intros sites Hs ops Hin fs. apply read_only_closed. rewrite forallb_forall in *. intros p Hp. apply Hs, Hin, Hp.
  Qed.
End Exec.

(* today's table: every primitive named on the request path is read-only *)
Lemma request_path_read_only : forallb (fun p => negb (mutating p)) request_path_prims = true.
Proof. vm_compute. reflexivity. Qed.
Lemma request_path_nonempty : request_path_prims <> [] /\ In PNetWrite request_path_prims /\ In POpen request_path_prims.
Proof. split; [discriminate|]. split; vm_compute; tauto. Qed.
(* the classification is not vacuous: the primitives that change a tree are classified as mutating *)
Lemma mutating_classification :
  forallb mutating [PWrite; PCreate; POpenWrite; PRemoveFile; PRemoveDir; PRename; PCopy; PCreateDir; PSymlink; PChmod; PSpawn; PChdir; PEnvWrite] = true /\
  forallb (fun p => negb (mutating p)) [PMetadata; PLMetadata; POpen; PRead; PReadLink; PReadDir; PSeek; PCurrentDir; PEnvRead; PNetWrite] = true.
Proof. split; reflexivity. Qed.
