From Rws Require Import Str Utf8 GenCli GenCliDoc Config StrLemmas TrimLemmas C01Proof.
Open Scope N_scope.

Definition oeqb (a : option (list N)) (v : list N) : bool := match a with Some x => beqs x v | None => false end.
(* the last value an argument list gives to variable V *)
Definition arg_sets (V : list N) (arg : list N) : option (list N) :=
  match split_once arg [61] with
  | Some (p, v) => if oeqb (flag_var p) V && negb (existsb (N.eqb 0) v) then Some v else None     (* a value with a NUL character is skipped *)
  | None => None end.
Definition cli_last (V : list N) (args : list (list N)) : option (list N) :=
  fold_left (fun acc a => match arg_sets V a with Some v => Some v | None => acc end) args None.

Lemma apply_arg_get V a e : env_get V (apply_arg e a) = match arg_sets V a with Some v => Some v | None => env_get V e end.
Proof.
  unfold apply_arg, arg_sets. destruct (split_once a [61]) as [[p v]|]; [|reflexivity].
  destruct (flag_var p) as [W|] eqn:F; cbn [oeqb]; [|reflexivity].
  destruct (existsb (N.eqb 0) v) eqn:Z; [rewrite andb_false_r; reflexivity|]. rewrite andb_true_r.
  destruct (beqs W V) eqn:E.
  - apply beqs_eq in E. subst W. apply env_get_set_same.
  - apply env_get_set_other. destruct (beqs V W) eqn:E2; [apply beqs_eq in E2; subst; rewrite beqs_refl in E; discriminate|reflexivity].
Qed.

Lemma cli_parse_get V args : forall e, env_get V (cli_parse args e) =
  match cli_last V args with Some v => Some v | None => env_get V e end.
Proof.
  unfold cli_parse, cli_last.
  assert (G : forall args e acc,
     match fold_left (fun acc a => match arg_sets V a with Some v => Some v | None => acc end) args acc with
     | Some v => Some v | None => env_get V (fold_left apply_arg args e) end
     = match fold_left (fun acc a => match arg_sets V a with Some v => Some v | None => acc end) args acc with
       | Some v => Some v | None => env_get V (fold_left apply_arg args e) end) by reflexivity.
  clear G. induction args as [|a args IH]; intro e; cbn [fold_left]; [reflexivity|].
  rewrite IH. rewrite apply_arg_get.
  (* relate the fold started at [arg_sets V a] with the fold started at None *)
  assert (F : forall l acc, fold_left (fun acc a => match arg_sets V a with Some v => Some v | None => acc end) l acc =
                            match fold_left (fun acc a => match arg_sets V a with Some v => Some v | None => acc end) l None with
                            | Some v => Some v | None => acc end).
  { induction l as [|x l IHl]; intro acc; cbn [fold_left]; [reflexivity|].
    rewrite (IHl (match arg_sets V x with Some v => Some v | None => acc end)), (IHl (match arg_sets V x with Some v => Some v | None => None end)).
    destruct (fold_left _ l None); [reflexivity|]. destruct (arg_sets V x); reflexivity. }
  rewrite (F args (match arg_sets V a with Some v => Some v | None => None end)).
  destruct (fold_left _ args None); [reflexivity|]. destruct (arg_sets V a); reflexivity.
Qed.

Definition file_last (V : list N) (content : list N) : option (list N) :=
  cli_last V (file_args [] (lines_f (S (length content)) content)).
Lemma read_config_get V c e : env_get V (read_config c e) = match file_last V c with Some v => Some v | None => env_get V e end.
Proof. unfold read_config, file_last. apply cli_parse_get. Qed.

Definition default_of (V : list N) : option (list N) :=
  match find (fun kv => beqs (fst kv) V) default_table with Some kv => Some (snd kv) | None => None end.
Lemma set_defaults_get_gen V : forall tbl e,
  env_get V (fold_left (fun acc kv => match env_get (fst kv) acc with Some _ => acc | None => env_set (fst kv) (snd kv) acc end) tbl e) =
  match env_get V e with Some v => Some v
  | None => match find (fun kv => beqs (fst kv) V) tbl with Some kv => Some (snd kv) | None => None end end.
Proof.
  induction tbl as [|[k d] tbl IH]; intro e; cbn [fold_left find fst snd].
  - destruct (env_get V e); reflexivity.
  - rewrite IH. destruct (env_get k e) as [x|] eqn:Ek.
    + destruct (env_get V e) eqn:Ev; [reflexivity|].
      destruct (beqs k V) eqn:E; [apply beqs_eq in E; subst; congruence|reflexivity].
    + destruct (beqs k V) eqn:E.
      * apply beqs_eq in E. subst k. rewrite env_get_set_same, Ek. reflexivity.
      * rewrite env_get_set_other by (destruct (beqs V k) eqn:E2; [apply beqs_eq in E2; subst; rewrite beqs_refl in E; discriminate|reflexivity]).
        reflexivity.
Qed.
Lemma set_defaults_get V e : env_get V (set_defaults e) = match env_get V e with Some v => Some v | None => default_of V end.
Proof. unfold set_defaults, default_of. apply set_defaults_get_gen. Qed.

(* C12: command line over config file over environment over default, per variable, for every input *)
Definition first_some (l : list (option (list N))) : option (list N) :=
  fold_right (fun o acc => match o with Some v => Some v | None => acc end) None l.
Theorem C12_precedence V e file args :
  env_get V (setup e file args) =
  first_some [cli_last V args; match file with Some c => file_last V c | None => None end; env_get V e; default_of V].
Proof.
  unfold setup, first_some. cbn [fold_right]. rewrite cli_parse_get.
  destruct (cli_last V args); [reflexivity|].
  destruct file as [c|].
  - rewrite read_config_get. destruct (file_last V c); [reflexivity|]. rewrite set_defaults_get. destruct (env_get V e); [reflexivity|]. destruct (default_of V); reflexivity.
  - rewrite set_defaults_get. destruct (env_get V e); [reflexivity|]. destruct (default_of V); reflexivity.
Qed.
(* independence is immediate from the statement: the right-hand side mentions only what the sources say about V *)

(* every flag spelling of the table reaches its variable; every variable has a default *)
Example flags_reach : forallb (fun f => let '(s, l, v) := f in oeqb (flag_var (45 :: s)) v && oeqb (flag_var ([45;45] ++ l)) v) flag_table = true.
Proof. vm_compute. reflexivity. Qed.
Example all_have_defaults : forallb (fun f => let '(_, _, v) := f in match default_of v with Some _ => true | None => false end) flag_table = true.
Proof. vm_compute. reflexivity. Qed.


(* ---------- independence: a source's entries for other settings do not matter ---------- *)
Theorem independent V e e' file file' args args' :
  cli_last V args = cli_last V args' ->
  match file with Some c => file_last V c | None => None end = match file' with Some c => file_last V c | None => None end ->
  env_get V e = env_get V e' ->
  env_get V (setup e file args) = env_get V (setup e' file' args').
Proof. intros H1 H2 H3. rewrite !C12_precedence. unfold first_some. cbn [fold_right]. rewrite H1, H2, H3. reflexivity. Qed.

(* ---------- the documented spellings reach their settings (tables regenerated from the repository's own documentation) ---------- *)
Definition is_var (v : list N) : bool := existsb (fun f => let '(_, _, v') := f in beqs v v') flag_table.
Definition toml_flag (tk : list N * list N) : list N :=
  [45;45] ++ (match fst tk with [] => [] | t => t ++ [45] end) ++ replace (snd tk) [95] [45].
Lemma documented_reach :
  forallb (fun f => match flag_var f with Some _ => true | None => false end) doc_cli_flags = true /\
  forallb (fun tk => match flag_var (toml_flag tk) with Some _ => true | None => false end) doc_toml_keys = true /\
  forallb is_var doc_variables = true /\
  (* and every setting of the table is documented in all three places *)
  forallb (fun f => let '(s, l, v) := f in existsb (beqs (45 :: s)) doc_cli_flags && existsb (beqs ([45;45] ++ l)) doc_cli_flags &&
                     existsb (fun tk => oeqb (flag_var (toml_flag tk)) v) doc_toml_keys && existsb (beqs v) doc_variables) flag_table = true.
Proof. repeat split; vm_compute; reflexivity. Qed.

(* ---------- the config-file reader on a rendered entry ----------
   an entry  key <pad> = <pad> [quote] value [quote] <pad>  (pads of spaces and tabs, either quote style or none, one-line array brackets)
   becomes the synthetic long flag --[table-]key=value with '_' in the key replaced by '-' *)
Definition plainb (s : list N) : bool := forallb (fun c => negb (existsb (N.eqb c) [32;9;35;34;39;91;93;61;10;13])) s.
Definition padb (s : list N) : bool := forallb (fun c => N.eqb c 32 || N.eqb c 9) s.
Lemma remove_byte_plain c s : plainb s = true -> existsb (N.eqb c) [32;9;35;34;39;91;93;61;10;13] = true -> remove_byte c s = s.
Proof.
  intros Hp Hc. apply remove_byte_notin. intro Hin. unfold plainb in Hp. rewrite forallb_forall in Hp. specialize (Hp c Hin).
  rewrite Hc in Hp. discriminate.
Qed.
Lemma strip_spaces_pad s : padb s = true -> strip_spaces s = [].
Proof. unfold strip_spaces, remove_byte, padb. induction s as [|c s IH]; intro H; [reflexivity|].
  cbn [forallb] in H. apply andb_prop in H as [Hc Hs]. cbn [filter]. destruct (N.eqb_spec c 32) as [->|H32]; cbn [negb].
  - apply IH, Hs.
  - cbn [orb] in Hc. cbn [filter]. rewrite Hc. cbn [negb]. apply IH, Hs. Qed.
Lemma strip_spaces_app a b : strip_spaces (a ++ b) = strip_spaces a ++ strip_spaces b.
Proof. unfold strip_spaces. rewrite !remove_byte_app. reflexivity. Qed.
Lemma strip_spaces_plain s : plainb s = true -> strip_spaces s = s.
Proof. intro H. unfold strip_spaces. rewrite (remove_byte_plain 32 s H) by reflexivity. apply (remove_byte_plain 9 s H). reflexivity. Qed.
Lemma plain_notin c s : plainb s = true -> existsb (N.eqb c) [32;9;35;34;39;91;93;61;10;13] = true -> ~ In c s.
Proof. intros Hp Hc Hin. unfold plainb in Hp. rewrite forallb_forall in Hp. specialize (Hp c Hin). rewrite Hc in Hp. discriminate. Qed.

Definition quote_ok (q : list N) : bool := beqs q [] || beqs q [34] || beqs q [39] .
Theorem line_to_arg_render prefix k v q p2 p3 p4 :
  plainb k = true -> k <> [] -> plainb v = true -> quote_ok q = true -> padb p2 = true -> padb p3 = true -> padb p4 = true ->
  line_to_arg prefix (k ++ p2 ++ [61] ++ p3 ++ q ++ v ++ q ++ p4) =
    (prefix, Some ([45;45] ++ (match prefix with [] => [] | _ => prefix ++ [45] end) ++ replace k [95] [45] ++ [61] ++ v)).
Proof.
  intros Hk Hkn Hv Hq H2 H3 H4. unfold line_to_arg.
  assert (Hq' : forall c, In c q -> c = 34 \/ c = 39).
  { unfold quote_ok in Hq. intros c Hc. destruct q as [|a [|b r]]; [contradiction| |exfalso].
    - destruct Hc as [<-|[]]. cbn in Hq. destruct (N.eqb_spec a 34); [auto|]. destruct (N.eqb_spec a 39); [auto|]. cbn in Hq. discriminate.
    - cbn in Hq. rewrite !andb_false_r in Hq. discriminate. }
  assert (Hnc : ~ In 35 (k ++ p2 ++ [61] ++ p3 ++ q ++ v ++ q ++ p4)).
  { rewrite !in_app_iff. intros [H|[H|[H|[H|[H|[H|[H|H]]]]]]].
    - exact (plain_notin 35 k Hk eq_refl H).
    - unfold padb in H2. rewrite forallb_forall in H2. specialize (H2 35 H). discriminate.
    - destruct H as [H|[]]. discriminate.
    - unfold padb in H3. rewrite forallb_forall in H3. specialize (H3 35 H). discriminate.
    - destruct (Hq' _ H); discriminate.
    - exact (plain_notin 35 v Hv eq_refl H).
    - destruct (Hq' _ H); discriminate.
    - unfold padb in H4. rewrite forallb_forall in H4. specialize (H4 35 H). discriminate. }
  assert (Hsc : strip_comment (k ++ p2 ++ [61] ++ p3 ++ q ++ v ++ q ++ p4) = k ++ p2 ++ [61] ++ p3 ++ q ++ v ++ q ++ p4).
  { unfold strip_comment. destruct (split_once _ [35]) as [[a b']|] eqn:E; [|reflexivity].
    exfalso. apply Hnc. apply split_once_1_spec in E. rewrite E. apply in_or_app. right. left. reflexivity. }
  rewrite Hsc.
  assert (Hqs : strip_spaces q = q).
  { unfold strip_spaces. rewrite (remove_byte_notin 32 q) by (intro Hc; destruct (Hq' _ Hc); discriminate).
    apply remove_byte_notin. intro Hc; destruct (Hq' _ Hc); discriminate. }
  rewrite !strip_spaces_app, (strip_spaces_plain k Hk), (strip_spaces_pad p2 H2), (strip_spaces_pad p3 H3), (strip_spaces_pad p4 H4),
          (strip_spaces_plain v Hv), Hqs. change (strip_spaces [61]) with [61]. cbn [app]. rewrite app_nil_r.
  destruct k as [|k0 kr] eqn:Ek; [congruence|]. rewrite <- Ek in *.
  assert (Hsw : starts_with (k ++ 61 :: q ++ v ++ q) [91] = false).
  { rewrite Ek. unfold starts_with. cbn [app prefixb]. destruct (N.eqb_spec 91 k0) as [E|_]; [|reflexivity].
    exfalso. subst k0. apply (plain_notin 91 (91 :: kr)); [rewrite <- Ek; exact Hk|reflexivity|left; reflexivity]. }
  rewrite Hsw. rewrite split_once_1 by (exact (plain_notin 61 k Hk eq_refl)).
  assert (Hval : remove_byte 91 (remove_byte 93 (remove_byte 34 (remove_byte 39 (q ++ v ++ q)))) = v).
  { assert (Hrq : remove_byte 34 (remove_byte 39 q) = []).
    { unfold quote_ok in Hq. destruct q as [|a [|b r]]; [reflexivity| |cbn in Hq; rewrite !andb_false_r in Hq; discriminate].
      destruct (Hq' a (or_introl eq_refl)) as [-> | ->]; reflexivity. }
    rewrite !remove_byte_app. rewrite (remove_byte_plain 39 v Hv) by reflexivity. rewrite (remove_byte_plain 34 v Hv) by reflexivity.
    rewrite Hrq. cbn [app]. rewrite app_nil_r. rewrite (remove_byte_plain 93 v Hv) by reflexivity. apply (remove_byte_plain 91 v Hv). reflexivity. }
  rewrite Hval. destruct prefix; [reflexivity|]. cbn [app]. rewrite <- app_assoc. reflexivity.
Qed.
