From Rws Require Import Str Utf8 GenCli Config.
Open Scope N_scope.

Definition oeqb (a : option (list N)) (v : list N) : bool := match a with Some x => beqs x v | None => false end.
(* the last value an argument list gives to variable V *)
Definition arg_sets (V : list N) (arg : list N) : option (list N) :=
  match split_once arg [61] with
  | Some (p, v) => if oeqb (flag_var p) V then Some v else None
  | None => None end.
Definition cli_last (V : list N) (args : list (list N)) : option (list N) :=
  fold_left (fun acc a => match arg_sets V a with Some v => Some v | None => acc end) args None.

Lemma apply_arg_get V a e : env_get V (apply_arg e a) = match arg_sets V a with Some v => Some v | None => env_get V e end.
Proof.
  unfold apply_arg, arg_sets. destruct (split_once a [61]) as [[p v]|]; [|reflexivity].
  destruct (flag_var p) as [W|] eqn:F; cbn [oeqb]; [|reflexivity].
  destruct (beqs W V) eqn:E.
  - apply beqs_eq in E. subst W. apply env_get_set_same.
  - apply env_get_set_other. destruct (beqs V W) eqn:E2; [apply beqs_eq in E2; subst; rewrite beqs_refl in E; discriminate|reflexivity].
Qed.

Lemma cli_parse_get V args : forall e, env_get V (cli_parse args e) =
  match cli_last V args with Some v => Some v | None => env_get V e end.
Proof.
  unfold cli_parse, cli_last.
  assert (G : forall args e acc,
     match fold_left (fun acc a => match arg_sets V a with Some v => Some v | None => acc end) args acc with
     | Some v => Some v | None => env_get V (fold_left apply_arg args e) end
     = match fold_left (fun acc a => match arg_sets V a with Some v => Some v | None => acc end) args acc with
       | Some v => Some v | None => env_get V (fold_left apply_arg args e) end) by reflexivity.
  clear G. induction args as [|a args IH]; intro e; cbn [fold_left]; [reflexivity|].
  rewrite IH. rewrite apply_arg_get.
  (* relate the fold started at [arg_sets V a] with the fold started at None *)
  assert (F : forall l acc, fold_left (fun acc a => match arg_sets V a with Some v => Some v | None => acc end) l acc =
                            match fold_left (fun acc a => match arg_sets V a with Some v => Some v | None => acc end) l None with
                            | Some v => Some v | None => acc end).
  { induction l as [|x l IHl]; intro acc; cbn [fold_left]; [reflexivity|].
    rewrite (IHl (match arg_sets V x with Some v => Some v | None => acc end)), (IHl (match arg_sets V x with Some v => Some v | None => None end)).
    destruct (fold_left _ l None); [reflexivity|]. destruct (arg_sets V x); reflexivity. }
  rewrite (F args (match arg_sets V a with Some v => Some v | None => None end)).
  destruct (fold_left _ args None); [reflexivity|]. destruct (arg_sets V a); reflexivity.
Qed.

Definition file_last (V : list N) (content : list N) : option (list N) :=
  cli_last V (file_args [] (lines_f (S (length content)) content)).
Lemma read_config_get V c e : env_get V (read_config c e) = match file_last V c with Some v => Some v | None => env_get V e end.
Proof. unfold read_config, file_last. apply cli_parse_get. Qed.

Definition default_of (V : list N) : option (list N) :=
  match find (fun kv => beqs (fst kv) V) default_table with Some kv => Some (snd kv) | None => None end.
Lemma set_defaults_get_gen V : forall tbl e,
  env_get V (fold_left (fun acc kv => match env_get (fst kv) acc with Some _ => acc | None => env_set (fst kv) (snd kv) acc end) tbl e) =
  match env_get V e with Some v => Some v
  | None => match find (fun kv => beqs (fst kv) V) tbl with Some kv => Some (snd kv) | None => None end end.
Proof.
  induction tbl as [|[k d] tbl IH]; intro e; cbn [fold_left find fst snd].
  - destruct (env_get V e); reflexivity.
  - rewrite IH. destruct (env_get k e) as [x|] eqn:Ek.
    + destruct (env_get V e) eqn:Ev; [reflexivity|].
      destruct (beqs k V) eqn:E; [apply beqs_eq in E; subst; congruence|reflexivity].
    + destruct (beqs k V) eqn:E.
      * apply beqs_eq in E. subst k. rewrite env_get_set_same, Ek. reflexivity.
      * rewrite env_get_set_other by (destruct (beqs V k) eqn:E2; [apply beqs_eq in E2; subst; rewrite beqs_refl in E; discriminate|reflexivity]).
        reflexivity.
Qed.
Lemma set_defaults_get V e : env_get V (set_defaults e) = match env_get V e with Some v => Some v | None => default_of V end.
Proof. unfold set_defaults, default_of. apply set_defaults_get_gen. Qed.

(* C12: command line over config file over environment over default, per variable, for every input *)
Definition first_some (l : list (option (list N))) : option (list N) :=
  fold_right (fun o acc => match o with Some v => Some v | None => acc end) None l.
Theorem C12_precedence V e file args :
  env_get V (setup e file args) =
  first_some [cli_last V args; match file with Some c => file_last V c | None => None end; env_get V e; default_of V].
Proof.
  unfold setup, first_some. cbn [fold_right]. rewrite cli_parse_get.
  destruct (cli_last V args); [reflexivity|].
  destruct file as [c|].
  - rewrite read_config_get. destruct (file_last V c); [reflexivity|]. rewrite set_defaults_get. destruct (env_get V e); [reflexivity|]. destruct (default_of V); reflexivity.
  - rewrite set_defaults_get. destruct (env_get V e); [reflexivity|]. destruct (default_of V); reflexivity.
Qed.
(* independence is immediate from the statement: the right-hand side mentions only what the sources say about V *)

(* every flag spelling of the table reaches its variable; every variable has a default *)
Example flags_reach : forallb (fun f => let '(s, l, v) := f in oeqb (flag_var (45 :: s)) v && oeqb (flag_var ([45;45] ++ l)) v) flag_table = true.
Proof. vm_compute. reflexivity. Qed.
Example all_have_defaults : forallb (fun f => let '(_, _, v) := f in match default_of v with Some _ => true | None => false end) flag_table = true.
Proof. vm_compute. reflexivity. Qed.
Print Assumptions C12_precedence.
