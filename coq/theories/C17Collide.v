(* C17 — field lists whose names COLLIDE: the query parser keeps one entry per name and the LAST submitted value wins.  Drops the
   distinct-names hypothesis of C17Map: for every non-empty list of fields outside the listed class C17-F1 (names may repeat), looking a
   name up in what the parser returns gives the value of the last field submitted under that name, and nothing for a name never
   submitted; the returned list holds every name once. *)
From Coq Require Import Arith.
From Rws Require Import Str Utf8 Num Request GenCodec Forms StrLemmas TrimLemmas Sweep C03Proof C17Proof C17Round C17General C17Map.
Open Scope N_scope.

Fixpoint lookup (k : list N) (m : list (list N * list N)) : option (list N) :=
  match m with
  | [] => None
  | (k', v') :: r => if beqs k k' then Some v' else lookup k r
  end.
(* the value of the last field of the submitted list that carries the name *)
Definition last_value (k : list N) (m : list (list N * list N)) : option (list N) := lookup k (rev m).
Definition ins (acc : list (list N * list N)) (kv : list N * list N) := insert (fst kv) (snd kv) acc.

Lemma beqs_sym a b : beqs a b = beqs b a.
Proof.
  destruct (beqs a b) eqn:E1, (beqs b a) eqn:E2; try reflexivity.
  - apply beqs_eq in E1. subst. rewrite beqs_refl in E2. discriminate.
  - apply beqs_eq in E2. subst. rewrite beqs_refl in E1. discriminate.
Qed.

Lemma lookup_insert k k' v acc : lookup k (insert k' v acc) = if beqs k k' then Some v else lookup k acc.
Proof.
  induction acc as [|[k0 v0] acc IH]; [reflexivity|].
  cbn [insert]. destruct (beqs k' k0) eqn:E0.
  - apply beqs_eq in E0. subst k0. cbn [lookup]. destruct (beqs k k'); reflexivity.
  - cbn [lookup]. rewrite IH. destruct (beqs k k0) eqn:E1; [|reflexivity].
    apply beqs_eq in E1. subst k0. rewrite beqs_sym, E0. reflexivity.
Qed.

Lemma lookup_snoc k l kv : lookup k (l ++ [kv]) = match lookup k l with Some v => Some v | None => if beqs k (fst kv) then Some (snd kv) else None end.
Proof.
  induction l as [|[k0 v0] l IH]; [destruct kv; reflexivity|].
  cbn [app lookup]. destruct (beqs k k0); [reflexivity|exact IH].
Qed.

Lemma lookup_fold k : forall m acc,
  lookup k (fold_left ins m acc) = match last_value k m with Some v => Some v | None => lookup k acc end.
Proof.
  unfold last_value. induction m as [|kv m IH]; intro acc; [reflexivity|].
  cbn [fold_left rev]. rewrite IH. rewrite lookup_snoc. unfold ins at 1. rewrite lookup_insert.
  destruct (lookup k (rev m)); [reflexivity|]. destruct (beqs k (fst kv)); reflexivity.
Qed.

(* every name once: insert keeps the keys of the accumulator distinct *)
Lemma existsb_insert k k' v acc :
  existsb (fun kv => beqs (fst kv) k) (insert k' v acc) = orb (beqs k' k) (existsb (fun kv => beqs (fst kv) k) acc).
Proof.
  induction acc as [|[k0 v0] acc IH]; [cbn [insert existsb fst]; reflexivity|].
  cbn [insert]. destruct (beqs k' k0) eqn:E0.
  - apply beqs_eq in E0. subst k0. cbn [existsb fst]. destruct (beqs k' k); reflexivity.
  - cbn [existsb fst]. rewrite IH. destruct (beqs k0 k), (beqs k' k); reflexivity.
Qed.
Lemma insert_distinct k v acc : distinct_keys acc = true -> distinct_keys (insert k v acc) = true.
Proof.
  induction acc as [|[k0 v0] acc IH]; intro H; [reflexivity|].
  cbn [distinct_keys fst] in H. apply andb_prop in H as [H1 H2].
  cbn [insert]. destruct (beqs k k0) eqn:E0.
  - apply beqs_eq in E0. subst k0. cbn [distinct_keys fst]. rewrite H1, H2. reflexivity.
  - cbn [distinct_keys fst]. rewrite IH by exact H2. rewrite existsb_insert. rewrite E0. cbn [orb]. rewrite H1. reflexivity.
Qed.
Lemma fold_distinct : forall m acc, distinct_keys acc = true -> distinct_keys (fold_left ins m acc) = true.
Proof. induction m as [|kv m IH]; intros acc H; [exact H|]. cbn [fold_left]. apply IH. apply insert_distinct. exact H. Qed.

(* the parser on the built text is the fold of insert over the submitted fields *)
Lemma fold_fields_any : forall m acc, Forall field_ok m -> fold_left qstep (map enc_pair m) acc = fold_left ins m acc.
Proof.
  induction m as [|kv m IH]; intros acc Hf; [reflexivity|].
  inversion Hf as [|? ? Hkv Hf']; subst. cbn [map fold_left]. rewrite (pair_step kv acc Hkv). apply IH. exact Hf'.
Qed.

Theorem query_is_fold m : m <> [] -> Forall field_ok m -> parse_query (build_query m) = fold_left ins m [].
Proof.
  intros Hne Hf. rewrite parse_query_unfold. unfold build_query.
  assert (H61 : In 61 (join_with 38 (map enc_pair m))).
  { destruct m as [|kv m]; [contradiction|]. cbn [map]. destruct (map enc_pair m) eqn:Em.
    - cbn [join_with]. unfold enc_pair. apply in_or_app. right. left. reflexivity.
    - change (join_with 38 (enc_pair kv :: l :: l0)) with (enc_pair kv ++ 38 :: join_with 38 (l :: l0)). apply in_or_app. left. unfold enc_pair. apply in_or_app. right. left. reflexivity. }
  rewrite (has_eq_not_blank _ H61).
  rewrite split_join.
  - apply fold_fields_any. exact Hf.
  - destruct m; [contradiction|discriminate].
  - apply Forall_forall. intros p Hi. apply in_map_iff in Hi as (kv & <- & Hi). pose proof (proj1 (Forall_forall _ _) Hf kv Hi) as (Hk & Hv & _).
    unfold enc_pair. intro X. apply in_app_or in X as [X|X]; [exact (proj1 (enc_clean _ Hk) X)|].
    cbn [app In] in X. destruct X as [X|X]; [discriminate|exact (proj1 (enc_clean _ Hv) X)].
Qed.

Definition fields_ok (m : list (list N * list N)) : bool :=
  match m with [] => false | _ => forallb field_ok_b m end.

Theorem last_value_wins m : fields_ok m = true ->
  (forall k, lookup k (parse_query (build_query m)) = last_value k m) /\ distinct_keys (parse_query (build_query m)) = true /\
  (form_text_ok (build_query m) = true -> form_urlencoded_parse (build_query m) = Some (parse_query (build_query m))).
Proof.
  intro H. unfold fields_ok in H. destruct m as [|kv m]; [discriminate|].
  assert (Hf : Forall field_ok (kv :: m)).
  { apply Forall_forall. intros x Hi. apply field_ok_b_ok. exact (proj1 (forallb_forall _ _) H x Hi). }
  assert (Hq : parse_query (build_query (kv :: m)) = fold_left ins (kv :: m) []) by (apply query_is_fold; [discriminate|exact Hf]).
  split; [|split].
  - intro k. rewrite Hq. rewrite lookup_fold. destruct (last_value k (kv :: m)); reflexivity.
  - rewrite Hq. apply fold_distinct. reflexivity.
  - intro Ht. unfold form_text_ok in Ht. apply andb_prop in Ht as [Hu Hc]. apply beqs_eq in Hc.
    unfold form_urlencoded_parse. rewrite Hu, Hc. reflexivity.
Qed.

(* inhabited: one name three times with another in between; the last value is returned, the other name keeps its own, an absent name
   gives nothing, and the returned list has two entries *)
Example last_value_example :
  let m := [([107], [49]); ([120], [37;52;49]); ([107], [50]); ([107], [])] in
  fields_ok m = true /\ map_ok m = false /\ last_value [107] m = Some [] /\ last_value [120] m = Some [37;52;49] /\ last_value [121] m = None /\
  length (parse_query (build_query m)) = 2%nat.
Proof. vm_compute. repeat split. Qed.
