(* Model of Response::parse (src/response/mod.rs) and Range::parse_multipart_body_with_boundary (src/range/mod.rs) *)
From Rws Require Import Str Utf8 Num Unicase Fs UrlParse RangeSpec Request GenMime Mime StaticRes GenConsts Forms Server.
Open Scope N_scope.

Record presp := mkPresp { pr_version : list N; pr_status : N; pr_reason : list N; pr_headers : list header;
                          pr_ranges : list (N * N * list N * list N * list N) }.   (* start, end, size text, body, content type *)
Inductive rpres (A : Type) := POk (a : A) | PErr | PPanicCL | PPanicIdx.
Arguments POk {A}. Arguments PErr {A}. Arguments PPanicCL {A}. Arguments PPanicIdx {A}.

(* str::parse::<iN>(): optional sign; "-0" is the integer 0, so the sign flag is set only for a non-zero magnitude *)
Definition parse_signed (bound : N) (s : list N) : option (bool * N) :=     (* (negative?, magnitude) *)
  let '(neg, body) := match s with 45 :: r => (true, r) | 43 :: r => (false, r) | _ => (false, s) end in
  match body with [] => None | _ =>
  match digits_val 0 body with
  | Some v => if neg then (if N.leb v bound then Some (negb (N.eqb v 0), v) else None) else (if N.ltb v bound then Some (false, v) else None)
  | None => None end end.
Definition parse_i16 := parse_signed (2 ^ 15).
Definition parse_i64 := parse_signed (2 ^ 63).

Definition parse_status_line (line : list N) : option (list N * N * list N) :=
  let t := truncate_nl_cr line in
  match split_once t [32] with
  | None => None
  | Some (v, rest) =>
    if negb (mem (uupper v) version_list) then None else
    match split_once rest [32] with
    | None => None
    | Some (code, rsn) =>
      match parse_i16 code with
      | Some (false, c) =>
        match find (fun p => N.eqb (fst p) c) status_table with
        | Some p => if beqs (uupper (snd p)) (uupper rsn) then Some (v, c, rsn) else None
        | None => None end
      | _ => None            (* negative codes are never in the table *)
      end
    end
  end.

Definition parse_resp_header (line : list N) : option header :=
  match split_once line COLON_SP with Some (n, v) => Some (mkH n (truncate_nl_cr v)) | None => None end.

(* Content-Range value: "bytes S-E/T" *)
Definition signed_le (a b' : bool * N) : bool :=
  match a, b' with
  | (false, x), (false, y) => N.leb x y
  | (true, x), (true, y) => N.leb y x
  | (true, _), (false, _) => true
  | (false, _), (true, _) => false
  end.
Definition parse_cr_value (v : list N) : option ((bool * N) * (bool * N) * (bool * N)) :=
  let l := ulower (trim v) in
  match split_once l [32] with
  | None => None
  | Some (u, rest) =>
    if negb (beqs u Rg_BYTES) then None else
    match split_once rest [45] with
    | None => None
    | Some (s, rest2) =>
      match parse_i64 s with None => None | Some st =>
      match split_once rest2 [47] with
      | None => None
      | Some (e, z) =>
        match parse_i64 e, parse_i64 z with
        | Some en, Some sz => if signed_le st en && signed_le st sz && signed_le en sz then Some (st, en, sz) else None
        | _, _ => None end
      end end
    end
  end.
Definition to_u64 (x : bool * N) : N := if fst x then (2 ^ 64 - snd x) mod 2 ^ 64 else snd x.
Fixpoint show_pos' (fuel : nat) (n : N) (acc : list N) : list N :=
  match fuel with O => acc | S f => if N.eqb n 0 then acc else show_pos' f (n / 10) ((48 + n mod 10) :: acc) end.
Definition show_signed (x : bool * N) : list N :=
  (if fst x && negb (N.eqb (snd x) 0) then [45] else []) ++ (if N.eqb (snd x) 0 then [48] else show_pos' 80 (snd x) []).

Definition CT_NAME := Hd_CONTENT_TYPE.
Definition CR_NAME := Hd_CONTENT_RANGE.
Definition pop2 (b : list N) : list N := rev (skipn 2 (rev b)).

(* body lines of one part, up to a line containing the boundary *)
Fixpoint part_body (fuel : nat) (bd : list N) (rest acc : list N) : option (list N * list N) :=
  match fuel with O => None | S f =>
  match rest with
  | [] => if contains [] bd then Some (acc, []) else None  (* offset == 0: the empty line holds the boundary only when the boundary is empty; else end of stream without boundary *)
  | _ => let (line, rest') := split_line rest in
         if negb (utf8_valid line) then part_body f bd rest' (acc ++ line)
         else if contains line bd then Some (acc, rest')
         else part_body f bd rest' (acc ++ line)
  end end.

Fixpoint mp_loop (fuel : nat) (bd : list N) (rest : list N) (opened : bool)
         (acc : list (N * N * list N * list N * list N)) : rpres (list (N * N * list N * list N * list N)) :=
  match fuel with O => PErr | S f =>
  match rest with [] => POk acc | _ =>
  let (l0, r0) := split_line rest in
  if negb (utf8_valid l0) then PErr else
  if negb (beqs (trim l0) []) && negb opened && negb (contains l0 bd) then PErr else
  let is_b := contains l0 bd in
  let opened' := opened || is_b in
  (* after a boundary line: read the next line *)
  let step1 := if is_b then (let (l, r) := split_line r0 in if utf8_valid l then Some (l, r) else None) else Some (l0, r0) in
  match step1 with None => PErr | Some (l1, r1) =>
  (* Content-Type *)
  let step2 := if starts_with l1 CT_NAME then
                 match parse_resp_header l1 with
                 | None => None
                 | Some h => let (l, r) := split_line r1 in if utf8_valid l then Some (trim (hvalue h), l, r) else None
                 end
               else Some ([], l1, r1) in
  match step2 with None => PErr | Some (ctype, l2, r2) =>
  if starts_with l2 CR_NAME then
    match split l2 COLON_SP with
    | _ :: v :: _ =>
      match parse_cr_value (truncate_nl_cr v) with
      | None => PErr
      | Some (st, en, sz) =>
        let (l3, r3) := split_line r2 in
        if negb (utf8_valid l3) then PErr else
        if negb (beqs (trim l3) []) then PErr else
        match ctype with
        | [] => mp_loop f bd r3 opened' acc           (* no content type: the part is skipped, parsing continues *)
        | _ =>
          match part_body (S (length r3)) bd r3 [] with
          | None => PErr
          | Some (b, r4) => mp_loop f bd r4 opened' (acc ++ [(to_u64 st, to_u64 en, show_signed sz, pop2 b, ctype)])
          end
        end
      end
    | _ => PErr                  (* fix 6a8176b: no ": " on the line gives the empty value, which is not a content range (was header_parts[1]) *)
    end
  else mp_loop f bd r2 opened' acc
  end end end end.

(* ---- Range::parse_multipart_body: the older reader with the fixed separator "--String_separator" (a public entry point; the
   server's own parser is mp_loop above) ---- *)
Definition SEPD : list N := [45; 45] ++ Rg_STRING_SEPARATOR.
(* body lines after the first one: read until a line that starts with the separator; the end of the input before that is an error *)
Fixpoint rmp_body (fuel : nat) (rest acc : list N) : option (list N * list N) :=
  match fuel with O => None | S f =>
  match rest with
  | [] => None
  | _ => let (line, rest') := split_line rest in
         if starts_with line SEPD then Some (acc, rest') else rmp_body f rest' (acc ++ line)
  end end.
Fixpoint rmp_loop (fuel : nat) (rest : list N) (acc : list (N * N * list N * list N * list N)) : rpres (list (N * N * list N * list N * list N)) :=
  match fuel with O => PErr | S f =>
  let (l0, r0) := split_line rest in
  if negb (utf8_valid l0) then PErr else
  match l0 with [] => POk acc | _ =>                                   (* nothing left to read: the list so far *)
  let step1 := if starts_with l0 SEPD then (let (l, r) := split_line r0 in if utf8_valid l then Some (l, r) else None) else Some (l0, r0) in
  match step1 with None => PErr | Some (l1, r1) =>
  let step2 := if starts_with l1 CT_NAME then
                 match parse_resp_header l1 with
                 | None => None
                 | Some h => let (l, r) := split_line r1 in if utf8_valid l then Some (trim (hvalue h), l, r) else None
                 end
               else Some ([], l1, r1) in
  match step2 with None => PErr | Some (ctype, l2, r2) =>
  (* Content-Range, read with the unwrapping twin of the header splitter: a line without ": " has the empty value *)
  let step3 := if starts_with l2 CR_NAME then
                 let v := match split l2 COLON_SP with _ :: v :: _ => v | _ => [] end in
                 match parse_cr_value (truncate_nl_cr v) with
                 | None => None
                 | Some cr =>
                   let (l3, r3) := split_line r2 in
                   if negb (utf8_valid l3) then None else if negb (beqs (trim l3) []) then None else
                   let (l4, r4) := split_line r3 in
                   if negb (utf8_valid l4) then None else Some (Some cr, l4, r4)
                 end
               else Some (None, l2, r2) in
  match step3 with None => PErr | Some (cr, l5, r5) =>
  match cr, ctype with
  | Some (st, en, sz), _ :: _ =>
    (* the body starts with the line just read; further lines are appended until one starts with the separator *)
    match (if starts_with l5 SEPD then Some (l5, r5) else rmp_body (S (length r5)) r5 l5) with
    | None => PErr
    | Some (b, r6) => rmp_loop f r6 (acc ++ [(to_u64 st, to_u64 en, show_signed sz, pop2 b, ctype)])
    end
  | _, _ => rmp_loop f r5 acc
  end end end end end end.
Definition rmp_parse (input : list N) := rmp_loop (S (length input)) input [].

Definition OCTET : list N := Mt_APPLICATION_OCTET_STREAM.
Definition MULTIPART_BYTERANGES : list N := Rg_MULTIPART ++ [47] ++ Rg_BYTERANGES.
Fixpoint resp_headers (fuel : nat) (rest : list N) (hs : list header) : rpres (list header * list N) :=
  match fuel with O => PErr | S f =>
  let (line, rest') := split_line rest in
  if negb (utf8_valid line) then PErr else
  if beqs (trim line) [] then POk (hs, rest') else
  match parse_resp_header line with
  | None => PErr
  | Some h =>
    if beqs (hname h) Hd_CONTENT_LENGTH && match parse_usize (hvalue h) with None => true | Some _ => false end then PErr     (* fix 9d21363: was an unwrap panic *)
    else resp_headers f rest' (hs ++ [h])
  end end.

(* a response that is not multipart: one part; its range comes from the Content-Range header when there is one (fix 5f94c65),
   else it is 0-len/len *)
Definition single_part (v : list N) (c : N) (rsn : list N) (hs : list header) (body t : list N) : rpres presp :=
  let L := N.of_nat (length body) in
  match find (fun h => beqs (hname h) CR_NAME) hs with
  | None => POk (mkPresp v c rsn hs [(0, L, show_N L, body, t)])
  | Some h => match parse_cr_value (hvalue h) with
              | None => PErr
              | Some (st, en, sz) => POk (mkPresp v c rsn hs [(to_u64 st, to_u64 en, show_signed sz, body, t)])
              end
  end.
Definition response_parse (input : list N) : rpres presp :=
  let (line, rest) := split_line input in
  if negb (utf8_valid line) then PErr else
  match parse_status_line line with
  | None => PErr
  | Some (v, c, rsn) =>
    if beqs (trim line) [] then PErr else
    match resp_headers (S (length rest)) rest [] with
    | PErr => PErr | PPanicCL => PPanicCL | PPanicIdx => PPanicIdx
    | POk (hs, body) =>
      let ct := match find (fun h => beqs (hname h) CT_NAME) hs with Some h => Some (hvalue h) | None => None end in
      match ct with
      | Some t =>
        if starts_with t MULTIPART_BYTERANGES then
          match extract_boundary t with
          | None => PErr
          | Some bd => match mp_loop (S (length body)) bd body false [] with
                       | POk rs => POk (mkPresp v c rsn hs rs) | PErr => PErr | PPanicCL => PPanicCL | PPanicIdx => PPanicIdx end
          end
        else single_part v c rsn hs body t
      | None => single_part v c rsn hs body OCTET
      end
    end
  end.

(* ---- the two serialisers on library-level response values (presp): Response::generate_response (associated fn, used by
   the server) and Response::generate (instance method).  They differ for a single part: the instance method pushes the
   Content-Type header onto self instead of onto the copy it serialises (C15-F2; pinned by response::example::build). ---- *)
Definition pr_start (p : N * N * list N * list N * list N) := fst (fst (fst (fst p))).
Definition pr_end (p : N * N * list N * list N * list N) := snd (fst (fst (fst p))).
Definition pr_size (p : N * N * list N * list N * list N) := snd (fst (fst p)).
Definition pr_body (p : N * N * list N * list N * list N) := snd (fst p).
Definition pr_type (p : N * N * list N * list N * list N) := snd p.
Definition cr_text (p : N * N * list N * list N * list N) : list N :=
  Rg_BYTES ++ [32] ++ show_N (pr_start p) ++ [45] ++ show_N (pr_end p) ++ [47] ++ pr_size p.
Definition lib_part (first : bool) (p : N * N * list N * list N * list N) : list N :=
  (if first then [] else CRLF) ++ SEP_LINE ++ CRLF ++
  Hd_CONTENT_TYPE ++ COLON_SP ++ [32] ++ pr_type p ++ CRLF ++
  Hd_CONTENT_RANGE ++ COLON_SP ++ [32] ++ cr_text p ++ CRLF ++ CRLF ++ pr_body p.
Definition lib_body (l : list (N * N * list N * list N * list N)) : list N :=
  match l with
  | [] => []
  | [p] => pr_body p
  | p0 :: rest => lib_part true p0 ++ flat_map (lib_part false) rest ++ CRLF ++ SEP_LINE
  end.
Definition lib_derived (inst : bool) (l : list (N * N * list N * list N * list N)) : list header :=
  match l with
  | [] => []
  | [p] => (if inst then [] else [mkH Hd_CONTENT_TYPE (pr_type p)]) ++
           [mkH Hd_CONTENT_RANGE (cr_text p); mkH Hd_CONTENT_LENGTH (show_N (N.of_nat (length (pr_body p))))]
  | _ => [mkH Hd_CONTENT_TYPE Rg_MULTIPART_BYTERANGES_CONTENT_TYPE]
  end.
Definition lib_generate (inst : bool) (r : presp) : list N :=
  pr_version r ++ [32] ++ show_N (pr_status r) ++ [32] ++ pr_reason r ++ CRLF ++
  flat_map gen_header (pr_headers r ++ lib_derived inst (pr_ranges r)) ++ CRLF ++ lib_body (pr_ranges r).
