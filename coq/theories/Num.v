From Rws Require Import Str.
Open Scope N_scope.
Definition is_digit (c : byte) : bool := N.leb 48 c && N.leb c 57.
Fixpoint digits_val (acc : N) (s : bytes) : option N :=
  match s with
  | [] => Some acc
  | c :: r => if is_digit c then digits_val (acc * 10 + (c - 48)) r else None
  end.
(* str::parse::<uN>(): optional '+', at least one digit, no overflow *)
Definition parse_unsigned (bound : N) (s : bytes) : option N :=
  let body := match s with 43 :: r => r | _ => s end in
  match body with
  | [] => None
  | _ => match digits_val 0 body with Some v => if N.ltb v bound then Some v else None | None => None end
  end.
Definition parse_u64 := parse_unsigned (2 ^ 64).
Definition parse_usize := parse_unsigned (2 ^ 64).
