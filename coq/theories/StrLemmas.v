From Rws Require Import Str.
Open Scope N_scope.

(* ---------- split_line ---------- *)
Lemma split_line_nolf l r : ~ In 10 l -> split_line (l ++ 10 :: r) = (l ++ [10], r).
Proof.
  induction l as [|c l IH]; simpl; intro H.
  - reflexivity.
  - destruct (N.eqb_spec c 10) as [->|Hc]; [exfalso; apply H; auto|].
    rewrite IH by (intro; apply H; auto). reflexivity.
Qed.

(* ---------- split_once with a one-byte pattern ---------- *)
Lemma split_once_aux_1 c a r acc : ~ In c a ->
  split_once_aux [c] (a ++ c :: r) acc = Some (rev acc ++ a, r).
Proof.
  revert acc; induction a as [|x a IH]; intros acc H; simpl.
  - rewrite N.eqb_refl. simpl. rewrite app_nil_r. reflexivity.
  - destruct (N.eqb_spec c x) as [->|Hx]; [exfalso; apply H; simpl; auto|].
    simpl. rewrite IH by (intro; apply H; simpl; auto). simpl. rewrite <- app_assoc. reflexivity.
Qed.
Lemma split_once_1 c a r : ~ In c a -> split_once (a ++ c :: r) [c] = Some (a, r).
Proof. intro H. unfold split_once. rewrite split_once_aux_1 by assumption. reflexivity. Qed.

(* ---------- split with the pattern ": " ---------- *)
Lemma split_aux_skip pat k cur t r : length t = k -> split_aux pat k cur (t ++ r) = split_aux pat O cur r.
Proof. revert k; induction t as [|x t IH]; intros k H; simpl in *; subst; auto. Qed.

Lemma split_aux_match pat cur r : pat <> [] ->
  split_aux pat O cur (pat ++ r) = rev cur :: split_aux pat O [] r.
Proof.
  destruct pat as [|a p]; [congruence|]. intros _.
  change ((a :: p) ++ r) with (a :: (p ++ r)). cbn [split_aux].
  change (a :: p ++ r) with ((a :: p) ++ r). rewrite prefixb_app.
  simpl length. simpl Nat.pred. rewrite split_aux_skip by reflexivity. reflexivity.
Qed.
Lemma split_aux_nomatch pat cur c s : prefixb pat (c :: s) = false ->
  split_aux pat O cur (c :: s) = split_aux pat O (c :: cur) s.
Proof. intro H. cbn [split_aux]. rewrite H. reflexivity. Qed.

Lemma split_aux_colon n rest cur : ~ In 58 n ->
  split_aux COLON_SP O cur (n ++ COLON_SP ++ rest) = (rev cur ++ n) :: split_aux COLON_SP O [] rest.
Proof.
  revert cur; induction n as [|x n IH]; intros cur H.
  - change ([] ++ COLON_SP ++ rest) with (COLON_SP ++ rest). rewrite split_aux_match by (unfold COLON_SP; congruence). rewrite app_nil_r. reflexivity.
  - change ((x :: n) ++ COLON_SP ++ rest) with (x :: (n ++ COLON_SP ++ rest)). rewrite split_aux_nomatch.
    + rewrite IH by (intro; apply H; simpl; auto). simpl. rewrite <- app_assoc. reflexivity.
    + unfold COLON_SP. cbn [prefixb]. destruct (N.eqb_spec 58 x) as [E|E]; [exfalso; apply H; simpl; auto|reflexivity].
Qed.
Lemma split_colon n rest : ~ In 58 n -> split (n ++ COLON_SP ++ rest) COLON_SP = n :: split rest COLON_SP.
Proof. intro H. unfold split. rewrite split_aux_colon by assumption. reflexivity. Qed.

Lemma split_aux_nonempty pat k cur s : split_aux pat k cur s <> [].
Proof. revert k cur; induction s as [|c s IH]; intros k cur; simpl; [congruence|].
  destruct k; [destruct (prefixb pat (c :: s)); [congruence|apply IH]|apply IH]. Qed.
Definition first_piece (s : bytes) : bytes := hd [] (split s COLON_SP).

(* ---------- remove_byte / truncate ---------- *)
Lemma remove_byte_notin c s : ~ In c s -> remove_byte c s = s.
Proof. induction s as [|x s IH]; simpl; auto. intro H.
  destruct (N.eqb_spec x c) as [->|E]; [exfalso; apply H; auto|]. simpl. f_equal. apply IH. intro; apply H; auto. Qed.
Lemma remove_byte_app c a b' : remove_byte c (a ++ b') = remove_byte c a ++ remove_byte c b'.
Proof. unfold remove_byte. apply filter_app. Qed.
Lemma truncate_clean_crlf v : ~ In 13 v -> ~ In 10 v -> truncate_nl_cr (v ++ CRLF) = v.
Proof. intros H13 H10. unfold truncate_nl_cr. rewrite remove_byte_app.
  rewrite (remove_byte_notin 13 v) by assumption. simpl.
  rewrite remove_byte_app. rewrite (remove_byte_notin 10 v) by assumption. simpl. apply app_nil_r. Qed.
Lemma truncate_clean v : ~ In 13 v -> ~ In 10 v -> truncate_nl_cr v = v.
Proof. intros. unfold truncate_nl_cr. rewrite (remove_byte_notin 13), (remove_byte_notin 10); auto. Qed.
