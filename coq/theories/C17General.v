(* C17 — the round trip for EVERY byte string outside the listed class C17-F1 (a percent sign followed by one of the codes the decoder
   handles after percent-2-5).  The decoder chain is followed step by step on the text seen as one token per original character. *)
From Coq Require Import Arith.
From Rws Require Import Str Utf8 Num Request GenCodec Forms StrLemmas Sweep C17Proof C17Round.
Open Scope N_scope.

(* ---------- tokens: what each original character currently looks like in the text ---------- *)
(* g c is the character itself, or a percent code of two non-percent characters *)
Definition gshape1 (g : N -> list N) (c : N) : Prop :=
  g c = [c] \/ exists a' b', g c = [37; a'; b'] /\ a' <> 37 /\ b' <> 37.
Definition gshape1_b (g : N -> list N) (c : N) : bool :=
  beqs (g c) [c] || match g c with [p0; a'; b'] => N.eqb p0 37 && negb (N.eqb a' 37) && negb (N.eqb b' 37) | _ => false end.
Lemma gshape1_b_ok g c : gshape1_b g c = true -> gshape1 g c.
Proof.
  unfold gshape1_b, gshape1. intro H. apply orb_prop in H as [H | H]; [left; apply beqs_eq; exact H|].
  destruct (g c) as [|p0 [|a' [|b' [|? ?]]]]; try discriminate.
  apply andb_prop in H as [H Hb]. apply andb_prop in H as [H0 Ha]. apply N.eqb_eq in H0. subst p0.
  apply negb_true_iff in Ha, Hb. apply N.eqb_neq in Ha, Hb. right. exists a', b'. auto.
Qed.
(* one decoder step seen on tokens *)
Definition upd (g : N -> list N) (pr : list N * list N) : N -> list N := fun c => let t := g c in if beqs t (fst pr) then snd pr else t.
Lemma prefixb_cons x p y s : prefixb (x :: p) (y :: s) = N.eqb x y && prefixb p s.
Proof. reflexivity. Qed.
Lemma step_g g a b r : a <> 37 -> b <> 37 -> forall s, (forall c, In c s -> gshape1 g c) -> (g 37 = [37] -> has_pat a b s = false) ->
  repl_aux [37; a; b] [r] 0 (concat (map g s)) = concat (map (upd g ([37; a; b], [r])) s).
Proof.
  intros Ha Hb. induction s as [|c s IH]; intros Hsh Hraw; [reflexivity|].
  assert (Hsh' : forall c0, In c0 s -> gshape1 g c0) by (intros c0 Hi; apply Hsh; right; exact Hi).
  assert (Hraw' : g 37 = [37] -> has_pat a b s = false).
  { intro E. specialize (Hraw E). cbn [has_pat] in Hraw. apply orb_false_iff in Hraw. apply Hraw. }
  specialize (IH Hsh' Hraw'). cbn [map concat]. unfold upd at 1. cbn [fst snd].
  destruct (Hsh c (or_introl eq_refl)) as [E | (a' & b' & E & Ha' & Hb')]; rewrite E.
  - (* the character itself *)
    replace (beqs [c] [37; a; b]) with false by (cbn [beqs]; destruct (N.eqb c 37); reflexivity).
    cbn [app]. destruct (N.eqb_spec c 37) as [-> | Hc].
    + (* a raw percent sign: the next two characters are not a, b *)
      specialize (Hraw E). cbn [has_pat] in Hraw. apply orb_false_iff in Hraw as [Hlook _]. change (N.eqb 37 37) with true in Hlook. cbn [andb] in Hlook.
      assert (Hp : prefixb [a; b] (concat (map g s)) = false).
      { destruct s as [|c1 s1]; [reflexivity|]. cbn [map concat].
        destruct (Hsh c1 (or_intror (or_introl eq_refl))) as [E1 | (a1 & b1 & E1 & _ & _)]; rewrite E1; cbn [app prefixb].
        - destruct (N.eqb_spec a c1) as [<- | Hn]; [|reflexivity]. cbn [andb].
          destruct s1 as [|c2 s2]; [reflexivity|]. cbn [map concat].
          destruct (Hsh c2 (or_intror (or_intror (or_introl eq_refl)))) as [E2 | (a2 & b2 & E2 & _ & _)]; rewrite E2; cbn [app prefixb].
          + rewrite N.eqb_refl in Hlook. cbn [andb] in Hlook. rewrite (N.eqb_sym b c2), Hlook. reflexivity.
          + replace (N.eqb b 37) with false by (symmetry; apply N.eqb_neq; exact Hb). reflexivity.
        - replace (N.eqb a 37) with false by (symmetry; apply N.eqb_neq; exact Ha). reflexivity. }
      cbn [repl_aux]. rewrite prefixb_cons. change (N.eqb 37 37) with true. cbn [andb]. rewrite Hp. rewrite IH. reflexivity.
    + cbn [repl_aux prefixb]. replace (N.eqb 37 c) with false by (symmetry; apply N.eqb_neq; intro X; apply Hc; symmetry; exact X). cbn [andb]. rewrite IH. reflexivity.
  - (* a percent code *)
    cbn [app beqs]. change (N.eqb 37 37) with true. cbn [andb]. rewrite andb_true_r.
    cbn [repl_aux prefixb length Nat.pred]. change (N.eqb 37 37) with true. cbn [andb]. rewrite andb_true_r.
    rewrite (N.eqb_sym a a'), (N.eqb_sym b b').
    destruct (N.eqb a' a && N.eqb b' b) eqn:Em.
    + cbn [app repl_aux]. rewrite IH. reflexivity.
    + cbn [repl_aux prefixb].
      replace (N.eqb 37 a') with false by (symmetry; apply N.eqb_neq; intro X; apply Ha'; symmetry; exact X). cbn [andb].
      replace (N.eqb 37 b') with false by (symmetry; apply N.eqb_neq; intro X; apply Hb'; symmetry; exact X). cbn [andb].
      rewrite IH. reflexivity.
Qed.

(* ---------- a whole chain ---------- *)
Definition step2 (pr : list N * list N) : bool :=
  match fst pr, snd pr with
  | [p0; a; b], [_] => N.eqb p0 37 && negb (N.eqb a 37) && negb (N.eqb b 37)
  | _, _ => false
  end.
Definition pat_in (pr : list N * list N) (s : list N) : bool :=
  match fst pr with [_; a; b] => has_pat a b s | _ => false end.
Fixpoint chain_pre (ch : list (list N * list N)) (g : N -> list N) (s : list N) : Prop :=
  match ch with
  | [] => True
  | pr :: ch' => (forall c, In c s -> gshape1 g c) /\ step2 pr = true /\ (g 37 = [37] -> pat_in pr s = false) /\ chain_pre ch' (upd g pr) s
  end.
Lemma chain_g : forall ch g s, chain_pre ch g s -> run_chain ch (concat (map g s)) = concat (map (fold_left upd ch g) s).
Proof.
  unfold run_chain. induction ch as [|pr ch IH]; intros g s Hp; [reflexivity|].
  cbn [chain_pre] in Hp. destruct Hp as (Hsh & Hs & Hraw & Hp). cbn [fold_left].
  destruct pr as [p r]. unfold step2 in Hs. cbn [fst snd] in Hs. unfold pat_in in Hraw. cbn [fst] in Hraw.
  destruct p as [|p0 [|a [|b [|? ?]]]]; try discriminate. destruct r as [|r0 [|? ?]]; try discriminate.
  apply andb_prop in Hs as [Hs Hb]. apply andb_prop in Hs as [H0 Ha]. apply N.eqb_eq in H0. subst p0.
  apply negb_true_iff in Ha, Hb. apply N.eqb_neq in Ha, Hb.
  cbn [fst snd]. unfold replace. rewrite (step_g g a b r0 Ha Hb s Hsh Hraw). apply IH. exact Hp.
Qed.

(* the same conditions, decidable: the shape of the tokens on all 256 characters at every step, and the steps at which the text holds a raw
   percent sign - those are the steps whose pattern must not occur in the original string *)
Fixpoint chain_pre_b (ch : list (list N * list N)) (g : N -> list N) : bool :=
  match ch with
  | [] => true
  | pr :: ch' => forallb (gshape1_b g) bytes256 && step2 pr && chain_pre_b ch' (upd g pr)
  end.
Fixpoint need (ch : list (list N * list N)) (g : N -> list N) : list (list N * list N) :=
  match ch with
  | [] => []
  | pr :: ch' => (if beqs (g 37) [37] then [pr] else []) ++ need ch' (upd g pr)
  end.
Lemma chain_pre_ok : forall ch g s, chain_pre_b ch g = true -> bytes_ok s -> forallb (fun pr => negb (pat_in pr s)) (need ch g) = true -> chain_pre ch g s.
Proof.
  induction ch as [|pr ch IH]; intros g s Hb Hs Hn; [exact I|].
  cbn [chain_pre_b] in Hb. apply andb_prop in Hb as [Hb Hrest]. apply andb_prop in Hb as [Hsh Hstep].
  cbn [need] in Hn. rewrite forallb_app in Hn. apply andb_prop in Hn as [Hn1 Hn2].
  cbn [chain_pre]. split; [|split; [exact Hstep|split]].
  - intros c Hi. apply gshape1_b_ok. apply (sweep1 _ Hsh). exact (proj1 (Forall_forall _ _) Hs c Hi).
  - intro E. apply beqs_eq in E. rewrite E in Hn1. cbn [forallb] in Hn1. rewrite andb_true_r in Hn1. apply negb_true_iff in Hn1. exact Hn1.
  - apply IH; assumption.
Qed.

(* ---------- the regenerated tables ---------- *)
Definition g0 : N -> list N := fun c => encode_uri [c].
Lemma dec_chain_pre : chain_pre_b dec_chain g0 = true.
Proof. vm_compute. reflexivity. Qed.
(* the text holds a raw percent sign exactly at the steps after percent-2-5: the late codes of C17Proof *)
Lemma dec_chain_need : map fst (need dec_chain g0) = late_codes.
Proof. vm_compute. reflexivity. Qed.
(* after the whole chain every character is itself again *)
Lemma dec_chain_final c : c < 256 -> fold_left upd dec_chain g0 c = [c].
Proof. intro Hc. apply beqs_eq. revert c Hc. apply sweep1. vm_compute. reflexivity. Qed.

Theorem round_trip_outside_F1 s : bytes_ok s -> in_F1 s = false -> decode_uri (encode_uri s) = s.
Proof.
  intros Hb HF. rewrite encode_charwise, flat_map_concat_map. change (fun c => encode_uri [c]) with g0.
  unfold decode_uri. rewrite chain_g.
  - rewrite <- (map_id s) at 2. rewrite <- flat_map_concat_map.
    induction s as [|c s IH]; [reflexivity|]. inversion Hb as [|? ? Hc Hb']; subst. cbn [flat_map map].
    rewrite (dec_chain_final c Hc). cbn [app]. f_equal. apply IH. exact Hb'.
    unfold in_F1 in *. apply not_true_is_false. intro X. apply existsb_exists in X as (code & Hi & Hx).
    assert (Y : existsb (fun code => match code with [_; a; b] => has_pat a b (c :: s) | _ => false end) late_codes = true).
    { apply existsb_exists. exists code. split; [exact Hi|]. destruct code as [|? [|a [|b [|? ?]]]]; try discriminate. cbn [has_pat]. rewrite Hx. apply orb_true_r. }
    rewrite Y in HF. discriminate.
  - apply chain_pre_ok; [exact dec_chain_pre|exact Hb|].
    apply forallb_forall. intros pr Hi. apply negb_true_iff. apply not_true_is_false. intro X.
    assert (Y : in_F1 s = true).
    { unfold in_F1. apply existsb_exists. exists (fst pr). split; [rewrite <- dec_chain_need; apply in_map; exact Hi|]. unfold pat_in in X. exact X. }
    rewrite Y in HF. discriminate.
Qed.

(* the class is exactly where the round trip fails for the shortest strings: each late code is in the class and does not round-trip;
   the theorem's domain contains the percent-free strings and more *)
Lemma F1_inhabited_and_sharp :
  forallb in_F1 late_codes = true /\ forallb (fun c => negb (roundtrips c)) late_codes = true /\
  in_F1 [37] = false /\ in_F1 [37; 37; 50; 48] = false /\ in_F1 [37; 50; 53] = false /\ in_F1 [97; 37; 52; 49; 37] = false /\ in_F1 [37; 37; 50; 54] = true.
Proof. vm_compute. repeat split. Qed.
Lemma percent_free_outside_F1 s : ~ In 37 s -> in_F1 s = false.
Proof.
  intro H. unfold in_F1. apply not_true_is_false. intro X. apply existsb_exists in X as (code & _ & Hx).
  destruct code as [|? [|a [|b [|? ?]]]]; try discriminate.
  assert (G : forall t, ~ In 37 t -> has_pat a b t = false).
  { induction t as [|c t IHt]; intro Ht; [reflexivity|]. cbn [has_pat]. rewrite IHt by (intro Hi; apply Ht; right; exact Hi).
    replace (N.eqb c 37) with false by (symmetry; apply N.eqb_neq; intro E; apply Ht; left; exact E). reflexivity. }
  rewrite (G s H) in Hx. discriminate.
Qed.
