From Rws Require Import Str.
Open Scope N_scope.
Definition inrg (lo hi b : N) : bool := N.leb lo b && N.leb b hi.
Definition cont := inrg 128 191.
(* exactly the byte sequences String::from_utf8 accepts (Unicode Table 3-7) *)
Fixpoint utf8_valid (s : bytes) : bool :=
  match s with
  | [] => true
  | b :: r =>
    if N.ltb b 128 then utf8_valid r else
    if inrg 194 223 b then match r with c1 :: r1 => cont c1 && utf8_valid r1 | _ => false end else
    if N.eqb b 224 then match r with c1 :: c2 :: r2 => inrg 160 191 c1 && cont c2 && utf8_valid r2 | _ => false end else
    if inrg 225 236 b || inrg 238 239 b then match r with c1 :: c2 :: r2 => cont c1 && cont c2 && utf8_valid r2 | _ => false end else
    if N.eqb b 237 then match r with c1 :: c2 :: r2 => inrg 128 159 c1 && cont c2 && utf8_valid r2 | _ => false end else
    if N.eqb b 240 then match r with c1 :: c2 :: c3 :: r3 => inrg 144 191 c1 && cont c2 && cont c3 && utf8_valid r3 | _ => false end else
    if inrg 241 243 b then match r with c1 :: c2 :: c3 :: r3 => cont c1 && cont c2 && cont c3 && utf8_valid r3 | _ => false end else
    if N.eqb b 244 then match r with c1 :: c2 :: c3 :: r3 => inrg 128 143 c1 && cont c2 && cont c3 && utf8_valid r3 | _ => false end else
    false
  end.
Definition is_ascii (s : bytes) : bool := forallb (fun b => N.ltb b 128) s.
Lemma ascii_utf8 s : is_ascii s = true -> utf8_valid s = true.
Proof. induction s as [|b s IH]; simpl; auto. intro H. apply andb_prop in H as [H1 H2]. rewrite H1. auto. Qed.
Lemma utf8_app_ascii a s : is_ascii a = true -> utf8_valid (a ++ s) = utf8_valid s.
Proof. induction a as [|b a IH]; simpl; auto. intro H. apply andb_prop in H as [H1 H2]. rewrite H1. auto. Qed.
