(* C17 — from strings to maps: the query text built by the encoder for a list of fields is parsed back to exactly that list by the query
   parser and by the form-body parser, for every list of fields with distinct non-empty names outside the listed class C17-F1. *)
From Coq Require Import Arith.
From Rws Require Import Str Utf8 Num Request GenCodec Forms StrLemmas TrimLemmas Sweep C03Proof C17Proof C17Round C17General.
Open Scope N_scope.

(* ---------- the encoder never writes an ampersand or an equals sign, and never the empty text for a character ---------- *)
Lemma enc_char_clean c : c < 256 -> ~ In 38 (encode_uri [c]) /\ ~ In 61 (encode_uri [c]) /\ encode_uri [c] <> [].
Proof.
  intro Hc.
  assert (G : (negb (existsb (N.eqb 38) (encode_uri [c])) && negb (existsb (N.eqb 61) (encode_uri [c])) && negb (beqs (encode_uri [c]) [])) = true).
  { revert c Hc. apply sweep1. vm_compute. reflexivity. }
  apply andb_prop in G as [G G3]. apply andb_prop in G as [G1 G2]. apply negb_true_iff in G1, G2, G3.
  repeat split.
  - intro Hi. assert (X : existsb (N.eqb 38) (encode_uri [c]) = true) by (apply existsb_exists; exists 38; split; [exact Hi|apply N.eqb_refl]). rewrite X in G1. discriminate G1.
  - intro Hi. assert (X : existsb (N.eqb 61) (encode_uri [c]) = true) by (apply existsb_exists; exists 61; split; [exact Hi|apply N.eqb_refl]). rewrite X in G2. discriminate G2.
  - intro E. rewrite E in G3. discriminate G3.
Qed.
Lemma enc_clean s : bytes_ok s -> ~ In 38 (encode_uri s) /\ ~ In 61 (encode_uri s).
Proof.
  intro Hb. rewrite encode_charwise. induction s as [|c s IH]; [split; intros []|].
  inversion Hb as [|? ? Hc Hb']; subst. cbn [flat_map]. destruct (enc_char_clean c Hc) as (A & B & _). destruct (IH Hb') as [C D].
  split; intro Hi; apply in_app_or in Hi as [Hi|Hi]; [exact (A Hi)|exact (C Hi)|exact (B Hi)|exact (D Hi)].
Qed.
Lemma enc_nonempty s : bytes_ok s -> s <> [] -> encode_uri s <> [].
Proof.
  intros Hb Hne. destruct s as [|c s]; [contradiction|]. inversion Hb as [|? ? Hc Hb']; subst.
  rewrite encode_charwise. cbn [flat_map]. destruct (enc_char_clean c Hc) as (_ & _ & E). intro X. apply app_eq_nil in X as [X _]. contradiction.
Qed.

(* ---------- a text that holds an equals sign is not blank ---------- *)
Lemma trim_keeps_solid s : csolid (trim s) = csolid s.
Proof.
  unfold trim, trim_end, trim_start. rewrite csolid_rev, csolid_trim_end_f, csolid_rev, csolid_trim_start_f. reflexivity.
Qed.
Lemma has_eq_not_blank s : In 61 s -> beqs (trim s) [] = false.
Proof.
  intro Hi. apply not_true_is_false. intro E. apply beqs_eq in E.
  pose proof (trim_keeps_solid s) as G. rewrite E in G. change (csolid []) with 0%nat in G.
  apply in_split in Hi as (a & b & ->). rewrite csolid_app, csolid_cons in G. change (solid 61) with true in G. cbv iota in G. lia.
Qed.

(* ---------- the fields: what the theorem asks of them ---------- *)
Definition field_ok (kv : list N * list N) : Prop :=
  bytes_ok (fst kv) /\ bytes_ok (snd kv) /\ fst kv <> [] /\ in_F1 (fst kv) = false /\ in_F1 (snd kv) = false.
Lemma field_ok_b_ok kv : field_ok_b kv = true -> field_ok kv.
Proof.
  unfold field_ok_b, field_ok. intro H.
  apply andb_prop in H as [H H5]. apply andb_prop in H as [H H4]. apply andb_prop in H as [H H3]. apply andb_prop in H as [H1 H2].
  apply negb_true_iff in H3, H4, H5.
  assert (B : forall l, forallb (fun c => N.ltb c 256) l = true -> bytes_ok l).
  { intros l Hl. apply Forall_forall. intros c Hi. apply N.ltb_lt. exact (proj1 (forallb_forall _ _) Hl c Hi). }
  repeat split; auto. intro E. rewrite E in H3. discriminate.
Qed.
(* one pair: split at the equals sign, decode both sides *)
Definition qstep (a : list (list N * list N)) (param : list N) : list (list N * list N) :=
  match split param [61] with
  | k :: rest => let v := match rest with v :: _ => v | [] => [] end in if beqs k [] then a else insert (decode_uri k) (decode_uri v) a
  | [] => a
  end.
Lemma parse_query_unfold params : parse_query params = if beqs (trim params) [] then [] else fold_left qstep (split params [38]) [].
Proof. reflexivity. Qed.
Lemma pair_step kv acc : field_ok kv -> qstep acc (enc_pair kv) = insert (fst kv) (snd kv) acc.
Proof.
  intros (Hk & Hv & Hne & Fk & Fv). unfold qstep, enc_pair. cbn [app].
  destruct (enc_clean _ Hk) as [_ Ek]. destruct (enc_clean _ Hv) as [_ Ev].
  rewrite (split_one_sep 61 _ _ Ek Ev). cbv zeta.
  replace (beqs (encode_uri (fst kv)) []) with false by (symmetry; apply not_true_is_false; intro E; apply beqs_eq in E; exact (enc_nonempty _ Hk Hne E)).
  rewrite (round_trip_outside_F1 _ Hk Fk), (round_trip_outside_F1 _ Hv Fv). reflexivity.
Qed.

(* inserting fields with fresh names appends them *)
Lemma insert_fresh k v acc : existsb (fun kv' => beqs (fst kv') k) acc = false -> insert k v acc = acc ++ [(k, v)].
Proof.
  induction acc as [|[k' v'] acc IH]; intro H; [reflexivity|].
  cbn [existsb fst] in H. apply orb_false_iff in H as [H1 H2]. cbn [insert app].
  replace (beqs k k') with false by (symmetry; apply not_true_is_false; intro E; apply beqs_eq in E; subst; rewrite beqs_refl in H1; discriminate).
  rewrite IH by exact H2. reflexivity.
Qed.
Lemma fold_fields : forall m acc, Forall field_ok m -> distinct_keys m = true ->
  (forall kv, In kv m -> existsb (fun kv' => beqs (fst kv') (fst kv)) acc = false) ->
  fold_left qstep (map enc_pair m) acc = acc ++ m.
Proof.
  induction m as [|kv m IH]; intros acc Hf Hd Hfresh; [cbn [map fold_left]; rewrite app_nil_r; reflexivity|].
  inversion Hf as [|? ? Hkv Hf']; subst. cbn [distinct_keys] in Hd. apply andb_prop in Hd as [Hd1 Hd]. apply negb_true_iff in Hd1.
  cbn [map fold_left]. rewrite (pair_step kv acc Hkv). rewrite insert_fresh by (apply Hfresh; left; reflexivity).
  rewrite IH; [rewrite <- app_assoc; destruct kv; reflexivity|exact Hf'|exact Hd|].
  intros kv' Hi. rewrite existsb_app. rewrite (Hfresh kv' (or_intror Hi)). cbn [existsb fst orb]. rewrite orb_false_r.
  apply not_true_is_false. intro E. apply beqs_eq in E.
  assert (X : existsb (fun kv'' => beqs (fst kv'') (fst kv)) m = true) by (apply existsb_exists; exists kv'; split; [exact Hi|rewrite E; apply beqs_refl]).
  rewrite X in Hd1. discriminate.
Qed.

(* ---------- the query parser ---------- *)
Theorem query_round_trip m : m <> [] -> Forall field_ok m -> distinct_keys m = true -> parse_query (build_query m) = m.
Proof.
  intros Hne Hf Hd. rewrite parse_query_unfold. unfold build_query.
  assert (H61 : In 61 (join_with 38 (map enc_pair m))).
  { destruct m as [|kv m]; [contradiction|]. cbn [map]. destruct (map enc_pair m) eqn:Em.
    - cbn [join_with]. unfold enc_pair. apply in_or_app. right. left. reflexivity.
    - change (join_with 38 (enc_pair kv :: l :: l0)) with (enc_pair kv ++ 38 :: join_with 38 (l :: l0)). apply in_or_app. left. unfold enc_pair. apply in_or_app. right. left. reflexivity. }
  rewrite (has_eq_not_blank _ H61).
  rewrite split_join.
  - rewrite fold_fields; [reflexivity|exact Hf|exact Hd|reflexivity].
  - destruct m; [contradiction|discriminate].
  - apply Forall_forall. intros p Hi. apply in_map_iff in Hi as (kv & <- & Hi). pose proof (proj1 (Forall_forall _ _) Hf kv Hi) as (Hk & Hv & _).
    unfold enc_pair. intro X. apply in_app_or in X as [X|X]; [exact (proj1 (enc_clean _ Hk) X)|].
    cbn [app In] in X. destruct X as [X|X]; [discriminate|exact (proj1 (enc_clean _ Hv) X)].
Qed.

(* ---------- the form-body parser: the same text, when it is valid UTF-8 and survives the control-character filter unchanged ---------- *)
Theorem form_round_trip m : m <> [] -> Forall field_ok m -> distinct_keys m = true -> form_text_ok (build_query m) = true ->
  form_urlencoded_parse (build_query m) = Some m.
Proof.
  intros Hne Hf Hd Ht. unfold form_text_ok in Ht. apply andb_prop in Ht as [Hu Hc]. apply beqs_eq in Hc.
  unfold form_urlencoded_parse. rewrite Hu, Hc. rewrite query_round_trip by assumption. reflexivity.
Qed.

(* the domain as one decidable predicate, for the model runner *)
Theorem map_ok_round_trip m : map_ok m = true ->
  parse_query (build_query m) = m /\ (form_text_ok (build_query m) = true -> form_urlencoded_parse (build_query m) = Some m).
Proof.
  intro H. unfold map_ok in H. destruct m as [|kv m]; [discriminate|]. apply andb_prop in H as [H1 H2].
  assert (Hf : Forall field_ok (kv :: m)).
  { apply Forall_forall. intros x Hi. apply field_ok_b_ok. exact (proj1 (forallb_forall _ _) H1 x Hi). }
  split; [apply query_round_trip|intro Ht; apply form_round_trip]; try assumption; discriminate.
Qed.
(* inhabited: reserved characters, percent signs that are no late code, non-ASCII text, a line break, an empty value *)
Example map_ok_example :
  map_ok [([107;32;49], [118;38;61;37]); ([195;169], [240;159;152;128]); ([97;61;98], [63;35;47;13;10]); ([120], [37;52;49]); ([121], [])] = true /\
  form_text_ok (build_query [([107;32;49], [118;38;61;37]); ([195;169], [240;159;152;128]); ([97;61;98], [63;35;47;13;10]); ([120], [37;52;49]); ([121], [])]) = true /\
  map_ok [([107], [37;50;54])] = false /\ map_ok [([107], [1]); ([107], [2])] = false /\ map_ok [([], [1])] = false.
Proof. vm_compute. repeat split. Qed.
