(* Model of Header::get_header_list, Cors, the controller chain App::execute (static part),
   Response::generate_response and Server::process *)
From Rws Require Import Str Utf8 Num Unicase Fs UrlParse RangeSpec Request GenMime Mime StaticRes GenConsts Forms.
Open Scope N_scope.

Record response := mkResp { rs_status : N; rs_reason : list N; rs_headers : list header; rs_ranges : list crange }.
Inductive cors_cfg := CAllowAll | COff (origins creds methods hdrs expose maxage : list N).
Record assets := mkAssets { as_index : list N; as_style : list N; as_script : list N; as_favicon : list N; as_404 : list N }.
(* cf_errmsg: the text of an error message (request parse error, handler error); never inspected by a theorem *)
Record config := mkCfg { cf_size : N; cf_cors : cors_cfg; cf_assets : assets; cf_time : list N; cf_errmsg : list N }.

Definition H (n v : list N) := mkH n v.
Definition TRUE : list N := [116;114;117;101].
Definition join (sep : list N) (l : list (list N)) : list N :=
  match l with [] => [] | x :: r => x ++ flat_map (fun y => sep ++ y) r end.
Definition COMMA_SP : list N := [44;32].

(* ---- Cors ---- *)
Definition cors_allow_all (r : request) : list header :=
  match get_header r Hd_ORIGIN with
  | None => []
  | Some o =>
    [H Hd_ACCESS_CONTROL_ALLOW_ORIGIN (hvalue o); H Hd_ACCESS_CONTROL_ALLOW_CREDENTIALS TRUE] ++
    (if beqs (method r) OPTIONS then
       (match get_header r Hd_ACCESS_CONTROL_REQUEST_METHOD with Some m => [H Hd_ACCESS_CONTROL_ALLOW_METHODS (hvalue m)] | None => [] end) ++
       (match get_header r Hd_ACCESS_CONTROL_REQUEST_HEADERS with
        | Some h => [H Hd_ACCESS_CONTROL_ALLOW_HEADERS (ulower (hvalue h)); H Hd_ACCESS_CONTROL_EXPOSE_HEADERS (ulower (hvalue h))]
        | None => [] end) ++
       [H Hd_ACCESS_CONTROL_MAX_AGE Co_MAX_AGE]
     else [])
  end.
Definition cors_off (origins creds methods hdrs expose maxage : list N) (r : request) : list header :=
  match get_header r Hd_ORIGIN with
  | None => []
  | Some o =>
    (* fix e79b41d: exact membership in the comma-split list, the empty Origin never matches (was String::contains) *)
    if negb (negb (beqs (hvalue o) []) && existsb (beqs (hvalue o)) (split origins [44])) then [] else
    [H Hd_ACCESS_CONTROL_ALLOW_ORIGIN (hvalue o)] ++
    (if beqs creds TRUE then [H Hd_ACCESS_CONTROL_ALLOW_CREDENTIALS TRUE] else []) ++
    (if beqs (method r) OPTIONS then
       [H Hd_ACCESS_CONTROL_ALLOW_METHODS methods; H Hd_ACCESS_CONTROL_ALLOW_HEADERS (ulower hdrs);
        H Hd_ACCESS_CONTROL_EXPOSE_HEADERS (ulower expose); H Hd_ACCESS_CONTROL_MAX_AGE maxage]
     else [])
  end.
Definition cors_headers (c : cors_cfg) (r : request) : list header :=
  match c with CAllowAll => cors_allow_all r | COff o c' m h e a => cors_off o c' m h e a r end.

(* ---- default header list ---- *)
Definition hint_list : list (list N) :=
  [Ch_USER_AGENT_CPU_ARCHITECTURE; Ch_USER_AGENT_CPU_BITNESS; Ch_USER_AGENT_FULL_BRAND_INFORMATION; Ch_USER_AGENT_DEVICE_MODEL;
   Ch_USER_AGENT_OPERATING_SYSTEM_VERSION; Ch_NETWORK_DOWNLOAD_SPEED; Ch_NETWORK_EFFECTIVE_CONNECTION_TYPE; Ch_NETWORK_ROUND_TRIP_TIME;
   Ch_NETWORK_SAVE_DATA; Ch_DEVICE_MEMORY; Ch_PREFERS_REDUCED_MOTION; Ch_PREFERS_COLOR_SCHEME].
Definition vary_hints : list (list N) :=
  [Ch_USER_AGENT_CPU_ARCHITECTURE; Ch_USER_AGENT_CPU_BITNESS; Ch_USER_AGENT_FULL_BRAND_INFORMATION; Ch_USER_AGENT_DEVICE_MODEL;
   Ch_USER_AGENT_OPERATING_SYSTEM_VERSION; Ch_NETWORK_SAVE_DATA; Ch_DEVICE_MEMORY; Hd_UPGRADE_INSECURE_REQUESTS;
   Ch_PREFERS_REDUCED_MOTION; Ch_PREFERS_COLOR_SCHEME].
Definition default_headers (cfg : config) (r : request) : list header :=
  cors_headers (cf_cors cfg) r ++
  [H Ch_ACCEPT_CLIENT_HINTS (join COMMA_SP hint_list); H Ch_CRITICAL_CLIENT_HINTS (join COMMA_SP hint_list);
   H Hd_VARY (join COMMA_SP [Hd_ORIGIN; join COMMA_SP vary_hints]);
   H Hd_X_CONTENT_TYPE_OPTIONS Hd_X_CONTENT_TYPE_OPTIONS_VALUE_NOSNIFF; H Hd_ACCEPT_RANGES Rg_BYTES;
   H Hd_X_FRAME_OPTIONS Hd_X_FRAME_OPTIONS_VALUE_SAME_ORIGIN; H Hd_DATE_UNIX_EPOCH_NANOS (cf_time cfg);
   H Hd_CACHE_CONTROL Hd_DO_NOT_STORE_CACHE].

(* ---- decimal printing (spike: simple fuelled version) ---- *)
Fixpoint show_pos_f (fuel : nat) (n : N) (acc : list N) : list N :=
  match fuel with O => acc | S f => if N.eqb n 0 then acc else show_pos_f f (n / 10) ((48 + n mod 10) :: acc) end.
Definition show_N (n : N) : list N := if N.eqb n 0 then [48] else show_pos_f 80 n [].

(* ---- Response::generate_response ---- *)
Definition content_range_value (c : crange) : list N :=
  Rg_BYTES ++ [32] ++ show_N (c_start c) ++ [45] ++ show_N (c_end c) ++ [47] ++ show_N (c_size c).
Definition SEP_LINE : list N := [45;45] ++ Rg_STRING_SEPARATOR.
(* one part of a multipart/byteranges body *)
Definition bpart (first : bool) (c : crange) : list N :=
  (if first then [] else CRLF) ++ SEP_LINE ++ CRLF ++
  Hd_CONTENT_TYPE ++ COLON_SP ++ [32] ++ c_type c ++ CRLF ++
  Hd_CONTENT_RANGE ++ COLON_SP ++ [32] ++ content_range_value c ++ CRLF ++ CRLF ++ c_body c.
Definition gen_body (l : list crange) : list N :=
  match l with
  | [] => []
  | [c] => c_body c
  | c0 :: rest => bpart true c0 ++ flat_map (bpart false) rest ++ CRLF ++ SEP_LINE
  end.
Definition derived_headers (l : list crange) : list header :=
  match l with
  | [] => []
  | [c] => [H Hd_CONTENT_TYPE (c_type c); H Hd_CONTENT_RANGE (content_range_value c);
            H Hd_CONTENT_LENGTH (show_N (N.of_nat (length (c_body c))))]
  | _ => [H Hd_CONTENT_TYPE Rg_MULTIPART_BYTERANGES_CONTENT_TYPE]
  end.
Definition HTTP11 : list N := [72;84;84;80;47;49;46;49].
Definition all_headers (rs : response) : list header := rs_headers rs ++ derived_headers (rs_ranges rs).
Definition generate_response (rs : response) (meth : list N) : list N :=
  HTTP11 ++ [32] ++ show_N (rs_status rs) ++ [32] ++ rs_reason rs ++ CRLF ++
  flat_map gen_header (all_headers rs) ++ CRLF ++
  (if beqs meth HEAD || beqs meth OPTIONS then [] else gen_body (rs_ranges rs)).

(* ---- controllers (static part of the chain) ---- *)
Definition reason (code : N) : list N :=
  match find (fun p => N.eqb (fst p) code) status_table with Some p => snd p | None => [] end.
Definition whole (body ct : list N) (p : prov) : crange :=
  let L := N.of_nat (length body) in mkCr 0 L L body ct p.
Definition rel (fs : fsys) (name : list N) : list N := cwd_str fs ++ [47] ++ name.
Definition is_file (fs : fsys) (p : list N) : bool := match metadata fs p with Some KFile => true | _ => false end.
(* pattern shared by Index / Style / Script / Favicon / NotFound *)
Definition asset_controller (fs : fsys) (fname builtin ct_builtin : list N) (ok_status : N) (rs : response) : response :=
  if is_file fs (rel fs fname) then
    match node_at fs (rel fs fname) true with
    | Some (File d, q, via) => mkResp ok_status (reason ok_status) (rs_headers rs) [whole d (detect_mime fname) (FromFile q via)]
    | _ => mkResp 500 (reason 500) (rs_headers rs) [whole [] Mt_TEXT_HTML Message]
    end
  else mkResp ok_status (reason ok_status) (rs_headers rs) [whole builtin ct_builtin BuiltIn].

Definition NAME_404 : list N := [52;48;52;46;104;116;109;108].
Definition NAME_STYLE : list N := [115;116;121;108;101;46;99;115;115].
Definition NAME_SCRIPT : list N := [115;99;114;105;112;116;46;106;115].
Definition NAME_FAVICON : list N := [102;97;118;105;99;111;110;46;115;118;103].

(* ---- form / upload demo controllers ---- *)
Definition POST : list N := [80;79;83;84].
Definition IS_SEP : list N := [32;105;115;32].    (* " is " *)
Definition echo_lines (m : list (list N * list N)) : list N := flat_map (fun kv => fst kv ++ IS_SEP ++ snd kv ++ CRLF) m.
Definition text_range (b : list N) : crange := whole b Mt_TEXT_PLAIN Message.
Definition uri_path (u : list N) : ures (list N) := match target_url u with UOk x => UOk (u_path x) | UErr e => UErr e | UPanicPort => UPanicPort end.
(* Request::get_uri_query parses "http://localhost/" ++ uri *)
Definition uri_query (u : list N) : ures (option (list (list N * list N))) :=
  match target_url (47 :: u) with
  | UOk x => UOk (match u_query x with Some q => Some (parse_query q) | None => None end)
  | UErr e => UErr e | UPanicPort => UPanicPort end.
Definition PATH_UPLOAD : list N := [47;102;105;108;101;45;117;112;108;111;97;100;47;105;110;105;116;105;97;116;101].
Definition PATH_FORM_GET : list N := [47;102;111;114;109;45;103;101;116;45;109;101;116;104;111;100].
Definition PATH_FORM_URLENC : list N := [47;102;111;114;109;45;117;114;108;45;101;110;99;111;100;101;100;45;101;110;99;116;121;112;101;45;112;111;115;116;45;109;101;116;104;111;100].
Definition PATH_FORM_MULTI : list N := [47;102;111;114;109;45;109;117;108;116;105;112;97;114;116;45;101;110;99;116;121;112;101;45;112;111;115;116;45;109;101;116;104;111;100].
Definition CT_URLENC : list N := [97;112;112;108;105;99;97;116;105;111;110;47;120;45;119;119;119;45;102;111;114;109;45;117;114;108;101;110;99;111;100;101;100].
Definition CT_MULTI_PREFIX : list N := [109;117;108;116;105;112;97;114;116;47;102;111;114;109;45;100;97;116;97;59;32;98;111;117;110;100;97;114;121;61].
Definition K_NAME : list N := [110;97;109;101].
Definition K_LASTMOD : list N := [108;97;115;116;77;111;100;105;102;105;101;100].
Definition K_SIZE : list N := [115;105;122;101].
Definition ALLOC_LINE : list N := [114;101;113;117;101;115;116;95;97;108;108;111;99;97;116;105;111;110;95;115;105;122;101;95;105;110;95;98;121;116;101;115].
Definition has_key (k : list N) (m : list (list N * list N)) : bool := existsb (fun kv => beqs (fst kv) k) m.

Inductive fsite := FQueryUnwrap | FBodyUtf8 | FFieldName | FPartUtf8 | FWindows0.
Inductive fres := FNoMatch | FResp (rs : response) | FPanicPort | FPanic (s : fsite).

Definition upload_controller (cfg : config) (r : request) (rs0 : response) : fres :=
  match uri_path (uri r) with
  | UPanicPort => FPanicPort
  | UErr _ => FNoMatch
  | UOk p =>
    if negb (beqs p PATH_UPLOAD && beqs (method r) POST) then FNoMatch else
    let bad := mkResp 400 (reason 400) (rs_headers rs0) [] in
    match uri_query (uri r) with
    | UPanicPort => FPanicPort
    | UErr _ => FPanic FQueryUnwrap
    | UOk None => FResp bad
    | UOk (Some m) =>
      if negb (has_key K_NAME m && has_key K_LASTMOD m && has_key K_SIZE m) then FResp bad else
      let sz := cf_size cfg in let shown := if N.ltb 4000 sz then sz - 4000 else sz in
      FResp (mkResp 200 (reason 200) (rs_headers rs0) [text_range (echo_lines m ++ ALLOC_LINE ++ IS_SEP ++ show_N shown ++ CRLF)])
    end
  end.
Definition urlenc_controller (r : request) (rs0 : response) : fres :=
  match get_header r Hd_CONTENT_TYPE with
  | None => FNoMatch
  | Some ct =>
    if negb (beqs (ulower (hvalue ct)) CT_URLENC) then FNoMatch else
    if negb (beqs (uri r) PATH_FORM_URLENC && beqs (method r) POST) then FNoMatch else
    match form_urlencoded_parse (body r) with
    | None => FResp (mkResp 400 (reason 400) (rs_headers rs0) [text_range []])     (* fix: the prepared 400 is returned *)
    | Some m => FResp (mkResp 200 (reason 200) (rs_headers rs0) [text_range (echo_lines m)])
    end
  end.
Definition formget_controller (r : request) (rs0 : response) : fres :=
  match uri_path (uri r) with
  | UPanicPort => FPanicPort
  | UErr _ => FNoMatch
  | UOk p =>
    if negb (beqs p PATH_FORM_GET && beqs (method r) GET) then FNoMatch else
    match uri_query (uri r) with
    | UPanicPort => FPanicPort
    | UErr _ => FPanic FQueryUnwrap
    | UOk None => FResp (mkResp 200 (reason 200) (rs_headers rs0) [])
    | UOk (Some m) => FResp (mkResp 200 (reason 200) (rs_headers rs0) [text_range (echo_lines m)])
    end
  end.
Definition CD_NAME : list N := Hd_CONTENT_DISPOSITION.
Fixpoint multi_lines (ps : list part) : option (option (list N)) :=   (* None = 400 (was a panic before the fix); Some None = 400 *)
  match ps with
  | [] => Some (Some [])
  | p :: rest =>
    match find (fun h => beqs (ulower (hname h)) (ulower CD_NAME)) (p_headers p) with
    | None => Some None
    | Some h =>
      match cd_parse (hvalue h) with
      | None => Some None
      | Some cd =>
        match cd_name cd with
        | None => None
        | Some nm =>
          if negb (utf8_valid (p_body p)) then None else
          match multi_lines rest with
          | Some (Some l) => Some (Some (nm ++ IS_SEP ++ p_body p ++ [32] ++ CRLF ++ l))
          | o => o end
        end
      end
    end
  end.
Definition multipart_controller (r : request) (rs0 : response) : fres :=
  match get_header r Hd_CONTENT_TYPE with
  | None => FNoMatch
  | Some ct =>
    match uri_path (uri r) with
    | UPanicPort => FPanicPort
    | UErr _ => FNoMatch
    | UOk p =>
      if negb (starts_with (filter_ascii_control (ulower (hvalue ct))) CT_MULTI_PREFIX) then FNoMatch else
      if negb (beqs p PATH_FORM_MULTI && beqs (method r) POST) then FNoMatch else
      let bad := mkResp 400 (reason 400) (rs_headers rs0) [text_range []] in
      match extract_boundary (hvalue ct) with
      | None => FResp bad
      | Some bd =>
        match multipart_parse (body r) bd with
        | MPanicWindows0 => FPanic FWindows0
        | MErr => FResp bad
        | MOk ps =>
          match multi_lines ps with
          | None => FResp bad
          | Some None => FResp bad
          | Some (Some l) => FResp (mkResp 200 (reason 200) (rs_headers rs0) [text_range l])
          end
        end
      end
    end
  end.

(* Wrote rs raw ok: the bytes handed to write_all, and whether Server::process returns Ok *)
Inductive outcome := Wrote (rs : response) (raw : list N) (ok : bool) | Panicked (s : site).

Definition static_process (fs : fsys) (r : request) (rs : response) : sres response :=
  match process_static fs r with
  | SPanic s => SPanic s
  | SErr st => SOk (mkResp st (reason st) (rs_headers rs) [whole [] Mt_TEXT_HTML Message])
  | SOk [] => SOk rs
  | SOk l =>
    let st := if beqs (method r) OPTIONS then 204 else match get_header r RANGE_NAME with Some _ => 206 | None => 200 end in
    match path_or_panic (uri r) with
    | SOk P => let lm := if can_open fs (cwd_str fs ++ P) then [H Hd_LAST_MODIFIED_UNIX_EPOCH_NANOS []] else [] in
               SOk (mkResp st (reason st) (rs_headers rs ++ lm) l)
    | SPanic s => SPanic s | SErr s => SErr s end
  end.

(* StaticResourceController::is_matching_request (legacy entry point): the RAW uri is the file name *)
Definition is_matching_legacy (fs : fsys) (r : request) : bool :=
  if has_dotdot (uri r) then false else
  let SPr := cwd_str fs ++ uri r in
  match metadata fs SPr with
  | None | Some KDir => false
  | Some _ => can_open fs SPr && (beqs (method r) GET || beqs (method r) HEAD || (beqs (method r) OPTIONS && negb (beqs (uri r) [47])))
  end.
Definition static_process_legacy (fs : fsys) (r : request) (rs : response) : sres response :=
  match process_static fs r with
  | SPanic s => SPanic s
  | SErr st => SOk (mkResp st (reason st) (rs_headers rs) [whole [] Mt_TEXT_HTML Message])
  | SOk [] => SOk rs
  | SOk l =>
    let st := if beqs (method r) OPTIONS then 204 else match get_header r RANGE_NAME with Some _ => 206 | None => 200 end in
    let lm := if can_open fs (cwd_str fs ++ uri r) then [H Hd_LAST_MODIFIED_UNIX_EPOCH_NANOS []] else [] in
    SOk (mkResp st (reason st) (rs_headers rs ++ lm) l)
  end.

Definition MSG_TARGET : list N :=    (* "request target must start with a slash" *)
  [114;101;113;117;101;115;116;32;116;97;114;103;101;116;32;109;117;115;116;32;115;116;97;114;116;32;119;105;116;104;32;97;32;115;108;97;115;104].
Definition app_execute_gen (legacy : bool) (cfg : config) (fs : fsys) (r : request) : sres response :=
  let a := cf_assets cfg in
  let rs0 := mkResp 501 (reason 501) (default_headers cfg r) [] in
  (* fix d801876: only origin-form targets reach the controllers *)
  if negb (starts_with (uri r) [47]) then SOk (mkResp 400 (reason 400) (rs_headers rs0) [text_range MSG_TARGET]) else
  if beqs (uri r) [47] then SOk (asset_controller fs INDEX_HTML (as_index a) Mt_TEXT_HTML 200 rs0) else
  if (legacy || is_ghO (method r)) && beqs (uri r) (47 :: NAME_STYLE) then SOk (asset_controller fs NAME_STYLE (as_style a) Mt_TEXT_CSS 200 rs0) else
  if (legacy || is_ghO (method r)) && beqs (uri r) (47 :: NAME_SCRIPT) then SOk (asset_controller fs NAME_SCRIPT (as_script a) Mt_TEXT_JAVASCRIPT 200 rs0) else
  match upload_controller cfg r rs0 with FPanicPort => SPanic SPortUnwrap | FPanic _ => SPanic SUrlUnwrap | FResp x => SOk x | FNoMatch =>
  match urlenc_controller r rs0 with FPanicPort => SPanic SPortUnwrap | FPanic _ => SPanic SUrlUnwrap | FResp x => SOk x | FNoMatch =>
  match formget_controller r rs0 with FPanicPort => SPanic SPortUnwrap | FPanic _ => SPanic SUrlUnwrap | FResp x => SOk x | FNoMatch =>
  match multipart_controller r rs0 with FPanicPort => SPanic SPortUnwrap | FPanic _ => SPanic SUrlUnwrap | FResp x => SOk x | FNoMatch =>
  if is_ghO (method r) && beqs (uri r) (47 :: NAME_FAVICON) then SOk (asset_controller fs NAME_FAVICON (as_favicon a) Mt_IMAGE_SVG 200 rs0) else
  if legacy then
    (if is_matching_legacy fs r then static_process_legacy fs r rs0
     else SOk (asset_controller fs NAME_404 (as_404 a) Mt_TEXT_HTML 404 rs0))
  else
  match is_matching fs r with
  | SPanic s => SPanic s | SErr s => SErr s
  | SOk true => static_process fs r rs0
  | SOk false => SOk (asset_controller fs NAME_404 (as_404 a) Mt_TEXT_HTML 404 rs0)
  end end end end end.
Definition app_execute := app_execute_gen false.

(* Log::request_response sums the part sizes in a u128 (fix 474e5c8; the i32 sum overflowed): no panic site left *)

(* Server::bad_request_response: the default headers of a synthetic GET request, one text/plain part *)
Definition synthetic_request : request := mkR GET [] [] [] [].
Definition bad_request_response (cfg : config) : response :=
  mkResp 400 (reason 400) (default_headers cfg synthetic_request) [text_range (cf_errmsg cfg)].

(* Server::process / Server::process_request up to the write: read into a zero-filled buffer, parse, dispatch, serialise *)
Definition process_with (app : request -> sres response) (cfg : config) (input : list N) : outcome :=
  let n := N.to_nat (cf_size cfg) in
  let buf := firstn n input ++ repeat 0 (n - length (firstn n input)) in
  match parse_request buf with
  | Request.Panic _ => Panicked SUrlUnwrap       (* unreachable: parse_request has no panic site left *)
  | Request.Err _ => let rs := bad_request_response cfg in Wrote rs (generate_response rs GET) false
  | Request.Ok r =>
    match app r with
    | SPanic s => Panicked s
    | SErr _ => let rs := bad_request_response cfg in Wrote rs (generate_response rs GET) false    (* handler returned Err *)
    | SOk rs => Wrote rs (generate_response rs (method r)) true
    end
  end.
Definition process_gen (legacy : bool) (cfg : config) (fs : fsys) : list N -> outcome :=
  process_with (app_execute_gen legacy cfg fs) cfg.

Definition process := process_gen false.
Definition process_legacy := process_gen true.
