// C20: one case kind per parsing entry point that had none yet.  Every call runs under catch_unwind; the outcome is OK.. / ERR / PANIC.
use crate::run::{hex, unhex};
fn us(h: &str) -> Option<String> { String::from_utf8(unhex(h)).ok() }
fn guard<T>(f: impl FnOnce() -> Result<T, String> + std::panic::UnwindSafe, show: impl FnOnce(T) -> String) -> String {
    match std::panic::catch_unwind(f) { Err(_) => "PANIC".to_string(), Ok(Err(_)) => "ERR".to_string(), Ok(Ok(v)) => format!("OK {}", show(v)).trim_end().to_string() }
}
fn opt(o: &Option<String>) -> String { match o { Some(s) => format!("s{}", hex(s.as_bytes())), None => "-".to_string() } }

pub fn run(f: &[&str]) -> Option<String> {
    let a1 = f.get(1).copied().unwrap_or("");
    let a2 = f.get(2).copied().unwrap_or("");
    Some(match f[0] {
        "hdr" => { let t = us(a1)?; guard(move || crate::header::Header::parse(&t), |h| format!("{}:{}", hex(h.name.as_bytes()), hex(h.value.as_bytes()))) }
        "cd" => { let t = us(a1)?; guard(move || crate::header::content_disposition::ContentDisposition::parse(&t),
                    |c| format!("{}|{}|{}", hex(c.disposition_type.as_bytes()), opt(&c.field_name), opt(&c.file_name))) }
        "rgspec" => { let len: u64 = a1.parse().ok()?; let t = us(a2)?;
                    guard(move || crate::range::Range::parse_range_in_content_range(len, &t).map_err(|e| e.message), |r| format!("{}-{}", r.start, r.end)) }
        "rmp" => { let b = unhex(a1); guard(move || { let mut c = std::io::Cursor::new(&b[..]); crate::range::Range::parse_multipart_body(&mut c, vec![]) },
                   |l| l.iter().map(|c| format!("{}-{}/{}:{}:{}", c.range.start, c.range.end, hex(c.size.as_bytes()), hex(&c.body), hex(c.content_type.as_bytes()))).collect::<Vec<_>>().join(";")) }
        "crv" => { let t = us(a1)?; guard(move || crate::range::Range::_parse_content_range_header_value(t), |(s, e, z)| format!("{},{},{}", s, e, z)) }
        "cfgb" => { let b = unhex(a1);
                    let table = crate::entry_point::command_line_args::CommandLineArgument::get_command_line_arg_list();
                    let r = guard(move || crate::entry_point::config_file::read_config_file(std::io::Cursor::new(&b[..]), "".to_string()), |_| "".to_string());
                    for a in &table { std::env::remove_var(&a.environment_variable); }
                    r }
        "jprop" => { let t = us(a1)?; guard(move || crate::json::property::JSONProperty::parse(&t), |(p, v)| format!("{}|{}|{}", hex(p.property_name.as_bytes()), p.property_type,
                    if v.null.is_some() { "null".to_string() } else if let Some(s) = &v.string { format!("s{}", hex(s.as_bytes())) } else if let Some(i) = v.i128 { i.to_string() }
                    else if v.f64.is_some() { "f".to_string() } else if let Some(a) = &v.array { format!("a{}", hex(a.as_bytes())) } else if let Some(o) = &v.object { format!("o{}", hex(o.as_bytes())) }
                    else if let Some(b) = v.bool { b.to_string() } else { "?".to_string() })) }
        "jtyped" => { let t = us(a2)?;
            use crate::json::array::integer::JSONArrayOfIntegers as I;
            fn j<T: ToString>(v: Vec<T>) -> String { v.iter().map(|x| x.to_string()).collect::<Vec<_>>().join(";") }
            match a1 {
                "i8" => guard(move || I::parse_as_list_i8(t), j), "i16" => guard(move || I::parse_as_list_i16(t), j), "i32" => guard(move || I::parse_as_list_i32(t), j),
                "i64" => guard(move || I::parse_as_list_i64(t), j), "i128" => guard(move || I::parse_as_list_i128(t), j),
                "u8" => guard(move || I::parse_as_list_u8(t), j), "u16" => guard(move || I::parse_as_list_u16(t), j), "u32" => guard(move || I::parse_as_list_u32(t), j),
                "u64" => guard(move || I::parse_as_list_u64(t), j), "u128" => guard(move || I::parse_as_list_u128(t), j),
                "f64" => guard(move || crate::json::array::float::JSONArrayOfFloats::parse_as_list_f64(t), |v| v.len().to_string()),
                "f32" => guard(move || crate::json::array::float::JSONArrayOfFloats::parse_as_list_f32(t), |v| v.len().to_string()),
                "str" => guard(move || crate::json::array::string::JSONArrayOfStrings::parse_as_list_string(t), |v| v.iter().map(|x| format!("s{}", hex(x.as_bytes()))).collect::<Vec<_>>().join(";")),
                "bool" => guard(move || crate::json::array::boolean::JSONArrayOfBooleans::parse_as_list_bool(t), |v| v.iter().map(|b| if *b { "1" } else { "0" }).collect::<Vec<_>>().join(";")),
                "null" => guard(move || crate::json::array::null::JSONArrayOfNulls::parse_as_list_null(t), |v| v.len().to_string()),
                _ => return None } }
        "upat" => { let t = us(a1)?; guard(move || crate::url::path::UrlPath::extract_parts_from_pattern(&t),
                    |ps| ps.iter().map(|p| if p.is_static { format!("S{}", hex(p.static_pattern.clone().unwrap_or_default().as_bytes())) } else { format!("T{}", hex(p.name.clone().unwrap_or_default().as_bytes())) }).collect::<Vec<_>>().join(";")) }
        "umatch" => { let (p, t) = (us(a1)?, us(a2)?); guard(move || crate::url::path::UrlPath::is_matching(&p, &t), |b| if b { "1".to_string() } else { "0".to_string() }) }
        "uext" => { let (p, t) = (us(a1)?, us(a2)?); guard(move || crate::url::path::UrlPath::extract(&p, &t),
                    |m| { let mut v: Vec<String> = m.iter().map(|(k, v)| format!("{}={}", hex(k.as_bytes()), hex(v.as_bytes()))).collect(); v.sort(); v.join(";") }) }
        "ubuild" => { let mut m = std::collections::HashMap::new();
                    if a1 != "-" { for kv in a1.split(';') { let mut it = kv.split(':'); m.insert(us(it.next().unwrap_or(""))?, us(it.next().unwrap_or(""))?); } }
                    let t = us(a2)?; guard(move || crate::url::path::UrlPath::build(m, &t), |s| hex(s.as_bytes())) }
        _ => return None,
    })
}
