// Pool cases: drive the real ThreadPool (with the cfg(rws_verif) hooks) under a seeded perturbation and record the event trace.
// pool <seed> <n> <jobspec>   jobspec: one letter per task  i=instant s=sleep r=rendezvous-of-n p=panic  z/w/f/e/g=a request through Server::process whose transport fails (zero-length write, write error, flush error, read error) or does not (g)
use std::sync::{Arc, Mutex, Condvar, OnceLock, atomic::{AtomicU64, AtomicUsize, Ordering}};
use std::time::{Duration, Instant};
use crate::thread_pool::ThreadPool;
#[cfg(rws_verif)] use crate::thread_pool::verif_hook::{Event, HOOK};

static RNG: AtomicU64 = AtomicU64::new(0x9E3779B97F4A7C15);
fn rnd() -> u64 { let mut x = RNG.load(Ordering::Relaxed); x ^= x << 13; x ^= x >> 7; x ^= x << 17; RNG.store(x, Ordering::Relaxed); x }
static CUR: OnceLock<Mutex<Option<Arc<Mutex<Vec<String>>>>>> = OnceLock::new();
fn cur() -> &'static Mutex<Option<Arc<Mutex<Vec<String>>>>> { CUR.get_or_init(|| Mutex::new(None)) }

fn install_hook() {
    #[cfg(rws_verif)] {
        let _ = HOOK.set(Box::new(move |e: Event| {
            let rec = cur().lock().unwrap().clone();
            if let Some(t) = rec {
                // perturb before recording, then record under the recorder's own lock
                let r = rnd(); if r % 4 == 0 { std::thread::sleep(Duration::from_micros(r % 300)); } else if r % 4 == 1 { std::thread::yield_now(); }
                let s = match e { Event::Submit => "S".to_string(), Event::LockAcquired(w) => format!("A{}", w), Event::Received(w) => format!("R{}", w),
                                  Event::Finished(w) => format!("F{}", w), Event::Panicked(w) => format!("X{}", w) };
                t.lock().unwrap().push(s);
            }
        }));
    }
}

/// n rendezvous tasks on the pool: all of them must be running at the same time
fn rendezvous_probe(pool: &ThreadPool, n: usize, deadline: Duration) -> bool {
    let started = Arc::new((Mutex::new(0usize), Condvar::new()));
    let ok = Arc::new(AtomicUsize::new(0));
    for _ in 0..n {
        let (started, ok) = (started.clone(), ok.clone());
        pool.execute(move || {
            let (m, cv) = &*started; let mut g = m.lock().unwrap(); *g += 1; cv.notify_all();
            let dl = Instant::now() + deadline;
            while *g < n { let (g2, _) = cv.wait_timeout(g, Duration::from_millis(50)).unwrap(); g = g2; if Instant::now() > dl { break; } }
            if *g >= n { ok.fetch_add(1, Ordering::SeqCst); }
        });
    }
    let dl = Instant::now() + deadline + Duration::from_secs(2);
    while ok.load(Ordering::SeqCst) < n && Instant::now() < dl { std::thread::sleep(Duration::from_millis(5)); }
    ok.load(Ordering::SeqCst) == n
}

pub fn run_pool(f: &[&str]) -> String {
    install_hook();
    let seed: u64 = f[1].parse().unwrap(); let n: usize = f[2].parse().unwrap(); let spec: Vec<char> = f.get(3).unwrap_or(&"").chars().collect();
    let tasks = spec.len();
    RNG.store(seed.wrapping_mul(0x9E3779B97F4A7C15) | 1, Ordering::Relaxed);
    let trace: Arc<Mutex<Vec<String>>> = Arc::new(Mutex::new(vec![]));
    *cur().lock().unwrap() = Some(trace.clone());
    let pool = ThreadPool::new(n);
    let counts: Arc<Vec<AtomicUsize>> = Arc::new((0..tasks).map(|_| AtomicUsize::new(0)).collect());
    let nrdv = spec.iter().filter(|c| **c == 'r').count();
    let started = Arc::new((Mutex::new(0usize), Condvar::new()));
    let done = Arc::new((Mutex::new(0usize), Condvar::new()));
    let rdv_ok = Arc::new(AtomicUsize::new(0));
    let mut rdv_index = 0usize;
    for j in 0..tasks {
        let (counts, started, done, t, rok) = (counts.clone(), started.clone(), done.clone(), trace.clone(), rdv_ok.clone());
        let k = spec[j];
        let my_rdv = if k == 'r' { rdv_index += 1; rdv_index } else { 0 };
        // 'd': the submitter pauses first, so that the pool has been idle for a while when this (instant) task arrives
        if k == 'd' { std::thread::sleep(Duration::from_millis(350)); }
        pool.execute(move || {
            t.lock().unwrap().push(format!("J{}:{}", j, std::thread::current().name().unwrap_or("?")));
            counts[j].fetch_add(1, Ordering::SeqCst);
            struct Done(Arc<(Mutex<usize>, Condvar)>);
            impl Drop for Done { fn drop(&mut self) { let (m, cv) = &*self.0; *m.lock().unwrap() += 1; cv.notify_all(); } }
            let _d = Done(done);
            if k == 's' { std::thread::sleep(Duration::from_micros(200 + rnd() % 800)); }
            // a request whose handling fails at the transport level, run through Server::process on this worker
            if k == 'z' || k == 'w' || k == 'f' || k == 'e' || k == 'g' { crate::run::transport_job(k); }
            // panics of every payload kind a job can produce: a literal (&str), a formatted message (String), a failed unwrap, any other value
            if k == 'p' { match j % 4 { 0 => panic!("scripted job panic"), 1 => panic!("scripted job panic {}", j),
                                        2 => { let e: Result<u32, String> = Err(format!("job {}", j)); e.unwrap(); }, _ => std::panic::panic_any(j as u64) } }
            if k == 'r' { // rendezvous of n: wait until the n tasks of this group have started
                let (m, cv) = &*started; let mut g = m.lock().unwrap(); *g += 1; cv.notify_all();
                let need = (((my_rdv - 1) / n) + 1) * n; let need = need.min(nrdv); let dl = Instant::now() + Duration::from_secs(8);
                while *g < need { let (g2, _) = cv.wait_timeout(g, Duration::from_millis(50)).unwrap(); g = g2; if Instant::now() > dl { break; } }
                if *g >= need { rok.fetch_add(1, Ordering::SeqCst); }
            }
        });
    }
    let finished;
    { let (m, cv) = &*done; let mut g = m.lock().unwrap(); let dl = Instant::now() + Duration::from_secs(30);
      while *g < tasks && Instant::now() < dl { let (g2, _) = cv.wait_timeout(g, Duration::from_millis(50)).unwrap(); g = g2; }
      finished = *g; }
    std::thread::sleep(Duration::from_millis(30)); // let the last Finished events be recorded
    let tr = trace.lock().unwrap().clone();
    *cur().lock().unwrap() = None;         // the capacity probe is not part of the trace
    let probe = rendezvous_probe(&pool, n, Duration::from_secs(8));
    std::mem::forget(pool);                // dropping the sender would make the workers spin on recv() errors
    let once = counts.iter().all(|c| c.load(Ordering::SeqCst) == 1);
    format!("P n={} tasks={} finished={} once={} rdv={}/{} probe={} trace={}", n, tasks, finished, once, rdv_ok.load(Ordering::SeqCst), nrdv,
            if probe { "ok" } else { "fail" }, tr.join(","))
}
