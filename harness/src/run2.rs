// Further case kinds: library round trips (request / response / multipart / query / json ...).
use crate::run::{hex, unhex};
use crate::request::Request;
use crate::header::Header;

fn us(h: &str) -> Option<String> { String::from_utf8(unhex(h)).ok() }
pub fn show_req(r: &Request) -> String {
    format!("OK m={} u={} v={} h=[{}] b={}", hex(r.method.as_bytes()), hex(r.request_uri.as_bytes()), hex(r.http_version.as_bytes()),
        r.headers.iter().map(|h| format!("{}:{}", hex(h.name.as_bytes()), hex(h.value.as_bytes()))).collect::<Vec<_>>().join(";"), hex(&r.body))
}
/// headers as `name:value;name:value` in hex, `-` for none
fn headers_of(spec: &str) -> Option<Vec<Header>> {
    let mut out = vec![];
    if spec == "-" { return Some(out); }
    for nv in spec.split(';') { let mut it = nv.split(':'); let n = us(it.next().unwrap_or(""))?; let v = us(it.next().unwrap_or(""))?; out.push(Header{name: n, value: v}); }
    Some(out)
}

pub fn run_case2(f: &[&str], _home: &std::path::Path) -> String {
    match f[0] {
        // reqrt <method> <uri> <version> <headers> <body>   (all hex): Request::generate, then Request::parse of those bytes
        "reqrt" => {
            let (m, u, v, hs) = (us(f[1]), us(f[2]), us(f[3]), headers_of(f[4]));
            if m.is_none() || u.is_none() || v.is_none() || hs.is_none() { return "SKIP".to_string(); }
            let r = Request{ method: m.unwrap(), request_uri: u.unwrap(), http_version: v.unwrap(), headers: hs.unwrap(), body: unhex(f.get(5).unwrap_or(&"")) };
            let g = match std::panic::catch_unwind(|| r.generate()) { Err(_) => return "PANIC".to_string(), Ok(g) => g };
            let p = match std::panic::catch_unwind(|| Request::parse(&g)) { Err(_) => "PANIC".to_string(), Ok(Err(_)) => "ERR".to_string(), Ok(Ok(r2)) => show_req(&r2) };
            format!("G {} | {}", hex(&g), p)
        }
        // gethdr <headers> <name>: case-insensitive lookup, first match
        "gethdr" => {
            let (hs, n) = (headers_of(f[1]), us(f[2]));
            if hs.is_none() || n.is_none() { return "SKIP".to_string(); }
            let r = Request{ method: "GET".into(), request_uri: "/".into(), http_version: "HTTP/1.1".into(), headers: hs.unwrap(), body: vec![] };
            match std::panic::catch_unwind(|| r.get_header(n.unwrap()).map(|h| h.value.clone())) { Err(_) => "PANIC".to_string(), Ok(None) => "NONE".to_string(), Ok(Some(v)) => format!("SOME {}", hex(v.as_bytes())) }
        }
        // resprt <static|inst> <code> <reason> <headers> <parts>: serialise a Response value with one of the two serialisers, then Response::parse
        "resprt" => {
            use crate::response::Response; use crate::range::{ContentRange, Range};
            let (rsn, hs) = (us(f[3]), headers_of(f[4]));
            if rsn.is_none() || hs.is_none() { return "SKIP".to_string(); }
            let mut parts = vec![];
            if f[5] != "-" { for p in f[5].split(',') { let x: Vec<&str> = p.split(':').collect();
                let (z, t) = (us(x[2]), us(x[3])); if z.is_none() || t.is_none() { return "SKIP".to_string(); }
                parts.push(ContentRange{ unit: "bytes".to_string(), range: Range{ start: x[0].parse().unwrap(), end: x[1].parse().unwrap() }, size: z.unwrap(), body: unhex(x[4]), content_type: t.unwrap() }); } }
            let mut r = Response{ http_version: "HTTP/1.1".to_string(), status_code: f[2].parse().unwrap(), reason_phrase: rsn.unwrap(), headers: hs.unwrap(), content_range_list: parts };
            let inst = f[1] == "inst";
            let g = match std::panic::catch_unwind(std::panic::AssertUnwindSafe(|| if inst { r.generate() } else {
                let req = Request{ method: "GET".into(), request_uri: "/".into(), http_version: "HTTP/1.1".into(), headers: vec![], body: vec![] };
                Response::generate_response(r.clone(), req) })) { Err(_) => return "PANIC".to_string(), Ok(g) => g };
            let p = match std::panic::catch_unwind(|| Response::parse(&g)) { Err(_) => "PANIC".to_string(), Ok(Err(_)) => "ERR".to_string(),
                Ok(Ok(r)) => format!("OK {} {} {} h=[{}] r=[{}]", hex(r.http_version.as_bytes()), r.status_code, hex(r.reason_phrase.as_bytes()),
                    r.headers.iter().map(|h| format!("{}:{}", hex(h.name.as_bytes()), hex(h.value.as_bytes()))).collect::<Vec<_>>().join(";"),
                    r.content_range_list.iter().map(|c| format!("{}-{}/{}:{}:{}", c.range.start, c.range.end, c.size, hex(&c.body), hex(c.content_type.as_bytes()))).collect::<Vec<_>>().join(";")) };
            format!("G {} | {}", hex(&g), p)
        }
        // mprt <boundary> <part;part..>  part = headers(name:value&name:value or -)=body   : FormMultipartData::generate then parse
        "mprt" => {
            use crate::body::multipart_form_data::{FormMultipartData, Part};
            let bd = us(f[1]); if bd.is_none() { return "SKIP".to_string(); } let bd = bd.unwrap();
            let mut parts = vec![];
            if f[2] != "-" { for p in f[2].split(';') { let (h, b) = p.split_once('=').unwrap();
                let hs = headers_of(&h.replace('&', ";")); if hs.is_none() { return "SKIP".to_string(); }
                parts.push(Part{ headers: hs.unwrap(), body: unhex(b) }); } }
            let g = match std::panic::catch_unwind(std::panic::AssertUnwindSafe(|| FormMultipartData::generate(parts, &bd))) { Err(_) => return "PANIC".to_string(), Ok(Err(_)) => return "GENERR".to_string(), Ok(Ok(g)) => g };
            let show = |ps: &Vec<Part>| ps.iter().map(|p| format!("{}={}", p.headers.iter().map(|h| format!("{}:{}", hex(h.name.as_bytes()), hex(h.value.as_bytes()))).collect::<Vec<_>>().join("&"), hex(&p.body))).collect::<Vec<_>>().join(";");
            let p = match std::panic::catch_unwind(|| FormMultipartData::parse(&g, bd.clone())) { Err(_) => "PANIC".to_string(), Ok(Err(_)) => "ERR".to_string(), Ok(Ok(ps)) => format!("OK {}", show(&ps)) };
            format!("G {} | {}", hex(&g), p)
        }
        // qrt <k:v;k:v>  URL::build_query then URL::parse_query;  furt: FormUrlEncoded::generate then ::parse;  pct <s>: percent_encode then percent_decode
        "qrt" | "furt" => {
            let mut m = std::collections::HashMap::new();
            if f[1] != "-" { for kv in f[1].split(';') { let mut it = kv.split(':'); let k = us(it.next().unwrap_or("")); let v = us(it.next().unwrap_or(""));
                if k.is_none() || v.is_none() { return "SKIP".to_string(); } m.insert(k.unwrap(), v.unwrap()); } }
            let show = |m: &std::collections::HashMap<String, String>| { let mut v: Vec<String> = m.iter().map(|(k, v)| format!("{}={}", hex(k.as_bytes()), hex(v.as_bytes()))).collect(); v.sort(); v.join(";") };
            if f[0] == "qrt" {
                let q = match std::panic::catch_unwind(|| crate::url::URL::build_query(m.clone())) { Err(_) => return "PANIC".to_string(), Ok(q) => q };
                match std::panic::catch_unwind(|| crate::url::URL::parse_query(&q)) { Err(_) => format!("Q {} | PANIC", hex(q.as_bytes())), Ok(r) => format!("Q {} | OK {}", hex(q.as_bytes()), show(&r)) }
            } else {
                let q = match std::panic::catch_unwind(|| crate::body::form_urlencoded::FormUrlEncoded::generate(m.clone())) { Err(_) => return "PANIC".to_string(), Ok(q) => q };
                match std::panic::catch_unwind(|| crate::body::form_urlencoded::FormUrlEncoded::parse(q.as_bytes().to_vec())) { Err(_) => format!("Q {} | PANIC", hex(q.as_bytes())),
                    Ok(Err(_)) => format!("Q {} | ERR", hex(q.as_bytes())), Ok(Ok(r)) => format!("Q {} | OK {}", hex(q.as_bytes()), show(&r)) }
            }
        }
        "pct" => { match us(f.get(1).unwrap_or(&"")) { None => "SKIP".to_string(), Some(t) => {
            let e = crate::url::URL::percent_encode(&t); let d = crate::url::URL::percent_decode(&e);
            format!("E {} | D {}", hex(e.as_bytes()), hex(d.as_bytes())) } } }
        "pool" => crate::pool::run_pool(f),
        "jrt" => crate::jrt::run(f),
        _ => match crate::c20::run(f) { Some(r) => r, None => if ["hdr","cd","rgspec","crv","rmp","cfgb","jprop","jtyped","upat","umatch","uext","ubuild"].contains(&f[0]) { "SKIP".to_string() } else { "?".to_string() } },
    }
}
