// Further case kinds (library round trips, typed JSON, pool traces ...) are added here.
use crate::run::{hex, unhex};
pub fn run_case2(f: &[&str], _home: &std::path::Path) -> String {
    match f[0] {
        _ => "?".to_string(),
    }
}
