// Further case kinds: library round trips (request / response / multipart / query / json ...).
use crate::run::{hex, unhex};
use crate::request::Request;
use crate::header::Header;

fn us(h: &str) -> Option<String> { String::from_utf8(unhex(h)).ok() }
pub fn show_req(r: &Request) -> String {
    format!("OK m={} u={} v={} h=[{}] b={}", hex(r.method.as_bytes()), hex(r.request_uri.as_bytes()), hex(r.http_version.as_bytes()),
        r.headers.iter().map(|h| format!("{}:{}", hex(h.name.as_bytes()), hex(h.value.as_bytes()))).collect::<Vec<_>>().join(";"), hex(&r.body))
}
/// headers as `name:value;name:value` in hex, `-` for none
fn headers_of(spec: &str) -> Option<Vec<Header>> {
    let mut out = vec![];
    if spec == "-" { return Some(out); }
    for nv in spec.split(';') { let mut it = nv.split(':'); let n = us(it.next().unwrap_or(""))?; let v = us(it.next().unwrap_or(""))?; out.push(Header{name: n, value: v}); }
    Some(out)
}

pub fn run_case2(f: &[&str], _home: &std::path::Path) -> String {
    match f[0] {
        // reqrt <method> <uri> <version> <headers> <body>   (all hex): Request::generate, then Request::parse of those bytes
        "reqrt" => {
            let (m, u, v, hs) = (us(f[1]), us(f[2]), us(f[3]), headers_of(f[4]));
            if m.is_none() || u.is_none() || v.is_none() || hs.is_none() { return "SKIP".to_string(); }
            let r = Request{ method: m.unwrap(), request_uri: u.unwrap(), http_version: v.unwrap(), headers: hs.unwrap(), body: unhex(f.get(5).unwrap_or(&"")) };
            let g = match std::panic::catch_unwind(|| r.generate()) { Err(_) => return "PANIC".to_string(), Ok(g) => g };
            let p = match std::panic::catch_unwind(|| Request::parse(&g)) { Err(_) => "PANIC".to_string(), Ok(Err(_)) => "ERR".to_string(), Ok(Ok(r2)) => show_req(&r2) };
            format!("G {} | {}", hex(&g), p)
        }
        // gethdr <headers> <name>: case-insensitive lookup, first match
        "gethdr" => {
            let (hs, n) = (headers_of(f[1]), us(f[2]));
            if hs.is_none() || n.is_none() { return "SKIP".to_string(); }
            let r = Request{ method: "GET".into(), request_uri: "/".into(), http_version: "HTTP/1.1".into(), headers: hs.unwrap(), body: vec![] };
            match std::panic::catch_unwind(|| r.get_header(n.unwrap()).map(|h| h.value.clone())) { Err(_) => "PANIC".to_string(), Ok(None) => "NONE".to_string(), Ok(Some(v)) => format!("SOME {}", hex(v.as_bytes())) }
        }
        "pool" => crate::pool::run_pool(f),
        _ => "?".to_string(),
    }
}
