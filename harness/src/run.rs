// Implementation-side runner of the correspondence check: reads case lines, writes one raw result line per case.
// Usage: rws_harness <cases-in> <results-out>.  Results go to a file because the code under test prints to stdout/stderr.
use std::io::{BufRead, Read, Write};
use crate::request::Request;
use crate::server::{Server, ConnectionInfo, Address};
use crate::app::App;
use crate::core::New;

pub fn unhex(s: &str) -> Vec<u8> { (0..s.len()/2).map(|i| u8::from_str_radix(&s[2*i..2*i+2], 16).unwrap()).collect() }
pub fn hex(b: &[u8]) -> String { let mut s = String::with_capacity(b.len()*2); for x in b { s.push_str(&format!("{:02x}", x)); } s }

/// scripted stream: `acc` = how many bytes each write call accepts (empty = everything); `werr` = fail the k-th write;
/// `ferr` = flush fails; `rerr` = read fails
pub struct Mock { pub inp: Vec<u8>, pub pos: usize, pub out: Vec<u8>, pub acc: Vec<usize>, pub nwrite: usize, pub werr: Option<usize>, pub ferr: bool, pub rerr: bool, pub rk: usize }
impl Mock { pub fn new(inp: Vec<u8>) -> Mock { Mock{inp, pos:0, out:vec![], acc:vec![], nwrite:0, werr:None, ferr:false, rerr:false, rk: RK.fetch_add(1, std::sync::atomic::Ordering::SeqCst)} } }
/// the kind of error a failing read reports is fixed per connection and rotates over connections: a reset, and the three kinds a caller
/// may be tempted to retry
static RK: std::sync::atomic::AtomicUsize = std::sync::atomic::AtomicUsize::new(0);
impl Read for Mock { fn read(&mut self, b: &mut [u8]) -> std::io::Result<usize> {
    if self.rerr { return Err(std::io::Error::new([std::io::ErrorKind::ConnectionReset, std::io::ErrorKind::TimedOut, std::io::ErrorKind::WouldBlock, std::io::ErrorKind::Interrupted][self.rk % 4], "read fails")); }
    let n = std::cmp::min(b.len(), self.inp.len()-self.pos); b[..n].copy_from_slice(&self.inp[self.pos..self.pos+n]); self.pos+=n; Ok(n) } }
impl Write for Mock {
    fn write(&mut self, b: &[u8]) -> std::io::Result<usize> {
        let k = self.nwrite; self.nwrite += 1;
        if self.werr == Some(k) { return Err(std::io::Error::new(std::io::ErrorKind::BrokenPipe, "pipe")); }
        let n = if self.acc.is_empty() { b.len() } else { std::cmp::min(b.len(), self.acc[std::cmp::min(k, self.acc.len()-1)]) };
        self.out.extend_from_slice(&b[..n]); Ok(n) }
    fn flush(&mut self)->std::io::Result<()> { if self.ferr { Err(std::io::Error::new(std::io::ErrorKind::BrokenPipe, "flush")) } else { Ok(()) } } }
impl Unpin for Mock {}

fn conn(size: i64) -> ConnectionInfo { ConnectionInfo{ client: Address{ip:"127.0.0.1".into(), port: 1234}, server: Address{ip:"127.0.0.1".into(), port: 80}, request_size: size } }
/// a request handled by Server::process over a transport that fails in one way: 'z' the writer accepts 100 bytes and then returns Ok(0),
/// 'w' the second write fails, 'f' the flush fails, 'e' the read fails, anything else a clean transport (used as pool jobs by C06)
pub fn transport_job(kind: char) {
    let mut m = Mock::new(b"GET / HTTP/1.1\r\nHost: x\r\n\r\n".to_vec());
    match kind { 'z' => m.acc = vec![100, 0], 'w' => m.werr = Some(1), 'f' => m.ferr = true, 'e' => m.rerr = true, _ => {} }
    let _ = Server::process(&mut m, conn(10000), App::new());
}
const CORS_VARS: [&str; 6] = ["RWS_CONFIG_CORS_ALLOW_ORIGINS","RWS_CONFIG_CORS_ALLOW_CREDENTIALS","RWS_CONFIG_CORS_ALLOW_METHODS","RWS_CONFIG_CORS_ALLOW_HEADERS","RWS_CONFIG_CORS_EXPOSE_HEADERS","RWS_CONFIG_CORS_MAX_AGE"];

pub fn build_tree(base: &str, spec: &str) {
    let _ = std::fs::remove_dir_all(base);
    std::fs::create_dir_all(base).unwrap();
    if spec.is_empty() || spec == "-" { return; }
    for ent in spec.split(',') {
        let parts: Vec<&str> = ent.split(':').collect();
        let p = format!("{}/{}", base, String::from_utf8(unhex(parts[1])).unwrap());
        let parent = std::path::Path::new(&p).parent().unwrap().to_path_buf();
        std::fs::create_dir_all(&parent).unwrap();
        match parts[0] {
            "D" => { std::fs::create_dir_all(&p).unwrap(); }
            "F" => { std::fs::write(&p, unhex(parts.get(2).unwrap_or(&""))).unwrap(); }
            "L" => { std::os::unix::fs::symlink(String::from_utf8(unhex(parts[2])).unwrap(), &p).unwrap(); }
            _ => panic!("bad tree entry"),
        }
    }
}

/// manifest of a tree: path, type, size, content hash (FNV-1a 64), link target — for C13
pub fn manifest(base: &str) -> String {
    fn fnv(b: &[u8]) -> u64 { let mut h: u64 = 0xcbf29ce484222325; for x in b { h ^= *x as u64; h = h.wrapping_mul(0x100000001b3); } h }
    fn walk(p: &std::path::Path, out: &mut Vec<String>) {
        let md = std::fs::symlink_metadata(p).unwrap();
        let name = hex(p.to_string_lossy().as_bytes());
        if md.file_type().is_symlink() { out.push(format!("L:{}:{}", name, hex(std::fs::read_link(p).unwrap().to_string_lossy().as_bytes()))); }
        else if md.is_dir() { out.push(format!("D:{}", name)); let mut es: Vec<_> = std::fs::read_dir(p).unwrap().map(|e| e.unwrap().path()).collect(); es.sort(); for e in es { walk(&e, out); } }
        else { let d = std::fs::read(p).unwrap(); out.push(format!("F:{}:{}:{:016x}", name, d.len(), fnv(&d))); }
    }
    let mut out = vec![]; walk(std::path::Path::new(base), &mut out); out.join(",")
}

struct ErrApp; // an application handler that reports an error
impl crate::application::Application for ErrApp { fn execute(&self, _r: &Request, _c: &ConnectionInfo) -> Result<crate::response::Response, String> { Err("handler failed".to_string()) } }

fn opt<'a>(f: &'a [&'a str], key: &str) -> Option<&'a str> { for x in f { if x.starts_with(key) && x[key.len()..].starts_with('=') { return Some(&x[key.len()+1..]); } } None }

fn run_case(line: &str, home: &std::path::Path) -> String {
    let f: Vec<&str> = line.split(' ').collect();
    match f[0] {
        "parse" => {
            let bytes = unhex(f.get(1).unwrap_or(&""));
            match std::panic::catch_unwind(|| Request::parse(&bytes)) {
                Err(_) => "PANIC".to_string(),
                Ok(Err(_)) => "ERR".to_string(),
                Ok(Ok(r)) => format!("OK m={} u={} v={} h=[{}] b={}", hex(r.method.as_bytes()), hex(r.request_uri.as_bytes()), hex(r.http_version.as_bytes()),
                    r.headers.iter().map(|h| format!("{}:{}", hex(h.name.as_bytes()), hex(h.value.as_bytes()))).collect::<Vec<_>>().join(";"), hex(&r.body)),
            }
        }
        // serve <base> <cwdrel> <cors> <tree> <reqhex> [size=N] [acc=a,b,..] [werr=k] [ferr=1] [rerr=1] [app=err] [manifest=1]
        "serve" | "serveL" => {
            let legacy = f[0] == "serveL";
            let (base, cwdrel, cors, tree, req) = (f[1], f[2], f[3], f[4], unhex(f[5]));
            let opts = &f[6..];
            build_tree(base, tree);
            let before = if opt(opts, "manifest").is_some() { manifest(base) } else { String::new() };
            std::env::set_current_dir(format!("{}/{}", base, cwdrel)).unwrap();
            let c: Vec<&str> = cors.split('|').collect();
            // the configuration reaches the request path the way it does in the running server: through the environment and the start-up
            // code.  Variables whose value is empty are left UNSET while set_default_values() and bootstrap() run (an absent variable is the
            // common state), and given their empty value afterwards; on the unchanged code start-up does not touch a variable that is set
            for v in CORS_VARS.iter() { std::env::remove_var(v); }
            std::env::remove_var("RWS_CONFIG_CORS_ALLOW_ALL");
            let mut empty: Vec<&str> = vec![];
            if c[0] == "all" { std::env::set_var("RWS_CONFIG_CORS_ALLOW_ALL", "true"); }
            else { std::env::set_var("RWS_CONFIG_CORS_ALLOW_ALL", "false");
                   for (i, v) in CORS_VARS.iter().enumerate() { let val = String::from_utf8(unhex(c[i+1])).unwrap(); if val.is_empty() { empty.push(v); } else { std::env::set_var(v, val); } } }
            crate::entry_point::set_default_values();
            crate::entry_point::bootstrap();
            if c[0] != "all" { for v in empty { std::env::set_var(v, ""); } }
            let size: i64 = opt(opts, "size").map(|s| s.parse().unwrap()).unwrap_or(10000);
            std::env::set_var("RWS_CONFIG_REQUEST_ALLOCATION_SIZE_IN_BYTES", size.to_string());
            let mut m = Mock::new(req);
            if let Some(a) = opt(opts, "acc") { m.acc = a.split(',').map(|x| x.parse().unwrap()).collect(); }
            if let Some(k) = opt(opts, "werr") { m.werr = Some(k.parse().unwrap()); }
            m.ferr = opt(opts, "ferr").is_some(); m.rerr = opt(opts, "rerr").is_some();
            let err_app = opt(opts, "app") == Some("err");
            let h = std::thread::Builder::new().name("0".into()).stack_size(2 << 20).spawn(move || {
                let mut ret = String::new();
                let r = std::panic::catch_unwind(std::panic::AssertUnwindSafe(|| {
                    if legacy { Server::process_request(&mut m, "127.0.0.1:1234".parse().unwrap()); ret = "ok".to_string(); }
                    else if err_app { ret = match Server::process(&mut m, conn(size), ErrApp) { Ok(_) => "ok".to_string(), Err(_) => "err".to_string() }; }
                    else { ret = match Server::process(&mut m, conn(size), App::new()) { Ok(_) => "ok".to_string(), Err(_) => "err".to_string() }; }
                })).is_err();
                (r, m.out, ret)
            }).unwrap();
            let (panicked, written, ret) = h.join().unwrap();
            std::env::set_current_dir(home).unwrap();
            let mut res = if panicked { format!("PANIC {}", hex(&written)) } else { format!("W {} {}", hex(&written), ret) };
            if opt(opts, "manifest").is_some() { let after = manifest(base); res.push_str(if after == before { " FS=same" } else { " FS=changed" }); }
            res
        }
        "mp" => {
            let (bd, data) = (String::from_utf8(unhex(f[1])), unhex(f.get(2).unwrap_or(&"")));
            match bd { Err(_) => "SKIP".to_string(), Ok(bd) =>
            match std::panic::catch_unwind(|| crate::body::multipart_form_data::FormMultipartData::parse(&data, bd)) {
                Err(_) => "PANIC".to_string(), Ok(Err(_)) => "ERR".to_string(),
                Ok(Ok(ps)) => format!("OK {}", ps.iter().map(|p| format!("{}={}", p.headers.iter().map(|h| format!("{}:{}", hex(h.name.as_bytes()), hex(h.value.as_bytes()))).collect::<Vec<_>>().join(";"), hex(&p.body))).collect::<Vec<_>>().join("|")),
            } }
        }
        "pq" => {
            match String::from_utf8(unhex(f.get(1).unwrap_or(&""))) { Err(_) => "SKIP".to_string(), Ok(q) => {
                match std::panic::catch_unwind(|| crate::url::URL::parse_query(&q)) { Err(_) => "PANIC".to_string(), Ok(m) => {
                let mut v: Vec<String> = m.iter().map(|(k, v)| format!("{}={}", hex(k.as_bytes()), hex(v.as_bytes()))).collect(); v.sort();
                format!("OK {}", v.join(";")) } } } }
        }
        "cfg" => {
            use crate::entry_point::command_line_args::CommandLineArgument;
            let table = CommandLineArgument::get_command_line_arg_list();
            for a in &table { std::env::remove_var(&a.environment_variable); }
            if f[1] != "-" { for kv in f[1].split(',') { let mut it = kv.split(':'); let k = String::from_utf8(unhex(it.next().unwrap())).unwrap(); let v = String::from_utf8(unhex(it.next().unwrap_or(""))).unwrap(); std::env::set_var(k, v); } }
            let r = std::panic::catch_unwind(|| {
                crate::entry_point::set_default_values();
                if f[2] != "-" { let content = unhex(&f[2][1..]); let _ = crate::entry_point::config_file::read_config_file(std::io::Cursor::new(&content[..]), "".to_string()); }
                let args: Vec<String> = if f[3] == "-" { vec![] } else { f[3].split(',').map(|a| String::from_utf8(unhex(a)).unwrap()).collect() };
                CommandLineArgument::_parse(args, CommandLineArgument::get_command_line_arg_list());
            });
            if r.is_err() { "PANIC".to_string() } else {
            table.iter().map(|a| format!("{}={}", a.environment_variable, match std::env::var(&a.environment_variable) { Ok(v) => hex(v.as_bytes()), Err(_) => "<unset>".to_string() })).collect::<Vec<_>>().join(";") }
        }
        "rp" => {
            let bytes = unhex(f.get(1).unwrap_or(&""));
            match std::panic::catch_unwind(|| crate::response::Response::parse(&bytes)) {
                Err(_) => "PANIC".to_string(), Ok(Err(_)) => "ERR".to_string(),
                Ok(Ok(r)) => format!("OK {} {} {} h=[{}] r=[{}]", hex(r.http_version.as_bytes()), r.status_code, hex(r.reason_phrase.as_bytes()),
                    r.headers.iter().map(|h| format!("{}:{}", hex(h.name.as_bytes()), hex(h.value.as_bytes()))).collect::<Vec<_>>().join(";"),
                    r.content_range_list.iter().map(|c| format!("{}-{}/{}:{}:{}", c.range.start, c.range.end, c.size, hex(&c.body), hex(c.content_type.as_bytes()))).collect::<Vec<_>>().join(";")),
            }
        }
        "jobj" => { match String::from_utf8(unhex(f.get(1).unwrap_or(&""))) { Err(_) => "SKIP".to_string(), Ok(t) =>
            match std::panic::catch_unwind(|| crate::json::object::JSON::parse_as_properties(t)) { Err(_) => "PANIC".to_string(), Ok(Err(_)) => "ERR".to_string(),
              Ok(Ok(ps)) => format!("OK {}", ps.iter().map(|(p, v)| format!("{}|{}|{}", hex(p.property_name.as_bytes()), p.property_type,
                 if v.null.is_some() { "null".to_string() } else if let Some(s) = &v.string { format!("s{}", hex(s.as_bytes())) } else if let Some(i) = v.i128 { i.to_string() }
                 else if v.f64.is_some() { "f".to_string() } else if let Some(a) = &v.array { format!("a{}", hex(a.as_bytes())) } else if let Some(o) = &v.object { format!("o{}", hex(o.as_bytes())) }
                 else if let Some(b) = v.bool { b.to_string() } else { "?".to_string() })).collect::<Vec<_>>().join(";")) } } }
        "jarr" => { match String::from_utf8(unhex(f.get(1).unwrap_or(&""))) { Err(_) => "SKIP".to_string(), Ok(t) =>
            match std::panic::catch_unwind(|| crate::json::array::RawUnprocessedJSONArray::split_into_vector_of_strings(t)) { Err(_) => "PANIC".to_string(), Ok(Err(_)) => "ERR".to_string(),
              Ok(Ok(items)) => format!("OK {}", items.iter().map(|x| hex(x.as_bytes())).collect::<Vec<_>>().join(";")) } } }
        "b64e" => { let b = unhex(f.get(1).unwrap_or(&"")); match std::panic::catch_unwind(|| crate::core::base64::Base64::encode(&b)) { Err(_) => "PANIC".to_string(), Ok(Err(_)) => "ERR".to_string(), Ok(Ok(t)) => format!("OK {}", hex(t.as_bytes())) } }
        "b64d" => { match String::from_utf8(unhex(f.get(1).unwrap_or(&""))) { Err(_) => "SKIP".to_string(), Ok(t) => match std::panic::catch_unwind(|| crate::core::base64::Base64::decode(t)) { Err(_) => "PANIC".to_string(), Ok(Err(_)) => "ERR".to_string(), Ok(Ok(b)) => format!("OK {}", hex(&b)) } } }
        _ => crate::run2::run_case2(&f, home),
    }
}

pub fn main() {
    let args: Vec<String> = std::env::args().collect();
    let input = std::fs::File::open(&args[1]).unwrap();
    let mut out = std::fs::File::create(&args[2]).unwrap();
    std::panic::set_hook(Box::new(|_| {}));
    let home = std::env::current_dir().unwrap();
    // a watchdog per case: code that does not return (a loop that spins on a transport that accepts nothing, a reader that never sees the
    // end) must cost seconds, not the runner's quarter of an hour.  The case runs on its own thread; when it is not back in time the process
    // exits with status 124 WITHOUT a result line, which the runner records as a crash of exactly this case and resumes after it
    let limit = std::env::var("VERIF_CASE_SECONDS").ok().and_then(|v| v.parse::<u64>().ok()).unwrap_or(60);
    for line in std::io::BufReader::new(input).lines() {
        let line = line.unwrap();
        let deep = line.len() > 50000 || line.starts_with("pool ");       // very large inputs and pool cases have their own, longer deadlines
        let (tx, rx) = std::sync::mpsc::channel();
        let (l2, h2) = (line.clone(), home.clone());
        std::thread::Builder::new().stack_size(8 << 20).spawn(move || { let _ = tx.send(run_case(&l2, &h2)); }).unwrap();       // 8 MiB: the main thread's stack, on which the cases ran before
        let res = match rx.recv_timeout(std::time::Duration::from_secs(if deep { limit * 5 } else { limit })) {
            Ok(r) => r,
            Err(std::sync::mpsc::RecvTimeoutError::Timeout) => std::process::exit(124),
            Err(_) => std::process::exit(101),          // the case thread died without a result (a panic outside catch_unwind): as before, a crash
        };
        writeln!(out, "{}", res).unwrap();
        out.flush().unwrap();
    }
}
