// C19: a value tree written with the library's JSON writers and read back with its readers, composed the way the
// repository's example structs compose them (ToJSON::to_json_string / FromJSON::parse / JSONArrayOf*::{to_json*, parse_as_list_*}).
//   V := s<hex> | b0 | b1 | i<dec> | f<debug-text>~<display-text> | n | O(name=V,...) | AI<w>(dec;..) | AF(f..;..) | AS(s<hex>;..) | AB(0;1) | AN(k) | AO(V;..)
use crate::run::{hex, unhex};
use crate::core::New;
use crate::json::object::{FromJSON, ToJSON, JSON};
use crate::json::property::{JSONProperty, JSONValue};
use crate::json::JSON_TYPE;
use crate::json::array::integer::JSONArrayOfIntegers;
use crate::json::array::float::JSONArrayOfFloats;
use crate::json::array::string::JSONArrayOfStrings;
use crate::json::array::boolean::JSONArrayOfBooleans;
use crate::json::array::null::JSONArrayOfNulls;
use crate::json::array::object::JSONArrayOfObjects;
use crate::null::Null;
use std::cell::RefCell;

#[derive(Clone, Debug)]
pub enum V { S(String), B(bool), I(i128), F(f64), Null, O(Vec<(String, V)>), AI(String, Vec<String>), AF(Vec<f64>), AS(Vec<String>), AB(Vec<bool>), AN(usize), AO(Vec<V>) }

struct P<'a> { s: &'a [u8], i: usize, bad_float: bool }
impl<'a> P<'a> {
    fn peek(&self) -> u8 { if self.i < self.s.len() { self.s[self.i] } else { 0 } }
    fn eat(&mut self, c: u8) -> Option<()> { if self.peek() == c { self.i += 1; Some(()) } else { None } }
    fn until(&mut self, stops: &[u8]) -> String { let st = self.i; while self.i < self.s.len() && !stops.contains(&self.s[self.i]) { self.i += 1; } String::from_utf8_lossy(&self.s[st..self.i]).to_string() }
    fn float(&mut self) -> Option<f64> {
        let t = self.until(b",;)"); let (d, p) = t.split_once('~')?; let x: f64 = d.parse().ok()?;
        if format!("{:?}", x) != d || x.to_string() != p { self.bad_float = true; }
        Some(x)
    }
    fn list<T>(&mut self, mut item: impl FnMut(&mut Self) -> Option<T>) -> Option<Vec<T>> {
        self.eat(b'(')?; let mut out = vec![];
        if self.peek() == b')' { self.i += 1; return Some(out); }
        loop { out.push(item(self)?); if self.peek() == b';' { self.i += 1; continue; } self.eat(b')')?; return Some(out); }
    }
    fn value(&mut self) -> Option<V> {
        let c = self.peek(); self.i += 1;
        match c {
            b's' => { let h = self.until(b",;)"); String::from_utf8(unhex(&h)).ok().map(V::S) }
            b'b' => { let d = self.peek(); self.i += 1; Some(V::B(d == b'1')) }
            b'i' => { let t = self.until(b",;)"); t.parse::<i128>().ok().map(V::I) }
            b'f' => self.float().map(V::F),
            b'n' => Some(V::Null),
            b'O' => { self.eat(b'(')?; let mut fs = vec![];
                if self.peek() == b')' { self.i += 1; return Some(V::O(fs)); }
                loop { let n = self.until(b"="); self.eat(b'=')?; let v = self.value()?; fs.push((n, v));
                       if self.peek() == b',' { self.i += 1; continue; } self.eat(b')')?; return Some(V::O(fs)); } }
            b'A' => { let k = self.peek(); self.i += 1;
                match k {
                    b'I' => { let w = self.until(b"("); let xs = self.list(|p| Some(p.until(b";)")))?; Some(V::AI(w, xs)) }
                    b'F' => { let xs = self.list(|p| { p.eat(b'f')?; p.float() })?; Some(V::AF(xs)) }
                    b'S' => { let xs = self.list(|p| { p.eat(b's')?; let h = p.until(b";)"); String::from_utf8(unhex(&h)).ok() })?; Some(V::AS(xs)) }
                    b'B' => { let xs = self.list(|p| { let d = p.peek(); p.i += 1; Some(d == b'1') })?; Some(V::AB(xs)) }
                    b'N' => { self.eat(b'(')?; let t = self.until(b")"); self.eat(b')')?; t.parse::<usize>().ok().map(V::AN) }
                    b'O' => { let xs = self.list(|p| p.value())?; Some(V::AO(xs)) }
                    _ => None } }
            _ => None }
    }
}

pub fn show(v: &V, field: bool) -> String {
    match v {
        V::S(s) => format!("s{}", hex(s.as_bytes())), V::B(b) => format!("b{}", if *b { 1 } else { 0 }), V::I(i) => format!("i{}", i),
        V::F(x) => if field { format!("f{:?}", x) } else { format!("f{}", x) }, V::Null => "n".to_string(),
        V::O(fs) => format!("O({})", fs.iter().map(|(n, x)| format!("{}={}", n, show(x, true))).collect::<Vec<_>>().join(",")),
        V::AI(w, xs) => format!("AI{}({})", w, xs.join(";")),
        V::AF(xs) => format!("AF({})", xs.iter().map(|x| if *x == 0.0 { "f0.0".to_string() } else { format!("f{}", x) }).collect::<Vec<_>>().join(";")),
        V::AS(xs) => format!("AS({})", xs.iter().map(|x| format!("s{}", hex(x.as_bytes()))).collect::<Vec<_>>().join(";")),
        V::AB(xs) => format!("AB({})", xs.iter().map(|b| if *b { "1" } else { "0" }).collect::<Vec<_>>().join(";")),
        V::AN(k) => format!("AN({})", k),
        V::AO(xs) => format!("AO({})", xs.iter().map(|x| show(x, true)).collect::<Vec<_>>().join(";")),
    }
}

// ---- the generic struct: fields with declared types; `schema` says what set_properties reads into each field
thread_local! { static SCHEMA: RefCell<Vec<(String, V)>> = RefCell::new(vec![]); }
pub struct Obj { pub schema: Vec<(String, V)>, pub fields: Vec<(String, V)> }
impl New for Obj { fn new() -> Self { let s = SCHEMA.with(|c| c.borrow().clone()); Obj { fields: s.iter().map(|(n, _)| (n.clone(), V::Null)).collect(), schema: s } } }

macro_rules! ints { ($w:expr, $xs:expr, $( $name:literal, $t:ty, $to:ident, $from:ident );* ) => {{
    match $w { $( $name => { let v: Vec<$t> = $xs.iter().map(|x| x.parse::<$t>().unwrap()).collect(); JSONArrayOfIntegers::$to(&v) } )* _ => Err("width".to_string()) } }} }
macro_rules! ints_back { ($w:expr, $raw:expr, $( $name:literal, $t:ty, $to:ident, $from:ident );* ) => {{
    match $w { $( $name => JSONArrayOfIntegers::$from($raw).map(|v| v.iter().map(|x| x.to_string()).collect::<Vec<String>>()), )* _ => Err("width".to_string()) } }} }
macro_rules! widths { ($m:ident, $w:expr, $a:expr) => { $m!($w, $a, "i8", i8, to_json_from_list_i8, parse_as_list_i8; "i16", i16, to_json_from_list_i16, parse_as_list_i16; "i32", i32, to_json_from_list_i32, parse_as_list_i32;
    "i64", i64, to_json_from_list_i64, parse_as_list_i64; "i128", i128, to_json_from_list_i128, parse_as_list_i128; "u8", u8, to_json_from_list_u8, parse_as_list_u8; "u16", u16, to_json_from_list_u16, parse_as_list_u16;
    "u32", u32, to_json_from_list_u32, parse_as_list_u32; "u64", u64, to_json_from_list_u64, parse_as_list_u64; "u128", u128, to_json_from_list_u128, parse_as_list_u128) } }

pub fn array_text(v: &V) -> Result<String, String> {
    match v {
        V::AI(w, xs) => widths!(ints, w.as_str(), xs),
        V::AF(xs) => JSONArrayOfFloats::to_json_from_list_f64(xs),
        V::AS(xs) => JSONArrayOfStrings::to_json_from_list_string(xs),
        V::AB(xs) => JSONArrayOfBooleans::to_json_from_list_bool(xs),
        V::AN(k) => { let n = Null {}; let v: Vec<&Null> = (0..*k).map(|_| &n).collect(); JSONArrayOfNulls::to_json_from_list_null(&v) }
        V::AO(xs) => { let objs: Vec<Obj> = xs.iter().map(|x| match x { V::O(fs) => Obj { schema: fs.clone(), fields: fs.clone() }, _ => Obj { schema: vec![], fields: vec![] } }).collect();
                       JSONArrayOfObjects::<Obj>::to_json(&objs) }
        _ => Err("not an array".to_string()),
    }
}
/// the typed reader for an array declared like `sch`
pub fn array_back(sch: &V, raw: String) -> Result<V, String> {
    match sch {
        V::AI(w, _) => widths!(ints_back, w.as_str(), raw).map(|xs| V::AI(w.clone(), xs)),
        V::AF(_) => JSONArrayOfFloats::parse_as_list_f64(raw).map(V::AF),
        V::AS(_) => JSONArrayOfStrings::parse_as_list_string(raw).map(V::AS),
        V::AB(_) => JSONArrayOfBooleans::parse_as_list_bool(raw).map(V::AB),
        V::AN(_) => JSONArrayOfNulls::parse_as_list_null(raw).map(|v| V::AN(v.len())),
        V::AO(xs) => {
            if xs.is_empty() { return crate::json::array::RawUnprocessedJSONArray::split_into_vector_of_strings(raw).map(|items| if items.is_empty() { V::AO(vec![]) } else { V::Null }); }
            let elem = match &xs[0] { V::O(fs) => fs.clone(), _ => vec![] };
            let saved = SCHEMA.with(|c| c.replace(elem));
            let r = JSONArrayOfObjects::<Obj>::from_json(raw);
            SCHEMA.with(|c| c.replace(saved));
            r.map(|objs| V::AO(objs.into_iter().map(|o| V::O(o.fields)).collect()))
        }
        _ => Err("not an array".to_string()),
    }
}

impl ToJSON for Obj {
    fn list_properties() -> Vec<JSONProperty> { vec![] }
    fn get_property(&self, property_name: String) -> JSONValue {
        let mut value = JSONValue::new();
        for (n, v) in &self.fields { if *n == property_name { match v {
            V::S(s) => value.string = Some(s.clone()), V::B(b) => value.bool = Some(*b), V::I(i) => value.i128 = Some(*i), V::F(x) => value.f64 = Some(*x), V::Null => {}
            V::O(fs) => value.object = Some(Obj { schema: fs.clone(), fields: fs.clone() }.to_json_string()),
            a => { let t = array_text(a); if t.is_ok() { value.array = Some(t.unwrap()); } } } } }
        value
    }
    fn to_json_string(&self) -> String {
        let mut processed = vec![];
        for (n, v) in &self.fields {
            let ty = match v { V::S(_) | V::Null => JSON_TYPE.string, V::B(_) => JSON_TYPE.boolean, V::I(_) => JSON_TYPE.integer, V::F(_) => JSON_TYPE.number, V::O(_) => JSON_TYPE.object, _ => JSON_TYPE.array };
            processed.push((JSONProperty { property_name: n.clone(), property_type: ty.to_string() }, self.get_property(n.clone())));
        }
        JSON::to_json_string(processed)
    }
}
impl FromJSON for Obj {
    fn parse_json_to_properties(&self, json_string: String) -> Result<Vec<(JSONProperty, JSONValue)>, String> { JSON::parse_as_properties(json_string) }
    fn set_properties(&mut self, properties: Vec<(JSONProperty, JSONValue)>) -> Result<(), String> {
        for (property, value) in properties {
            for k in 0..self.schema.len() {
                if self.schema[k].0 != property.property_name { continue; }
                let sch = self.schema[k].1.clone();
                match &sch {
                    V::S(_) => if value.string.is_some() { self.fields[k].1 = V::S(value.string.clone().unwrap()); },
                    V::B(_) => if value.bool.is_some() { self.fields[k].1 = V::B(value.bool.unwrap()); },
                    V::I(_) => if value.i128.is_some() { self.fields[k].1 = V::I(value.i128.unwrap()); },
                    V::F(_) => if value.f64.is_some() { self.fields[k].1 = V::F(value.f64.unwrap()); },
                    V::Null => {}
                    V::O(fs) => if value.object.is_some() {
                        let mut o = Obj { schema: fs.clone(), fields: fs.iter().map(|(n, _)| (n.clone(), V::Null)).collect() };
                        let r = o.parse(value.object.clone().unwrap());
                        if r.is_err() { return Err(r.err().unwrap()); }
                        self.fields[k].1 = V::O(o.fields);
                    },
                    a => if value.array.is_some() { let r = array_back(a, value.array.clone().unwrap()); if r.is_ok() { self.fields[k].1 = r.unwrap(); } },
                }
            }
        }
        Ok(())
    }
    fn parse(&mut self, json_string: String) -> Result<(), String> {
        let props = self.parse_json_to_properties(json_string)?;
        self.set_properties(props)
    }
}

pub fn run(f: &[&str]) -> String {
    let src = f.get(1).unwrap_or(&"");
    let mut p = P { s: src.as_bytes(), i: 0, bad_float: false };
    let v = match p.value() { Some(v) if p.i == src.len() => v, _ => return "SKIP".to_string() };
    if p.bad_float { return "FLOATTEXT".to_string(); }
    let v2 = v.clone();
    let text = match std::panic::catch_unwind(move || match &v2 { V::O(fs) => Ok(Obj { schema: fs.clone(), fields: fs.clone() }.to_json_string()), a => array_text(a) }) {
        Err(_) => return "PANIC".to_string(), Ok(Err(_)) => return "GENERR".to_string(), Ok(Ok(t)) => t };
    let t2 = text.clone();
    let back = std::panic::catch_unwind(move || match &v {
        V::O(fs) => { let mut o = Obj { schema: fs.clone(), fields: fs.iter().map(|(n, _)| (n.clone(), V::Null)).collect() }; o.parse(t2).map(|_| V::O(o.fields)) }
        a => array_back(a, t2) });
    SCHEMA.with(|c| c.replace(vec![]));
    format!("T {} | {}", hex(text.as_bytes()), match back { Err(_) => "PANIC".to_string(), Ok(Err(_)) => "ERR".to_string(), Ok(Ok(b)) => format!("OK {}", show(&b, false)) })
}
