"""C06 — serving capacity survives any history of connections."""
import os, random, time
from .c07 import P as C07, parse_pool
from .base import *
import netprobe, vlib


class P(C07):
    ID = "C06"
    THEOREMS = ["C06_pool_never_loses_a_worker", "C06_accept_loop_survives", "C06_unguarded_loop_refuted", "C06_returning_accept_loop_refuted", "C06_invariant_reachable"]
    COQ_TARGETS = ["theories/Props/C06.vo", "theories/Extract.vo"]
    N_QUICK = 100
    N_THOROUGH = 1500
    PANICS = True
    RULE = ("(1) pool cases as for C07 but with panicking jobs mixed into the history (kinds instant / sleeping / rendezvous / panic, 0..4N tasks, "
            "N in 1..8), trace validated by the extracted transition system, followed by a probe of N simultaneous tasks.  (2) the real rws binary "
            "built from /repo on a loopback port with -t=N: histories of connections drawn from valid requests, every formerly fault-provoking "
            "request (bad target, bad port, Content-Length junk, range underflow, thousands of header lines, bad form bodies), early close, reset "
            "before/after sending, half-sent request, stalled-then-closed, response not read, and connections reset BEFORE accept (SIGSTOP, "
            "connect+RST, SIGCONT); after each history a valid request must be answered and N simultaneous connections must be served "
            "(the last-opened one while the other N-1 are idle).  Non-trivial = a history containing at least one fault kind.")
    ASSUMPTIONS = C07.ASSUMPTIONS + ["a stalled peer occupies its worker for as long as it keeps the connection open (no read timeout): histories "
                                     "only contain stalls that the peer ends; kernel back-pressure and fd exhaustion are outside the model"]

    def extra(self, tier, seed, work, notes):
        """real-binary histories; returns {"failures": [(description, signature, finding id, replay payload)], "coverage": {...}}"""
        fails = []
        rnd = random.Random(seed * 7919 + 6)
        nh = 6 if tier == "quick" else 60
        kinds = list(netprobe.KINDS)
        try:
            exe = vlib.build_binary()
        except vlib.Infra as e:
            notes.append("campaign: skipped (%s)" % str(e)[:100])
            return {"failures": [], "coverage": {"campaign": "skipped"}}
        base = os.path.join(work, "net"); os.makedirs(base, exist_ok=True)
        root = netprobe.make_root(base)
        done, hist_samples = 0, []
        # what a server that has seen nothing answers to short valid requests: after any history the answers must be these
        import re
        def canon(raw):
            return None if raw is None else re.sub(rb"(Date-Unix-Epoch-Nanos|Last-Modified-Unix-Epoch-Nanos): [^\r\n]*", rb"\1: ", raw)
        follow = [netprobe.VALID, b"POST /form-url-encoded-enctype-post-method HTTP/1.1\r\nContent-Type: application/x-www-form-urlencoded\r\n\r\nkey=value",
                  b"GET /form-get-method?k=v HTTP/1.1\r\n\r\n"]
        ref = None
        try:
            f0 = netprobe.Server(exe, root, threads=1)
            try:
                ref = [canon(f0.request(r)) for r in follow]
            finally:
                f0.stop()
        except Exception as e:
            notes.append("campaign: reference answers unavailable (%s)" % e)
        for h in range(nh):
            N = rnd.choice([1, 2, 2, 3, 4])
            L = rnd.choice([1, 3, 8, 20]) if tier == "quick" else rnd.choice([1, 5, 20, 60, 150, 300])
            hist = [rnd.choice(kinds) for _ in range(L)]
            if h == 0:
                hist = list(kinds); rnd.shuffle(hist); N = 4      # every kind at least once per run
            if h % 3 == 0:
                hist.insert(rnd.randrange(len(hist) + 1), "rst_before_accept")
            try:
                s = netprobe.Server(exe, root, threads=N)
            except Exception as e:
                notes.append("campaign: server did not start (%s)" % e)
                return {"failures": fails, "coverage": {"campaign": "skipped: bind failed", "histories": done}}
            try:
                for k in hist:
                    if k == "rst_before_accept":
                        netprobe.stop_rst_cont(s, 3)
                    else:
                        netprobe.KINDS[k](s)
                time.sleep(0.05)
                res = netprobe.capacity_probe(s)
                if res != "ok":
                    # retried with a 4x deadline twice before it counts (timing is never evidence on its own)
                    for _ in range(2):
                        time.sleep(0.3)
                        res = netprobe.capacity_probe(s, deadline=8.0)
                        if res == "ok":
                            break
                if res != "ok":
                    fails.append(("history of %d connections on -t=%d" % (len(hist), N), "after-history-%s" % res, None,
                                  {"history": hist, "threads": N, "probe": res, "how": "tools/netprobe.py: Server(exe, root, threads=N); each kind in order; capacity_probe"}))
                if res == "ok" and ref is not None:
                    # "still answers a following valid request correctly": the same bytes as a server without a history (asked twice per request: every worker)
                    for r, want in zip(follow, ref):
                        for _ in range(2 * N):
                            got = canon(s.request(r, timeout=5.0))
                            if got != want and got:
                                fails.append(("after a history of %d connections on -t=%d a valid request is answered differently from a server without a history" % (len(hist), N),
                                              "after-history-answer-differs", None,
                                              {"history": hist, "threads": N, "request": r[:200].decode("latin-1"), "expected_tail": (want or b"")[-200:].decode("latin-1"), "received_tail": (got or b"")[-200:].decode("latin-1")}))
                                break
                        else:
                            continue
                        break
                done += 1
                if len(hist_samples) < 3:
                    hist_samples.append({"threads": N, "history": hist[:12], "probe": res})
            finally:
                s.stop()
        return {"failures": fails, "coverage": {"campaign": "real binary on loopback", "histories": done, "history_samples": hist_samples}}
