"""C14 — request parsing accepts exactly well-formed requests and round-trips them."""
from .base import *
import httpcanon

METHODS = [b"GET", b"HEAD", b"POST", b"PUT", b"DELETE", b"CONNECT", b"OPTIONS", b"TRACE", b"PATCH"]
VERS = [b"HTTP/0.9", b"HTTP/1.0", b"HTTP/1.1", b"HTTP/2.0"]
ALPH = b"abcXYZ019-_/.:=; ,\t%?#&"
# code points whose full-Unicode upper-casing lands in ASCII letters (dotless i, long s, Kelvin sign, ligatures ...): outside the modelled domain
CASE_HAZARD = "ıſKßﬁﬂﬀﬃﬄﬅﬆŉǰΐΰẖẗẘẙẚ"


def hx(b):
    return b.hex()


class P(Prop):
    ID = "C14"
    THEOREMS = ["C14_roundtrip", "C14_accept", "C14_request_line_accepts", "C14_reject_non_utf8", "C14_reject_request_line", "C14_request_line_rejects",
                "C14_request_line_accept_shape", "C14_no_panic", "C14_lookup_ci", "C14_lookup_first", "C14_nonvacuous", "C14_F1_witness"]
    COQ_TARGETS = ["theories/Props/C14.vo", "theories/Extract.vo"]
    N_QUICK = 4000
    N_THOROUGH = 120000
    RULE = ("parse: valid requests over 9 methods (some lower-cased) x 4 versions x targets x 0..50 headers (Content-Length edge values, non-ASCII "
            "values, ': ' and '=' in values, LF-only line ends) x binary bodies, then structure-aware mutation (truncation, byte substitution incl. "
            "NUL/CR/LF/0x85/U+00A0/U+2028/0xFF, insertion, deletion) and near-miss request lines; reqrt: Request::generate then Request::parse for "
            "random well-formed requests (values with ': ', bodies starting with a blank line); gethdr: case-insensitive lookup.  Oracle "
            "(implementation only): well-formed => accepted and equal to the original; bad request line / non-UTF-8 request line => Err; lookup "
            "= first header whose ASCII-lowercased name matches.  Non-trivial = an OK parse with at least one header, distinct by case line.")
    ASSUMPTIONS = ["case mapping: the model uses the toolchain's own table for every character (GenUnicase); the one context rule of str::to_lowercase, the final sigma, is modelled with the two character classes regenerated from the toolchain; the Python oracles abstain on the code points whose mapping Python and Rust may not share (%s)" % CASE_HAZARD]

    def tok(self, rnd, k, alph=ALPH):
        return bytes(rnd.choice(alph) for _ in range(rnd.randint(0, k)))

    def name(self, rnd):
        return rnd.choice([b"Host", b"Range", b"Content-Length", b"Origin", b"X-" + self.tok(rnd, 5, b"abcXYZ-"), b"content-length", self.tok(rnd, 6, b"abcXYZ-_ ;=")])

    def value(self, rnd, nm):
        r = rnd.random()
        if nm == b"Content-Length":
            return rnd.choice([b"0", b"12", b"+7", b"a", b"-1", b"18446744073709551615", b"18446744073709551616", b"", b" 5"])
        if r < 0.2: return "é😀 ü".encode() + self.tok(rnd, 4)
        if r < 0.35: return b"a: b" + self.tok(rnd, 3) + b": c"
        return self.tok(rnd, 12)

    def valid(self, rnd):
        m = rnd.choice(METHODS)
        if rnd.random() < 0.1: m = m.lower()
        t = b"/" + self.tok(rnd, 10, b"abc/.?=&#%x")
        v = rnd.choice(VERS)
        hs = []
        for _ in range(rnd.choice([0, 1, 2, 3, 8, 50]) if rnd.random() < 0.9 else 300):
            nm = self.name(rnd); hs.append(nm + b": " + self.value(rnd, nm))
        body = bytes(rnd.randrange(256) for _ in range(rnd.choice([0, 0, 3, 20])))
        eol = rnd.choice([b"\r\n", b"\r\n", b"\n"])
        return m + b" " + t + b" " + v + eol + b"".join(h + eol for h in hs) + eol + body

    def mutate(self, rnd, b):
        b = bytearray(b); k = rnd.random()
        if not b: return bytes(b)
        if k < 0.3: return bytes(b[:rnd.randrange(len(b) + 1)])
        if k < 0.6:
            i = rnd.randrange(len(b)); b[i] = rnd.choice([0, 10, 13, 32, 58, 128, 255, 0xc2, 0xa0, 0xe2, rnd.randrange(256)]); return bytes(b)
        if k < 0.8:
            i = rnd.randrange(len(b)); return bytes(b[:i]) + rnd.choice([b" ", b"\r\n", b": ", b"\xc2\xa0", b"\xe2\x80\xa8", b"\x85", b"\xff"]) + bytes(b[i:])
        i = rnd.randrange(len(b)); j = rnd.randrange(i, len(b)); return bytes(b[:i]) + bytes(b[j:])

    def gen(self, rnd, tier, n):
        out = []
        for i in range(n):
            r = rnd.random()
            if r < 0.55:
                q = self.valid(rnd)
                if i % 2: q = self.mutate(rnd, q)
                if i % 7 == 0: q = self.mutate(rnd, self.mutate(rnd, q))
                out.append("parse " + hx(q))
            elif r < 0.65:
                # near misses of the request line
                line = rnd.choice([b"GET /", b"GET", b"", b"GET  / HTTP/1.1", b"FOO / HTTP/1.1", b"GET / HTTP/3.0", b"GET / http/1.1", b"get / HTTP/1.1", b" GET / HTTP/1.1",
                                   b"GET / HTTP/1.1 ", b"GET / HTTP/1.1 x", b"GET /a b HTTP/1.1", b"G\xc3\x89T / HTTP/1.1", b"GET /\xff HTTP/1.1", b"GET /\xc3\xa9 HTTP/1.1",
                                   b"\xe2\x80\xa8GET / HTTP/1.1", b"GET\t/\tHTTP/1.1", b"GET / HTTP/1.1\r", b"PATCH /x HTTP/0.9", b"OPTIONS * HTTP/2.0",
                                   # letters whose upper case lands in ASCII: the long s, the dotless i (the method and version are upper-cased before the lookup)
                                   "optionſ / HTTP/1.1".encode(), "poſt /x HTTP/1.1".encode(), "delete / HTTP/1.1".encode(), "connect / HTTP/1.1".encode(), "trace / HTTP/1.1".encode(),
                                   "ſ / HTTP/1.1".encode(), "GET / HTTP/1.1".replace("H", "Η").encode(), "PΟST / HTTP/1.1".encode(), "ԍET / HTTP/1.1".encode(), "get / http/1.1".replace("p", "ｐ").encode()])
                out.append("parse " + hx(line + rnd.choice([b"\r\n\r\n", b"\n\n", b"", b"\r\nA: b\r\n\r\nbody"])) + " # nearmiss=1")
            elif r < 0.92:
                # well-formed request for the round trip
                m = rnd.choice(METHODS); u = b"/" + self.tok(rnd, 12, b"abc/.?=&#%x-_~"); v = rnd.choice(VERS)
                hs = []
                for _ in range(rnd.choice([0, 1, 2, 5, 20, 50])):
                    nm = rnd.choice([b"Host", b"X-" + self.tok(rnd, 6, b"abcXYZ-"), b"Accept", b"Content-Length", b"A=b", b"a;b", "Ünï".encode(), b"content-length", b"CONTENT-LENGTH", b"Content-length", b"X-Content-Length"])
                    if nm == b"Content-Length": val = str(rnd.choice([0, 5, 2 ** 31, 2 ** 64 - 1])).encode()
                    else: val = rnd.choice([self.tok(rnd, 10, b"abc: =;,/"), b"x: y: z", b"a=b: c", "ü: 😀".encode(), b"", b" lead", b"trail ", b"a:b", b"::"])
                    hs.append((nm, val))
                body = rnd.choice([b"", b"\r\n", b"\r\n\r\nx", b"\n", b"\x00\xff\r\n", bytes(rnd.randrange(256) for _ in range(rnd.randint(0, 40)))])
                hspec = ";".join(hx(a) + ":" + hx(b_) for a, b_ in hs) or "-"
                out.append("reqrt %s %s %s %s %s # wf=1" % (hx(m), hx(u), hx(v), hspec, hx(body)))
            else:
                names = [rnd.choice([b"Host", b"HOST", b"host", b"X-A", b"x-a", b"Range", "ü".encode()]) for _ in range(rnd.randint(0, 5))]
                hspec = ";".join(hx(nm) + ":" + hx(b"v%d" % k) for k, nm in enumerate(names)) or "-"
                q = rnd.choice([b"host", b"Host", b"X-a", b"RANGE", b"missing", "ü".encode()])
                if rnd.random() < 0.25:
                    # letter case outside ASCII: compared with the model (its case mapping is the toolchain's table) and judged by an oracle on
                    # Latin-1, Cyrillic and Greek, where Python's and Rust's tables agree
                    base = rnd.choice(["x-ключ", "größe-é", "ñandú", "x-αβγ", "ÿ-þ", "x-ж1", "ü", "x-ǆ", "ԱԲ", "ⴀⴁ", "ｘ-ａ",
                                       # the capital sigma: final form at the end of a word only (a cased character before, none after, apostrophes and
                                       # combining marks skipped), so 'ΟΔΟΣ' and 'οδοσ' are different names for the lookup but 'ΟΔΟΣ' and 'οδος' are one
                                       "οδος", "οδοσ", "σ", "ς", "ασ-σα", "x-ασ'", "ας.β", "1σ", "ασ\u0301", "σς-σ"])
                    if rnd.random() < 0.35:
                        # random contexts for the capital sigma: cased, case-ignorable and other characters around it; the query spells each
                        # sigma in one of its two small forms, so the lookup succeeds exactly when the context rule picked that form
                        alpha = ["Σ"] * 6 + ["Α", "α", "a", "Z", "'", ".", ":", "\u0301", "\u00ad", "-", "1", " ", "ʰ", "Ж", "ǅ", "ᾈ", "İ", "\u200d", "𝒜", "ⓐ", "_"]
                        t = "".join(rnd.choice(alpha) for _ in range(rnd.randint(1, 7)))
                        qq = "".join((rnd.choice(["σ", "ς", "Σ"]) if c == "Σ" else c) for c in t)
                        if rnd.random() < 0.5: qq = t.lower() if rnd.random() < 0.7 else qq.lower()
                        out.append("gethdr %s:%s %s # unicase=1 sigma=1" % (hx(t.encode()), hx(b"v"), hx(qq.encode())))
                        continue
                    def recase(t): return "".join(rnd.choice([c.lower(), c.upper() if len(c.upper()) == 1 else c]) for c in t)
                    names = [recase(base).encode() if rnd.random() < 0.7 else rnd.choice([b"Host", b"X-A"]) for _ in range(rnd.randint(1, 4))]
                    hspec = ";".join(hx(nm) + ":" + hx(b"v%d" % k) for k, nm in enumerate(names))
                    q = recase(base).encode() if rnd.random() < 0.85 else (base + "x").encode()
                    out.append("gethdr %s %s # unicase=1" % (hspec, hx(q)))
                    continue
                out.append("gethdr %s %s" % (hspec, hx(q)))
        return out

    def classify(self, line, out, sig):
        return {"request-line-with-empty-target-accepted": "C14-F1"}.get(sig)

    def oracle(self, line, out):
        f = strip_meta(line).split(" ")
        if out is None or out.startswith("CRASH") or out.startswith("PANIC") or " | PANIC" in (out or ""):
            return "panic-or-crash"
        if f[0] == "reqrt" and out != "SKIP":
            m, u, v = f[1], f[2], f[3]
            hs = "" if f[4] == "-" else ";".join((nv if ":" in nv else nv + ":") for nv in f[4].split(";"))
            body = f[5] if len(f) > 5 else ""
            want = "OK m=%s u=%s v=%s h=[%s] b=%s" % (m, u, v, hs, body)
            got = out.split(" | ", 1)[1]
            if got != want:
                return "round-trip-differs"
            return None
        if f[0] == "parse":
            data = bytes.fromhex(f[1]) if len(f) > 1 else b""
            first = data.split(b"\n")[0]
            try:
                s = first.decode("utf-8")
            except UnicodeDecodeError:
                return None if out == "ERR" else "non-utf8-request-line-accepted"
            if any(c in s for c in CASE_HAZARD):
                return None
            t = httpcanon.rust_trim(s)      # str::trim, then two split_once(" ")
            wellformed = False
            if t.count(" ") >= 2:
                m, rest = t.split(" ", 1); u, ver = rest.split(" ", 1)
                wellformed = m.upper().encode() in METHODS and ver.upper().encode() in VERS and u != "" and " " not in ver
            if not wellformed and out != "ERR":
                # a line whose target is empty ("GET  HTTP/1.1": two blanks) is incomplete, but accepted: class C14-F1, pinned by the
                # repository's own test request::tests::test_request_empty_request_uri.  Every other near miss must be rejected
                if t.count(" ") >= 2 and m.upper().encode() in METHODS and u == "" and ver.upper().encode() in VERS and " " not in ver:
                    return "request-line-with-empty-target-accepted"
                return "malformed-request-line-accepted"
            if wellformed and out == "ERR":
                # the head must be valid UTF-8 for the accept clause: only the request line is decisive for Err
                return "wellformed-request-rejected"
            return None
        if f[0] == "gethdr" and out != "SKIP":
            hs = [] if f[1] == "-" else [(bytes.fromhex(nv.split(":")[0]), bytes.fromhex(nv.split(":")[1])) for nv in f[1].split(";")]
            q = bytes.fromhex(f[2]).decode()
            try:
                exp = next((v for nm, v in hs if nm.decode().lower() == q.lower()), None)
            except UnicodeDecodeError:
                return None
            want = "NONE" if exp is None else "SOME " + exp.hex()
            return None if out == want else "lookup-differs"
        return None

    def nontrivial(self, line, out):
        return bool(out) and ("OK " in out) and "h=[]" not in out
