"""C09 — HEAD and OPTIONS behave consistently with GET."""
from .servebase import *


class P(ServeProp):
    ID = "C09"
    THEOREMS = ["C09_head_as_get", "C09_head_wire", "C09_options_success", "C09_options_bodiless", "C09_options_grants", "C09_nonvacuous"]
    COQ_TARGETS = ["theories/Props/C09.vo", "theories/Extract.vo"]
    N_QUICK = 600          # triples: 3 cases each
    N_THOROUGH = 15000
    RULE = ("GET/HEAD/OPTIONS triples on the same tree, target, headers and configuration: targets are every kind of servable path of the generated "
            "tree (files, directory with index.html with and without trailing slash, .html fallback, built-in pages /, /style.css, /script.js, "
            "/favicon.svg, tree overrides of those) plus misses, with/without Origin, preflight and Range headers, on both entry points.  Oracle "
            "(implementation only): if GET is answered 200/206 then HEAD has the same status line and the same header lines (timestamps blanked) and "
            "no body, and OPTIONS is 2xx with no body and, when the request carries an Origin the configuration admits, the preflight grants.  "
            "Non-trivial = a triple whose GET is served, distinct by case line.")

    def gen(self, rnd, tier, n):
        out = []
        for i in range(n):
            kind = "serveL" if rnd.random() < 0.3 else "serve"
            t = gs.gen_tree(rnd, maxents=rnd.choice([3, 6, 10]))
            inroot = t.inroot()
            r = rnd.random()
            if inroot and r < 0.6:
                tg = rnd.choice(inroot)
                m = rnd.random()
                if m < 0.15: tg += "/"
                elif m < 0.35 and tg.endswith(".html"): tg = tg[:-5]
                elif m < 0.45: tg += "?q=1"
                elif m < 0.5: tg += "#f"
            elif r < 0.85:
                tg = rnd.choice(["/", "/style.css", "/script.js", "/favicon.svg", "/index.html", "/404.html"])
            else:
                tg = gs.gen_target(rnd, t)
            cors, origins = gs.gen_cors(rnd)
            hs = []
            if rnd.random() < 0.5: hs.append("Origin: " + gs.gen_origin(rnd, origins))
            if rnd.random() < 0.4:
                # what a browser sends before a cross-origin request; header names in any letter case
                nm = rnd.choice([str, str, str.lower, str.upper])
                hs += [nm("Access-Control-Request-Method") + ": " + rnd.choice(["PUT", "GET", "DELETE"]), nm("Access-Control-Request-Headers") + ": " + rnd.choice(["X-A, Content-Type", "Range", "x-b", "Authorization,X-A"])]
            if rnd.random() < 0.2: hs.append("Range: " + rnd.choice(["bytes=0-0", "bytes=0-", "bytes=1-2", "bytes=0-0,2-2", "bytes=-1"]))
            for k, meth in enumerate(["GET", "HEAD", "OPTIONS"]):
                out.append(gs.serve_case(rnd, kind=kind, tree=t, target=tg, method=meth, headers=hs, cors=cors, meta="trip=%d.%d" % (i, k)))
        return out

    @staticmethod
    def _lines(raw):
        p = httpcanon.lenient(raw)
        if p is None:
            return None
        code, reason, hs, body = p
        hl = sorted((n, b"" if n.decode("latin-1") in httpcanon.VOLATILE else v) for n, v in hs)
        return code, reason, hl, body

    def group_oracle(self, cases, impl):
        fails = []
        trips = {}
        for i, l in enumerate(cases):
            t = meta(l).get("trip")
            if t:
                g, k = t.split(".")
                trips.setdefault(g, {})[int(k)] = i
        for g, d in trips.items():
            if len(d) != 3:
                continue
            ig, ih, io = d[0], d[1], d[2]
            rg, rh, ro = self.raw(impl[ig]), self.raw(impl[ih]), self.raw(impl[io])
            if not rg:
                continue
            G = self._lines(rg)
            if G is None or G[0] not in (b"200", b"206"):
                continue
            if b"/form-get-method" in gs.parse_case(cases[ig])["req"].split(b"\r\n")[0]:
                continue
            H = self._lines(rh) if rh else None
            if H is None:
                fails.append((ih, "head-not-answered")); continue
            if H[0] != G[0] or H[1] != G[1]:
                fails.append((ih, "head-status-differs-from-get")); continue
            if H[2] != G[2]:
                fails.append((ih, "head-headers-differ-from-get")); continue
            if H[3] != b"":
                fails.append((ih, "head-has-body")); continue
            O = self._lines(ro) if ro else None
            if O is None:
                fails.append((io, "options-not-answered")); continue
            if not (b"200" <= O[0] <= b"299"):
                fails.append((io, "options-not-success")); continue
            if O[3] != b"":
                fails.append((io, "options-has-body")); continue
            # "carrying the cross-origin preflight grants, so that browser preflights succeed": with the allow-all switch on and an Origin,
            # the browser's test - origin echoed, the requested method and every requested header named in the grants
            pc = gs.parse_case(cases[io])
            if pc["cors"] == "all":
                rq = {}
                for l in pc["req"].split(b"\r\n\r\n")[0].split(b"\r\n")[1:]:
                    k = l.find(b": ")
                    if k > 0: rq.setdefault(l[:k].decode("latin-1").lower(), l[k + 2:].decode("latin-1"))
                if rq.get("origin"):
                    oh = {}
                    for n, v in O[2]: oh.setdefault(n.decode("latin-1").lower(), v.decode("latin-1"))
                    if oh.get("access-control-allow-origin") != rq["origin"]:
                        fails.append((io, "preflight-origin-not-granted")); continue
                    m = rq.get("access-control-request-method")
                    if m is not None and m.strip() not in [x.strip() for x in oh.get("access-control-allow-methods", "").split(",")]:
                        fails.append((io, "preflight-method-not-granted")); continue
                    hh = rq.get("access-control-request-headers")
                    if hh is not None:
                        granted = [x.strip().lower() for x in oh.get("access-control-allow-headers", "").split(",")]
                        if any(x.strip().lower() not in granted for x in hh.split(",") if x.strip()):
                            fails.append((io, "preflight-headers-not-granted")); continue
        return fails

    def nontrivial(self, line, out):
        r = self.resp(out)
        return bool(r) and r["status"] in (200, 204, 206)
