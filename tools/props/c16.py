"""C16 — multipart/form-data bodies round-trip part for part."""
from .servebase import *

BOUNDARIES = ["--BnD1", "----x9", "B", "--B-1", "a-b", "XX--", "--日本", "----WebKitFormBoundary7MA4YWxkTrZu0gW", "x.y_z:w", "--a'b(c)+d,e/f=g?h", "-", "--", "b" * 70]


def hx(b):
    return (b if isinstance(b, bytes) else b.encode()).hex()


class P(ServeProp):
    ID = "C16"
    THEOREMS = ["C16_round_trip", "C16_domain_inhabited", "C16_roundtrip_partial", "C16_reject_no_opening_boundary", "C16_reject_partial", "C16_empty_body_trim", "C16_no_panic"]
    COQ_TARGETS = ["theories/Props/C16.vo", "theories/Extract.vo"]
    N_QUICK = 3000
    N_THOROUGH = 80000
    RULE = ("mprt: part lists (1..8 parts, 1..4 headers, bodies: empty, 1 and 2 bytes, lone CR / LF / CRLF at either end, dashes, every byte value, "
            "up to 64 KiB in thorough) x boundaries (RFC 2046 boundaries with leading dashes, interior hyphens and punctuation, 1..70 characters, "
            "as browsers send them) through FormMultipartData::generate then ::parse; mp: generated bodies with the opening or closing boundary "
            "removed, a part without headers, truncation at every kind of position, byte substitution, body lines that contain the boundary text; "
            "serve: POST /form-multipart-enctype-post-method echo.  Oracle (implementation only): the round trip returns the same parts in order; "
            "a body without its opening or closing boundary or with a header-less part is an error.  Non-trivial = an OK parse with at least one part.")

    def part(self, rnd, bd, big):
        hs = []
        for _ in range(rnd.randint(1, 4)):
            nm = rnd.choice(["Content-Disposition", "Content-Type", "X-A", "Content-Transfer-Encoding"])
            val = rnd.choice(['form-data; name="f"', 'form-data; name="g h"; filename="a b.txt"', "text/plain", "binary", "x: y", "a=b; c", "é"])
            hs.append((nm, val))
        r = rnd.random()
        if r < 0.5:
            body = rnd.choice([b"", b"a", b"ab", b"abc", b"\r\n", b"\n", b"\r", b"x\r\n", b"\r\nx", b"--", b"-", b"a\r", b"line1\r\nline2", b"\n\n", b"\r\n\r\n", bytes(range(256))])
        elif r < 0.9:
            body = bytes(rnd.randrange(256) for _ in range(rnd.randint(0, 60)))
        elif r < 0.98:
            body = bytes(rnd.randrange(256) for _ in range(rnd.choice([200, 1000, 4000])))
        else:
            body = bytes(rnd.randrange(256) for _ in range(big))      # the extracted model appends at list ends: quadratic on these, so they are few
        return hs, body

    def gen(self, rnd, tier, n):
        out = []
        big = 2000 if tier == "quick" else 65536
        for i in range(n):
            r = rnd.random()
            bd = rnd.choice(BOUNDARIES)
            esc = bd.replace("-", "").encode()
            parts = [self.part(rnd, bd, big) for _ in range(rnd.choice([1, 1, 2, 3, 8]))]
            # "every boundary that does not occur in the data": no body line may end with the hyphen-less boundary
            def clean(b):
                for l in b.split(b"\n"):
                    t = bytes(c for c in l if c not in b"-\r")
                    if esc and t.endswith(esc): return False
                return True
            parts = [(hs, b if clean(b) else b"ok") for hs, b in parts]
            if r < 0.45 and esc:
                spec = ";".join("&".join(hx(a) + ":" + hx(v) for a, v in hs) + "=" + hx(b) for hs, b in parts)
                out.append("mprt %s %s # np=%d" % (hx(bd), spec, len(parts)))
            elif r < 0.8:
                data = bd.encode() + b"".join(b"\r\n" + b"".join((a + ": " + v + "\r\n").encode() for a, v in hs) + b"\r\n" + b + b"\r\n" + bd.encode() for hs, b in parts)
                k = rnd.random(); kind = "valid"
                if k < 0.15 and data:
                    # anywhere, or exactly where a phase of the reader ends: after the blank line that closes a part's headers, after a header line
                    cuts = [j + 4 for j in range(len(data)) if data[j:j + 4] == b"\r\n\r\n"] + [j + 2 for j in range(len(data)) if data[j:j + 2] == b"\r\n"]
                    data = data[:rnd.choice(cuts)] if cuts and rnd.random() < 0.5 else data[:rnd.randrange(len(data) + 1)]; kind = "trunc"
                elif k < 0.3: data = data[len(bd.encode()):]; kind = "noopen"
                elif k < 0.45: data = data[:len(data) - len(bd.encode())]; kind = "noclose"
                elif k < 0.55:
                    hs0, b0 = parts[0]
                    data = bd.encode() + b"\r\n\r\n" + b0 + b"\r\n" + bd.encode(); kind = "noheaders"
                elif k < 0.6: data = data + b"--\r\n"
                elif k < 0.65:
                    j = rnd.randrange(len(data)); data = data[:j] + bytes([rnd.choice([0, 10, 13, 45, 255])]) + data[j + 1:]; kind = "mut"
                out.append("mp %s %s # kind=%s esc=%d" % (hx(bd), hx(data), kind, len(esc)))
            else:
                # through the server: the standard shape a browser sends (delimiter lines "--" + boundary, the last one followed by "--",
                # a Content-Length), the boundary parameter as browsers send it; the echo page lists every part
                text = rnd.random() < 0.6 and bool(esc)
                if text:
                    # text fields, as a form sends them: the echo page must list every one of them, in order
                    tb = [rnd.choice([b"", b"v", b"hello world", "é😀".encode(), b"line1\r\nline2", b"a=b&c", b"--", b" lead", b"x\r", b"\n", b"trail ", b"-", b"\r\n", "日本".encode(), b"%41", b"a\tb"]) for _ in parts]
                    parts = [(hs, b if clean(b) else b"ok") for (hs, _), b in zip(parts, tb)]
                wire = b"".join(b"--" + bd.encode() + b"\r\n" + ('Content-Disposition: form-data; name="%s"\r\n\r\n' % nm).encode() + b + b"\r\n"
                                for nm, (hs, b) in zip("abcdefgh", parts)) + b"--" + bd.encode() + b"--\r\n"
                ctv = "multipart/form-data; boundary=" + bd if text else rnd.choice(["multipart/form-data; boundary=" + bd] * 3 + ['multipart/form-data; boundary="%s"' % bd, "multipart/form-data; charset=utf-8; boundary=" + bd])
                req = ("POST /form-multipart-enctype-post-method HTTP/1.1\r\nContent-Type: " + ctv + "\r\nContent-Length: %d\r\n\r\n" % len(wire)).encode() + wire
                t = gs.Tree(); t.ents.append(("D", "outer/root"))
                fits = len(req) <= 9900
                out.append(gs.serve_case(rnd, tree=t, cors="all", raw_req=req[:9900], meta="echo=1 fits=%d np=%d" % (fits, len(parts)) + ((" want=" + (b"".join(nm.encode() + b" is " + b + b" \r\n" for nm, (hs, b) in zip("abcdefgh", parts)).hex() or "-")) if text and fits else "")))
        return out

    def canon_model(self, line, out):
        if out and " dom=" in out:
            out = out.rsplit(" dom=", 1)[0]
        return self.canon(line, out)

    def model_stats(self, cases, model):
        import collections
        c = collections.Counter()
        for l, m in zip(cases, model):
            if m and " dom=" in m:
                c["mprt:" + ("in-theorem-domain" if m.endswith("dom=1") else "outside")] += 1
        return dict(c)

    def canon(self, line, out):
        if strip_meta(line).startswith("serve"):
            return httpcanon.canon_serve(out)
        return out

    def oracle(self, line, out):
        if out is None or out.startswith(("CRASH", "PANIC")) or " | PANIC" in (out or ""):
            return "panic-or-crash"
        f = strip_meta(line).split(" ")
        if f[0] == "mprt" and out not in ("SKIP", "GENERR"):
            want = "OK " + f[2]
            got = out.split(" | ", 1)[1]
            return None if got == want else "round-trip-differs"
        if f[0].startswith("serve") and "want" in meta(line):
            raw = self.raw(out)
            r = httpcanon.parse_response(raw) if raw else None
            if r is None or r["status"] != 200:
                return "well-formed-form-post-status-%s" % (r["status"] if r else None)
            want = b"" if meta(line)["want"] == "-" else bytes.fromhex(meta(line)["want"])
            return None if r["body"] == want else "echoed-parts-differ"
        if f[0] == "mp":
            m = meta(line)
            if m.get("esc") == "0":
                return None
            if m.get("kind") in ("noopen", "noclose", "noheaders", "trunc") and out.startswith("OK"):
                # removing the boundary text can leave a body that still starts / ends with a boundary-like line only when parts are tiny; be exact:
                bd = bytes.fromhex(f[1]); data = bytes.fromhex(f[2]) if len(f) > 2 else b""
                esc = bd.replace(b"-", b"")
                first = data.split(b"\n")[0]
                starts = bytes(c for c in first if c not in b"-\r" and c >= 32 and c != 127).endswith(esc)
                last = (data[:-1] if data.endswith(b"\n") else data).split(b"\n")[-1]      # the last line, with or without its line break
                ends = bytes(c for c in last if c not in b"-\r").endswith(esc)
                if m["kind"] == "noopen" and not starts: return "missing-opening-boundary-accepted"
                if m["kind"] in ("noclose", "trunc") and not ends and data: return "missing-closing-boundary-accepted"
                if m["kind"] == "noheaders": return "part-without-headers-accepted"
        return None

    def outcome_class(self, line, out):
        k = strip_meta(line).split(" ")[0]
        if k.startswith("serve"):
            return ServeProp.outcome_class(self, line, out)
        return k + ":" + ((out or "").split(" | ")[-1].split(" ")[0])

    def nontrivial(self, line, out):
        return bool(out) and ("OK " in out) and not out.endswith("OK ")
