"""C03 — byte-range requests return exactly the requested bytes."""
import re
from .servebase import *

U64 = 2 ** 64


def parse_spec(spec, L):
    """the property's reading of one range-spec -> (first, last) inclusive and inside the file, or None (malformed / outside)"""
    m = re.fullmatch(r"[ \t]*([0-9]*)[ \t]*-[ \t]*([0-9]*)[ \t]*", spec)
    if not m:
        return None
    a, b = m.group(1), m.group(2)
    if a == "" and b == "":
        return None
    if a == "":
        n = int(b)
        if n == 0 or n > L:
            return None
        return (L - n, L - 1)
    a = int(a)
    if b == "":
        return (a, L - 1) if a < L else None
    b = int(b)
    if a > b or b >= L:
        return None
    return (a, b)


def clamp_spec(spec, L):
    """the requested range cut down to the file: (first, last) inclusive, or None when the spec is malformed or nothing of it lies in the file"""
    m = re.fullmatch(r"[ \t]*([0-9]*)[ \t]*-[ \t]*([0-9]*)[ \t]*", spec)
    if not m or L == 0:
        return None
    a, b = m.group(1), m.group(2)
    if a == "" and b == "":
        return None
    if a == "":
        n = int(b)
        return None if n == 0 else (max(L - n, 0), L - 1)
    a = int(a)
    if a >= L:
        return None
    if b == "":
        return (a, L - 1)
    b = int(b)
    return None if a > b else (a, min(b, L - 1))


def split_multipart(body, boundary):
    """-> list of (content_type, content_range_text, part_body) or None"""
    d = b"--" + boundary
    if not body.startswith(d + b"\r\n") or not body.endswith(b"\r\n" + d):
        return None
    inner = body[len(d) + 2:len(body) - len(d) - 2]
    parts = []
    for chunk in inner.split(b"\r\n" + d + b"\r\n"):
        k = chunk.find(b"\r\n\r\n")
        if k < 0:
            return None
        hs = chunk[:k].split(b"\r\n")
        ct = [h.split(b":", 1)[1].strip() for h in hs if h.lower().startswith(b"content-type:")]
        cr = [h.split(b":", 1)[1].strip() for h in hs if h.lower().startswith(b"content-range:")]
        if len(ct) != 1 or len(cr) != 1:
            return None
        parts.append((ct[0], cr[0].decode("latin-1"), chunk[k + 4:]))
    return parts


class P(ServeProp):
    ID = "C03"
    THEOREMS = ["C03_parse_range_bounds", "C03_multi_range", "C03_part_facts", "C03_bad_spec_is_416", "C03_label_class", "C03_inside_exact",
                "C03_wire_single", "C03_wire_multi", "C03_part_on_wire", "C03_examples"]
    COQ_TARGETS = ["theories/Props/C03.vo", "theories/Extract.vo"]
    N_QUICK = 2500
    N_THOROUGH = 60000
    FILE = "f.bin"
    RULE = ("serve cases: one file of length L in {0,1,2,3,10,8191,8192,8193 (thorough: 65536, 1 MiB)} with random or position-coded content x "
            "Range values: first-last, first-, -suffix, 1..6 comma-separated specs with optional whitespace, every offset from "
            "{0,1,L-2,L-1,L,L+1,2^64-1,2^64,non-numeric}, plus malformed values (wrong unit, empty, doubled '-', '=' inside).  Oracle "
            "(implementation only, independent Python reading of the property): all specs inside the file -> 206, per spec in order the exact "
            "bytes, Content-Range first-last/L, single => Content-Length = bytes sent, several => multipart/byteranges with the same per part; "
            "anything else -> 416 or parts that are correctly labelled slices.  Non-trivial = a 206 answer, distinct by case line.")

    def gen(self, rnd, tier, n):
        out = []
        Ls = [0, 1, 2, 3, 10, 10, 10, 100, 8191, 8192, 8193] + ([65536, 1 << 20] if tier != "quick" else [])
        for i in range(n):
            L = rnd.choice(Ls)
            data = bytes((j * 7 + 3) & 0xff for j in range(L)) if rnd.random() < 0.5 else bytes(rnd.randrange(256) for _ in range(min(L, 8200))) + bytes(max(0, L - 8200))
            offs = [0, 1, max(L - 2, 0), max(L - 1, 0), L, L + 1, U64 - 1, U64, rnd.randrange(0, L + 2)]
            def spec():
                r = rnd.random()
                a, b = rnd.choice(offs), rnd.choice(offs)
                if r < 0.45: s = "%d-%d" % (min(a, b), max(a, b)) if rnd.random() < 0.85 else "%d-%d" % (a, b)
                elif r < 0.6: s = "%d-" % a
                elif r < 0.75: s = "-%d" % a
                elif r < 0.8: s = rnd.choice(["a-b", "-", "", "--1", "1-2-3", "1--2", "+1-2", "0x1-2", "1-", "-1-", " ", "1 2", "١-٢"])
                else: s = "%d-%d" % (rnd.randrange(0, L + 1), rnd.randrange(0, L + 1))
                if rnd.random() < 0.15:
                    w = ("\t", " \t", " ")[(a + b) % 3]       # optional white space is SP or HTAB (chosen without drawing, so that the streams of earlier runs stay)
                    s = w + s.replace("-", w + "-" + w) + w
                return s
            k = rnd.choice([1, 1, 1, 2, 2, 3, 6])
            val = "bytes=" + ",".join(spec() for _ in range(k))
            if rnd.random() < 0.06:
                val = rnd.choice(["items=0-1", "bytes", "bytes=", "bytes=,,", "bytes=0-1=2-3", "BYTES=0-1", "bytes= 0-1", "bytes=0-1,", ",bytes=0-1", "bytes==0-1"])
            t = gs.Tree(); t.ents.append(("D", "outer/root")); t.ents.append(("F", "outer/root/" + self.FILE, data))
            # the same file reached the other two ways the server resolves a path: as the .html sibling of an extensionless target and as
            # the index.html of a directory (each path has its own copy of the range handling)
            kind = "serve" if rnd.random() < 0.85 else "serveL"
            via = rnd.random() if kind == "serve" else 1.0        # the legacy entry point takes the raw target as the file name: no fallbacks
            if via < 0.12:
                t.ents.append(("F", "outer/root/page.html", data)); tgt = "/page"
            elif via < 0.2:
                t.ents.append(("D", "outer/root/dir")); t.ents.append(("F", "outer/root/dir/index.html", data)); tgt = rnd.choice(["/dir/", "/dir"])
            else:
                tgt = "/" + self.FILE
            # the header name in any letter case; a second Range header (the first one counts); HEAD as well as GET
            nm = rnd.choice(["Range"] * 6 + ["range", "RANGE", "rAnGe"])
            hs = [nm + ": " + val]
            if rnd.random() < 0.08: hs.append(rnd.choice(["Range", "range"]) + ": bytes=" + spec())
            out.append(gs.serve_case(rnd, kind=kind, tree=t, target=tgt, method="GET", headers=hs, cors="all"))
        return out

    def _case(self, line):
        pc = gs.parse_case(line)
        data = [e[2] for e in pc["ents"] if e[1].endswith("/" + self.FILE)][0]
        m = re.search(rb"\r\n[Rr][Aa][Nn][Gg][Ee]: ([^\r\n]*)\r\n", pc["req"])        # the first Range header, in any letter case
        return data, m.group(1).decode("utf-8", "replace")

    def judge(self, line, out):
        """-> (signature or None, set of tags)"""
        raw = self.raw(out)
        if not raw:
            return None, set()
        data, val = self._case(line)
        L = len(data)
        r = httpcanon.parse_response(raw)
        if r is None:
            return "unparseable-response", set()
        wanted = None
        if val.startswith("bytes=") and "=" not in val[6:]:
            specs = [parse_spec(s, L) for s in val[6:].split(",")]
            if specs and all(s is not None for s in specs):
                wanted = specs
        if r["status"] == 416:
            return ("inside-ranges-answered-416" if wanted else None), set()
        if r["status"] != 206:
            return "status-%d" % r["status"], set()
        ct = httpcanon.header(r, "Content-Type")
        if len(ct) == 1 and ct[0].startswith("multipart/byteranges"):
            m = re.search(r"boundary=(\S+)", ct[0])
            parts = split_multipart(r["body"], m.group(1).encode()) if m else None
            if parts is None:
                return "broken-multipart-body", set()
        else:
            cr = httpcanon.header(r, "Content-Range")
            cl = httpcanon.header(r, "Content-Length")
            if len(cr) != 1:
                return "content-range-header-count-%d" % len(cr), set()
            if cl != [str(len(r["body"]))]:
                return "content-length-differs-from-bytes-sent", set()
            parts = [(ct[0].encode() if ct else b"", cr[0], r["body"])]
        tags = set()
        # "or a correctly labelled slice clamped to the file": when every spec is well formed and meets the file, a 206 carries, per spec and in
        # order, the requested range cut down to the file - not some other slice, however well it is labelled
        clamped = None
        if wanted is None and val.startswith("bytes=") and "=" not in val[6:]:
            cs = [clamp_spec(x, L) for x in val[6:].split(",")]
            if cs and all(c is not None for c in cs):
                clamped = cs
        if clamped is not None:
            if len(parts) != len(clamped):
                return "part-count-%d-expected-%d" % (len(parts), len(clamped)), tags
            for (pct, crt, body), (ca, cb) in zip(parts, clamped):
                m = re.fullmatch(r"bytes (\d+)-(\d+)/(\d+)", crt)
                if m and (int(m.group(1)) != ca or body != data[ca:cb + 1]):
                    return "not-the-requested-range-clamped-to-the-file", tags
        if wanted is not None and len(parts) != len(wanted):
            return "part-count-%d-expected-%d" % (len(parts), len(wanted)), tags
        for i, (pct, crt, body) in enumerate(parts):
            m = re.fullmatch(r"bytes (\d+)-(\d+)/(\d+)", crt)
            if not m:
                return "content-range-syntax", tags
            a, b, sz = int(m.group(1)), int(m.group(2)), int(m.group(3))
            if sz != L:
                return "content-range-size-not-file-size", tags
            if body != data[a:a + len(body)] or a > L:
                return "bytes-from-other-offsets", tags
            if wanted is not None and (a != wanted[i][0] or body != data[wanted[i][0]:wanted[i][1] + 1]):
                return "not-the-requested-bytes", tags
            if len(body) != b - a + 1:
                # label does not match what was sent
                if b == L and body == data[a:]:
                    tags.add("label-one-past")        # C03-F1
                else:
                    return "label-does-not-match-bytes-sent", tags
            elif wanted is not None and b != wanted[i][1]:
                return "label-not-the-requested-offsets", tags
        if "label-one-past" in tags:
            return "label-one-past-the-last-byte", tags
        return None, tags

    def oracle(self, line, out):
        return self.judge(line, out)[0]

    def classify(self, line, out, sig):
        return "C03-F1" if sig == "label-one-past-the-last-byte" else None

    def nontrivial(self, line, out):
        r = self.resp(out)
        return bool(r) and r["status"] == 206
