"""C11 — cross-origin grants follow the configuration exactly."""
from .servebase import *

ACA = ["Access-Control-Allow-Origin", "Access-Control-Allow-Credentials", "Access-Control-Allow-Methods", "Access-Control-Allow-Headers",
       "Access-Control-Expose-Headers", "Access-Control-Max-Age"]


def req_headers(req):
    head = req.split(b"\r\n\r\n")[0].split(b"\r\n")
    out = []
    for l in head[1:]:
        k = l.find(b": ")
        if k >= 0:
            out.append((l[:k].decode("latin-1"), l[k + 2:].decode("latin-1")))
    return head[0].decode("latin-1"), out


class P(ServeProp):
    ID = "C11"
    THEOREMS = ["C11_no_origin_no_grants", "C11_on_echo", "C11_off_exact_membership", "C11_member_is_configured_origin",
                "C11_off_not_member_nothing", "C11_off_grants_exact", "C11_in_every_response"]
    COQ_TARGETS = ["theories/Props/C11.vo", "theories/Extract.vo"]
    N_QUICK = 1500
    N_THOROUGH = 40000
    RULE = ("serve/serveL cases over configurations (allow-all on/off; 0..3 origins incl. an empty element; credentials true/false/empty/TRUE; method, "
            "header, expose lists; max-age) x Origin values (configured, proper prefix, suffix, substring, case variant, empty, two configured joined "
            "by a comma, trailing comma, unrelated, absent) x GET/HEAD/OPTIONS/POST with and without preflight request headers, on servable and "
            "missing paths.  Oracle (implementation only, from the case's configuration): switch off -> Access-Control-Allow-Origin present iff the "
            "Origin equals a configured origin, then exactly the configured grants; not a member or no Origin -> no Access-Control-* header at all; "
            "switch on -> Origin echoed with credentials true.  Non-trivial = a case with an Origin header, distinct by case line.")

    def gen(self, rnd, tier, n):
        out = []
        for i in range(n):
            cors, origins = gs.gen_cors(rnd)
            meth = rnd.choice(["GET", "GET", "OPTIONS", "OPTIONS", "HEAD", "POST"])
            hs = []
            if rnd.random() < 0.85:
                hs.append(rnd.choice(["Origin"] * 6 + ["origin", "ORIGIN", "oRiGiN"]) + ": " + gs.gen_origin(rnd, origins))
                if rnd.random() < 0.06: hs.append("Origin: " + gs.gen_origin(rnd, origins))      # a second Origin header: the first one counts
            if meth == "OPTIONS" and rnd.random() < 0.7:
                hs += ["Access-Control-Request-Method: " + rnd.choice(["PUT", "DELETE", "x"]), rnd.choice(["Access-Control-Request-Headers", "access-control-request-headers"]) + ": " + rnd.choice(["X-A, Content-Type", "x-b", "", "X-é, a", "X-É, Ключ", "AUTHORIZATION", "X-ΟΔΟΣ, ΑΣ", "Σ, ΑΣ'Α, ΑΣ."])]
            if rnd.random() < 0.1:
                hs.append("Range: bytes=0-1")
            kind = "serveL" if rnd.random() < 0.2 else "serve"
            out.append(gs.serve_case(rnd, kind=kind, method=meth, headers=hs, cors=cors))
        return out

    def oracle(self, line, out):
        raw = self.raw(out)
        if not raw:
            return None
        p = httpcanon.lenient(raw)
        if p is None:
            return None
        code, reason, hs, body = p
        if code == b"400":
            # the 400 for an unparseable request is built from a synthetic request without Origin: no grants expected
            pass
        pc = gs.parse_case(line)
        rl, rh = req_headers(pc["req"])
        got = {}
        for n, v in hs:
            n = n.decode("latin-1")
            if n in ACA:
                got.setdefault(n, []).append(v.decode("latin-1"))
        if any(len(v) > 1 for v in got.values()):
            return "duplicate-grant-header"
        origin = [v for n, v in rh if n.lower() == "origin"]
        meth = rl.split(" ")[0]
        if not origin:
            return "grant-without-origin" if got else None
        o = origin[0].replace("\r", "").replace("\n", "")
        c = pc["cors"].split("|")
        if c[0] == "all":
            if code == b"400" and not got:
                return None
            if got.get("Access-Control-Allow-Origin") != [o] or got.get("Access-Control-Allow-Credentials") != ["true"]:
                return "allow-all-does-not-echo"
            return None
        cfg = [bytes.fromhex(x).decode() for x in c[1:]]
        origins, creds, methods, hdrs, expose, maxage = cfg
        member = o != "" and o in origins.split(",")
        if not member:
            return "grant-for-non-member-origin" if got else None
        want = {"Access-Control-Allow-Origin": [o]}
        if creds == "true":
            want["Access-Control-Allow-Credentials"] = ["true"]
        if meth == "OPTIONS":
            want.update({"Access-Control-Allow-Methods": [methods], "Access-Control-Allow-Headers": [hdrs.lower()],
                         "Access-Control-Expose-Headers": [expose.lower()], "Access-Control-Max-Age": [maxage]})
        if code == b"400" and not got:
            return None     # 400 from parse errors carries no request context
        if got != want:
            return "grants-differ-from-configuration"
        return None

    def nontrivial(self, line, out):
        return b"origin: " in gs.parse_case(line)["req"].lower()
