"""C19 — JSON serialisation round-trips and is valid JSON."""
import json, collections
from .base import *
from gen import jsonrt as J


class P(Prop):
    ID = "C19"
    THEOREMS = ["C19_refuted_nonascii", "C19_flat_object_round_trip", "C19_flat_domain_inhabited", "C19_scanner_reads_written", "C19_integer_text_parses", "C19_int_array_round_trip", "C19_int_array_domain_inhabited", "C19_bool_array_round_trip", "C19_null_array_round_trip", "C19_string_array_round_trip", "C19_float_array_round_trip", "C19_nested_example", "C19_nested_round_trip", "C19_object_array_round_trip", "C19_nested_domain_inhabited"]
    COQ_TARGETS = ["theories/Props/C19.vo", "theories/Extract.vo"]
    N_QUICK = 3000
    N_THOROUGH = 60000
    RULE = ("jrt: value trees (objects of 0..9 fields: strings of printable text without quotes or backslashes - plain, with { } [ ] , :, "
            "non-ASCII, edge texts such as null/true/-5/leading blanks -, booleans, integers over the whole i128 range with extremes, floats "
            "(zero, negative zero, integer-valued, 1e16/1e21/1e300, subnormal, 17-digit, random bit patterns), null, nested objects to depth 4, "
            "typed arrays of length 0..64 of every integer width i8..u128 with their extremes, f64, strings, booleans, nulls and objects) "
            "written with JSON::to_json_string / JSONArrayOf*::to_json* through a generic struct implementing ToJSON / FromJSON / New the way the "
            "repository's example structs do, and read back with FromJSON::parse / parse_as_list_* / JSONArrayOfObjects::from_json.  "
            "Oracle (implementation only): the value read back equals the value written, and Python's json module accepts the text with the "
            "same meaning.  Known class C19-F1: a tree holding a non-ASCII string.  Non-trivial = a faithful round trip of a tree with at "
            "least three fields or elements, distinct by case line.")
    ASSUMPTIONS = ["Rust's f64 formatting ({:?} and Display) and f64::from_str are not modelled: a float is carried as the two texts the formatter prints, "
                   "checked on every case by the harness (FLOATTEXT outcome on a mismatch); that parsing such a text returns the float it was printed from is the std guarantee"]

    def gen(self, rnd, tier, n):
        out = []
        stats = {}
        for i in range(n):
            r = rnd.random()
            t = J.gen_object(rnd, rnd.choice([0, 0, 1, 2, 3, 4]), stats) if r < 0.7 else J.gen_array(rnd, rnd.choice([0, 1, 2]), stats)
            na = any(not s.isascii() for s in J.strings(t))
            out.append("jrt %s # kind=%s depth=%d nonascii=%d" % (J.enc(t), t[0], J.depth(t), na))
        return out

    def canon(self, line, out):
        # FLOATTEXT: the generator's emulation of Rust's float printing missed (the harness compares the texts it was given with what
        # Rust prints); the case is not checked, and counted as such in the outcome distribution
        return "SKIP" if out == "FLOATTEXT" else out

    def canon_model(self, line, out):
        return out.rsplit(" flat=", 1)[0] if out else out        # the suffix says whether the tree is in the domain of a round-trip theorem

    def model_stats(self, cases, model):
        # how many generated trees lie inside the domain of a proved round-trip theorem (flat objects, typed arrays), per kind: the theorems are not vacuous on
        # what Rust really prints (float texts included)
        import collections
        c = collections.Counter()
        for l, m in zip(cases, model):
            if m and " flat=" in m:
                c["%s:%s" % (meta(l).get("kind", "?"), "in-theorem-domain" if m.endswith("flat=1") else "outside")] += 1
        return dict(c)

    def oracle(self, line, out):
        if out is None or out.startswith(("CRASH", "PANIC")) or out.endswith("| PANIC"):
            return "panic-or-crash"
        if out in ("SKIP", "GENERR", "FLOATTEXT"):
            return "writer-error" if out == "GENERR" else None
        f = strip_meta(line).split(" ")
        t = J.dec(f[1])
        text = bytes.fromhex(out.split(" ")[1]).decode("utf-8", "replace")
        back = out.split(" | ", 1)[1]
        na = any(not s.isascii() for s in J.strings(t))
        try:
            pv = json.loads(text)
            if not J.same_meaning(pv, J.pyvalue(t)):
                return "independent-parser-reads-another-value"
        except ValueError:
            return "text-is-not-valid-json"
        if back != "OK " + J.expected(t, field=False):
            if na:
                return "non-ascii-string-not-read-back"
            return "value-differs-after-round-trip" if back.startswith("OK") else "own-text-rejected"
        return None

    def classify(self, line, out, sig):
        return {"non-ascii-string-not-read-back": "C19-F1"}.get(sig)

    def outcome_class(self, line, out):
        m = meta(line)
        return "jrt:%s:%s" % (m.get("kind", "?"), (out or "").split(" | ")[-1].split(" ")[0])

    def nontrivial(self, line, out):
        if not out or " | OK " not in out:
            return False
        t = J.dec(strip_meta(line).split(" ")[1])
        size = len(t[1]) if t[0] in ("O", "AF", "AS", "AB", "AO") else (len(t[2]) if t[0] == "AI" else t[1])
        return size >= 3 and out.split(" | ", 1)[1] == "OK " + J.expected(t, field=False)
