"""C17 — form and query decoding returns the submitted fields."""
from .servebase import *
import vlib

SPECIAL = "% &=+?#/:;@[]!$'()*,\""
# the codes url-search-params decodes AFTER "%25" (its decode order is the defect): a literal '%' followed by one of them is re-decoded
LATE = ["26", "27", "28", "29", "2A", "2B", "2C", "2F", "3A", "3B", "3D", "3F", "40", "5B", "5D"]


def hx(b):
    return (b if isinstance(b, bytes) else b.encode()).hex()


def unsafe(s):
    return any(s[i] == "%" and s[i + 1:i + 3] in LATE for i in range(len(s)))


class P(ServeProp):
    ID = "C17"
    THEOREMS = ["C17_refuted", "C17_late_codes_fail", "C17_early_codes_ok", "C17_percent_is_eighth", "C17_tables_shape", "C17_roundtrip_partial", "C17_parse_query_spec", "C17_percent_free_round_trip", "C17_encoder_is_characterwise", "C17_round_trip_outside_F1", "C17_F1_class", "C17_percent_free_outside_F1", "C17_fields_round_trip", "C17_fields_domain", "C17_last_value_wins", "C17_last_value_domain"]
    COQ_TARGETS = ["theories/Props/C17.vo", "theories/Extract.vo"]
    N_QUICK = 3000
    N_THOROUGH = 80000
    RULE = ("maps of 0..20 distinct non-empty keys to values over printable Unicode scalar values (ASCII reserved characters & = % + ? # /, "
            "multi-byte and astral characters, percent signs followed by hex and non-hex digits) through three entry points: qrt (URL::build_query "
            "then URL::parse_query), furt (FormUrlEncoded::generate then ::parse), serve (GET /form-get-method?<query> and POST "
            "/form-url-encoded-enctype-post-method echo pages); plus pct (percent_encode then percent_decode of single strings) and pq (parse of "
            "arbitrary query text).  Oracle (implementation only): the decoded fields equal the submitted ones.  Known class C17-F1: a key or "
            "value containing '%' followed by one of the 15 codes decoded after %25.  Non-trivial = a map with at least one reserved or "
            "non-ASCII character, distinct by case line.")

    def text(self, rnd, k, allow_empty=True):
        out = ""
        for _ in range(rnd.randint(0 if allow_empty else 1, k)):
            r = rnd.random()
            if r < 0.35: out += rnd.choice(SPECIAL)
            elif r < 0.39: out += "%" + rnd.choice(["26", "2B", "3F", "25", "20", "41", "zz", "2", "5D", "0A", "3D", "", "%"])
            elif r < 0.55: out += rnd.choice("é😀ü日本")
            elif r < 0.60: out += rnd.choice("\ufffd\ufeff\ue000\U0010ffff\u00ad\u200b\u0301ßİ")      # printable text a decoder may treat specially: the replacement character, a BOM, private use, the last scalar value, soft hyphen, zero width space, a combining mark
            else:
                c = rnd.choice("abcXYZ019_-.~")
                # characters the encoder leaves as they are although they are not unreserved - they travel raw in a request target
                # (chosen without drawing, so that the streams of earlier runs stay)
                if c in "_~" and len(out) % 2 == 1: c = "\\^|{}<>`"[len(out) // 2 % 8]
                out += c
        return out

    def gen(self, rnd, tier, n):
        out = []
        for i in range(n):
            r = rnd.random()
            m = {}
            if rnd.random() < 0.04:
                # a long value of multi-byte characters: the target passes 1024, 2048 and 4096 bytes inside a character
                m[rnd.choice(["k", "kk", "name"])] = rnd.choice(["漢", "😀", "é", "日本"]) * rnd.choice([400, 700, 1400])
            for _ in range(rnd.choice([0, 1, 2, 3, 5, 20])):
                k = self.text(rnd, 6, allow_empty=False)
                if k:
                    m[k] = self.text(rnd, 10, allow_empty=False) or "v"
            spec = ";".join(hx(k) + ":" + hx(v) for k, v in m.items()) or "-"
            us = any(unsafe(k) or unsafe(v) for k, v in m.items())
            tag = " # unsafe=%d n=%d" % (us, len(m))
            if r < 0.3:
                out.append("qrt " + spec + tag)
            elif r < 0.5:
                out.append("furt " + spec + tag)
            elif r < 0.6:
                s = self.text(rnd, 12)
                out.append("pct %s # unsafe=%d n=1" % (hx(s), unsafe(s)))
            elif r < 0.7:
                q = rnd.choice(["", "=", "&", "a", "a=", "=b", "a=b=c", "a=1&a=2", "%", "%2", "&&a=b&&", " ", "a=%26", "%3D=%26"]) if rnd.random() < 0.4 else self.text(rnd, 20)
                # names that repeat inside one query (C17_last_value_wins): cut from the text just drawn, without drawing again
                if len(q) >= 4 and len(q) % 3 == 0:
                    a, b, c = q[:len(q) // 3], q[len(q) // 3:2 * len(q) // 3], q[2 * len(q) // 3:]
                    nm = self.encode(a) or "k"
                    fields = [(a or "k", b), ("j", c), (a or "k", c)] + ([(a or "k", "")] if len(q) % 2 else [])
                    q = "&".join(self.encode(k) + "=" + self.encode(v) for k, v in fields)
                    last = {}
                    for k, v in fields: last[k] = v           # what the property asks for names that repeat: the last submitted value
                    out.append("pq %s # unsafe=%d n=%d want=%s" % (hx(q), any(unsafe(k) or unsafe(v) for k, v in fields), len(last), ";".join(hx(k) + ":" + hx(v) for k, v in last.items())))
                    continue
                out.append("pq " + hx(q))
            else:
                # the echo endpoints: the encoder's output sent on the wire
                enc = self.encode
                q = "&".join(enc(k) + "=" + enc(v) for k, v in m.items())
                t = gs.Tree(); t.ents.append(("D", "outer/root"))
                if rnd.random() < 0.5:
                    req = ("GET /form-get-method?" + q + " HTTP/1.1\r\n\r\n").encode()
                else:
                    req = ("POST /form-url-encoded-enctype-post-method HTTP/1.1\r\nContent-Type: application/x-www-form-urlencoded\r\n\r\n" + q).encode()
                if len(req) > 9000 or not m:
                    out.append("qrt " + spec + tag); continue
                out.append(gs.serve_case(rnd, tree=t, cors="all", raw_req=req, meta="echo=1 unsafe=%d n=%d want=%s" % (us, len(m), spec)))
        return out

    ENC = [("%", "%25"), (" ", "%20"), ("\r", "%0D"), ("\n", "%0A"), ("!", "%21"), ('"', "%22"), ("#", "%23"), ("$", "%24"), ("&", "%26"), ("'", "%27"), ("(", "%28"),
           (")", "%29"), ("*", "%2A"), ("+", "%2B"), (",", "%2C"), ("/", "%2F"), (":", "%3A"), (";", "%3B"), ("=", "%3D"), ("@", "%40"), ("[", "%5B"), ("]", "%5D")]

    def encode(self, s):      # RFC 3986 percent-encoding of the characters the library's encoder handles (spec side, independent of the crate's order)
        return "".join(dict(self.ENC).get(c, c) for c in s)

    def canon_model(self, line, out):
        if out and " dom=" in out:
            out = out.rsplit(" dom=", 1)[0]
        return self.canon(line, out)

    # the class C17-F1 as the generator tags it (Python) against the class of the theorem as the extracted model evaluates it (in_F1):
    # the two must agree on every single-string case, otherwise the classifier and the theorem speak of different classes
    def model_stats(self, cases, model):
        import collections
        c = collections.Counter()
        for l, m in zip(cases, model):
            if l.startswith("pct") and m and " dom=" in m:
                inside = m.endswith("dom=1")
                c["pct:" + ("in-theorem-domain (outside C17-F1)" if inside else "in C17-F1")] += 1
                if inside == (meta(l).get("unsafe") == "1"):
                    raise vlib.Infra("the generator's C17-F1 tag and the model's in_F1 disagree on " + l[:120])
            elif l.startswith(("qrt", "furt")) and m and " dom=" in m:
                c[l.split(" ")[0] + ":" + ("in-theorem-domain" if m.endswith("dom=1") else "outside")] += 1
        return dict(c)

    def canon(self, line, out):
        k = strip_meta(line).split(" ")[0]
        if k.startswith("serve"):
            return httpcanon.canon_serve(out)
        if k in ("qrt", "furt"):
            if meta(line).get("unsafe") == "1":
                return "SKIP"        # colliding keys make the result depend on the crate's sort order; the oracle below still applies
            return (out or "").split(" | ", 1)[-1]
        return out

    def oracle(self, line, out):
        if out is None or out.startswith(("CRASH", "PANIC")) or " | PANIC" in (out or ""):
            return "panic-or-crash"
        f = strip_meta(line).split(" ")
        m = meta(line)
        if f[0] in ("qrt", "furt") and out != "SKIP":
            want = "OK " + ";".join(sorted(kv.replace(":", "=") if ":" in kv else kv + "=" for kv in ([] if f[1] == "-" else f[1].split(";"))))
            got = out.split(" | ", 1)[1]
            return None if got == want else "decoded-fields-differ"
        if f[0] == "pq" and "want" in m and out != "SKIP":
            want = "OK " + ";".join(sorted(kv.replace(":", "=") for kv in m["want"].split(";")))
            return None if out == want else "last-submitted-value-does-not-win"
        if f[0] == "pct" and out != "SKIP":
            orig = f[1] if len(f) > 1 else ""
            got = out.split(" | D ", 1)[1] if " | D " in out else out.split("| D")[1].strip()
            return None if got.strip() == orig else "percent-decode-of-encode-differs"
        if f[0].startswith("serve") and "want" in m:
            raw = self.raw(out)
            r = httpcanon.parse_response(raw) if raw else None
            if r is None or r["status"] != 200:
                return "echo-endpoint-status-%s" % (r["status"] if r else None)
            want = sorted((bytes.fromhex(kv.split(":")[0]) + b" is " + bytes.fromhex(kv.split(":")[1])) for kv in m["want"].split(";"))
            got = sorted(x for x in r["body"].split(b"\r\n") if x)
            # trailing NUL padding of the request buffer is part of a POST body: the last value carries it; strip control characters as the form parser does
            got = [bytes(c for c in g if c >= 32 and c != 127) for g in got]
            want = [bytes(c for c in w if c >= 32 and c != 127) for w in want]
            return None if got == want else "echoed-fields-differ"
        return None

    def classify(self, line, out, sig):
        if meta(line).get("unsafe") == "1" and sig in ("decoded-fields-differ", "percent-decode-of-encode-differs", "echoed-fields-differ", "last-submitted-value-does-not-win"):
            return "C17-F1"
        return None

    def outcome_class(self, line, out):
        k = strip_meta(line).split(" ")[0]
        if k.startswith("serve"):
            return ServeProp.outcome_class(self, line, out)
        return k + ":unsafe=" + meta(line).get("unsafe", "?")

    def nontrivial(self, line, out):
        return int(meta(line).get("n", "0")) >= 1
