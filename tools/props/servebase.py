"""Common parts of the properties that are decided on `serve` cases (the whole request path through Server::process)."""
from .base import *
import httpcanon
from gen import serve as gs


class ServeProp(Prop):
    COQ_TARGETS_EXTRA = []
    ASSUMPTIONS = ["one read() delivers the whole request (requests longer than the request buffer are truncated by the code itself)",
                   "the served tree has no special files, no permission errors and no concurrent writers",
                   "error-message texts of 400/416/500 bodies are not modelled (canonicalised to MSG); timestamps are blanked"]

    def canon(self, line, out):
        return httpcanon.canon_serve(out)

    def raw(self, out):
        """bytes written by the implementation, or None (panic / crash)"""
        if not out:
            return None
        f = out.split(" ")
        if f[0] == "W":
            return bytes.fromhex(f[1]) if len(f) > 1 else b""
        return None

    def resp(self, out):
        r = self.raw(out)
        return None if r is None else httpcanon.parse_response(r)

    def outcome_class(self, line, out):
        k = strip_meta(line).split(" ")[0]
        if not out:
            return k + ":none"
        f = out.split(" ")
        if f[0] != "W":
            return k + ":" + f[0]
        r = self.resp(out)
        return "%s:%s" % (k, r["status"] if r else "unparseable")

    def nontrivial(self, line, out):
        r = self.resp(out)
        return bool(r) and r["status"] not in (404,)
