"""C20 — library parsers report errors instead of panicking."""
import json, base64
from .base import *
from gen import jsonrt as J

TEXT_KINDS = {"jobj", "jarr", "jtyped", "jprop", "b64d", "hdr", "cd", "rgspec", "crv", "upat", "umatch", "uext", "ubuild"}
WIDTHS = ["i8", "i16", "i32", "i64", "i128", "u8", "u16", "u32", "u64", "u128", "f64", "f32", "str", "bool", "null"]
SPECIAL = [b"", b"\x00", b"\n", b"\r\n", b"\r", b" ", b"\t", b'"', b"\\", b"[", b"]", b"{", b"}", b",", b":", b"-", b"--", b"=", b";", b"%", b"/",
           "é".encode(), "日".encode(), "😀".encode(), b"\xff", b"\xc3", b"\x80", b"e", b".", b"0", b"9" * 40, b"null", b"true", b"[[", b"]]", b"\x7f", "\u0085".encode(), " ".encode()]


def hx(b):
    return (b if isinstance(b, bytes) else b.encode()).hex()


def mutate(rnd, data, k=None):
    b = bytearray(data)
    for _ in range(k if k is not None else rnd.choice([0, 0, 0, 1, 1, 1, 2, 3, 6])):
        op = rnd.random()
        n = len(b)
        if op < 0.20:                                     # truncation
            b = b[:rnd.randint(0, n)]
        elif op < 0.38 and n:                             # byte substitution
            b[rnd.randrange(n)] = rnd.choice([rnd.randrange(256), 0, 10, 13, 32, 34, 44, 45, 58, 91, 93, 123, 125, 255, 128, 195])
        elif op < 0.55:                                   # insertion of a special token
            i = rnd.randint(0, n); b[i:i] = rnd.choice(SPECIAL)
        elif op < 0.65 and n:                             # deletion of a slice
            i = rnd.randrange(n); j = min(n, i + rnd.choice([1, 1, 2, 5, 20])); del b[i:j]
        elif op < 0.76 and n:                             # duplication of a slice (duplicated delimiters, repeated members)
            i = rnd.randrange(n); j = min(n, i + rnd.choice([1, 1, 2, 8, 40])); b[i:i] = b[i:j] * rnd.choice([1, 1, 2, 7])
        elif op < 0.88 and n and b"\n" in b:                # damage exactly at a line end: the CR or LF replaced by a byte outside UTF-8, the line break dropped or doubled
            ends = [i for i in range(n) if b[i] == 10]
            empty = [i for i in ends if (i >= 2 and b[i - 1] == 13 and b[i - 2] == 10) or (i >= 1 and b[i - 1] == 10)]     # the ends of empty lines: where a head stops
            i = rnd.choice(empty) if empty and rnd.random() < 0.5 else rnd.choice(ends); j = i - 1 if i > 0 and b[i - 1] == 13 else i
            k = rnd.random()
            if k < 0.4: b[rnd.choice([i, j])] = rnd.choice([0x8d, 0xff, 0xc3, 0x80])
            elif k < 0.6: del b[j:i + 1]
            elif k < 0.8: b[j:j] = b[j:i + 1]
            else: b[j:j] = bytes([rnd.choice([0xff, 0xc3, 0xe2, 0x80])])
        elif op < 0.93 and n:                             # letter case of a word changed (header names, keywords, units)
            i = rnd.randrange(n); j = i
            while j < n and (65 <= b[j] <= 90 or 97 <= b[j] <= 122 or b[j] == 45): j += 1
            w = bytes(b[i:j]); b[i:j] = rnd.choice([w.lower(), w.upper(), w.swapcase(), w.title()])
        else:                                             # a very long run
            i = rnd.randint(0, n); b[i:i] = rnd.choice([b"a", b" ", b"1", b"[", b"-", b"\r\n"]) * rnd.choice([100, 1000, 5000])
    return bytes(b)


def text(b):
    """valid UTF-8 for the entry points that take a str / String"""
    return b.decode("utf-8", "ignore").encode("utf-8")


# numbers at the edges of the integer types the parsers convert to (i16/i32/i64/u64/usize/i128), and unusual but accepted spellings
EXTREME = ["0", "-0", "+5", "007", "255", "256", "32767", "32768", "65535", "65536", "2147483647", "2147483648", "4294967295", "4294967296",
           "9223372036854775807", "9223372036854775808", "18446744073709551615", "18446744073709551616", "-9223372036854775808", "-9223372036854775809",
           "170141183460469231731687303715884105727", "170141183460469231731687303715884105728", "1" + "0" * 40, " 3 ", "3\t", "٣", "1e3", "0x10"]


class P(Prop):
    ID = "C20"
    THEOREMS = ["C20_json_array_total", "C20_typed_readers_total", "C20_json_object_fuel", "C20_json_array_fuel", "C20_request_total", "C20_response_total", "C20_range_multipart_total",
                "C20_multipart_total", "C20_range_total", "C20_content_disposition_first_piece", "C20_url_pattern_total", "C20_url_match_total",
                "C20_url_extract_total", "C20_url_build_total", "C20_panic_sites_vetted", "C20_no_legacy_twin_called", "C20_no_recursive_parser"]
    COQ_TARGETS = ["theories/Props/C20.vo", "theories/Extract.vo"]
    N_QUICK = 6000
    N_THOROUGH = 150000
    IMPL_TIMEOUT = 150        # per runner process: a parser that does not terminate costs this much once, the case is reported as CRASH timeout
    RULE = ("one case kind per parsing entry point (JSON::parse_as_properties, JSONProperty::parse, the array splitter, the 15 typed array readers, "
            "Base64::decode, FormMultipartData::parse, Request::parse, Response::parse, Header::parse, ContentDisposition::parse, "
            "Range::parse_range_in_content_range, Range::_parse_content_range_header_value, read_config_file, UrlPath::extract_parts_from_pattern / "
            "is_matching / extract / build).  Inputs: valid documents of each format put through 0..6 structure-aware mutations (truncation at a "
            "random position, byte substitution, insertion of delimiters / quotes / non-ASCII / non-UTF-8 bytes, slice deletion, slice duplication, "
            "runs of 100..5000 repeated bytes), random bytes, and deep inputs (20000 nested brackets, 30000 header lines, 20000 parts, one 300 kB "
            "line).  Oracle (implementation only): every call returns a value or an error - no panic (catch_unwind), no abort (a runner killed by a "
            "signal is a stack overflow), no time-out.  Non-trivial = an OK outcome, distinct by case line.")

    # ---- seeds ----
    def json_text(self, rnd, arr=False):
        stats = {}
        t = J.gen_array(rnd, rnd.choice([0, 1, 2]), stats) if arr else J.gen_object(rnd, rnd.choice([0, 1, 2, 3]), stats)
        pv = J.pyvalue(t)
        style = rnd.random()
        if style < 0.4: s = json.dumps(pv, ensure_ascii=False)
        elif style < 0.7: s = json.dumps(pv, indent=2, ensure_ascii=rnd.random() < 0.5).replace("\n", "\r\n")
        else: s = json.dumps(pv, separators=(",", ":"), ensure_ascii=False)
        return s.encode()

    def request(self, rnd):
        m = rnd.choice(["GET", "POST", "HEAD", "OPTIONS", "PUT", "get"]); u = rnd.choice(["/", "/a/b?x=1", "*", "/%20", "http://h/p"]); v = rnd.choice(["HTTP/1.1", "HTTP/1.0", "HTTP/2"])
        def hv(nm):
            if nm == "Content-Length" and rnd.random() < 0.6: return rnd.choice(EXTREME)
            if nm == "Range" and rnd.random() < 0.6: return "bytes=%s-%s" % (rnd.choice(EXTREME + [""]), rnd.choice(EXTREME + [""]))
            return rnd.choice(["h", "3", "abc", "bytes=0-1", "a/b", "-1", ""])
        def cs(nm): return rnd.choice([nm, nm, nm, nm.lower(), nm.upper(), nm.capitalize()])
        hs = "".join("%s: %s\r\n" % (cs(nm), hv(nm)) for nm in [rnd.choice(["Host", "Content-Length", "X-A", "Range", "Content-Type", "Origin"]) for _ in range(rnd.randint(0, 5))])
        return ("%s %s %s\r\n%s\r\n" % (m, u, v, hs)).encode() + rnd.choice([b"", b"abc", b"\xff\xfe", b"a\r\nb"])

    def response(self, rnd):
        code, rsn = rnd.choice([(200, "OK"), (206, "Partial Content"), (404, "Not Found"), (500, "Internal Server Error"), (999, "X"), (rnd.choice(EXTREME), "OK")])
        if rnd.random() < 0.5:
            def hv(nm):
                if nm == "Content-Length" and rnd.random() < 0.6: return rnd.choice(EXTREME)
                if nm == "Content-Range" and rnd.random() < 0.6: return "bytes %s-%s/%s" % (rnd.choice(EXTREME), rnd.choice(EXTREME), rnd.choice(EXTREME))
                return rnd.choice(["text/plain", "3", "bytes 0-2/10", "x", "bytes 5-1/3", ""])
            def cs(nm): return rnd.choice([nm, nm, nm, nm.lower(), nm.upper(), nm.capitalize()])
            hs = "".join("%s: %s\r\n" % (cs(nm), hv(nm)) for nm in [rnd.choice(["Content-Type", "Content-Length", "Content-Range", "X-A"]) for _ in range(rnd.randint(0, 4))])
            return ("HTTP/1.1 %s %s\r\n%s\r\n" % (code, rsn, hs)).encode() + rnd.choice([b"", b"abc", b"\xff\xfe\r\n"])
        bd = rnd.choice(["String_separator", "B", "--x", "", "-", "String_separator", "a b"])        # also the empty boundary parameter
        parts = b"\r\n".join(("--%s\r\nContent-Type: text/plain\r\nContent-Range: bytes %d-%d/%d\r\n\r\n" % (bd, rnd.randint(0, 3), rnd.randint(3, 9), rnd.randint(9, 20))).encode() + rnd.choice([b"x", b"ab\r\ncd", b"\xff"]) for _ in range(rnd.randint(0, 3)))
        return ("HTTP/1.1 206 Partial Content\r\nContent-Type: multipart/byteranges; boundary=%s\r\n\r\n" % bd).encode() + parts + ("\r\n--%s" % bd).encode()

    def multipart(self, rnd):
        bd = rnd.choice(["B", "----WebKit123", "--x-y", "a b"])
        eol = rnd.choice(["\r\n", "\r\n", "\n"])          # browsers send CRLF; the parser also accepts bare LF
        ps = b"".join(("--%s%sContent-Disposition: form-data; name=\"%s\"%s%s%s%s" % (bd, eol, rnd.choice(["a", "f", ""]), rnd.choice(["", "; filename=\"x.txt\""]), eol, rnd.choice(["", "Content-Type: text/plain" + eol]), eol)).encode()
                      + rnd.choice([b"v", b"", b"", b"\n", b"\r", b"x", b"line1\r\nline2", b"\xff\x00", b"--", b"-" * 40]) + eol.encode() for _ in range(rnd.randint(0, 4)))
        return bd, ps + ("--%s--%s" % (bd, eol)).encode()

    def small(self, rnd, kind):
        if kind == "hdr": return rnd.choice(["Host: example.com", "X-A:b", "A: b: c", "NoColon", ": v", "Name : value \r\n", "É: é"]).encode()
        if kind == "cd": return rnd.choice(['form-data; name="a"', 'form-data; name="a"; filename="b.txt"', "inline", "attachment; filename=x", 'form-data', 'form-data; x=1; y=2', "inline; =;=", "form-data;name=a;filename=b;extra=c"]).encode()
        if kind == "rgspec": return rnd.choice(["0-1", "5-", "-5", "1-0", "a-b", "-", "", " 1 - 2 ", "0-1-2", "18446744073709551615-18446744073709551616", "-18446744073709551615", "+1-+2", "%s-%s" % (rnd.choice(EXTREME), rnd.choice(EXTREME))]).encode()
        if kind == "crv": return rnd.choice(["bytes 0-1/2", "BYTES 0-9/9", "bytes 0-0/0", "Bytes 5-7/100", "bytes 0-9223372036854775807/9223372036854775807", "bytes -5--1/0", "bytes 5-1/3", "bytes a-1/2", "bytes 0-1", "bytes 0/1", "items 0-1/2", " bytes  0-1/2 ", "bytes -1--1/-1", "bytes 9223372036854775807-9223372036854775807/9223372036854775808", "bytes", "bytes 0--0/0", "bytes %s-%s/%s" % (rnd.choice(EXTREME), rnd.choice(EXTREME), rnd.choice(EXTREME))]).encode()
        if kind == "b64d":
            raw = bytes(rnd.randrange(256) for _ in range(rnd.choice([0, 1, 2, 3, 4, 5, 30, 200])))
            return base64.b64encode(raw)
        if kind == "cfgb": return rnd.choice(["ip = '127.0.0.1'\nport = 7878\n[cors]\nallow_all = true # c\n", "a=b", "[x]\n\tk = \"v\"\r\n", "# only a comment\n\n", "=\n[\n]\n"]).encode()
        if kind == "pat": return rnd.choice(["/users/[[id]]", "/a/[[b]]/c/[[d]]", "[[x]]", "/static", "/[[a]][[b]]", "/[[a", "/a]]", "[[[[x]]]]", "/é/[[ü]]", "", "[[]]", "/a/[[b]]/"]).encode()
        if kind == "path": return rnd.choice(["/users/42", "/a/1/c/2", "abc", "/static", "", "/é/x", "/a/b/", "/a//c/", "/users/", "users/42"]).encode()
        raise ValueError(kind)

    def gen(self, rnd, tier, n):
        out = []
        kinds = ["jobj", "jarr", "jtyped", "jprop", "b64d", "mp", "parse", "rp", "hdr", "cd", "rgspec", "crv", "cfgb", "upat", "umatch", "uext", "ubuild", "rmp"]
        for i in range(n):
            k = kinds[i % len(kinds)]
            rb = rnd.random() < 0.07                   # random bytes instead of a mutated document
            def rand(): return bytes(rnd.randrange(256) for _ in range(rnd.choice([0, 1, 3, 10, 60])))
            m = lambda b: rand() if rb else mutate(rnd, b)
            if k == "jobj": line = "jobj " + hx(text(m(self.json_text(rnd))))
            elif k == "jarr": line = "jarr " + hx(text(m(self.json_text(rnd, arr=True))))
            elif k == "jtyped":
                w = rnd.choice(WIDTHS); cnt = rnd.choice([0, 1, 2, 5, 20])
                if w in J.WIDTHS: items = [str(J.gen_int(rnd, *J.WIDTHS[w])) for _ in range(cnt)]
                elif w in ("f64", "f32"): items = [rnd.choice(["1.5", "-2", "0.0", "1e5", "3.25e-2", "7"]) for _ in range(cnt)]
                elif w == "str": items = ['"%s"' % J.gen_string(rnd)[0] for _ in range(cnt)]
                elif w == "bool": items = [rnd.choice(["true", "false"]) for _ in range(cnt)]
                else: items = ["null"] * cnt
                seed = ("[" + rnd.choice([",", ", ", " , "]).join(items) + "]").encode() if rnd.random() < 0.8 else self.json_text(rnd, arr=True)
                line = "jtyped %s %s" % (w, hx(text(m(seed))))
            elif k == "jprop":
                seed = rnd.choice(['"a": 1', '"k": "v"', '"x":null', '"f": -1.5e3', '"o": {"a":1}', '"l": [1,2]', '"b":true', 'a:b:c', '"n": 170141183460469231731687303715884105728', ':', '"":""']).encode()
                line = "jprop " + hx(text(m(seed)))
            elif k == "b64d": line = "b64d " + hx(text(m(self.small(rnd, "b64d"))))
            elif k == "mp":
                bd, body = self.multipart(rnd)
                line = "mp %s %s" % (hx(bd), hx(m(body)))
            elif k == "rmp":
                parts = b"\r\n".join(b"--String_separator\r\nContent-Type: text/plain\r\nContent-Range: bytes %d-%d/%d\r\n\r\n" % (rnd.randint(0, 3), rnd.randint(3, 9), rnd.randint(9, 20)) + rnd.choice([b"x", b"ab\r\ncd", b"\xff"]) for _ in range(rnd.randint(0, 3)))
                line = "rmp " + hx(m(parts + b"\r\n--String_separator"))
            elif k == "parse": line = "parse " + hx(m(self.request(rnd)))
            elif k == "rp":
                doc = self.response(rnd)
                if b"boundary=\r\n" in doc and rnd.random() < 0.6 and not rb:
                    # the empty boundary parameter: every line "contains" it, the empty line at the end of the stream too - cut inside a part's body
                    cut = doc.rfind(b"\r\n\r\n") + 4 + rnd.choice([0, 1, 2, 3])
                    line = "rp " + hx(doc[:cut] + rnd.choice([b"", b"\xff", b"\xff\n", b"x", b"\r\n"]))
                else:
                    line = "rp " + hx(m(doc))
            elif k in ("hdr", "cd", "crv"): line = "%s %s" % (k, hx(text(m(self.small(rnd, k)))))
            elif k == "rgspec": line = "rgspec %d %s" % (rnd.choice([0, 1, 10, 2 ** 32, 2 ** 64 - 1]), hx(text(m(self.small(rnd, k)))))
            elif k == "cfgb": line = "cfgb " + hx(m(self.small(rnd, k)))
            elif k == "upat": line = "upat " + hx(text(m(self.small(rnd, "pat"))))
            elif k in ("umatch", "uext"):
                if rnd.random() < 0.5:
                    path, pat = rnd.choice([("/users/42", "/users/[[id]]"), ("/a/1/c/2", "/a/[[b]]/c/[[d]]"), ("abc", "[[x]]"), ("/static", "/static"), ("/é/x", "/é/[[ü]]"), ("/a/b/", "/a/[[b]]/"), ("/a/ü/c/z", "/a/[[b]]/c/[[d]]")])
                    path, pat = path.encode(), pat.encode()
                else:
                    path, pat = self.small(rnd, "path"), self.small(rnd, "pat")
                line = "%s %s %s" % (k, hx(text(mutate(rnd, path, rnd.choice([0, 0, 1])))), hx(text(m(pat))))
            else:
                ps = ";".join("%s:%s" % (hx(kk), hx(vv)) for kk, vv in [(rnd.choice(["id", "b", "d", "x", "ü", ""]), rnd.choice(["1", "v", "", "é"])) for _ in range(rnd.randint(0, 3))]) or "-"
                line = "ubuild %s %s" % (ps, hx(text(m(self.small(rnd, "pat")))))
            out.append(line + " # kind=%s random=%d" % (k, rb))
        # deep inputs: a handful per run (they are large)
        for j in range(2 if tier == "quick" else 6):
            D = 20000
            out.append("jarr " + hx(b"[" * D + b"]" * D) + " # kind=jarr deep=1")
            out.append("jobj " + hx(b'{"a":' * D + b"1" + b"}" * D) + " # kind=jobj deep=1")
            out.append("jtyped i64 " + hx(b"[" + b",".join(b"1" for _ in range(D)) + b"]") + " # kind=jtyped deep=1")
            out.append("parse " + hx(b"GET / HTTP/1.1\r\n" + b"a:b\r\n" * 30000 + b"\r\n") + " # kind=parse deep=1")
            out.append("rp " + hx(b"HTTP/1.1 200 OK\r\n" + b"a:b\r\n" * 30000 + b"\r\nx") + " # kind=rp deep=1")
            out.append("rp " + hx(b"HTTP/1.1 206 Partial Content\r\nContent-Type: multipart/byteranges; boundary=B\r\n\r\n" + b"\r\n".join(b"--B\r\nContent-Type: a/b\r\nContent-Range: bytes 0-0/1\r\n\r\nx" for _ in range(D)) + b"\r\n--B") + " # kind=rp deep=1")
            out.append("mp 42 " + hx(b"".join(b"--B\r\nContent-Disposition: form-data; name=\"a\"\r\n\r\nv\r\n" for _ in range(D)) + b"--B--\r\n") + " # kind=mp deep=1")
            out.append("hdr " + hx(b"A: " + b"x" * 300000) + " # kind=hdr deep=1")
            out.append("rmp " + hx(b"\r\n".join(b"--String_separator\r\nContent-Type: a/b\r\nContent-Range: bytes 0-0/1\r\n\r\nx" for _ in range(D)) + b"\r\n--String_separator") + " # kind=rmp deep=1")
            out.append("upat " + hx(b"/[[a]]/x" * 5000) + " # kind=upat deep=1")
            out.append("b64d " + hx(base64.b64encode(bytes(rnd.randrange(256) for _ in range(30000)))) + " # kind=b64d deep=1")
            if j == 0 and tier == "quick":
                break
        return out

    # deep inputs are run through the implementation only: the extracted model appends to the end of lists (quadratic) and takes
    # minutes on them; what they are for - stack depth and termination of the real parser - is not a property of the model anyway
    def model_input(self, line, impl_out):
        return "noop" if meta(line).get("deep") else line

    def canon(self, line, out):
        return "SKIP" if meta(line).get("deep") else out

    def oracle(self, line, out):
        if out is None or out.startswith(("CRASH", "PANIC", "TIMEOUT")) or out.endswith("PANIC"):
            return "panic-crash-or-timeout"
        return None

    def outcome_class(self, line, out):
        m = meta(line)
        return "%s%s:%s" % (m.get("kind", "?"), "+deep" if m.get("deep") else "", (out or "").split(" ")[0])

    def nontrivial(self, line, out):
        return bool(out) and out.startswith("OK")
