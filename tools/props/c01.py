"""C01 — requests cannot read files outside the served directory."""
from .servebase import *


def request_target(req):
    line = req.split(b"\r\n")[0].split(b" ")
    return line[1].decode("utf-8", "replace") if len(line) > 1 else ""


class P(ServeProp):
    ID = "C01"
    THEOREMS = ["C01_contained", "C01_wire_is_those_parts", "C01_target_path_shape", "C01_climb_is_error", "C01_climbing_needs_dotdot", "C01_nonvacuous"]
    COQ_TARGETS = ["theories/Props/C01.vo", "theories/Extract.vo"]
    N_QUICK = 2000
    N_THOROUGH = 60000
    RULE = ("serve/serveL cases: trees of depth 0..6 with a uniquely marked secret file at every ancestor level outside the root and in sibling "
            "directories (incl. a sibling whose name extends the root's: rootx, root.html), symlinks to files/directories inside and outside x targets "
            "from the property's grammar ('..', '.', empty, names, %2e%2e, backslashes, no leading slash, authority-like prefixes, query/fragment "
            "carrying '/../') x optional Range x both entry points.  Oracle (implementation only): no response body contains a secret marker unless "
            "the target's path passes through a symlink of the tree; a target whose path lexically climbs above the root is answered >= 400. "
            "Non-trivial = target contains '..' or the response is 200/206, distinct by case line.")

    def gen(self, rnd, tier, n):
        out = []
        for i in range(n):
            kind = "serveL" if rnd.random() < 0.3 else "serve"
            t = gs.gen_tree(rnd, maxents=rnd.choice([2, 6, 10]), depth_bias=0.6)
            r = rnd.random()
            if r < 0.6:
                # traversal grammar
                segs = [rnd.choice(["..", "..", ".", "", "sub", "a.txt", "secret0.txt", "secret5.txt", "outer", "root", "rootx", "leak.txt", "%2e%2e", "%2E%2E",
                                    "..\\..", "...", ".. ", "..;", "s2", "deep", "..%2f", "%2e.", ".%2e", "..\\secret5.txt"]) for _ in range(rnd.randint(1, 7))]
                tgt = rnd.choice(["/", "/", "", "//", "/./", "/sub/", "/s2/../", "\\", "/..\\"]) + "/".join(segs)
                if rnd.random() < 0.2:
                    tgt += rnd.choice(["?x=1", "#f", "?/../", "#/../../secret0.txt", "/"])
            elif r < 0.75:
                tgt = rnd.choice(["/../secret5.txt", "/../../secret0.txt", "/../rootx/leak.txt", "/../root.html", "/..", "/../", "/sub/../../secret5.txt",
                                  "x/../../secret5.txt", "../secret5.txt", "@/../secret5.txt", ":80/../secret5.txt", "http://h/../secret5.txt",
                                  "/..\\secret5.txt", "/%2e%2e/secret5.txt", "/.%2e/secret5.txt", "//../secret5.txt", "/./../secret5.txt", "/../secret5.txt?a",
                                  "/../secret5.txt#b", "/a.txt/../../secret5.txt", "/../root/../secret5.txt", "/../../outer/secret5.txt"])
            else:
                tgt = None
            # separators spelled as escapes, in both letter cases and doubly encoded (a decoder applied after the containment test turns them
            # into real separators); chosen from the case number, without drawing, so that the streams of earlier runs stay
            if tgt is not None and i % 3 == 0:
                if "%2f" in tgt:
                    tgt = tgt.replace("%2f", ("%2F", "%5C", "%252F")[i // 3 % 3])
                elif "/../" in tgt:
                    tgt = tgt.replace("/../", ("/..%2F", "/..%2f", "/%2E%2E%2F", "/..%5C", "/..%252F")[i // 3 % 5], 1 + i % 2)
            hs = None
            if rnd.random() < 0.25:
                hs = ["Range: " + rnd.choice(gs.RANGES)]
            meth = rnd.choice(["GET"] * 8 + ["HEAD", "OPTIONS", "POST"])
            out.append(gs.serve_case(rnd, kind=kind, tree=t, target=tgt, method=meth, headers=hs))
        return out

    def oracle(self, line, out):
        raw = self.raw(out)
        if not raw:
            return None
        pc = gs.parse_case(line)
        tgt = request_target(pc["req"])
        p = httpcanon.lenient(raw)
        if p is None:
            return None
        code, reason, hs, body = p
        if gs.SECRET in body:
            path = tgt.split("?")[0].split("#")[0]
            comps = [c for c in path.split("/") if c not in ("", ".")]
            # only a link that the owner pointed outside the served directory excuses outside bytes: a link whose target, read from the link's
            # own directory, stays inside the root does not (it may chain to another link that leaves, which is followed a few levels)
            all_links = {e[1][len("outer/root/"):]: (e[2].decode("utf-8", "replace") if isinstance(e[2], bytes) else e[2]) for e in pc["ents"] if e[0] == "L" and e[1].startswith("outer/root/")}
            def leaves(lp, depth=0):
                tg = all_links[lp]
                if tg.startswith("/") or depth > 5:
                    return True
                cur = lp.split("/")[:-1]
                for seg in tg.split("/"):
                    if seg in ("", "."): continue
                    if seg == "..":
                        if not cur: return True
                        cur.pop()
                    else:
                        cur.append(seg)
                    here = "/".join(cur)
                    if here in all_links and leaves(here, depth + 1):
                        return True
                return False
            links = [l for l in all_links if leaves(l)]
            # the path itself, the directory index of the path, and the path with .html appended are the candidates the server tries:
            # each may be (or lie under) a link the owner placed
            cands = [comps, comps + ["index.html"], (comps[:-1] + [comps[-1] + ".html"]) if comps else comps]
            # the vendored URL parser cuts at the first '?' before it looks for '#' (finding C02-F4): with a '#' before the '?' the path the
            # server resolves still holds "#...", and a link of that name is the owner's link all the same
            alt = [c for c in tgt.split("?")[0].split("/") if c not in ("", ".")] if "?" in tgt else [c for c in tgt.split("#")[0].split("/") if c not in ("", ".")]
            if alt != comps:
                cands += [alt, alt + ["index.html"], (alt[:-1] + [alt[-1] + ".html"]) if alt else alt]
            via_link = any(c[:len(l.split("/"))] == l.split("/") for c in cands for l in links) or \
                (pc["kind"] == "serveL" and any(tgt.lstrip("/").startswith(l) for l in links))
            # the cwd-relative override pages: 404.html for every 404, index.html for "/"
            if code == b"404" and "404.html" in links:
                via_link = True
            if tgt == "/" and "index.html" in links:
                via_link = True
            if not via_link:
                return "secret-file-disclosed"
        if "?" not in tgt and "#" not in tgt and tgt.startswith("/"):
            depth = 0
            climbs = False
            for c in tgt.split("/"):
                if c in ("", "."):
                    continue
                if c == "..":
                    if depth == 0:
                        climbs = True
                        break
                    depth -= 1
                else:
                    depth += 1
            if climbs:
                try:
                    st = int(code)
                except ValueError:
                    st = 0
                if st < 400:
                    return "climbing-target-not-an-error"
        return None

    def nontrivial(self, line, out):
        r = self.resp(out)
        return ".." in request_target(gs.parse_case(line)["req"]) or (bool(r) and r["status"] in (200, 206))
