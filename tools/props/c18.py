"""C18 — Base64 conforms to RFC 4648 and round-trips."""
import base64
from .base import *

ALPHA = b"ABCDEFGHIJKLMNOPQRSTUVWXYZabcdefghijklmnopqrstuvwxyz0123456789+/"


class P(Prop):
    ID = "C18"
    THEOREMS = ["C18_encode_is_rfc4648", "C18_decode_rfc4648", "C18_round_trip", "C18_group", "C18_rejects"]
    COQ_TARGETS = ["theories/Props/C18.vo", "theories/Extract.vo"]
    N_QUICK = 3000
    N_THOROUGH = 60000
    RULE = ("b64e: random byte strings of every length residue mod 3 (0..48 bytes mostly, up to 64 KiB in a few cases; bytes uniform, or "
            "drawn from {0,1,3,15,16,63,64,127,128,192,252,255} to hit mask boundaries); b64d: valid encodings (expect the original bytes), "
            "every kind of single-character corruption of valid text (a character outside the alphabet -> must be an error), truncations, "
            "extra padding, non-ASCII characters.  Oracle: Python's base64 module (independent of the model).  Non-trivial = a case whose "
            "implementation result is OK with non-empty output, counted distinct by case line.")
    ASSUMPTIONS = ["Base64::decode takes a Rust String: inputs that are not valid UTF-8 cannot be constructed and are skipped (SKIP)"]

    def gen(self, rnd, tier, n):
        out = []
        edge = [0, 1, 3, 15, 16, 63, 64, 127, 128, 192, 252, 255]
        def rbytes(k):
            if rnd.random() < 0.3:
                return bytes(rnd.choice(edge) for _ in range(k))
            return bytes(rnd.randrange(256) for _ in range(k))
        big = 3 if tier == "quick" else 30
        for i in range(n):
            r = rnd.random()
            k = rnd.choice([0, 1, 2, 3, 4, 5, 6, 7, 8, 9, 10, 11, 12, 30, 31, 32, 47, 48]) if i >= big else rnd.choice([65534, 65535, 65536, 8191, 8192, 8193])
            # the decoder model follows the code (text.chars().nth(index) per character) and is cubic: large inputs go to the encoder only
            if k > 9000 and r >= 0.35:
                k = rnd.choice([8191, 8192, 8193])
            b = rbytes(k)
            if r < 0.35:
                out.append("b64e %s" % b.hex())
                continue
            t = base64.b64encode(b)
            if r < 0.6 or not t:
                out.append("b64d %s # expect=rt:%s" % (t.hex(), b.hex()))
                continue
            t = bytearray(t)
            if r < 0.8:       # one character outside the alphabet (and not '=')
                pos = rnd.randrange(len(t))
                bad = rnd.choice([b"!", b"-", b"_", b" ", b"\n", b"\x00", b"~", b".", b"@", b"[", b"`", b"{", "é".encode(), "Ł".encode(), "😀".encode(), b"\x7f"])
                t2 = bytes(t[:pos]) + bad + bytes(t[pos + 1:])
                out.append("b64d %s # expect=bad" % t2.hex())
            elif r < 0.9:     # padding games
                pos = rnd.randrange(len(t))
                t2 = rnd.choice([bytes(t) + b"=", bytes(t) + b"==", bytes(t[:pos]) + b"=" + bytes(t[pos:]), bytes(t[:pos]) + b"===" + bytes(t[pos + 3:]),
                                 b"!===" + bytes(t), bytes(t) + b"?===", bytes(t[:-1]), bytes(t[:-2]), b"====", b"=" * rnd.randrange(1, 9)])
                exp = "bad" if any(c not in ALPHA + b"=" for c in t2) else "free"
                out.append("b64d %s # expect=%s" % (t2.hex(), exp))
            else:
                pos = rnd.randrange(len(t))
                t[pos] = rnd.choice(ALPHA)
                try:
                    exp = "rt:" + base64.b64decode(bytes(t), validate=True).hex()
                    # python rejects non-canonical trailing bits? no: it accepts them; rws too
                except Exception:
                    exp = "free"
                out.append("b64d %s # expect=%s" % (bytes(t).hex(), exp))
        return out

    def oracle(self, line, out):
        f = strip_meta(line).split(" ")
        arg = bytes.fromhex(f[1]) if len(f) > 1 else b""
        if out is None or out.startswith("CRASH") or out.startswith("PANIC"):
            return "panic-or-crash"
        if f[0] == "b64e":
            want = "OK " + base64.b64encode(arg).hex()
            return None if out.strip() == want.strip() else "encode-differs-from-rfc4648"
        m = meta(line).get("expect", "free")
        if m.startswith("rt:"):
            return None if out.strip() == ("OK " + m[3:]).strip() else "decode-of-valid-text-wrong"
        if m == "bad":
            return None if out == "ERR" else "bad-character-accepted"
        return None

    def classify(self, line, out, sig):
        if sig != "bad-character-accepted":
            return None
        # C18-F1: every character outside alphabet+'=' sits in a 4-character group holding three or more '='
        try:
            chars = list(bytes.fromhex(strip_meta(line).split(" ")[1]).decode("utf-8"))
        except Exception:
            return None
        ok = set(ALPHA.decode() + "=")
        for g in range(0, len(chars), 4):
            grp = chars[g:g + 4]
            if any(c not in ok for c in grp) and grp.count("=") < 3:
                return None
        return "C18-F1"

    def nontrivial(self, line, out):
        return bool(out) and out.startswith("OK ") and len(out) > 3
