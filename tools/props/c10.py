"""C10 — every response carries the hardening and no-cache headers, each exactly once."""
import os, random
from .servebase import *
import netprobe, vlib
from . import c04

REQUIRED = [("X-Content-Type-Options", lambda v: v == "nosniff"), ("X-Frame-Options", lambda v: v == "SAMEORIGIN"),
            ("Cache-Control", lambda v: "no-store" in v and "no-cache" in v), ("Accept-Ranges", lambda v: v == "bytes"),
            ("Accept-CH", lambda v: len(v) > 0), ("Vary", lambda v: "Origin" in [x.strip() for x in v.split(",")])]


class P(ServeProp):
    ID = "C10"
    THEOREMS = ["C10_each_exactly_once", "C10_handler_error", "C10_table_is_documented", "C10_wire"]
    COQ_TARGETS = ["theories/Props/C10.vo", "theories/Extract.vo"]
    N_QUICK = 1500
    N_THOROUGH = 40000
    RULE = ("serve/serveL cases: random document trees x targets (tree-derived, traversal grammar, non-origin-form) x methods x Range/Origin/"
            "preflight headers x CORS configuration; 35% of the requests damaged by structure-aware mutation (truncation, byte substitution incl. "
            "NUL/CR/LF/non-UTF-8, insertion, deletion, numeric junk, hundreds of header lines); 5% through a handler that reports an error. "
            "Oracle (implementation only): every response written has each of the six headers exactly once with the required value. "
            "Non-trivial = a response whose status is not 404, distinct by case line.  Real binary on loopback with 1 and 2 workers: a sequence "
            "of requests of every kind on the same workers - the n-th response of a worker carries the headers like its first.")

    # ---- the real binary: every response, not only a worker's first ----
    def extra(self, tier, seed, work, notes):
        fails = []
        rnd = random.Random(seed * 32452843 + 10)
        try:
            exe = vlib.build_binary()
        except vlib.Infra as e:
            notes.append("campaign: skipped (%s)" % str(e)[:100])
            return {"failures": [], "coverage": {"campaign": "skipped"}}
        base = os.path.join(work, "net10"); os.makedirs(base, exist_ok=True)
        root = netprobe.make_root(base)
        reqs = [b"GET /a.txt HTTP/1.1\r\nHost: localhost\r\n\r\n", b"GET / HTTP/1.1\r\n\r\n", b"HEAD /a.txt HTTP/1.1\r\n\r\n", b"OPTIONS /a.txt HTTP/1.1\r\nOrigin: https://foo.example\r\n\r\n",
                b"GET /a.txt HTTP/1.1\r\nRange: bytes=2-5\r\n\r\n", b"GET /a.txt HTTP/1.1\r\nRange: bytes=0-1,3-4\r\n\r\n", b"GET /missing HTTP/1.0\r\n\r\n", b"GET /style.css HTTP/1.1\r\n\r\n",
                b"GET /form-get-method?a=1 HTTP/1.1\r\n\r\n", b"POST /form-url-encoded-enctype-post-method HTTP/1.1\r\nContent-Type: application/x-www-form-urlencoded\r\n\r\na=1",
                b"\xff\xfe\r\n\r\n", b"GET x HTTP/1.1\r\n\r\n", b"GET /a.txt HTTP/1.1\r\nRange: bytes=9-2\r\n\r\n", b"FOO / HTTP/1.1\r\n\r\n", b"GET /../a.txt HTTP/1.1\r\n\r\n"]
        checked = 0
        for N in ([1, 2] if tier == "quick" else [1, 2, 3, 8]):
            try:
                s = netprobe.Server(exe, root, threads=N)
            except Exception as e:
                notes.append("campaign: server did not start (%s)" % e)
                return {"failures": fails, "coverage": {"campaign": "skipped: bind failed", "sequential_responses_checked": checked}}
            try:
                seq = [rnd.choice(reqs) for _ in range(25 if tier == "quick" else 200)]
                for i, r in enumerate(seq):
                    got = s.request(r, timeout=5.0)
                    if not got:
                        continue          # an unanswered connection is C04's concern
                    sig = self.oracle("", "W " + got.hex())
                    checked += 1
                    if sig:
                        fails.append(("response number %d of a server with %d worker(s): %s" % (i + 1, N, sig), sig, None,
                                      {"threads": N, "position_in_sequence": i + 1, "request": r[:200].decode("latin-1"), "earlier_requests": [x[:60].decode("latin-1") for x in seq[:i]][-5:],
                                       "received_head": got.split(b"\r\n\r\n")[0][:1200].decode("latin-1")}))
                        break
            finally:
                s.stop()
            if fails:
                break
        return {"failures": fails, "coverage": {"campaign": "real binary on loopback", "sequential_responses_checked": checked}}

    def gen(self, rnd, tier, n):
        out = []
        for i in range(n):
            r = rnd.random()
            kind = "serveL" if rnd.random() < 0.25 else "serve"
            if r < 0.35:
                out.append(gs.serve_case(rnd, kind=kind, raw_req=lambda b: gs.mutate_request(rnd, b)))
            elif r < 0.40:
                out.append(gs.serve_case(rnd, kind="serve", opts="app=err"))
            else:
                c = gs.serve_case(rnd, kind=kind)
                if i % 6 == 3:
                    # the built-in form and upload routes, with bodies of every kind (valid, empty, not UTF-8, multipart well formed and not): each
                    # route has error branches of its own that build a response.  A generator of its own, seeded from the case number, so
                    # that the streams of earlier runs stay
                    r2 = random.Random(i * 7919 + 17)
                    m, tg, hs, body = c04.P.form_request(self, r2)
                    c = gs.serve_case(r2, kind=kind, target=tg, method=m, headers=hs, body=body, meta="form=1")
                out.append(c)
        return out

    def oracle(self, line, out):
        raw = self.raw(out)
        if raw is None:
            return None          # nothing written: C04's concern, not C10's
        if raw == b"":
            return None
        p = httpcanon.lenient(raw)
        if p is None:
            return "response-without-head"
        code, reason, hs, body = p
        for name, okv in REQUIRED:
            vals = [v.decode("latin-1") for n, v in hs if n.decode("latin-1").lower() == name.lower()]
            if len(vals) != 1:
                return "header-%s-count-%d" % (name, len(vals))
            if not okv(vals[0]):
                return "header-%s-value" % name
        return None
