"""C10 — every response carries the hardening and no-cache headers, each exactly once."""
from .servebase import *

REQUIRED = [("X-Content-Type-Options", lambda v: v == "nosniff"), ("X-Frame-Options", lambda v: v == "SAMEORIGIN"),
            ("Cache-Control", lambda v: "no-store" in v and "no-cache" in v), ("Accept-Ranges", lambda v: v == "bytes"),
            ("Accept-CH", lambda v: len(v) > 0), ("Vary", lambda v: "Origin" in [x.strip() for x in v.split(",")])]


class P(ServeProp):
    ID = "C10"
    THEOREMS = ["C10_each_exactly_once", "C10_handler_error", "C10_table_is_documented", "C10_wire"]
    COQ_TARGETS = ["theories/Props/C10.vo", "theories/Extract.vo"]
    N_QUICK = 1500
    N_THOROUGH = 40000
    RULE = ("serve/serveL cases: random document trees x targets (tree-derived, traversal grammar, non-origin-form) x methods x Range/Origin/"
            "preflight headers x CORS configuration; 35% of the requests damaged by structure-aware mutation (truncation, byte substitution incl. "
            "NUL/CR/LF/non-UTF-8, insertion, deletion, numeric junk, hundreds of header lines); 5% through a handler that reports an error. "
            "Oracle (implementation only): every response written has each of the six headers exactly once with the required value. "
            "Non-trivial = a response whose status is not 404, distinct by case line.")

    def gen(self, rnd, tier, n):
        out = []
        for i in range(n):
            r = rnd.random()
            kind = "serveL" if rnd.random() < 0.25 else "serve"
            if r < 0.35:
                out.append(gs.serve_case(rnd, kind=kind, raw_req=lambda b: gs.mutate_request(rnd, b)))
            elif r < 0.40:
                out.append(gs.serve_case(rnd, kind="serve", opts="app=err"))
            else:
                out.append(gs.serve_case(rnd, kind=kind))
        return out

    def oracle(self, line, out):
        raw = self.raw(out)
        if raw is None:
            return None          # nothing written: C04's concern, not C10's
        if raw == b"":
            return None
        p = httpcanon.lenient(raw)
        if p is None:
            return "response-without-head"
        code, reason, hs, body = p
        for name, okv in REQUIRED:
            vals = [v.decode("latin-1") for n, v in hs if n.decode("latin-1").lower() == name.lower()]
            if len(vals) != 1:
                return "header-%s-count-%d" % (name, len(vals))
            if not okv(vals[0]):
                return "header-%s-value" % name
        return None
