"""Interface of a property module (see tools/runner.py)."""
import os, sys
sys.path.insert(0, os.path.dirname(os.path.dirname(os.path.abspath(__file__))))
from vlib import strip_meta, hexs, unhex


def meta(line):
    i = line.find(" #")
    if i < 0:
        return {}
    return dict(x.split("=", 1) for x in line[i + 2:].split() if "=" in x)


class Prop:
    ID = None
    THEOREMS = []
    COQ_TARGETS = []
    NEEDS_MODEL = True
    SEQUENTIAL = False
    N_QUICK = 1500
    N_THOROUGH = 40000
    RULE = ""
    ASSUMPTIONS = []
    TRUSTED_EXTRA = []

    def gen(self, rnd, tier, n):
        return []

    def canon(self, line, out):
        return out

    def oracle(self, line, out):
        return None

    def classify(self, line, out, sig):
        return None

    def outcome_class(self, line, out):
        return strip_meta(line).split(" ")[0] + ":" + (out or "").split(" ")[0]

    def nontrivial(self, line, out):
        return bool(out) and out.split(" ")[0] not in ("ERR", "SKIP", "?")
