"""C13 — the server never modifies the files it serves."""
from .servebase import *
from .c04 import P as C04, zero_write


class P(ServeProp):
    ID = "C13"
    THEOREMS = ["C13_request_history_read_only", "C13_table_read_only", "C13_read_only_closed", "C13_nonvacuous", "C13_classification"]
    COQ_TARGETS = ["theories/Props/C13.vo", "theories/Extract.vo"]
    N_QUICK = 1200
    N_THOROUGH = 40000
    RULE = ("serve/serveL cases with a full manifest (path, type, size, content hash, link target of every entry of the scratch tree, including the "
            "directories around the served root) taken before and after the request: the C04 malformed stream plus PUT / DELETE / PATCH / POST / "
            "MKCOL-like requests with upload-shaped bodies (multipart with filename=, url-encoded, raw bytes) to file, directory, missing and "
            "form-endpoint targets, with Range and Content-Range headers.  Oracle (implementation only): the manifest is unchanged.  "
            "The proof side is the scan of every file-system primitive named in non-test source (tools/scan_fs.py -> GenFsCalls.v).  "
            "Non-trivial = a request whose method is not GET/HEAD/OPTIONS or that was damaged, distinct by case line.")
    TRUSTED_EXTRA = ["tools/scan_fs.py: a syntactic scan (names, not semantics) over whole files, file-ext functions expanded transitively to std primitives; "
                     "fails closed on unsafe / extern / libc / include! / an unknown FileExt function / a changed dependency list"]

    def gen(self, rnd, tier, n):
        out = []
        c4 = C04()
        base = c4.gen(rnd, tier, n // 2)
        for l in base:
            if "rerr" in l or "werr" in l or "ferr" in l or "deep=1" in l or zero_write(gs.parse_case(l)["opts"]):
                continue          # transport faults are C04's: the response is cut short there, the model does not express it
            out.append(self._with_manifest(l))
        # reads of the built-in pages and of anything else, from trees that do or do not hold a file of that name: serving a default must not create it
        for j in range(n // 6):
            t = gs.gen_tree(rnd, maxents=rnd.choice([0, 1, 3, 8]))
            tg = rnd.choice(["/style.css", "/script.js", "/favicon.svg", "/", "/index.html", "/404.html", "/missing", "/sub/", "/style.css?x=1", "/a.txt"])
            if j % 4 == 1:
                # a page below the top level asked for without its ".html", and a directory asked for its index: the lookups that try several
                # names must not leave one of them behind (from the case number, no draw: the streams of earlier runs stay)
                t.ents += [("D", "outer/root/docs"), ("F", "outer/root/docs/guide.html", b"<p>guide</p>"), ("D", "outer/root/docs/v2"),
                           ("F", "outer/root/docs/v2/api.html", b"<p>api</p>"), ("F", "outer/root/docs/v2/index.html", b"<p>v2</p>")]
                tg = ["/docs/guide", "/docs/v2/api", "/docs/guide?x=1", "/docs/v2/api#top", "/docs/v2", "/docs/v2/"][j // 4 % 6]
            out.append(self._with_manifest(gs.serve_case(rnd, kind="serve" if rnd.random() < 0.8 else "serveL", tree=t, target=tg, method=rnd.choice(["GET", "GET", "HEAD", "OPTIONS"]), meta="builtin=1")))
        while len(out) < n:
            t = gs.gen_tree(rnd, maxents=rnd.choice([3, 8]))
            inroot = t.inroot()
            tg = rnd.choice(inroot) if inroot and rnd.random() < 0.6 else rnd.choice(["/new.txt", "/", "/sub/", "/file-upload/initiate?name=a&lastModified=1&size=3",
                                                                                 "/form-multipart-enctype-post-method", "/uploads/x.bin", "/a.txt"])
            meth = rnd.choice(["PUT", "DELETE", "PATCH", "POST", "POST", "MKCOL", "put", "TRACE", "CONNECT"])
            if rnd.random() < 0.25:
                # the upload-initiate demo echoes its parameters: names of files that exist, that do not, that climb out; every size incl. 0
                nm = (rnd.choice(inroot).lstrip("/") if inroot and rnd.random() < 0.5 else rnd.choice(["new.bin", "sub/new.bin", "../outside.txt", "..%2Fup.txt", "index.html", "", "a b.txt", "/abs.txt"]))
                tg = "/file-upload/initiate?name=%s&lastModified=%s&size=%s" % (nm, rnd.choice(["1", "0", "1700000000000", "x"]), rnd.choice(["0", "1", "3", "2147483648", "-1", "", "x"]))
                meth = "POST"
            bd = "--B1"
            body = rnd.choice([b"", b"new content", bytes(rnd.randrange(256) for _ in range(50)),
                               (bd + '\r\nContent-Disposition: form-data; name="file"; filename="a.txt"\r\nContent-Type: text/plain\r\n\r\nOVERWRITE\r\n' + bd).encode(),
                               b"name=a.txt&content=OVERWRITE"])
            opts = ""
            if rnd.random() < 0.25:
                # an upload that does not fit the request buffer: the rest of the body is still on the connection when the request is handled
                sz = rnd.choice([64, 256, 1024, 4096, 10000])
                body = body + bytes(rnd.randrange(256) for _ in range(rnd.choice([sz, 2 * sz, 3 * sz + 17])))
                opts = "size=%d" % sz
            hs = [rnd.choice(["Content-Type: multipart/form-data; boundary=" + bd, "Content-Type: application/x-www-form-urlencoded", "Content-Type: application/octet-stream"]),
                  "Content-Length: %d" % len(body)]
            if rnd.random() < 0.3: hs.append("Content-Range: bytes 0-3/10")
            if rnd.random() < 0.2: hs.append("Range: " + rnd.choice(["bytes=0-1", "bytes=0-3, 5000-6000", "bytes=0-0,2-2", "bytes=0-0,a-b", "bytes=-1,99999-"]))
            out.append(self._with_manifest(gs.serve_case(rnd, kind="serve" if rnd.random() < 0.8 else "serveL", tree=t, target=tg, method=meth, headers=hs, body=body, opts=opts, meta="write=1")))
        return out

    @staticmethod
    def _with_manifest(line):
        i = line.find(" #")
        head, tail = (line, "") if i < 0 else (line[:i], line[i:])
        return head + " manifest=1" + tail

    def oracle(self, line, out):
        if not out:
            return None
        if out.endswith(" FS=changed"):
            return "file-system-changed"
        if out.startswith(("CRASH",)):
            return None
        return None

    def nontrivial(self, line, out):
        m = meta(line)
        return "write" in m or "mut" in m or "form" in m
