"""C07 — the worker pool runs every task exactly once, N at a time, without deadlock."""
from .base import *


def parse_pool(out):
    if not out or not out.startswith("P "):
        return None
    d = dict(x.split("=", 1) for x in out[2:].split(" ") if "=" in x)
    d["trace"] = d.get("trace", "").split(",") if d.get("trace") else []
    return d


class P(Prop):
    ID = "C07"
    THEOREMS = ["C07_inv_reachable", "C07_exactly_once", "C07_no_lock_while_running", "C07_internal_terminates", "C07_stuck_saturated", "C07_trace_acceptor_sound",
                "C07_nonvacuous"]
    COQ_TARGETS = ["theories/Props/C07.vo", "theories/Extract.vo"]
    N_QUICK = 160
    N_THOROUGH = 3000
    PANICS = False
    RULE = ("pool cases on the real ThreadPool built with the cfg(rws_verif) hooks: pool sizes 1..8, 0..4N tasks of kinds instant / sleeping / "
            "rendezvous-of-N / arriving after an idle pause, every hook point perturbed by seeded sleeps and yields (lock acquired, job received, job finished, submit).  The "
            "recorded event trace must be accepted by the extracted transition system (Pool.accept_trace, allowing only the late-'Received' "
            "commutation).  Oracle (implementation only): every task ran exactly once, all tasks finished, every rendezvous of N completed (N "
            "tasks really run at the same time), and a final rendezvous probe of N completes.  Non-trivial = a case with at least N tasks, "
            "distinct by case line.")
    ASSUMPTIONS = ["std::sync::mpsc (FIFO, each message delivered to one recv) and Mutex (mutual exclusion) as abstract primitives",
                   "OS scheduler fairness is sampled by the perturbation, not proved; deadlines are generous (8 s) and only count together with counters"]

    def gen(self, rnd, tier, n):
        out = []
        for i in range(n):
            N = rnd.choice([1, 2, 2, 3, 4, 5, 8])
            t = rnd.choice([0, 1, N - 1, N, N + 1, 2 * N, 3 * N + 1, 4 * N])
            r = rnd.random()
            if r < 0.3:
                spec = "r" * (t - t % N if t >= N else 0) or "i" * t
            elif r < 0.6:
                spec = "".join(rnd.choice("is") for _ in range(t))
            else:
                spec = "".join(rnd.choice("iisr" + ("pzwfeg" if self.PANICS else "")) for _ in range(t))      # C06: jobs that panic, and requests handled over a failing transport
                # rendezvous tasks come in groups of N so that every group can complete
                nr = spec.count("r")
                extra = (-nr) % N
                spec += "r" * extra
            if spec and rnd.random() < 0.12:
                # an idle pool: the submitter pauses (0.35 s) before some tasks - at the start, after a burst, or both
                k = rnd.choice([0, 0, len(spec) // 2, len(spec) - 1])
                if spec[k] == "i" or k == 0 and spec[0] in "is": spec = spec[:k] + "d" + spec[k + 1:]
                if rnd.random() < 0.3 and spec[-1] in "is": spec = spec[:-1] + "d"
            out.append("pool %d %d %s" % (rnd.randrange(1 << 30), N, spec or "-"))
        return out

    def model_input(self, line, out):
        d = parse_pool(out)
        f = strip_meta(line).split(" ")
        if d is None:
            return "ptrace %s -" % f[2]
        ev = [e for e in d["trace"] if e and e[0] in "SARF"]
        return "ptrace %s %s" % (f[2], ",".join(ev) or "-")

    def canon(self, line, out):
        d = parse_pool(out)
        return "ACCEPT" if d is not None else "NOTRACE"

    def canon_model(self, line, out):
        return (out or "").split(" ")[0]

    def oracle(self, line, out):
        if out is None or out.startswith(("CRASH", "PANIC")):
            return "pool-driver-died"
        d = parse_pool(out)
        if d is None:
            return "no-result"
        if d["finished"] != d["tasks"]:
            return "tasks-finished-%s-of-%s" % (d["finished"], d["tasks"])
        if d["once"] != "true":
            return "a-task-did-not-run-exactly-once"
        a, b = d["rdv"].split("/")
        if a != b:
            return "rendezvous-%s-of-%s-not-N-at-a-time" % (a, b)
        if d["probe"] != "ok":
            return "capacity-probe-of-N-simultaneous-tasks-failed"
        return None

    def outcome_class(self, line, out):
        f = strip_meta(line).split(" ")
        return "pool:N=%s" % f[2]

    def nontrivial(self, line, out):
        f = strip_meta(line).split(" ")
        return len(f) > 3 and f[3] != "-" and len(f[3]) >= int(f[2])
