"""C08 — concurrent requests do not influence one another."""
import os, random, re, socket, threading, time
from .servebase import *
import netprobe, vlib


def canon_resp(raw):
    if raw is None:
        return None
    raw = re.sub(rb"(Date-Unix-Epoch-Nanos|Last-Modified-Unix-Epoch-Nanos): [^\r\n]*", rb"\1: ", raw)
    sp = httpcanon.split_head(raw)
    if sp and b"Content-Type: text/plain" in sp[0]:
        raw = sp[0] + b"\r\n\r\n" + b"\r\n".join(sorted(sp[1].split(b"\r\n")))     # the form demo pages list fields in hash-map order
    return raw


class P(ServeProp):
    ID = "C08"
    THEOREMS = ["C08_isolation", "C08_schedule_independent", "C08_shared_state_ok", "C08_scan_rejects"]
    COQ_TARGETS = ["theories/Props/C08.vo", "theories/Extract.vo"]
    N_QUICK = 400
    N_THOROUGH = 10000
    RULE = ("(1) serve cases (the sequential meaning of one request, model vs implementation).  (2) the real rws binary on loopback with 1..16 workers: a "
            "multiset of requests (different files incl. a 1 MiB one, single and multiple ranges, HEAD/OPTIONS, form GET and POST echoes, 404s, "
            "400s, bad targets) is first answered serially, then issued on simultaneous connections released by a barrier in random arrival "
            "orders and degrees of overlap (8..64 in flight); every concurrent response must equal the serial response to the same request byte "
            "for byte (timestamp header blanked, echo lines sorted).  (3) the scan of shared mutable state in /repo (GenSharedState).  "
            "Non-trivial = responses compared under concurrency.")
    ASSUMPTIONS = ServeProp.ASSUMPTIONS + ["freedom from data races inside std and the allocator, and the soundness of a syntactic scan, are not theorems (partial by nature)"]
    TRUSTED_EXTRA = ["tools/scan_shared.py: syntactic scan for static mut / static with interior mutability / thread_local! / lazy_static! / Arc<Mutex|RwLock> / "
                     "env::set_var / set_current_dir / unsafe over whole non-test files; start-up = src/entry_point/**, src/main.rs, Server::setup"]

    def gen(self, rnd, tier, n):
        return [gs.serve_case(rnd, kind="serve" if rnd.random() < 0.8 else "serveL") for _ in range(n)]

    def requests(self, rnd):
        R = [b"GET /a.txt HTTP/1.1\r\n\r\n", b"GET /big.bin HTTP/1.1\r\n\r\n", b"GET /big.bin HTTP/1.1\r\nRange: bytes=100-199\r\n\r\n",
             b"GET /big.bin HTTP/1.1\r\nRange: bytes=0-9,1000-1009,999990-\r\n\r\n", b"HEAD /a.txt HTTP/1.1\r\n\r\n", b"OPTIONS /a.txt HTTP/1.1\r\nOrigin: https://x\r\n\r\n",
             b"GET / HTTP/1.1\r\n\r\n", b"GET /style.css HTTP/1.1\r\n\r\n", b"GET /missing HTTP/1.1\r\n\r\n", b"GET x HTTP/1.1\r\n\r\n", b"\xff\xfe\r\n\r\n",
             b"GET /a.txt HTTP/1.1\r\nRange: bytes=5-2\r\n\r\n", b"GET /../a.txt HTTP/1.1\r\n\r\n",
             # a relative link to a large file in a sub-directory, and the file that shares its name with one in the root
             b"GET /sub/link.bin HTTP/1.1\r\n\r\n", b"GET /sub/link.bin HTTP/1.1\r\n\r\n", b"GET /sub/a.txt HTTP/1.1\r\n\r\n", b"GET /sub/link.bin HTTP/1.1\r\nRange: bytes=0-9\r\n\r\n"]
        for i in range(12):
            R.append(b"GET /form-get-method?k%d=v%d&common=%d HTTP/1.1\r\n\r\n" % (i, i, i))
            body = b"field%d=value%d&n=%d" % (i, i, i)
            R.append(b"POST /form-url-encoded-enctype-post-method HTTP/1.1\r\nContent-Type: application/x-www-form-urlencoded\r\nContent-Length: %d\r\n\r\n" % len(body) + body)
            R.append(b"GET /f%d.txt HTTP/1.1\r\nOrigin: https://o%d.example\r\n\r\n" % (i, i))
        # form posts of very different sizes, with and without Content-Length: what an earlier, longer request left anywhere must not show up
        for i, n in enumerate([1, 3, 40, 400]):
            body = b"&".join(b"tok%d_%d=SECRET-%d-%d" % (i, j, i, j) for j in range(n))
            R.append(b"POST /form-url-encoded-enctype-post-method HTTP/1.1\r\nContent-Type: application/x-www-form-urlencoded\r\n\r\n" + body)
            R.append(b"POST /form-url-encoded-enctype-post-method HTTP/1.1\r\nContent-Type: application/x-www-form-urlencoded\r\nContent-Length: %d\r\n\r\n" % len(body) + body)
        R.append(b"POST /form-url-encoded-enctype-post-method HTTP/1.1\r\nContent-Type: application/x-www-form-urlencoded\r\n\r\nu=bob")
        # requests that announce a body no allocation can hold, or no number at all: whatever they do to themselves, the others are answered as alone
        for cl in [b"4611686018427387904", b"18446744073709551615", b"1099511627776", b"-1", b"abc"]:
            R.append(b"POST /form-url-encoded-enctype-post-method HTTP/1.1\r\nContent-Type: application/x-www-form-urlencoded\r\nContent-Length: " + cl + b"\r\n\r\na=1")
        return R

    def extra(self, tier, seed, work, notes):
        fails = []
        rnd = random.Random(seed * 104729 + 8)
        try:
            exe = vlib.build_binary()
        except vlib.Infra as e:
            notes.append("campaign: skipped (%s)" % str(e)[:100])
            return {"failures": [], "coverage": {"campaign": "skipped"}}
        base = os.path.join(work, "net"); os.makedirs(base, exist_ok=True)
        root = netprobe.make_root(base)
        for i in range(12):
            open(os.path.join(root, "f%d.txt" % i), "wb").write(b"file-%d-" % i * (i + 1))
        reqs = self.requests(rnd)
        rounds = 3 if tier == "quick" else 12
        # reference answers: each request alone on a server that has served nothing before
        fresh = []
        try:
            for r in reqs:
                f = netprobe.Server(exe, root, threads=1)
                try:
                    fresh.append(canon_resp(f.request(r)))
                finally:
                    f.stop()
        except Exception as e:
            notes.append("campaign: fresh-server references unavailable (%s)" % e)
            fresh = [None] * len(reqs)
        compared, samples, aborted = 0, [], 0
        for rd in range(rounds):
            N = rnd.choice([1, 2, 4, 8, 16])
            try:
                s = netprobe.Server(exe, root, threads=N)
            except Exception as e:
                notes.append("campaign: server did not start (%s)" % e)
                return {"failures": fails, "coverage": {"campaign": "skipped: bind failed", "concurrent_responses_compared": compared}}
            try:
                serial = [canon_resp(s.request(r)) for r in reqs]
                # the serial answers themselves must be the answers of a server that has seen nothing else (history independence)
                for i, r in enumerate(reqs):
                    if fresh[i] is not None and serial[i] != fresh[i]:
                        fails.append(("the answer depends on what the worker served before (-t=%d)" % N, "response-depends-on-earlier-requests", None,
                                      {"request": r[:200].decode("latin-1"), "threads": N, "fresh_server": (fresh[i] or b"")[-300:].decode("latin-1"), "after_other_requests": (serial[i] or b"")[-300:].decode("latin-1")}))
                        break
                for wave in range(3 if tier == "quick" else 6):
                    k = rnd.choice([8, 16, 32, 64])
                    picks = [rnd.randrange(len(reqs)) for _ in range(k)]
                    def run_wave():
                        res = [None] * k
                        dropped = [False] * k         # the server closed or reset the connection without a single byte: an event, not a time-out
                        bar = threading.Barrier(k)
                        def go(i):
                            try:
                                c = s.conn(10.0)
                                bar.wait(timeout=10)
                                if rnd.random() < 0.3: time.sleep(rnd.random() * 0.01)
                                c.sendall(reqs[picks[i]])
                            except Exception:
                                res[i] = None
                                return
                            out = b""
                            c.settimeout(10.0)
                            try:
                                while True:
                                    b = c.recv(65536)
                                    if not b:
                                        dropped[i] = (out == b"")
                                        break
                                    out += b
                            except socket.timeout:
                                pass
                            except OSError:
                                dropped[i] = (out == b"")
                            res[i] = out
                            try: c.close()
                            except OSError: pass
                        th = [threading.Thread(target=go, args=(i,)) for i in range(k)]
                        [t.start() for t in th]; [t.join() for t in th]
                        return res, dropped
                    res, dropped = run_wave()
                    if any(dropped):
                        # a connection that is closed without an answer while others are served: repeated once (the same wave), and reported
                        # only when it happens again and the same request alone is answered - alone, every one of these requests is
                        res2, dropped2 = run_wave()
                        if any(dropped2):
                            i = dropped2.index(True)
                            again = canon_resp(s.request(reqs[picks[i]]))
                            if again == serial[picks[i]] and s.alive():
                                fails.append(("a connection was closed without an answer while %d connections were in flight (-t=%d, in two waves in a row); alone, the same request is answered" % (k, N),
                                              "connection-dropped-under-concurrency", None,
                                              {"request": reqs[picks[i]][:200].decode("latin-1"), "threads": N, "in_flight": k, "dropped_in_first_wave": sum(dropped), "dropped_in_second_wave": sum(dropped2),
                                               "serial": (serial[picks[i]] or b"")[:200].decode("latin-1")}))
                                break
                    for i in range(k):
                        got = canon_resp(res[i])
                        compared += 1
                        if got != serial[picks[i]]:
                            # a timing retry: ask again alone; a real interference shows as a stable difference of the concurrent answer
                            again = canon_resp(s.request(reqs[picks[i]]))
                            if again == serial[picks[i]] and got is not None and got != b"":
                                fails.append(("concurrent response differs from the serial one (-t=%d, %d in flight)" % (N, k), "concurrent-response-differs", None,
                                              {"request": reqs[picks[i]].decode("latin-1"), "threads": N, "in_flight": k,
                                               "serial": (serial[picks[i]] or b"")[:300].decode("latin-1"), "concurrent": (got or b"")[:300].decode("latin-1")}))
                    if len(samples) < 3:
                        samples.append({"threads": N, "in_flight": k, "requests": [reqs[p][:40].decode("latin-1") for p in picks[:5]]})
                # other clients that are merely connected: with N-1 silent connections open, a request on one more connection is answered
                # with its serial answer (a request never waits for another client's bytes while a worker is free)
                if N >= 2:
                    idle = []
                    try:
                        for _ in range(N - 1):
                            idle.append(s.conn(5.0)); time.sleep(0.01)
                        pick = rnd.randrange(len(reqs))
                        got = None
                        for deadline in (3.0, 8.0, 8.0):          # timing is never evidence on its own: retried with a longer deadline
                            try:
                                got = canon_resp(s.request(reqs[pick], timeout=deadline))
                            except Exception:
                                got = None
                            if got == serial[pick]:
                                break
                        compared += 1
                        if got != serial[pick]:
                            fails.append(("with %d silent connections open on -t=%d a request on another connection did not receive its serial answer" % (N - 1, N),
                                          "response-waits-for-other-connections", None,
                                          {"request": reqs[pick][:200].decode("latin-1"), "threads": N, "silent_connections": N - 1,
                                           "serial": (serial[pick] or b"")[:300].decode("latin-1"), "received": (got or b"")[:300].decode("latin-1")}))
                            break
                    except OSError:
                        pass
                    finally:
                        for c in idle:
                            try: c.close()
                            except OSError: pass
                # other clients that were answered and stay connected: N clients send a request that fills the request buffer exactly (or
                # overflows it), read their answer and keep the socket open; a request on one more connection still gets its serial answer
                # (a worker is free again once it has answered - it never waits for an answered client to hang up)
                linger = []
                try:
                    for j in range(N):
                        total = rnd.choice([10000, 10000, 12000, 9999])
                        head = b"GET /f%d.txt HTTP/1.1\r\nHost: localhost\r\nX-Pad: " % (j % 12)
                        rq = head + b"a" * (total - len(head) - 4) + b"\r\n\r\n"
                        try:
                            c = s.conn(5.0); c.sendall(rq)
                            try: netprobe.recv_all(c, 1.0)
                            except OSError: pass
                            linger.append(c)
                        except OSError:
                            pass
                    pick = rnd.randrange(len(reqs))
                    got = None
                    for deadline in (3.0, 8.0, 8.0):
                        try:
                            got = canon_resp(s.request(reqs[pick], timeout=deadline))
                        except Exception:
                            got = None
                        if got == serial[pick]:
                            break
                    compared += 1
                    if got != serial[pick]:
                        fails.append(("with %d answered clients still connected on -t=%d a request on another connection did not receive its serial answer" % (len(linger), N),
                                      "response-waits-for-answered-connections", None,
                                      {"request": reqs[pick][:200].decode("latin-1"), "threads": N, "lingering_connections": len(linger),
                                       "lingering_request": "GET /fK.txt with an X-Pad header, 9999..12000 bytes in all",
                                       "serial": (serial[pick] or b"")[:300].decode("latin-1"), "received": (got or b"")[:300].decode("latin-1")}))
                        break
                finally:
                    for c in linger:
                        try: c.close()
                        except OSError: pass
                # other clients that abort: a connection opened before a burst of connections that send a request and reset at once (some
                # are reset while still in the accept queue) must still receive its own serial answer
                for storm in range(1 if tier == "quick" else 3):
                    pick = rnd.randrange(len(reqs))
                    try:
                        v = s.conn(10.0)
                    except OSError:
                        v = None
                    def abort_burst():
                        for _ in range(60):
                            try:
                                c = s.conn(2.0); c.sendall(reqs[0]); netprobe.rst_close(c)
                            except OSError:
                                pass
                    th = [threading.Thread(target=abort_burst) for _ in range(8)]
                    [t.start() for t in th]; [t.join() for t in th]
                    aborted += 480
                    got = None
                    if v is not None:
                        try:
                            v.sendall(reqs[pick]); got = canon_resp(netprobe.recv_all(v, 10.0)); v.close()
                        except OSError:
                            got = None
                    compared += 1
                    if got != serial[pick]:
                        again = None
                        try:
                            again = canon_resp(s.request(reqs[pick]))
                        except Exception:
                            pass
                        if not s.alive() or again != serial[pick] or (got is not None and got != b""):
                            fails.append(("a connection opened before a burst of aborted connections did not receive its serial answer (-t=%d)" % N, "response-lost-among-aborted-connections", None,
                                          {"request": reqs[pick][:200].decode("latin-1"), "threads": N, "aborted_connections": 480, "server_alive_afterwards": s.alive(),
                                           "serial": (serial[pick] or b"")[:300].decode("latin-1"), "received": (got or b"")[:300].decode("latin-1")}))
                            break
            finally:
                s.stop()
        return {"failures": fails, "coverage": {"campaign": "real binary on loopback", "concurrent_responses_compared": compared, "aborted_connections_in_bursts": aborted, "waves": samples}}
