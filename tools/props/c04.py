"""C04 — every connection is answered; no input can crash the server."""
import os, random, time
from .servebase import *
import netprobe, vlib

FORM_TARGETS = ["/form-get-method", "/form-url-encoded-enctype-post-method", "/form-multipart-enctype-post-method", "/file-upload/initiate"]


def zero_write(opts):
    """does the scripted writer return Ok(0) at some call?  (acc=...,0,...)"""
    return any(x.startswith("acc=") and "0" in x[4:].split(",") for x in opts)


class P(ServeProp):
    ID = "C04"
    THEOREMS = ["C04_always_answers", "C04_unparseable_is_400", "C04_handler_always_answered", "C04_handler_error_is_400", "C04_execute_never_panics",
                "C04_parse_no_panic", "C04_origin_form_parses", "C04_windows0_unreachable", "C04_nonvacuous"]
    COQ_TARGETS = ["theories/Props/C04.vo", "theories/Extract.vo"]
    N_QUICK = 2500
    N_THOROUGH = 80000
    RULE = ("serve/serveL cases from the malformed stream: valid requests (all methods, tree-derived and grammar targets, Range/Origin/preflight/"
            "Content-Type headers, form posts with url-encoded, multipart and binary bodies) with every position mutated (truncation, byte "
            "substitution incl. NUL/CR/LF/non-UTF-8, insertion, deletion, numeric fields replaced by junk and extremes), thousands of short header "
            "lines, targets without leading slash / with authority and port, requests longer than the buffer, buffer sizes 64..100000; plus a "
            "handler that reports an error and transport faults (read error, write error at call k, flush error).  Oracle (implementation only): the "
            "process neither panics nor dies, and unless the transport fails exactly one complete response is written (strictly parseable, "
            "Content-Length = body length), 400 when the request line is not parseable.  Non-trivial = the request was damaged or is a form post, "
            "distinct by case line.  Real binary on loopback: byte inputs of every kind (valid, malformed, truncated, non-UTF-8, longer than "
            "the buffer, form posts), each on its own connection while 0..N-1 other connections are open and silent on an N-worker server: "
            "exactly one complete response arrives (strictly parseable, Content-Length = body length) and the process is alive afterwards.")

    # ---- the real binary: a connection is answered once its bytes have arrived, whatever else is connected ----
    def extra(self, tier, seed, work, notes):
        fails = []
        rnd = random.Random(seed * 15485863 + 4)
        try:
            exe = vlib.build_binary()
        except vlib.Infra as e:
            notes.append("campaign: skipped (%s)" % str(e)[:100])
            return {"failures": [], "coverage": {"campaign": "skipped"}}
        base = os.path.join(work, "net4"); os.makedirs(base, exist_ok=True)
        root = netprobe.make_root(base)
        valid = [b"GET /a.txt HTTP/1.1\r\nHost: localhost\r\n\r\n", b"GET / HTTP/1.1\r\n\r\n", b"HEAD /a.txt HTTP/1.1\r\n\r\n", b"OPTIONS /a.txt HTTP/1.1\r\nOrigin: https://foo.example\r\n\r\n",
                 b"GET /a.txt HTTP/1.1\r\nRange: bytes=2-5\r\n\r\n", b"GET /a.txt HTTP/1.1\r\nRange: bytes=0-1,3-4\r\n\r\n", b"GET /missing HTTP/1.1\r\n\r\n", b"GET /big.bin HTTP/1.1\r\n\r\n",
                 b"GET /form-get-method?a=1&b=%20 HTTP/1.1\r\n\r\n", b"POST /form-url-encoded-enctype-post-method HTTP/1.1\r\nContent-Type: application/x-www-form-urlencoded\r\n\r\na=1&b=2",
                 b"POST /form-multipart-enctype-post-method HTTP/1.1\r\nContent-Type: multipart/form-data; boundary=--B\r\n\r\n--B\r\nContent-Disposition: form-data; name=\"f\"\r\n\r\nv\r\n--B",
                 b"POST /file-upload/initiate?name=a&lastModified=1&size=3 HTTP/1.1\r\n\r\n"]
        junk = [b"\x00", b"\r\n\r\n", b"GET", b"GET / HTTP/9.9\r\n\r\n", b"\xff\xfe\xfd", b"GET /\xff HTTP/1.1\r\n\r\n", b"FOO / HTTP/1.1\r\n\r\n", b"GET a.txt HTTP/1.1\r\n\r\n",
                b"GET http://h:x/ HTTP/1.1\r\n\r\n", b"GET / HTTP/1.1\r\nContent-Length: 18446744073709551615\r\n\r\n", b"GET / HTTP/1.1\r\nContent-Length: -1\r\n\r\n", b"POST /x HTTP/1.1\r\nContent-Length: 4611686018427387904\r\n\r\nabc", b"POST /x HTTP/1.1\r\ncontent-length: 9223372036854775807\r\n\r\n",
                b"GET /a.txt HTTP/1.1\r\nRange: bytes=-18446744073709551615\r\n\r\n", b"GET / HTTP/1.1\r\n" + b"a:b\r\n" * 2000 + b"\r\n", b"A" * 20000,
                b"GET /" + b"x/" * 6000 + b" HTTP/1.1\r\n\r\n", b"POST /form-multipart-enctype-post-method HTTP/1.1\r\nContent-Type: multipart/form-data; boundary=\r\n\r\nx"]
        rounds = 2 if tier == "quick" else 10
        answered, samples = 0, []
        for rd in range(rounds):
            N = rnd.choice([2, 4, 8])
            try:
                s = netprobe.Server(exe, root, threads=N)
            except Exception as e:
                notes.append("campaign: server did not start (%s)" % e)
                return {"failures": fails, "coverage": {"campaign": "skipped: bind failed", "connections_answered": answered}}
            try:
                inputs = valid + junk + [gs.mutate_request(rnd, rnd.choice(valid)) for _ in range(10 if tier == "quick" else 60)]
                rnd.shuffle(inputs)
                for data in inputs:
                    if not data:
                        continue
                    k = rnd.choice([0, 0, 1, N - 1])
                    idle = []
                    try:
                        for _ in range(k):
                            idle.append(s.conn(5.0))
                        got = None
                        for deadline in (3.0, 8.0, 8.0):          # timing is never evidence on its own
                            got = s.request(data, timeout=deadline)
                            if got:
                                break
                        r = httpcanon.parse_response(got) if got else None
                        sig = None
                        if not s.alive(): sig = "server-process-died"
                        elif not got: sig = "connection-not-answered"
                        elif r is None: sig = "response-not-well-formed"
                        else:
                            cl = httpcanon.header(r, "Content-Length")
                            if len(cl) == 1 and cl[0].isdigit() and int(cl[0]) != len(r["body"]) and httpcanon.request_method(data) not in (b"HEAD", b"OPTIONS"):
                                sig = "content-length-differs-from-body"
                        if sig:
                            fails.append(("%s with %d silent connection(s) open on -t=%d" % (sig, k, N), sig, None,
                                          {"request_hex": data[:400].hex(), "request": data[:200].decode("latin-1"), "threads": N, "silent_connections": k,
                                           "received": (got or b"")[:300].decode("latin-1"), "how": "tools/netprobe.py: Server(exe, root, threads=N); k silent connections; Server.request(data)"}))
                            if sig == "server-process-died":
                                break
                        else:
                            answered += 1
                    finally:
                        for c in idle:
                            try: c.close()
                            except OSError: pass
                    if len(fails) >= 3:
                        break
                # connections that are reset before the server accepts them (SIGSTOP, connect + RST, SIGCONT): the process survives them
                # and the next connection is answered
                if not fails:
                    netprobe.stop_rst_cont(s, 3)
                    got = None
                    for deadline in (3.0, 8.0):
                        got = s.request(valid[0], timeout=deadline)
                        if got:
                            break
                    if not s.alive() or not got:
                        sig = "server-process-died" if not s.alive() else "connection-not-answered"
                        fails.append(("%s after connections that were reset before the server accepted them (-t=%d)" % (sig, N), sig, None,
                                      {"threads": N, "how": "tools/netprobe.py: stop_rst_cont(server, 3) then Server.request(GET /a.txt)", "received": (got or b"")[:200].decode("latin-1")}))
                    else:
                        answered += 1
                if len(samples) < 2:
                    samples.append({"threads": N, "inputs": len(inputs)})
            finally:
                s.stop()
            if fails:
                break
        return {"failures": fails, "coverage": {"campaign": "real binary on loopback", "connections_answered": answered, "rounds": samples}}

    def form_request(self, rnd):
        t = rnd.choice(FORM_TARGETS)
        r = rnd.random()
        if "multipart" in t:
            bd = rnd.choice(["--BnD1", "----x9", "B", "--", "-", "", "--B-1", "XX--"])
            parts = []
            for _ in range(rnd.randint(0, 4)):
                cd = rnd.choice(['form-data; name="f"', 'form-data; name="g"; filename="x.bin"', "inline", "form-data", "", 'attachment; name="h"'])
                body = rnd.choice([b"abc", b"", b"\xff\xfe", b"x\r\n", b"--" + bd.encode(), bytes(rnd.randrange(256) for _ in range(rnd.randint(0, 30)))])
                hs = (b"Content-Disposition: " + cd.encode() + b"\r\n") if rnd.random() < 0.9 else b""
                parts.append(hs + b"\r\n" + body)
            if rnd.random() < 0.6 and bd.strip("-"):
                # the standard shape: delimiter lines are "--" + boundary, the last one is followed by "--"
                wf = []
                for _ in range(rnd.randint(1, 4)):
                    cd = rnd.choice(['form-data; name="f"', 'form-data; name="g"; filename="x.bin"', 'form-data; name="h"', 'form-data; name=""', "form-data"])
                    pb = rnd.choice([b"abc", b"", b"\xff\xfe\x80binary", b"line1\r\nline2", "é😀".encode(), bytes(rnd.randrange(256) for _ in range(rnd.randint(0, 30)))])
                    wf.append(b"--" + bd.encode() + b"\r\nContent-Disposition: " + cd.encode() + b"\r\n" + rnd.choice([b"", b"Content-Type: application/octet-stream\r\n"]) + b"\r\n" + pb + (b"\n" if (len(pb) + len(wf)) % 3 == 0 else b"\r\n"))     # a bare line feed ends some parts (the part reader accepts either; no draw, the streams of earlier runs stay)
                body = b"".join(wf) + b"--" + bd.encode() + b"--\r\n"
                return "POST", t, ["Content-Type: multipart/form-data; boundary=" + bd, "Content-Length: %d" % len(body)], body
            body = bd.encode() + b"".join(b"\r\n" + p + b"\r\n" + bd.encode() for p in parts)
            # the boundary parameter in other spellings, missing, empty: each takes its own error branch of the controller
            ct = rnd.choice(["multipart/form-data; boundary=" + bd] * 4 + ["multipart/form-data; Boundary=" + bd, "multipart/form-data; BOUNDARY=" + bd, "multipart/form-data",
                             "multipart/form-data; boundary=", "Multipart/Form-Data; boundary=" + bd, "multipart/form-data;boundary=" + bd, "multipart/form-data; charset=x; boundary=" + bd])
            hs = ["Content-Type: " + ct]
            return "POST", t, hs, body
        if "url-encoded" in t:
            body = rnd.choice([b"a=1&b=2", b"", b"a=%26&b=%zz", b"\xff\xfe=1", b"a=" + "é😀".encode(), b"a\x00=b", b"=", b"&&&", b"a=b=c"])
            return "POST", t, ["Content-Type: application/x-www-form-urlencoded"], body
        if "upload" in t:
            q = rnd.choice(["?name=a&lastModified=1&size=2", "", "?name=a", "?%zz", "?name=a&lastModified=&size=", "?a#b"])
            return "POST", t + q, [], b""
        return "GET", t + rnd.choice(["?a=1&b=2", "", "?", "?a", "?%26=%3D", "?a=1#f"]), [], b""

    def gen(self, rnd, tier, n):
        out = []
        for i in range(n):
            r = rnd.random()
            kind = "serveL" if rnd.random() < 0.2 else "serve"
            opts = ""
            if rnd.random() < 0.1:
                opts = "size=%d" % rnd.choice([64, 100, 512, 4097, 20000, 100000])
            if r < 0.25:
                m, tg, hs, body = self.form_request(rnd)
                mut = (lambda b: gs.mutate_request(rnd, b)) if rnd.random() < 0.4 else None
                out.append(gs.serve_case(rnd, kind=kind, target=tg, method=m, headers=hs, body=body, raw_req=mut, opts=opts, meta="form=1"))
            elif r < 0.65:
                k = rnd.choice([1, 1, 2, 3])
                def mut(b, k=k):
                    for _ in range(k): b = gs.mutate_request(rnd, b)
                    return b
                out.append(gs.serve_case(rnd, kind=kind, raw_req=mut, opts=opts, meta="mut=1"))
            elif r < 0.68:
                # Content-Length values at the edges of usize and beyond, with and without a body: the header is client text
                cl = rnd.choice(["0", "1", "9", "10", "4294967296", "9223372036854775807", "9223372036854775808", "18446744073709551615", "18446744073709551614",
                                 "18446744073709551616", "-1", "+5", " 7", "7 ", "1e3", "0x10", "", "99999999999999999999999999"])
                m, tg, hs, body = self.form_request(rnd) if rnd.random() < 0.6 else ("GET", "/", [], b"")
                hs = [h for h in hs if not h.lower().startswith("content-length")] + ["Content-Length: " + cl]
                out.append(gs.serve_case(rnd, kind=kind, target=tg, method=m, headers=hs, body=body if rnd.random() < 0.8 else b"", opts=opts, meta="cl=1"))
            elif r < 0.72:
                tg = rnd.choice(["x", "?x", "#x", ":x/", ":80/a.txt", "@/a.txt", "http://h/a.txt", "http://h:x/a", "*", "", "localhost:99999999999999999999/", "a b",
                                 "//", "/%", "/\x7f", "[::1]:x/", "u:p@h:1/"])
                out.append(gs.serve_case(rnd, kind=kind, target=tg, opts=opts, meta="target=1"))
            elif r < 0.80:
                nl = rnd.choice([100, 1000, 1500, 3000, 4990])
                line = rnd.choice([b"a\r\n", b"a:b\r\n", b"x: y\r\n", b"\xc3\xa9\r\n", b":\r\n"])
                req = b"GET / HTTP/1.1\r\n" + line * nl + b"\r\n"
                out.append(gs.serve_case(rnd, kind=kind, raw_req=req, opts=opts or "size=20000", meta="deep=1"))
            elif r < 0.86:
                out.append(gs.serve_case(rnd, kind="serve", opts=("app=err " + opts).strip(), meta="handler=1"))
            elif r < 0.94:
                f = rnd.choice(["rerr=1", "werr=0", "werr=1", "ferr=1", "acc=1", "acc=7,1000000", "acc=100", "acc=100,0", "acc=0", "acc=1,1,0"])       # a zero in the list: the writer returns Ok(0) from that call on
                out.append(gs.serve_case(rnd, kind="serve", opts=(f + " " + opts).strip(), meta="fault=1"))
            else:
                out.append(gs.serve_case(rnd, kind=kind, opts=opts))
        return out

    def canon(self, line, out):
        o = gs.parse_case(line)["opts"]
        if any(x.startswith(("rerr", "werr", "ferr")) for x in o) or zero_write(o):
            return "SKIP"          # transport faults are not modelled; the oracle below still applies
        return httpcanon.canon_serve(out)

    def oracle(self, line, out):
        if out is None or out.startswith("CRASH"):
            return "process-died"
        if out.startswith("PANIC"):
            return "panic"
        o = gs.parse_case(line)["opts"]
        if any(x.startswith(("werr", "rerr")) for x in o) or zero_write(o):
            return None          # the transport failed: no panic, no crash, no time-out is all that is asked
        raw = self.raw(out)
        if not raw:
            return "nothing-written"
        r = httpcanon.parse_response(raw)
        if r is None:
            # header values echoed from the request may hold bytes a strict parser refuses (C05's concern); require the framing only
            if httpcanon.lenient(raw) is None:
                return "no-complete-response"
            return None
        pc = gs.parse_case(line)
        # the method as the parser sees it: the request line is trimmed of Unicode white space first (U+2028 before "HEAD")
        meth = pc["req"].split(b"\n")[0].decode("utf-8", "replace")
        meth = httpcanon.rust_trim(meth).split(" ")[0].encode()
        cl = httpcanon.header(r, "Content-Length")
        if cl and meth not in (b"HEAD", b"OPTIONS", b"head", b"options") and cl[0] != str(len(r["body"])):
            return "content-length-does-not-match-body"
        return None

    def nontrivial(self, line, out):
        m = meta(line)
        return any(k in m for k in ("mut", "form", "deep", "target", "handler", "fault"))
