"""C15 — responses written by the library can be read back by it."""
from .base import *

# the registered statuses (spec side: IANA registry as adopted by rws; frozen)
STATUSES = [(100, "Continue"), (101, "Switching Protocols"), (102, "Processing"), (103, "Early Hints"), (200, "OK"), (201, "Created"), (202, "Accepted"),
            (203, "Non Authoritative Information"), (204, "No Content"), (205, "Reset Content"), (206, "Partial Content"), (207, "Multi-Status"),
            (208, "Already Reported"), (226, "IM Used"), (300, "Multiple Choices"), (301, "Moved Permanently"), (302, "Found"), (303, "See Other"),
            (304, "Not Modified"), (307, "Temporary Redirect"), (308, "Permanent Redirect"), (400, "Bad Request"), (401, "Unauthorized"),
            (402, "Payment Required"), (403, "Forbidden"), (404, "Not Found"), (405, "Method Not Allowed"), (406, "Not Acceptable"),
            (407, "Proxy Authentication Required"), (408, "Request Timeout"), (409, "Conflict"), (410, "Gone"), (411, "Length Required"),
            (412, "Precondition Failed"), (413, "Payload Too Large"), (414, "URI Too Long"), (415, "Unsupported Media Type"),
            (416, "Range Not Satisfiable"), (417, "Expectation Failed"), (418, "I'm a teapot"), (421, "Misdirected Request"),
            (422, "Unprocessable Entity"), (423, "Locked"), (424, "Failed Dependency"), (425, "Too Early"), (426, "Upgrade Required"),
            (428, "Precondition Required"), (429, "Too Many Requests"), (431, "Request Header Fields Too Large"),
            (451, "Unavailable For Legal Reasons"), (500, "Internal Server Error"), (501, "Not Implemented"), (502, "Bad Gateway"),
            (503, "Service Unavailable"), (504, "Gateway Timeout"), (505, "HTTP Version Not Supported"), (506, "Variant Also Negotiates"),
            (507, "Insufficient Storage"), (508, "Loop Detected"), (510, "Not Extended"), (511, "Network Authentication Required")]
SEP = b"String_separator"


def hx(b):
    return (b if isinstance(b, bytes) else b.encode()).hex()


class P(Prop):
    ID = "C15"
    THEOREMS = ["C15_single_part_round_trip", "C15_single_part_domain", "C15_multi_part_round_trip", "C15_multi_part_domain", "C15_roundtrip_partial", "C15_F2_witness", "C15_status_line_shape", "C15_reject_unknown_status", "C15_reject_mismatched_phrase",
                "C15_parse_needs_status_line", "C15_no_panic"]
    COQ_TARGETS = ["theories/Props/C15.vo", "theories/Extract.vo"]
    N_QUICK = 3000
    N_THOROUGH = 80000
    RULE = ("resprt: a Response value (one of the 61 registered statuses with its phrase, 0..4 headers, one part or 2..6 parts with binary bodies: "
            "empty, ending in CR/LF, containing dashes, every byte value; offsets start<=end<=size) serialised by Response::generate_response "
            "or by Response::generate and parsed back; rp: valid single and multipart/byteranges response bytes over status/phrase pairs, "
            "boundaries, signed and extreme offsets, then single-field corruptions (unknown status, phrase of another code, missing blank line, "
            "missing opening/closing boundary, junk Content-Length, truncation, byte substitution).  Oracle (implementation only): the "
            "round trip returns status, reason, the given headers followed by the derived ones, and per part range, size, type and body; "
            "corrupted status lines are errors.  Non-trivial = an OK parse with a body, distinct by case line.")

    def body(self, rnd):
        return rnd.choice([b"", b"a", b"abc", b"ab\r\n", b"\r\n", b"--", b"\xff\xfe", b"line1\nline2\n", bytes(range(256)), b"-" * 5, b"x\r", b"\n",
                           bytes(rnd.randrange(256) for _ in range(rnd.randint(0, 40)))])

    def gen(self, rnd, tier, n):
        out = []
        import importlib
        for i in range(n):
            r = rnd.random()
            if r < 0.55:
                code, rsn = rnd.choice(STATUSES)
                hs = []
                for _ in range(rnd.randint(0, 4)):
                    hs.append((rnd.choice([b"X-A", b"Vary", b"Host", b"ETag", b"X-" + bytes(rnd.choice(b"abcXYZ") for _ in range(3))]),
                               rnd.choice([b"b", b"Origin, x", b"a: b", b"", b"v=1; w", "é".encode(), b" padded-left", b"padded-right \t", b"  ", "\u00a0v\u3000".encode(), b"a  b", b"\tx"])))
                k = rnd.choice([1, 1, 1, 2, 3, 6])
                parts = []
                for _ in range(k):
                    b = self.body(rnd)
                    if k > 1 and any(SEP in l for l in b.split(b"\n")):
                        b = b"xx"
                    L = len(b)
                    m = rnd.random()
                    if k == 1 and m < 0.6:
                        st, en, sz = 0, L, str(L)                    # the library's own convention for a whole body
                    else:
                        st = rnd.choice([0, 0, 1, 5, 2 ** 40]); en = st + rnd.choice([0, L, max(L - 1, 0), 7]); sz = str(en + rnd.choice([0, 1, 100]))
                    ty = rnd.choice([b"text/plain", b"a/b", b"application/octet-stream", b"text/html; charset=utf-8"])
                    parts.append("%d:%d:%s:%s:%s" % (st, en, hx(sz), hx(ty), hx(b)))
                hspec = ";".join(hx(a) + ":" + hx(b_) for a, b_ in hs) or "-"
                out.append("resprt %s %d %s %s %s # parts=%d" % (rnd.choice(["static", "inst"]), code, hx(rsn), hspec, ",".join(parts), k))
            elif r < 0.65:
                out.append(self.rp_struct_case(rnd))
            else:
                out.append(self.rp_case(rnd, i))
        return out

    def rp_struct_case(self, rnd):
        """a valid multipart/byteranges serialisation with ONE structural element broken: the property asks for an error"""
        bd = b"String_separator"; eol = b"\r\n"
        bodies = [rnd.choice([b"abc", b"", b"x\r\n", b"\xff\xfe", b"line1\nline2\n", b"-" * 5, b"--", bytes(rnd.randrange(256) for _ in range(20)).replace(b"String", b"string")]) for _ in range(rnd.randint(1, 3))]
        def part(b, blank=True, ctype=True, crange=True):
            return (b"--" + bd + eol + (b"Content-Type: text/plain" + eol if ctype else b"") + (b"Content-Range: bytes 0-2/10" + eol if crange else b"") + (eol if blank else b"") + b)
        kind = rnd.choice(["noopen", "garbled-open", "noclose", "noblank", "valid"])
        ps = [part(b) for b in bodies]
        if kind == "noopen": ps[0] = ps[0][len(b"--" + bd + eol):]
        elif kind == "garbled-open": ps[0] = b"--X" + ps[0][3:]
        elif kind == "noblank": j = rnd.randrange(len(ps)); ps[j] = part(b"zz" + bodies[j], blank=False)
        text = eol.join(ps) + (b"" if kind == "noclose" else eol + b"--" + bd)
        raw = b"HTTP/1.1 206 Partial Content\r\nContent-Type: multipart/byteranges; boundary=" + bd + b"\r\n\r\n" + text
        return "rp %s # status=known struct=%s" % (hx(raw), kind)

    def rp_case(self, rnd, i):
        code, reason = rnd.choice(STATUSES + [(999, "Nope"), (200, "ok"), (200, "Okay"), (-1, "X"), (404, "OK"), (200, "Not Found"), (99, "Continue"), (600, "X"),
                                       # phrases that equal the registered one only after Unicode upper-casing (long s, dotless i), and look-alikes that do not
                                       (102, "Proceſſing"), (303, "ſee other"), (404, "Not Found".replace("o", "ο")), (200, "ΟΚ"), (408, "Request Tımeout"), (226, "ım uſed")])
        v = rnd.choice(["HTTP/1.1"] * 4 + ["HTTP/1.0", "http/1.1", "HTTP/3", "HTTP/2.0"])
        eol = b"\r\n"
        head = ("%s %s %s" % (v, code, reason)).encode()
        hs = []
        for _ in range(rnd.randint(0, 3)):
            hs.append(rnd.choice([b"X-A: b", b"Vary: Origin, x", b"Content-Length: 3", b"Content-Length: x", b"Content-Length: -1", b"Broken", b"A: b: c", b"E\xc3\xa9: v", b" Lead: x"]))
        k = rnd.random()
        if k < 0.4:
            ct = rnd.choice([b"text/plain", b"a/b", b" text/html ", None])
            if ct is not None: hs.append(b"Content-Type: " + ct)
            if rnd.random() < 0.5: hs.append(b"Content-Range: bytes 2-5/10")
            raw = head + eol + b"".join(h + eol for h in hs) + eol + self.body(rnd)
        else:
            bd = rnd.choice(["String_separator", "B", "--x", "String_separator", "a b"])
            hs.append(("Content-Type: multipart/byteranges; boundary=" + bd).encode() if rnd.random() < 0.9 else b"Content-Type: multipart/byteranges")
            good = rnd.random() < 0.6
            parts = b""
            for j in range(rnd.randint(0, 3)):
                parts += (b"" if j == 0 else eol) + b"--" + bd.encode() + eol
                if good or rnd.random() < 0.9: parts += b"Content-Type: " + (rnd.choice([b" text/plain", b"a/b"]) if good else rnd.choice([b" text/plain", b"a/b", b"  "])) + eol
                cr = rnd.choice([b"Content-Range:  bytes 0-2/10", b"Content-Range: bytes 4-5/10", b"Content-Range: bytes 5-4/10", b"Content-Range: bytes a-5/10",
                                 b"Content-Range: bytes +1-+2/+3", b"Content-Range", b"Content-Range: items 0-1/2", b"Content-Range: BYTES 0-9/9", b"Content-Range: bytes 0-20/10",
                                 b"Content-Range: bytes 9223372036854775807-9223372036854775807/9223372036854775807", b"Content-Range: bytes -1-2/3", b"Content-Range: bytes 0-1/2: x"])
                if good: cr = rnd.choice([b"Content-Range:  bytes 0-2/10", b"Content-Range: bytes 4-5/10", b"Content-Range: bytes +1-+2/+3", b"Content-Range: BYTES 0-9/9"])
                if good or rnd.random() < 0.92: parts += cr + eol
                if good or rnd.random() < 0.92: parts += eol
                parts += self.body(rnd)
            if good or rnd.random() < 0.85: parts += eol + b"--" + bd.encode()
            if rnd.random() < 0.2: parts += eol + b"trailing"
            raw = head + eol + b"".join(h + eol for h in hs) + eol + parts
        if i % 3 == 1:
            b = bytearray(raw)
            if b:
                m = rnd.random()
                if m < 0.35: raw = bytes(b[:rnd.randrange(len(b) + 1)])
                elif m < 0.7:
                    j = rnd.randrange(len(b)); b[j] = rnd.choice([0, 10, 13, 32, 58, 45, 255, rnd.randrange(256)]); raw = bytes(b)
                else:
                    j = rnd.randrange(len(b)); k2 = rnd.randrange(j, len(b)); raw = bytes(b[:j]) + bytes(b[k2:])
        known = (code, reason) in STATUSES
        return "rp %s # status=%s" % (hx(raw), "known" if known else "unknown")

    def canon_model(self, line, out):
        return out.rsplit(" dom=", 1)[0] if out and " dom=" in out else out

    def model_stats(self, cases, model):
        import collections
        c = collections.Counter()
        for l, m in zip(cases, model):
            if m and " dom=" in m:
                c["resprt:" + ("in-single-part-theorem-domain" if m.endswith("dom=1") else "in-multi-part-theorem-domain" if m.endswith("dom=2") else "outside")] += 1
        return dict(c)

    def oracle(self, line, out):
        if out is None or out.startswith(("CRASH", "PANIC")) or " | PANIC" in (out or ""):
            return "panic-or-crash"
        f = strip_meta(line).split(" ")
        if f[0] == "rp" and meta(line).get("struct"):
            k = meta(line)["struct"]
            if k == "valid":
                return None if out.startswith("OK") else "valid-multipart-response-rejected"
            return None if out == "ERR" else "broken-multipart-structure-accepted-%s" % k
        if f[0] == "rp":
            raw = bytes.fromhex(f[1]) if len(f) > 1 else b""
            first = raw.split(b"\n")[0].replace(b"\r", b"")
            try:
                parts = first.decode("utf-8").split(" ", 2)
            except UnicodeDecodeError:
                return None if out == "ERR" else "non-utf8-status-line-accepted"
            if len(parts) == 3:
                try:
                    code = int(parts[1])
                except ValueError:
                    code = None
                ok = any(code == c and parts[2].upper() == p.upper() for c, p in STATUSES) if all(ord(ch) < 128 for ch in parts[2]) else None
                if ok is False and out.startswith("OK"):
                    return "unknown-status-or-mismatched-phrase-accepted"
            return None
        if f[0] == "resprt" and out != "SKIP":
            ser, code, rsn, hs, parts = f[1], f[2], f[3], f[4], f[5]
            got = out.split(" | ", 1)[1]
            plist = [] if parts == "-" else [p.split(":") for p in parts.split(",")]
            hdr = [] if hs == "-" else [(nv if ":" in nv else nv + ":") for nv in hs.split(";")]
            def H(n, v): return hx(n) + ":" + hx(v)
            if len(plist) == 1:
                st, en, sz, ty, bd = plist[0]
                crv = b"bytes %s-%s/" % (st.encode(), en.encode()) + bytes.fromhex(sz)
                derived = ([] if ser == "inst" else [H(b"Content-Type", bytes.fromhex(ty))]) + [H(b"Content-Range", crv), H(b"Content-Length", str(len(bytes.fromhex(bd))).encode())]
                want_parts = ["%s-%s/%s:%s:%s" % (st, en, bytes.fromhex(sz).decode(), bd, ty)]
            elif len(plist) > 1:
                derived = [H(b"Content-Type", b"multipart/byteranges; boundary=String_separator")]
                want_parts = ["%s-%s/%s:%s:%s" % (st, en, bytes.fromhex(sz).decode(), bd, ty) for st, en, sz, ty, bd in plist]
            else:
                derived, want_parts = [], None
            want_head = "OK %s %s %s h=[%s]" % (hx(b"HTTP/1.1"), code, rsn, ";".join(hdr + derived))
            if not got.startswith(want_head):
                return "status-or-headers-differ-after-round-trip"
            got_parts = got[len(want_head):].strip()
            if want_parts is not None and got_parts != "r=[%s]" % ";".join(want_parts):
                if len(plist) == 1 and ser == "inst":
                    st, en, sz, ty, bd = plist[0]
                    if got_parts == "r=[%s-%s/%s:%s:%s]" % (st, en, bytes.fromhex(sz).decode(), bd, hx(b"application/octet-stream")):
                        return "instance-serialiser-loses-content-type"
                return "parts-differ-after-round-trip"
            return None
        return None

    def classify(self, line, out, sig):
        return {"instance-serialiser-loses-content-type": "C15-F2"}.get(sig)

    def nontrivial(self, line, out):
        return bool(out) and "OK " in out and "r=[]" not in out
